import PsaDhcp.Code.Bridge11
/-
Translated sender goroutine = model delay sequence (statements fixed in Props/C16CodeSend.lean).
-/
namespace PsaDhcp.Proofs.CodeSend
open PsaDhcp PsaDhcp.Go PsaDhcp.Code

/-! ### The environment, field by field -/

theorem lift_ok {σ α : Type} (a : α) :
    (liftM (Except.ok a : R α) : StateT σ R α) = fun st => .ok (a, st) := rfl

theorem env_CtxErr_alive (rnd : Nat → Nat) (st : SendState) :
    (sendEnv rnd false).CtxErr st = .ok (none, st) := rfl

theorem env_CtxErr_cancelled (rnd : Nat → Nat) (st : SendState) :
    (sendEnv rnd true).CtxErr st = .ok (some "context canceled", st) := rfl

theorem env_OpenIP (rnd : Nat → Nat) (c : Bool) (iface : Go.NetInterface) (st : SendState) :
    (sendEnv rnd c).OpenIPSendSock iface st = .ok (((), none), { st with opened := st.opened ++ [none] }) := rfl

theorem env_OpenUnicast (rnd : Nat → Nat) (c : Bool) (iface : Go.NetInterface) (mac : Bytes) (st : SendState) :
    (sendEnv rnd c).OpenUnicastSendSock iface mac st =
      .ok (((), none), { st with opened := st.opened ++ [some mac] }) := rfl

theorem env_Ping_nil (rnd : Nat → Nat) (c : Bool) (iface : Go.NetInterface) (a b : Bytes) (st : SendState)
    (h : st.pings = []) : (sendEnv rnd c).Ping iface a b st = .ok (([], some "timeout"), st) := by
  simp only [sendEnv, h]

theorem env_Ping_none (rnd : Nat → Nat) (c : Bool) (iface : Go.NetInterface) (a b : Bytes) (st : SendState)
    (r : List (Option Bytes)) (h : st.pings = none :: r) :
    (sendEnv rnd c).Ping iface a b st = .ok (([], some "timeout"), { st with pings := r }) := by
  simp only [sendEnv, h]

theorem env_Ping_some (rnd : Nat → Nat) (c : Bool) (iface : Go.NetInterface) (a b mac : Bytes) (st : SendState)
    (r : List (Option Bytes)) (h : st.pings = some mac :: r) :
    (sendEnv rnd c).Ping iface a b st = .ok ((mac, none), { st with pings := r }) := by
  simp only [sendEnv, h]

theorem env_RandInt63 (rnd : Nat → Nat) (c : Bool) (st : SendState) :
    (sendEnv rnd c).RandInt63 st = .ok (Int.ofNat (rnd (st.writes.length - 1)), st) := rfl

theorem env_SelectAfter_zero (rnd : Nat → Nat) (c : Bool) (d : Int) (st : SendState) (h : st.rounds = 0) :
    (sendEnv rnd c).SelectAfter d st = .ok (false, { st with waits := st.waits ++ [d] }) := by
  simp only [sendEnv, h]

theorem env_SelectAfter_succ (rnd : Nat → Nat) (c : Bool) (d : Int) (st : SendState) (k : Nat)
    (h : st.rounds = k + 1) :
    (sendEnv rnd c).SelectAfter d st = .ok (true, { st with waits := st.waits ++ [d], rounds := k }) := by
  simp only [sendEnv, h]

theorem env_SockClose (rnd : Nat → Nat) (c : Bool) : (sendEnv rnd c).SockClose = fun st => .ok (none, st) := rfl
theorem env_SockWrite (rnd : Nat → Nat) (c : Bool) (b : Bytes) (st : SendState) :
    (sendEnv rnd c).SockWrite b st = .ok (none, { st with writes := st.writes ++ [b] }) := rfl

/-! ### `sendSocket`: the look-up loop -/

/-- The look-up loop with `k` attempts left (`i = 5 - k`), context alive: either the first answer among the next `k`
outcomes opens the unicast socket, or the loop ends without opening anything. -/
theorem lookup_loop (rnd : Nat → Nat) (iface : Go.NetInterface) (src dst : Bytes) :
    ∀ (k fuel : Nat) (i : Int) (st : SendState), i = 5 - (k : Int) → k < fuel →
    (∃ mac st', (st.pings.take k).find? Option.isSome = some (some mac) ∧
        Gen.dclient.sendSocket.loop1 (sendEnv rnd false) iface src dst fuel i st = .ok (LoopOut.ret ((), none), st') ∧
        st'.opened = st.opened ++ [some mac] ∧ st'.writes = st.writes ∧ st'.waits = st.waits ∧
        st'.rounds = st.rounds) ∨
    (∃ j st', (st.pings.take k).find? Option.isSome = none ∧
        Gen.dclient.sendSocket.loop1 (sendEnv rnd false) iface src dst fuel i st = .ok (LoopOut.done j, st') ∧
        st'.opened = st.opened ∧ st'.writes = st.writes ∧ st'.waits = st.waits ∧ st'.rounds = st.rounds) := by
  intro k
  induction k with
  | zero =>
    intro fuel i st hi hf
    obtain ⟨fuel, rfl⟩ : ∃ n, fuel = n + 1 := ⟨fuel - 1, by omega⟩
    refine Or.inr ⟨i, st, by simp, ?_, rfl, rfl, rfl, rfl⟩
    have h5 : ¬ i < 5 := by omega
    simp [Gen.dclient.sendSocket.loop1, bind, StateT.bind, Except.bind, pure, StateT.pure, Except.pure, h5]
  | succ k ih =>
    intro fuel i st hi hf
    obtain ⟨fuel, rfl⟩ : ∃ n, fuel = n + 1 := ⟨fuel - 1, by omega⟩
    have h5 : i < 5 := by omega
    have hi' : i + 1 = 5 - (k : Int) := by omega
    have hf' : k < fuel := by omega
    cases hp : st.pings with
    | nil =>
      rcases ih fuel (i + 1) st hi' hf' with ⟨mac, st', hfd, hrun, ho⟩ | ⟨j, st', hfd, hrun, ho⟩
      · rw [hp] at hfd; simp at hfd
      · refine Or.inr ⟨j, st', by simp, ?_, ho⟩
        simp only [Gen.dclient.sendSocket.loop1, bind, StateT.bind, Except.bind, pure, StateT.pure, Except.pure,
          h5, decide_true, if_true, env_CtxErr_alive, Option.isNone_none, Bool.not_true, Bool.false_eq_true,
          if_false, env_Ping_nil rnd false iface src dst st hp, Option.isNone_some, hrun]
    | cons p r =>
      cases p with
      | none =>
        rcases ih fuel (i + 1) { st with pings := r } hi' hf' with ⟨mac, st', hfd, hrun, ho⟩ | ⟨j, st', hfd, hrun, ho⟩
        · refine Or.inl ⟨mac, st', by simpa using hfd, ?_, ho⟩
          simp only [Gen.dclient.sendSocket.loop1, bind, StateT.bind, Except.bind, pure, StateT.pure, Except.pure,
            h5, decide_true, if_true, env_CtxErr_alive, Option.isNone_none, Bool.not_true, Bool.false_eq_true,
            if_false, env_Ping_none rnd false iface src dst st r hp, Option.isNone_some, hrun]
        · refine Or.inr ⟨j, st', by simpa using hfd, ?_, ho⟩
          simp only [Gen.dclient.sendSocket.loop1, bind, StateT.bind, Except.bind, pure, StateT.pure, Except.pure,
            h5, decide_true, if_true, env_CtxErr_alive, Option.isNone_none, Bool.not_true, Bool.false_eq_true,
            if_false, env_Ping_none rnd false iface src dst st r hp, Option.isNone_some, hrun]
      | some mac =>
        refine Or.inl ⟨mac, { st with pings := r, opened := st.opened ++ [some mac] }, by simp, ?_, rfl, rfl, rfl, rfl⟩
        simp only [Gen.dclient.sendSocket.loop1, bind, StateT.bind, Except.bind, pure, StateT.pure, Except.pure,
          h5, decide_true, if_true, env_CtxErr_alive, Option.isNone_none, Bool.not_true, Bool.false_eq_true,
          if_false, env_Ping_some rnd false iface src dst mac st r hp, env_OpenUnicast]

/-- `sendSocket` with the context alive, from any state. -/
theorem sendSocket_run (iface : Go.NetInterface) (pkt src dst : Bytes) (rnd : Nat → Nat) (st : SendState)
    (hs : src ≠ [] ∧ dst ≠ []) :
    ∃ st', (Gen.dclient.sendSocket (sendEnv rnd false) iface (constSender pkt src dst)).run st = .ok (((), none), st') ∧
      st'.opened = st.opened ++
        [match (st.pings.take 5).find? Option.isSome with | some (some mac) => some mac | _ => none] ∧
      st'.writes = st.writes ∧ st'.waits = st.waits ∧ st'.rounds = st.rounds := by
  have hse : src.isEmpty = false := by cases src <;> simp_all
  have hde : dst.isEmpty = false := by cases dst <;> simp_all
  rcases lookup_loop rnd iface src dst 5 6 0 st (by omega) (by omega) with
    ⟨mac, st', hfd, hrun, ho, hw, hwt, hr⟩ | ⟨j, st', hfd, hrun, ho, hw, hwt, hr⟩
  · refine ⟨st', ?_, by rw [hfd]; exact ho, hw, hwt, hr⟩
    simp only [Gen.dclient.sendSocket, constSender, StateT.run, bind, StateT.bind, Except.bind, lift_ok, hse, hde,
      Bool.not_false, Bool.and_self, if_true, hrun, pure, StateT.pure, Except.pure]
  · refine ⟨{ st' with opened := st'.opened ++ [none] }, ?_, by rw [hfd]; simp [ho], hw, hwt, hr⟩
    simp only [Gen.dclient.sendSocket, constSender, StateT.run, bind, StateT.bind, Except.bind, lift_ok, hse, hde,
      Bool.not_false, Bool.and_self, if_true, hrun, pure, StateT.pure, Except.pure, env_OpenIP]

theorem sendSocket_eq (iface : Go.NetInterface) (pkt src dst : Bytes) (rnd : Nat → Nat) (pings : List (Option Bytes))
    (hs : src ≠ [] ∧ dst ≠ []) :
    ∃ st, (Gen.dclient.sendSocket (sendEnv rnd false) iface (constSender pkt src dst)).run
            { writes := [], waits := [], rounds := 0, pings := pings, opened := [] } = .ok (((), none), st) ∧
      st.opened = [match (pings.take 5).find? Option.isSome with | some (some mac) => some mac | _ => none] := by
  obtain ⟨st', hrun, ho, _⟩ := sendSocket_run iface pkt src dst rnd
    { writes := [], waits := [], rounds := 0, pings := pings, opened := [] } hs
  exact ⟨st', hrun, by simpa using ho⟩

/-- Without a (source, destination) hint the look-up is skipped: one broadcast socket, nothing else touched. -/
theorem sendSocket_broadcast_run (iface : Go.NetInterface) (pkt src dst : Bytes) (rnd : Nat → Nat) (c : Bool)
    (st : SendState) (hb : src = [] ∨ dst = []) :
    (Gen.dclient.sendSocket (sendEnv rnd c) iface (constSender pkt src dst)).run st =
      .ok (((), none), { st with opened := st.opened ++ [none] }) := by
  have hc : ((!src.isEmpty) && (!dst.isEmpty)) = false := by
    rcases hb with rfl | rfl <;> simp
  simp only [Gen.dclient.sendSocket, constSender, StateT.run, bind, StateT.bind, Except.bind, lift_ok, hc,
    Bool.false_eq_true, if_false, pure, StateT.pure, Except.pure, env_OpenIP]

theorem sendSocket_cancelled (iface : Go.NetInterface) (pkt src dst : Bytes) (rnd : Nat → Nat)
    (pings : List (Option Bytes)) :
    ∃ st, (Gen.dclient.sendSocket (sendEnv rnd true) iface (constSender pkt src dst)).run
            { writes := [], waits := [], rounds := 0, pings := pings, opened := [] } = .ok (((), none), st) ∧
      st.opened = [none] ∧ st.pings = pings := by
  refine ⟨{ writes := [], waits := [], rounds := 0, pings := pings, opened := [none] }, ?_, rfl, rfl⟩
  by_cases hc : ((!src.isEmpty) && (!dst.isEmpty)) = true
  · simp [Gen.dclient.sendSocket, Gen.dclient.sendSocket.loop1, constSender, StateT.run, bind, StateT.bind,
      Except.bind, lift_ok, hc, pure, StateT.pure, Except.pure, env_OpenIP, env_CtxErr_cancelled]
  · simp only [Gen.dclient.sendSocket, constSender, StateT.run, bind, StateT.bind, Except.bind, lift_ok, hc,
      Bool.false_eq_true, if_false, pure, StateT.pure, Except.pure, env_OpenIP, List.nil_append]

/-! ### `sendMessage`: the transmission loop -/

theorem tmod_cast (r d : Nat) : Int.tmod (Int.ofNat r) (1 + Int.ofNat d) = Int.ofNat (r % (1 + d)) := by
  have : (1 : Int) + Int.ofNat d = ((1 + d : Nat) : Int) := by simp
  rw [this]
  exact (Int.ofNat_tmod r (1 + d)).symm

/-- One delay update of the code is the model's `nextDelay`. -/
theorem remInt_cast (r d : Nat) (site : String) :
    Go.remInt (Int.ofNat r) (1 + Int.ofNat d) site = .ok (Int.ofNat (r % (1 + d))) := by
  have h0 : ¬ ((1 : Int) + Int.ofNat d = 0) := by
    have : (0 : Int) ≤ Int.ofNat d := Int.natCast_nonneg d
    omega
  simp only [Go.remInt, h0, if_false, tmod_cast]
  rfl

/-- The transmission loop from any state: with `m` timer rounds left, `k + 1` being the number of frames written after
the next write, and current delay `d`, it writes `m + 1` more frames and waits `delays d [rnd k, …, rnd (k+m)]`. -/
theorem send_loop (rnd : Nat → Nat) (c : Bool) (pkt src dst : Bytes) :
    ∀ (m fuel d : Nat) (st : SendState), st.rounds = m → m < fuel →
    Gen.dclient.sendMessage.loop1 (sendEnv rnd c) (constSender pkt src dst) () (100000000000 : Int) fuel (Int.ofNat d) st =
      .ok (LoopOut.ret none,
        { st with writes := st.writes ++ List.replicate (m + 1) pkt,
                  waits := st.waits ++ (delays d ((List.range' st.writes.length (m + 1)).map rnd)).map Int.ofNat,
                  rounds := 0 }) := by
  intro m
  induction m with
  | zero =>
    intro fuel d st hr hf
    obtain ⟨fuel, rfl⟩ : ∃ n, fuel = n + 1 := ⟨fuel - 1, by omega⟩
    have hsel := fun (x : Int) (w : List Bytes) =>
      env_SelectAfter_zero rnd c x { st with writes := w } hr
    by_cases hd : d < retransBarrier
    · have hd' : (Int.ofNat d < (100000000000 : Int)) := by
        have : d < 100000000000 := hd
        simp only [Int.ofNat_eq_natCast]; omega
      simp only [Gen.dclient.sendMessage.loop1, constSender, bind, StateT.bind, Except.bind, lift_ok, env_SockWrite,
        Option.isNone_none, Bool.not_true, Bool.false_eq_true, if_false, hd', decide_true, if_true,
        env_RandInt63, List.length_append, List.length_cons, List.length_nil, Nat.add_sub_cancel, remInt_cast,
        pure, StateT.pure, Except.pure, hsel]
      simp [delays, nextDelay, hd, hr]
    · have hd' : ¬ (Int.ofNat d < (100000000000 : Int)) := by
        have : ¬ d < 100000000000 := hd
        simp only [Int.ofNat_eq_natCast]; omega
      simp only [Gen.dclient.sendMessage.loop1, constSender, bind, StateT.bind, Except.bind, lift_ok, env_SockWrite,
        Option.isNone_none, Bool.not_true, Bool.false_eq_true, if_false, hd', decide_false,
        pure, StateT.pure, Except.pure, hsel]
      simp [delays, nextDelay, hd, hr]
  | succ m ih =>
    intro fuel d st hr hf
    obtain ⟨fuel, rfl⟩ : ∃ n, fuel = n + 1 := ⟨fuel - 1, by omega⟩
    have hf' : m < fuel := by omega
    have ih' := ih
    simp only [constSender] at ih'
    have hsel := fun (x : Int) (w : List Bytes) =>
      env_SelectAfter_succ rnd c x { st with writes := w } m hr
    rw [List.range'_succ, List.map_cons, delays, List.replicate_succ]
    by_cases hd : d < retransBarrier
    · have hd' : (Int.ofNat d < (100000000000 : Int)) := by
        have : d < 100000000000 := hd
        simp only [Int.ofNat_eq_natCast]; omega
      simp only [Gen.dclient.sendMessage.loop1, constSender, bind, StateT.bind, Except.bind, lift_ok, env_SockWrite,
        Option.isNone_none, Bool.not_true, Bool.false_eq_true, if_false, hd', decide_true, if_true,
        env_RandInt63, List.length_append, List.length_cons, List.length_nil, Nat.add_sub_cancel, remInt_cast,
        pure, hsel]
      have hnd : nextDelay d (rnd st.writes.length) = d + rnd st.writes.length % (1 + d) := by
        simp [nextDelay, hd]
      have hcast : Int.ofNat d + Int.ofNat (rnd st.writes.length % (1 + d)) =
          Int.ofNat (d + rnd st.writes.length % (1 + d)) := rfl
      rw [hcast, ih' fuel _ _ rfl hf', hnd]
      simp
    · have hd' : ¬ (Int.ofNat d < (100000000000 : Int)) := by
        have : ¬ d < 100000000000 := hd
        simp only [Int.ofNat_eq_natCast]; omega
      simp only [Gen.dclient.sendMessage.loop1, constSender, bind, StateT.bind, Except.bind, lift_ok, env_SockWrite,
        Option.isNone_none, Bool.not_true, Bool.false_eq_true, if_false, hd', decide_false, if_true,
        pure, hsel]
      have hnd : nextDelay d (rnd st.writes.length) = d := by simp [nextDelay, hd]
      rw [ih' fuel _ _ rfl hf', hnd]
      simp

/-- `sendMessage` after the socket has been opened, from any state. -/
theorem sendMessage_broadcast_run (iface : Go.NetInterface) (pkt src dst : Bytes) (rnd : Nat → Nat) (c : Bool)
    (fuel : Nat) (st : SendState) (hb : src = [] ∨ dst = []) (hf : st.rounds < fuel) :
    (Gen.dclient.sendMessage (sendEnv rnd c) iface (constSender pkt src dst) fuel).run st =
      .ok (none,
        { st with writes := st.writes ++ List.replicate (st.rounds + 1) pkt,
                  waits := st.waits ++ (delays retransBase
                    ((List.range' st.writes.length (st.rounds + 1)).map rnd)).map Int.ofNat,
                  rounds := 0,
                  opened := st.opened ++ [none] }) := by
  have hs := sendSocket_broadcast_run iface pkt src dst rnd c st hb
  simp only [StateT.run] at hs
  have hl := send_loop rnd c pkt src dst st.rounds fuel retransBase { st with opened := st.opened ++ [none] } rfl hf
  have hbase : (700000000 : Int) = Int.ofNat retransBase := rfl
  simp only [Gen.dclient.sendMessage, StateT.run, bind, StateT.bind, Except.bind, hs, Option.isNone_none,
    Bool.not_true, Bool.false_eq_true, if_false, hbase, hl, pure, StateT.pure, Except.pure, env_SockClose]

theorem sendMessage_broadcast (iface : Go.NetInterface) (pkt src dst : Bytes) (rnd : Nat → Nat) (n fuel : Nat)
    (hb : src = [] ∨ dst = []) (hf : n + 1 < fuel) :
    ∃ st, (Gen.dclient.sendMessage (sendEnv rnd false) iface (constSender pkt src dst) fuel).run
            { writes := [], waits := [], rounds := n, pings := [], opened := [] } = .ok (none, st) ∧
      st.writes = List.replicate (n + 1) pkt ∧ st.opened = [none] ∧
      st.waits = (delays retransBase ((List.range (n + 1)).map rnd)).map Int.ofNat := by
  refine ⟨_, sendMessage_broadcast_run iface pkt src dst rnd false fuel
    { writes := [], waits := [], rounds := n, pings := [], opened := [] } hb (by show n < fuel; omega), ?_, ?_, ?_⟩
  · simp
  · simp
  · simp [List.range_eq_range']

end PsaDhcp.Proofs.CodeSend
