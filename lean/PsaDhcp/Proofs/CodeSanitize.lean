import PsaDhcp.Code.Bridge10
/-
Translated hook environment and resolv.conf generator = Model/Sanitize.lean (statements fixed in Props/C17Code.lean).
-/
namespace PsaDhcp.Proofs.CodeSanitize
open PsaDhcp PsaDhcp.Go PsaDhcp.Code

/-! ### the three classes on bytes and on code points ≥ 128 -/

theorem bad_byte : ∀ n, n < 256 →
    Gen.callback.var_reBadChars.matchesRune n = !envGood (UInt8.ofNat n) := by decide +kernel

theorem good_byte : ∀ n, n < 256 →
    Gen.resolvconf.var_reGoodChars.matchesRune n = hostChar (UInt8.ofNat n) := by decide +kernel

theorem nums_byte : ∀ n, n < 256 →
    Gen.resolvconf.var_reGoodNums.matchesRune n = numChar (UInt8.ofNat n) := by decide +kernel

theorem bad_cls (b : UInt8) : Gen.callback.var_reBadChars.matchesRune b.toNat = !envGood b := by
  have := bad_byte b.toNat b.toNat_lt
  rwa [UInt8.ofNat_toNat] at this

theorem good_cls (b : UInt8) : Gen.resolvconf.var_reGoodChars.matchesRune b.toNat = hostChar b := by
  have := good_byte b.toNat b.toNat_lt
  rwa [UInt8.ofNat_toNat] at this

theorem nums_cls (b : UInt8) : Gen.resolvconf.var_reGoodNums.matchesRune b.toNat = numChar b := by
  have := nums_byte b.toNat b.toNat_lt
  rwa [UInt8.ofNat_toNat] at this

theorem bad_high (cp : Nat) (h : 128 ≤ cp) : Gen.callback.var_reBadChars.matchesRune cp = true := by
  simp [Regex.matchesRune, Gen.callback.var_reBadChars]; omega

theorem good_high (cp : Nat) (h : 128 ≤ cp) : Gen.resolvconf.var_reGoodChars.matchesRune cp = false := by
  simp [Regex.matchesRune, Gen.resolvconf.var_reGoodChars]; omega

theorem nums_high (cp : Nat) (h : 128 ≤ cp) : Gen.resolvconf.var_reGoodNums.matchesRune cp = false := by
  simp [Regex.matchesRune, Gen.resolvconf.var_reGoodNums]; omega

theorem cls_high : ∀ n, n < 256 → 128 ≤ n →
    envGood (UInt8.ofNat n) = false ∧ hostChar (UInt8.ofNat n) = false ∧ numChar (UInt8.ofNat n) = false := by
  decide +kernel

theorem cls_high' (b : UInt8) (h : 128 ≤ b.toNat) : envGood b = false ∧ hostChar b = false ∧ numChar b = false := by
  have := cls_high b.toNat b.toNat_lt h
  rwa [UInt8.ofNat_toNat] at this

/-! ### runes -/

theorem rw_ascii (b : UInt8) (rest : Bytes) (h : b.toNat < 128) : runeWidth (b :: rest) = (1, true) := by
  simp [runeWidth, h]

theorem runeAt_ascii (b : UInt8) (rest : Bytes) (h : b.toNat < 128) : runeAt (b :: rest) = b.toNat := by
  simp [runeAt, rw_ascii b rest h]
theorem runeAt_high (b : UInt8) (rest : Bytes) (h : 128 ≤ b.toNat) : 128 ≤ runeAt (b :: rest) := by
  have hb := b.toNat_lt
  unfold runeAt
  by_cases hv : (runeWidth (b :: rest)).2 = true
  · simp only [hv, not_true, if_false]
    revert hv
    unfold runeWidth
    simp only [show ¬ b.toNat < 0x80 by omega, if_false]
    repeat' split
    all_goals (try simp_all)
    all_goals omega
  · simp [hv]

/-! ### `ReplaceAllString` and `MatchString` -/

theorem replace_eq : ∀ (f : Nat) (s : Bytes),
    reReplaceAux Gen.callback.var_reBadChars [95] f s = sanitize f s
  | 0, _ => by simp [reReplaceAux, sanitize]
  | _ + 1, [] => by simp [reReplaceAux, sanitize]
  | f + 1, b :: rest => by
    simp only [reReplaceAux, sanitize]
    by_cases h : b.toNat < 128
    · rw [runeAt_ascii b rest h, rw_ascii b rest h, bad_cls]
      cases hg : envGood b <;> simp [replace_eq f]
    · have h' : 128 ≤ b.toNat := by omega
      rw [bad_high _ (runeAt_high b rest h')]
      simp [(cls_high' b h').1, replace_eq f]

theorem reBadChars_eq (val : Bytes) :
    Go.reReplaceAll Gen.callback.var_reBadChars val [95] = sanitize val.length val :=
  replace_eq _ _

theorem reAll_eq (re : Regex) (cls : UInt8 → Bool) (hc : ∀ b : UInt8, re.matchesRune b.toNat = cls b)
    (hh : ∀ cp, 128 ≤ cp → re.matchesRune cp = false) (hb : ∀ b : UInt8, 128 ≤ b.toNat → cls b = false) :
    ∀ (f : Nat) (s : Bytes), s.length ≤ f → reAllAux re f s = s.all cls
  | 0, s, h => by
    have : s = [] := List.eq_nil_of_length_eq_zero (by omega)
    subst this; simp [reAllAux]
  | _ + 1, [], _ => by simp [reAllAux]
  | f + 1, b :: rest, h => by
    simp only [reAllAux, List.all_cons]
    by_cases hlt : b.toNat < 128
    · rw [runeAt_ascii b rest hlt, rw_ascii b rest hlt, hc]
      simp only [List.drop_succ_cons, List.drop_zero]
      rw [reAll_eq re cls hc hh hb f rest (by simp at h; omega)]
    · have h' : 128 ≤ b.toNat := by omega
      rw [hh _ (runeAt_high b rest h'), hb b h']; simp

theorem reGoodChars_eq (s : Bytes) : Go.reMatch Gen.resolvconf.var_reGoodChars s = allIn hostChar s := by
  unfold reMatch allIn
  rw [reAll_eq _ hostChar good_cls good_high (fun b h => (cls_high' b h).2.1) _ _ (Nat.le_refl _)]

theorem reGoodNums_eq (s : Bytes) : Go.reMatch Gen.resolvconf.var_reGoodNums s = allIn numChar s := by
  unfold reMatch allIn
  rw [reAll_eq _ numChar nums_cls nums_high (fun b h => (cls_high' b h).2.2) _ _ (Nat.le_refl _)]

/-! ### `ByteArray.toList`, `toString` of a natural number -/

theorem toList_loop (bs : ByteArray) : ∀ (k i : Nat) (r : List UInt8), bs.size - i = k →
    ByteArray.toList.loop bs i r = r.reverse ++ bs.data.toList.drop i
  | 0, i, r, h => by
    rw [ByteArray.toList.loop]
    have : ¬ i < bs.size := by omega
    simp only [this, if_false]
    have : bs.data.toList.length ≤ i := by
      have : bs.data.toList.length = bs.size := rfl
      omega
    simp [List.drop_eq_nil_of_le this]
  | k + 1, i, r, h => by
    rw [ByteArray.toList.loop]
    have hi : i < bs.size := by omega
    simp only [hi, if_true]
    rw [toList_loop bs k (i + 1) _ (by omega)]
    have hi' : i < bs.data.toList.length := hi
    rw [List.drop_eq_getElem_cons hi']
    simp [ByteArray.get!, getElem!_pos, hi]

theorem ba_toList (bs : ByteArray) : bs.toList = bs.data.toList := by
  simp [ByteArray.toList, toList_loop bs _ 0 [] rfl]

theorem str_ofList (l : List Char) : str (String.ofList l) = l.flatMap String.utf8EncodeChar := by
  simp [str, String.toUTF8, String.toByteArray_ofList, ba_toList, List.utf8Encode, List.data_toByteArray]

theorem digit_enc (c : Char) (h : c.isDigit = true) : String.utf8EncodeChar c = [UInt8.ofNat c.toNat] := by
  have : c.toNat ≤ 127 := by
    simp [Char.isDigit] at h
    have := h.2
    have h2 : c.val.toNat ≤ (57 : UInt32).toNat := UInt32.le_iff_toNat_le.mp this
    simp at h2; omega
  unfold String.utf8EncodeChar
  simp only [← Char.toNat.eq_1, this, if_true]

theorem natStr_eq (n : Nat) : natStr n = (Nat.toDigits 10 n).map (fun ch => UInt8.ofNat ch.toNat) := by
  rw [natStr, Nat.toString_eq_ofList_toDigits, str_ofList]
  have : ∀ l : List Char, (∀ c ∈ l, c.isDigit = true) →
      l.flatMap String.utf8EncodeChar = l.map (fun ch => UInt8.ofNat ch.toNat) := by
    intro l
    induction l with
    | nil => simp
    | cons c t ih =>
      intro h
      simp only [List.flatMap_cons, List.map_cons]
      rw [digit_enc c (h c (by simp)), ih (fun c hc => h c (by simp [hc]))]; rfl
  exact this _ (fun c hc => Nat.isDigit_of_mem_toDigits (by decide) (by decide) hc)

theorem fmtDec_eq (n : Int) (h : 0 ≤ n) : Go.fmtDec n = natStr n.toNat := by
  rw [natStr_eq, fmtDec]
  have : ¬ n < 0 := by omega
  have h2 : n.natAbs = n.toNat := by omega
  simp [this, h2]

/-! ### `strings.SplitN(·, "=", 2)`, `strings.Split(·, ",")`, `strings.Join(·, ",")` -/

theorem span_loop (p : UInt8 → Bool) : ∀ (l acc : Bytes),
    List.span.loop p l acc = (acc.reverse ++ l.takeWhile p, l.dropWhile p)
  | [], acc => by simp [List.span.loop]
  | a :: l, acc => by
    cases h : p a <;> simp [List.span.loop, h, span_loop p l]

theorem splitN2_eq : ∀ e : Bytes, Go.stringsSplitN2 e [61] = match splitEq e with | none => [e] | some (k, v) => [k, v] := by
  intro e
  simp only [stringsSplitN2, List.span, span_loop, List.reverse_nil, List.nil_append]
  induction e with
  | nil => simp [splitEq]
  | cons b t ih =>
    by_cases hb : b = 61
    · subst hb; simp [splitEq]
    · simp only [splitEq, hb, if_false]
      have : (b != 61) = true := by simp [hb]
      simp only [List.takeWhile_cons, List.dropWhile_cons, this, if_true]
      cases hs : splitEq t with
      | none =>
        rw [hs] at ih
        revert ih
        cases hd : List.dropWhile (fun x => x != 61) t <;> simp
      | some kv =>
        rw [hs] at ih
        revert ih
        cases hd : List.dropWhile (fun x => x != 61) t <;> simp

theorem splitComma_ne : ∀ s : Bytes, splitComma s ≠ []
  | [] => by simp [splitComma]
  | b :: t => by
    simp only [splitComma]
    split
    · simp
    · split <;> simp

theorem splitAux_eq : ∀ (n : Nat) (s acc : Bytes), s.length < n →
    splitAux [44] n s acc = match splitComma s with | [] => [acc] | h :: t => (acc ++ h) :: t
  | 0, _, _, h => by omega
  | n + 1, [], acc, _ => by simp [splitAux, splitComma]
  | n + 1, c :: rest, acc, h => by
    have hl : rest.length < n := by simp at h; omega
    simp only [splitAux, splitComma]
    by_cases hc : c = 44
    · subst hc
      simp
      rw [splitAux_eq n rest [] hl]
      cases hs : splitComma rest with
      | nil => exact absurd hs (splitComma_ne rest)
      | cons h t => simp
    · have : ¬ ([44] : Bytes).isPrefixOf (c :: rest) = true := by simp [List.isPrefixOf]; exact fun h => hc h.symm
      simp only [this]
      rw [splitAux_eq n rest _ hl]
      cases hs : splitComma rest with
      | nil => exact absurd hs (splitComma_ne rest)
      | cons h t => simp [hc]

theorem split_eq (s : Bytes) : Go.stringsSplit s [44] = splitComma s := by
  rw [stringsSplit, splitAux_eq _ _ _ (Nat.lt_succ_self _)]
  cases hs : splitComma s with
  | nil => exact absurd hs (splitComma_ne s)
  | cons h t => simp

theorem join_eq : ∀ l : List Bytes, Go.stringsJoin l [44] = joinComma l
  | [] => rfl
  | [x] => rfl
  | x :: y :: t => by simp [stringsJoin, joinComma, join_eq (y :: t)]

/-! ### `net.IP.String()`, `net.IPMask.String()` -/

theorem ipOf_nil : ipOf [] = none := by decide

theorem ipString_eq (ip : Bytes) (h : ip = [] ∨ ∃ i, ipOf ip = some i) :
    Go.ipString ip = PsaDhcp.ipString (ipOf ip) := by
  rcases h with rfl | ⟨i, hi⟩
  · simp [Go.ipString, ipOf_nil]
  · have hne : ip.isEmpty = false := by
      cases ip with
      | nil => simp [ipOf_nil] at hi
      | cons _ _ => rfl
    have hi' : Ip4.ofBytes? (to4 ip) = some i := hi
    simp [Go.ipString, hne, hi, hi']

theorem maskString_eq (m : Bytes) (h : m = [] ∨ m.length = 4) :
    Go.maskString m = PsaDhcp.maskString (Ip4.ofBytes? m) := by
  rcases h with rfl | h
  · simp [Go.maskString, PsaDhcp.maskString, Ip4.ofBytes?]
  · match m, h with
    | [a, b, c, d], _ => simp [Go.maskString, PsaDhcp.maskString, Ip4.ofBytes?, Ip4.bytes]

/-! ### `envEntry`, `dumpScriptConf` -/

theorem envEntry_eq' (key val : Bytes) :
    Gen.callback.envEntry key val = str "PSA_DHCPC_" ++ key ++ [0x3D] ++ sanitize val.length val := by
  have : str "PSA_DHCPC_" = [80, 83, 65, 95, 68, 72, 67, 80, 67, 95] := by decide +kernel
  simp [Gen.callback.envEntry, Id.run, reBadChars_eq, this]; rfl

theorem envEntry_eq (key : String) (val : Bytes) : Gen.callback.envEntry (str key) val = envEntry key val := by
  rw [envEntry_eq', envEntry]

theorem dump_loop1 : ∀ (ds pre post : List Bytes), post.length = ds.length →
    Gen.callback.dumpScriptConf.loop1 ds (Int.ofNat pre.length) (pre ++ post) = .ok (pre ++ ds.map Go.ipString)
  | [], pre, post, h => by
    have : post = [] := List.eq_nil_of_length_eq_zero (by simpa using h)
    subst this; simp [Gen.callback.dumpScriptConf.loop1]; rfl
  | d :: ds, pre, [], h => by simp at h
  | d :: ds, pre, p :: post, h => by
    have hl : post.length = ds.length := by simpa using h
    have := dump_loop1 ds (pre ++ [Go.ipString d]) post hl
    simp only [Gen.callback.dumpScriptConf.loop1, setIdx]
    have hc : (0 : Int) ≤ Int.ofNat pre.length ∧ Int.ofNat pre.length < ((pre ++ p :: post).length : Int) := by
      simp; omega
    simp only [hc, and_self, if_true]
    simp at this ⊢
    exact this


theorem dumpScriptConf_eq (c : Gen.libif.Ifconfig) (h : IfcWf c) :
    Gen.callback.dumpScriptConf c = .ok (dumpScriptConf (ifcOf c)) := by
  obtain ⟨hr, hip, hdns, hm, hmtu, hlease, _⟩ := h
  have hl : Gen.callback.dumpScriptConf.loop1 c.DNS (0 : Int) (List.replicate c.DNS.length []) =
      .ok (c.DNS.map Go.ipString) := dump_loop1 c.DNS [] (List.replicate c.DNS.length []) (by simp)
  have hmk : Go.makeList ([] : Bytes) (Int.ofNat c.DNS.length) "callback.go:63" = .ok (List.replicate c.DNS.length []) := by
    have : ¬ ((c.DNS.length : Int) < 0) := by omega
    simp [makeList, this]; rfl
  have hdm : c.DNS.map Go.ipString = (c.DNS.filterMap ipOf).map (fun d => PsaDhcp.ipString (some d)) := by
    generalize c.DNS = l at hdns
    induction l with
    | nil => rfl
    | cons d t ih =>
      obtain ⟨i, hi⟩ := hdns d (by simp)
      simp only [List.map_cons, List.filterMap_cons, hi]
      rw [ih (fun d hd => hdns d (by simp [hd])), ipString_eq d (Or.inr ⟨i, hi⟩), hi]
  have hk1 : ([73, 80, 86, 52, 95, 82, 79, 85, 84, 69, 82] : Bytes) = str "IPV4_ROUTER" := by decide +kernel
  have hk2 : ([73, 80, 86, 52, 95, 65, 68, 68, 82, 69, 83, 83] : Bytes) = str "IPV4_ADDRESS" := by decide +kernel
  have hk3 : ([78, 69, 84, 77, 65, 83, 75] : Bytes) = str "NETMASK" := by decide +kernel
  have hk4 : ([68, 79, 77, 65, 73, 78, 95, 78, 65, 77, 69] : Bytes) = str "DOMAIN_NAME" := by decide +kernel
  have hk5 : ([68, 78, 83, 95, 76, 73, 83, 84] : Bytes) = str "DNS_LIST" := by decide +kernel
  have hk6 : ([77, 84, 85] : Bytes) = str "MTU" := by decide +kernel
  have hk7 : ([76, 69, 65, 83, 69, 95, 83, 69, 67] : Bytes) = str "LEASE_SEC" := by decide +kernel
  have hsec : 0 ≤ Go.durSecondsInt c.LeaseDuration := by
    unfold durSecondsInt; exact Int.tdiv_nonneg hlease (by decide)
  have hsec2 : (Go.durSecondsInt c.LeaseDuration).toNat = (c.LeaseDuration / 1000000000).toNat := by
    unfold durSecondsInt; rw [Int.tdiv_eq_ediv_of_nonneg hlease]
  unfold Gen.callback.dumpScriptConf
  simp only [hmk, hl, bind, Except.bind, pure, Except.pure]
  rw [hk1, hk2, hk3, hk4, hk5, hk6, hk7]
  simp only [envEntry_eq, ipString_eq _ hr, ipString_eq _ hip, maskString_eq _ hm, join_eq, fmtDec_eq _ hmtu,
    fmtDec_eq _ hsec, hsec2, hdm]
  simp [dumpScriptConf, ifcOf]

/-! ### `resolvconf.Run` -/

/-- One iteration of the environment scan (the body of the `foldl` in `scanEnv`). -/
def scanStep (acc : ResolvIn) (e : Bytes) : ResolvIn :=
  match splitEq e with
  | none => acc
  | some (k, v) =>
    let acc := if k = str "PSA_DHCPC_DOMAIN_NAME" ∧ allIn hostChar v then { acc with search := v } else acc
    if k = str "PSA_DHCPC_DNS_LIST" ∧ ¬ v.isEmpty then
      { acc with nameservers := acc.nameservers ++ (splitComma v).filter (allIn numChar) }
    else acc

theorem scanEnv_eq (env : List Bytes) : scanEnv env = env.foldl scanStep {} := rfl

theorem run_loop2 : ∀ (l : List Bytes) (i : Int) (ns : List Bytes),
    Gen.resolvconf.Run.loop2 l i ns = .ok (ns ++ l.filter (allIn numChar))
  | [], _, ns => by simp [Gen.resolvconf.Run.loop2]; rfl
  | x :: l, i, ns => by
    simp only [Gen.resolvconf.Run.loop2, reGoodNums_eq]
    cases h : allIn numChar x <;> simp [h, run_loop2 l]

theorem run_loop3 : ∀ (l : List Bytes) (i : Int) (buf : Bytes),
    Gen.resolvconf.Run.loop3 l i buf = .ok (buf ++ (l.map fun ns => str "nameserver " ++ ns ++ [0x0A]).flatten)
  | [], _, buf => by simp [Gen.resolvconf.Run.loop3]; rfl
  | x :: l, i, buf => by
    have : str "nameserver " = [110, 97, 109, 101, 115, 101, 114, 118, 101, 114, 32] := by decide +kernel
    simp [Gen.resolvconf.Run.loop3, run_loop3 l, this]

theorem run_loop1 : ∀ (env : List Bytes) (i : Int) (sd : Bytes) (ns : List Bytes),
    Gen.resolvconf.Run.loop1 env i (sd, ns) =
      .ok ((env.foldl scanStep { search := sd, nameservers := ns }).search,
           (env.foldl scanStep { search := sd, nameservers := ns }).nameservers)
  | [], _, sd, ns => by simp [Gen.resolvconf.Run.loop1]; rfl
  | e :: env, i, sd, ns => by
    have hk1 : ([80, 83, 65, 95, 68, 72, 67, 80, 67, 95, 68, 79, 77, 65, 73, 78, 95, 78, 65, 77, 69] : Bytes) = str "PSA_DHCPC_DOMAIN_NAME" := by decide +kernel
    have hk2 : ([80, 83, 65, 95, 68, 72, 67, 80, 67, 95, 68, 78, 83, 95, 76, 73, 83, 84] : Bytes) = str "PSA_DHCPC_DNS_LIST" := by decide +kernel
    simp only [Gen.resolvconf.Run.loop1, List.foldl_cons, splitN2_eq, hk1, hk2]
    cases hs : splitEq e with
    | none => simp [scanStep, hs, run_loop1 env]
    | some kv =>
      obtain ⟨k, v⟩ := kv
      have i0 : ∀ site, Go.idx [k, v] (0 : Int) site = .ok k := fun _ => rfl
      have i1 : ∀ site, Go.idx [k, v] (1 : Int) site = .ok v := fun _ => rfl
      simp only [scanStep, hs, i0, i1, reGoodChars_eq, split_eq, run_loop2, run_loop1 env]
      have hne : str "PSA_DHCPC_DOMAIN_NAME" ≠ str "PSA_DHCPC_DNS_LIST" := by decide +kernel
      by_cases c1 : k = str "PSA_DHCPC_DOMAIN_NAME"
      · have c3 : ¬ k = str "PSA_DHCPC_DNS_LIST" := fun c3 => hne (c1.symm.trans c3)
        by_cases c2 : allIn hostChar v = true <;>
          simp [c1, c2, hne, bind, Except.bind, pure, Except.pure]
      · by_cases c3 : k = str "PSA_DHCPC_DNS_LIST" <;> by_cases c4 : v = [] <;>
          simp [c1, c3, c4, hne.symm, List.length_pos_iff, bind, Except.bind, pure, Except.pure]


theorem Run_eq (env : List Bytes) (updErr : GoErr) :
    (Gen.resolvconf.Run (resEnv env updErr)).run [] =
      .ok (match resolvRun env with | some _ => updErr | none => none, (resolvRun env).toList) := by
  have hh : str "# written by psa-dhcpc\n" = [35, 32, 119, 114, 105, 116, 116, 101, 110, 32, 98, 121, 32, 112, 115, 97, 45, 100, 104, 99, 112, 99, 10] := by decide +kernel
  have hsr : str "search " = [115, 101, 97, 114, 99, 104, 32] := by decide +kernel
  unfold Gen.resolvconf.Run
  simp only [StateT.run, resEnv, bind, StateT.bind, Except.bind, run_loop1, liftM, monadLift, MonadLift.monadLift,
      StateT.lift, pure, Except.pure]
  simp only [resolvRun, scanEnv_eq, renderResolv, hh, hsr]
  generalize List.foldl scanStep {} env = r
  obtain ⟨sd, ns⟩ := r
  by_cases h1 : ns = []
  · subst h1
    simp [StateT.pure, pure, Except.pure]
  · have h1' : ns.isEmpty = false := by cases ns <;> simp_all
    by_cases h2 : sd = []
    · subst h2
      simp [run_loop3, h1, h1', StateT.lift, StateT.bind, bind, Except.bind, pure, Except.pure]
    · have h2' : sd.isEmpty = false := by cases sd <;> simp_all
      have h3 : 0 < sd.length := by cases sd <;> simp_all
      simp [run_loop3, h1, h1', h2', h3, StateT.lift, StateT.bind, bind, Except.bind, pure, Except.pure]

end PsaDhcp.Proofs.CodeSanitize
