import PsaDhcp.Code.Bridge2
import PsaDhcp.Proofs.CodeLayerIp
import PsaDhcp.Proofs.CodeLayer
import PsaDhcp.Proofs.CodeDhcp
import PsaDhcp.Proofs.CodeMisc
/-
lib/client/msgtmpl: the translated `(*tmpl).request` equals the model's `clientRequest`; the value the
code draws from math/rand (the IP identification) is the parameter `rnd`.
-/
namespace PsaDhcp.Proofs.CodeTmpl
open PsaDhcp PsaDhcp.Go PsaDhcp.Code

theorem ok_bind {α β : Type} (a : α) (f : α → R β) : ((Except.ok a : R α) >>= f) = f a := rfl

theorem ok_pure {α : Type} (a : α) : (pure a : R α) = Except.ok a := rfl

theorem optOf_optToGen (o : Opt) : optOf (optToGen o) = o := rfl

theorem ipOf_nil : ipOf [] = none := rfl

theorem isEmpty_of_ipOf {x : Bytes} {r : Ip4} (h : ipOf x = some r) : x.isEmpty = false := by
  cases x with
  | nil => rw [ipOf_nil] at h; cases h
  | cons a t => rfl

theorem copyInto_replicate (n : Nat) : copyInto n (List.replicate n (0 : UInt8)) = copyInto n [] := by
  simp [copyInto]

theorem maxMsgSize_toNat : Gen.msgtmpl.var_maxMsgSize.toNat = 1500 := by decide

theorem u16_0 : (0 : UInt16).toNat = 0 := rfl
theorem u16_67 : (67 : UInt16).toNat = 67 := rfl
theorem u16_68 : (68 : UInt16).toNat = 68 := rfl

theorem cookie_toNat : (1669485411 : UInt32).toNat = 0x63825363 := by decide

/-- `Message.Assemble` of a message whose two fixed arrays are still zeroed. -/
theorem msg_asm (op ht hops : UInt8) (xid : UInt32) (secs flags : UInt16) (ci yi ni ri mac : Bytes) (cookie : UInt32)
    (opts : List Gen.dhcpmsg.DHCPOpt) :
    Gen.dhcpmsg.Message_Assemble
      { Op := op, Htype := ht, Hops := hops, Xid := xid, Secs := secs, Flags := flags, ClientIP := ci, YourIP := yi,
        NextIP := ni, RelayIP := ri, ClientMAC := mac, ServerHostName := Gen.dhcpmsg.Message.zero.ServerHostName,
        BootFilename := Gen.dhcpmsg.Message.zero.BootFilename, Cookie := cookie, Options := opts } =
    .ok (Msg.assemble
      { op := op, htype := ht, hops := hops, xid := xid.toNat, secs := secs.toNat, flags := flags.toNat,
        ciaddr := ipOf ci, yiaddr := ipOf yi, siaddr := ipOf ni, giaddr := ipOf ri, chaddr := mac, sname := [],
        file := [], cookie := cookie.toNat, options := opts.map optOf }) := by
  rw [CodeDhcp.Message_Assemble_eq _ rfl rfl]
  simp only [msgOf, Msg.assemble, Msg.header, Gen.dhcpmsg.Message.zero, copyInto_replicate]
  rfl

theorem request_eq (xid : UInt32) (mac : Bytes) (msgtype : UInt8) (src dst req sid : Bytes) (rnd : UInt32) (s d : Ip4)
    (hs : ipOf src = some s) (hd : ipOf dst = some d)
    (hreq : req = [] ∨ ∃ r, ipOf req = some r) (hsid : sid = [] ∨ ∃ r, ipOf sid = some r) :
    Gen.msgtmpl.tmpl_request { xid := xid, hwaddr := mac } msgtype src dst req sid rnd =
      .ok (clientRequest mac xid.toNat rnd.toUInt16.toNat msgtype s d (ipOf req) (ipOf sid)) := by
  unfold Gen.msgtmpl.tmpl_request
  simp only [CodeMisc.OptionType_eq, CodeMisc.OptionClientIdentifier_eq, CodeMisc.OptionMaxMessageSize_eq,
    CodeMisc.OptionParametersList_eq, CodeMisc.OptionRequestedIP_eq, CodeMisc.OptionServerIdentifier_eq,
    ok_bind, ok_pure, msg_asm, CodeLayer.UDP_Assemble_eq, CodeLayerIp.IPv4_Assemble_eq]
  simp only [clientRequest, ipv4Of, udpOf, hs, hd, Gen.dhcpmsg.Message.zero, Gen.layer.IPv4.zero, ipOf_nil,
    List.map_append, List.map_cons, List.map_nil, optOf_optToGen, maxMsgSize_toNat, cookie_toNat, paramList]
  rcases hreq with rfl | ⟨r, hr⟩ <;> rcases hsid with rfl | ⟨r', hr'⟩
  · simp only [ipOf_nil, List.isEmpty_nil, Bool.not_true, Bool.false_eq_true, if_false, u16_0, u16_67, u16_68,
      List.append_nil]
  · simp only [ipOf_nil, hr', isEmpty_of_ipOf hr', List.isEmpty_nil, Bool.not_true, Bool.not_false, Bool.false_eq_true,
      if_false, if_true, u16_0, u16_67, u16_68, List.append_nil]
  · simp only [ipOf_nil, hr, isEmpty_of_ipOf hr, List.isEmpty_nil, Bool.not_true, Bool.not_false, Bool.false_eq_true,
      if_false, if_true, u16_0, u16_67, u16_68, List.append_nil]
  · simp only [hr, hr', isEmpty_of_ipOf hr, isEmpty_of_ipOf hr', Bool.not_false,
      if_true, u16_0, u16_67, u16_68]

end PsaDhcp.Proofs.CodeTmpl
