import PsaDhcp.Code.Bridge5
import PsaDhcp.Proofs.CodeMisc
import PsaDhcp.Proofs.CodeIpdb
/-
Translated `dhcpOptions`, lease-time option and table keys = the model (statements fixed in Props/C07Code.lean).
-/
namespace PsaDhcp.Proofs.CodeOptions
open PsaDhcp PsaDhcp.Go PsaDhcp.Code
open PsaDhcp.Proofs.CodeMiscAux

/-! ### option 51 -/

theorem durSecondsU32_toNat (ns : Int) (h : 0 ≤ ns) :
    put32 (Go.durSecondsU32 ns).toNat = put32 (leaseSecs ns) := by
  unfold Go.durSecondsU32 Go.u32OfInt leaseSecs
  rw [put32_ofNat]
  have h1 : Int.tdiv ns 1000000000 = ns / 1000000000 := Int.tdiv_eq_ediv_of_nonneg h
  rw [h1]
  have h2 : 0 ≤ ns / 1000000000 := Int.ediv_nonneg h (by decide)
  have h3 : (ns / 1000000000 % 4294967296).toNat = (ns / 1000000000).toNat % 4294967296 := by omega
  rw [h3]

theorem OptionIPAddressLeaseDuration_eq (ns : Int) (h : 0 ≤ ns) :
    Gen.dhcpmsg.OptionIPAddressLeaseDuration ns = .ok (optToGen (optLease (leaseSecs ns))) := by
  have := durSecondsU32_toNat ns h
  simp [Gen.dhcpmsg.OptionIPAddressLeaseDuration, Go.makeList, Go.slice, Gen.dhcpmsg.setU32Int, Go.putU32,
    Go.writeBack, Go.overwrite, bind, Except.bind, pure, Except.pure, List.replicate, u32Bytes_eq, optLease,
    optToGen, this]
  simp [put32]


/-! ### `Duid.String()` -/

theorem hexDigit_inj_fin : ∀ i j : Fin 16, Go.hexDigit i.val = Go.hexDigit j.val → i = j := by decide

theorem hexDigit_inj (m n : Nat) (hm : m < 16) (hn : n < 16) (h : Go.hexDigit m = Go.hexDigit n) : m = n := by
  have := hexDigit_inj_fin ⟨m, hm⟩ ⟨n, hn⟩ h
  exact Fin.mk.inj this

theorem fmtHex02_inj (a b : UInt8) (h : Go.fmtHex02 a = Go.fmtHex02 b) : a = b := by
  simp only [Go.fmtHex02, List.cons.injEq, and_true] at h
  have ha := a.toNat_lt
  have hb := b.toNat_lt
  have h1 := hexDigit_inj _ _ (by omega) (by omega) h.1
  have h2 := hexDigit_inj _ _ (by omega) (by omega) h.2
  apply UInt8.toNat_inj.mp
  omega

/-- `-xx` per byte. -/
def dashHex (d : Bytes) : Bytes := d.flatMap (fun b => 45 :: Go.fmtHex02 b)

theorem dashHex_cons (b : UInt8) (d : Bytes) : dashHex (b :: d) = 45 :: (Go.fmtHex02 b ++ dashHex d) := by
  simp [dashHex]

theorem dashHex_length (d : Bytes) : (dashHex d).length = 3 * d.length := by
  induction d with
  | nil => rfl
  | cons b d ih => rw [dashHex_cons]; simp [Go.fmtHex02, ih]; omega

theorem dashHex_inj : ∀ (d₁ d₂ : Bytes), dashHex d₁ = dashHex d₂ → d₁ = d₂ := by
  intro d₁
  induction d₁ with
  | nil =>
    intro d₂ h
    cases d₂ with
    | nil => rfl
    | cons b d => rw [dashHex_cons] at h; exact absurd h (by simp [dashHex])
  | cons a d₁ ih =>
    intro d₂ h
    cases d₂ with
    | nil => rw [dashHex_cons] at h; exact absurd h (by simp [dashHex])
    | cons b d₂ =>
      rw [dashHex_cons, dashHex_cons] at h
      simp only [Go.fmtHex02, List.cons_append, List.nil_append, List.cons.injEq, true_and] at h
      have hab : a = b := fmtHex02_inj a b (by simp [Go.fmtHex02, h.1, h.2.1])
      rw [hab, ih d₂ h.2.2]

theorem duid_loop_pos (d : Bytes) : ∀ (i : Int) (buf : Bytes), 0 < i →
    Gen.duid.Duid_String.loop1 d i buf = .ok (buf ++ dashHex d) := by
  induction d with
  | nil => intro i buf _; simp [Gen.duid.Duid_String.loop1, dashHex, pure, Except.pure]
  | cons b d ih =>
    intro i buf hi
    have h1 : 0 < i + 1 := by omega
    simp [Gen.duid.Duid_String.loop1, hi, ih (i + 1) _ h1, dashHex_cons]

theorem duid_loop_zero (b : UInt8) (d buf : Bytes) :
    Gen.duid.Duid_String.loop1 (b :: d) 0 buf = .ok (buf ++ Go.fmtHex02 b ++ dashHex d) := by
  simp [Gen.duid.Duid_String.loop1, duid_loop_pos d 1 _ (by omega)]

/-- The key text of an identity. -/
def duidKey (d : Bytes) : Bytes :=
  match d with
  | [] => [60, 100, 117, 105, 100, 58, 110, 105, 108, 62]
  | b :: r => [60, 100, 117, 105, 100, 58] ++ (Go.fmtHex02 b ++ dashHex r) ++ [62]

theorem Duid_String_eq (d : Bytes) : Gen.duid.Duid_String d = .ok (duidKey d) := by
  cases d with
  | nil => simp [Gen.duid.Duid_String, duidKey, pure, Except.pure]
  | cons b r =>
    have hne : ¬ ((r.length : Int) + 1 = 0) := by omega
    simp [Gen.duid.Duid_String, duid_loop_zero, duidKey, bind, Except.bind, pure, Except.pure, hne]

theorem Duid_String_total (d : Bytes) : ∃ k, Gen.duid.Duid_String d = .ok k := ⟨_, Duid_String_eq d⟩

theorem duidKey_length (d : Bytes) : (duidKey d).length = if d = [] then 10 else 3 * d.length + 6 := by
  cases d with
  | nil => rfl
  | cons b r => simp [duidKey, dashHex_length, Go.fmtHex02]; omega

theorem duidKey_inj (d₁ d₂ : Bytes) (h : duidKey d₁ = duidKey d₂) : d₁ = d₂ := by
  have hl := congrArg List.length h
  rw [duidKey_length, duidKey_length] at hl
  cases d₁ with
  | nil =>
    cases d₂ with
    | nil => rfl
    | cons b r => simp at hl; omega
  | cons a r₁ =>
    cases d₂ with
    | nil => simp at hl; omega
    | cons b r₂ =>
      simp only [duidKey, Go.fmtHex02, List.cons_append, List.nil_append, List.cons.injEq, true_and] at h
      have hab : a = b := fmtHex02_inj a b (by simp [Go.fmtHex02, h.1, h.2.1])
      have := List.append_cancel_right h.2.2
      rw [hab, dashHex_inj _ _ this]

theorem Duid_String_injective (d₁ d₂ : Bytes) (h : Gen.duid.Duid_String d₁ = Gen.duid.Duid_String d₂) : d₁ = d₂ := by
  rw [Duid_String_eq, Duid_String_eq] at h
  exact duidKey_inj d₁ d₂ (Except.ok.inj h)


/-! ### `Uip.String()` -/

theorem digitChar_byte : ∀ k : Fin 16, UInt8.ofNat (Nat.digitChar k.val).toNat = Go.hexDigit k.val := by decide

theorem fmtHex_unfold (n : Nat) :
    Go.fmtHex n = if n < 16 then [Go.hexDigit n] else Go.fmtHex (n / 16) ++ [Go.hexDigit (n % 16)] := by
  unfold Go.fmtHex
  rw [Nat.toDigits_eq_if (by decide : 1 < 16)]
  split
  · rename_i h
    simp only [List.map_cons, List.map_nil]
    rw [digitChar_byte ⟨n, h⟩]
  · simp only [List.map_append, List.map_cons, List.map_nil]
    rw [digitChar_byte ⟨n % 16, Nat.mod_lt _ (by decide)⟩]

/-- Value of a lowercase hex digit. -/
def hexVal (c : UInt8) : Nat := if c.toNat < 58 then c.toNat - 48 else c.toNat - 87

theorem hexVal_hexDigit : ∀ k : Fin 16, hexVal (Go.hexDigit k.val) = k.val := by decide

def hexDecode (l : Bytes) : Nat := l.foldl (fun acc c => 16 * acc + hexVal c) 0

theorem hexDecode_fmtHex (n : Nat) : hexDecode (Go.fmtHex n) = n := by
  induction n using Nat.strongRecOn with
  | _ n ih =>
    rw [fmtHex_unfold]
    split
    · rename_i h
      simp [hexDecode, hexVal_hexDigit ⟨n, h⟩]
    · rename_i h
      have := ih (n / 16) (by omega)
      simp only [hexDecode, List.foldl_append, List.foldl_cons, List.foldl_nil] at this ⊢
      rw [this, hexVal_hexDigit ⟨n % 16, Nat.mod_lt _ (by decide)⟩]
      simp only
      omega

theorem fmtHex_inj (m n : Nat) (h : Go.fmtHex m = Go.fmtHex n) : m = n := by
  rw [← hexDecode_fmtHex m, ← hexDecode_fmtHex n, h]

theorem Uip_String_eq (a : UInt32) :
    Gen.uip.Uip_String a = [117, 105, 112, 40] ++ Go.fmtHex a.toNat ++ [41] := rfl

theorem Uip_String_injective (a b : UInt32) (h : Gen.uip.Uip_String a = Gen.uip.Uip_String b) : a = b := by
  rw [Uip_String_eq, Uip_String_eq] at h
  have h1 := List.append_cancel_right h
  have h2 := List.append_cancel_left h1
  exact UInt32.toNat_inj.mp (fmtHex_inj _ _ h2)

/-! ### the two kinds of key never collide -/

theorem keys_disjoint (a : UInt32) (d : Bytes) : Gen.duid.Duid_String d ≠ .ok (Gen.uip.Uip_String a) := by
  rw [Duid_String_eq, Uip_String_eq]
  intro h
  have h := Except.ok.inj h
  cases d with
  | nil => simp [duidKey] at h
  | cons b r => simp [duidKey] at h


/-! ### `dhcpOptions`: the translated function as a pure list expression -/

abbrev GOpt := Gen.dhcpmsg.DHCPOpt
abbrev LOpts := Gen.leaseopts.LeaseOptions

theorem bind_ok {α β : Type} (v : α) (f : α → R β) : (Except.ok v >>= f) = f v := rfl

theorem stageM {α : Type} (jp : Unit → List GOpt → R α) (opts : List GOpt) (c1 c2 : Bool) (e1 e2 : R GOpt)
    (x1 x2 : GOpt) (he1 : e1 = .ok x1) (he2 : e2 = .ok x2) :
    (if c1 = true then (do let x ← e1; jp () (opts ++ [x]))
     else if c2 = true then (do let x ← e2; jp () (opts ++ [x])) else jp () opts)
      = jp () (opts ++ (if c1 = true then [x1] else if c2 = true then [x2] else [])) := by
  subst he1 he2
  cases c1 <;> cases c2 <;> simp [bind, Except.bind]

theorem stageP {α : Type} (jp : Unit → List GOpt → R α) (opts : List GOpt) (c1 c2 : Bool) (x1 x2 : GOpt) :
    (if c1 = true then jp () (opts ++ [x1])
     else if c2 = true then jp () (opts ++ [x2]) else jp () opts)
      = jp () (opts ++ (if c1 = true then [x1] else if c2 = true then [x2] else [])) := by
  cases c1 <;> cases c2 <;> simp

theorem stageH {α : Type} (jp : Unit → List GOpt → R α) (opts : List GOpt) (c1 : Bool) (x1 : GOpt) :
    (if c1 = true then jp () (opts ++ [x1]) else jp () opts)
      = jp () (opts ++ (if c1 = true then [x1] else [])) := by
  cases c1 <;> simp

def gRouter (lo : LOpts) (m : Option LOpts) : List GOpt :=
  if (m.isSome && !List.isEmpty (m.getD Gen.leaseopts.LeaseOptions.zero).Router) = true then
    [optToGen (optRouter (ipOf (m.getD Gen.leaseopts.LeaseOptions.zero).Router))]
  else if (!List.isEmpty lo.Router) = true then [optToGen (optRouter (ipOf lo.Router))] else []

def gIPs (code : UInt8) (sel : LOpts → List Bytes) (lo : LOpts) (m : Option LOpts) : List GOpt :=
  if (m.isSome && decide (Int.ofNat (sel (m.getD Gen.leaseopts.LeaseOptions.zero)).length > 0)) = true then
    [optToGen (optIPs code ((sel (m.getD Gen.leaseopts.LeaseOptions.zero)).map ipOf))]
  else if decide (Int.ofNat (sel lo).length > 0) = true then [optToGen (optIPs code ((sel lo).map ipOf))] else []

def gDom (lo : LOpts) (m : Option LOpts) : List GOpt :=
  if (m.isSome && (m.getD Gen.leaseopts.LeaseOptions.zero).Domain != []) = true then
    [Gen.dhcpmsg.OptionDomainName (m.getD Gen.leaseopts.LeaseOptions.zero).Domain]
  else if (lo.Domain != []) = true then [Gen.dhcpmsg.OptionDomainName lo.Domain] else []

def gHost (m : Option LOpts) : List GOpt :=
  if (m.isSome && (m.getD Gen.leaseopts.LeaseOptions.zero).Hostname != []) = true then
    [Gen.dhcpmsg.OptionHostname (m.getD Gen.leaseopts.LeaseOptions.zero).Hostname]
  else []

/-- What the Go function returns, given the global options and the result of the `overrides` lookup. -/
def goOpts (lo : LOpts) (m : Option LOpts) : List GOpt :=
  [optToGen (optLease (leaseSecs lo.LeaseDuration)), optToGen (optSubnetMask lo.Netmask)]
    ++ gRouter lo m ++ gIPs 6 (·.DNS) lo m ++ gIPs 42 (·.NTP) lo m ++ gDom lo m ++ gHost m

theorem dhcpOptions_pure (sx : Gen.server.server) (mac : Bytes) (hl : 0 ≤ sx.lopts.LeaseDuration) :
    Gen.server.server_dhcpOptions sx mac =
      .ok (goOpts sx.lopts (Go.mapGet? sx.overrides (duidKey (sduid mac)))) := by
  unfold Gen.server.server_dhcpOptions
  rw [OptionIPAddressLeaseDuration_eq _ hl, CodeIpdb.duidFromHwAddr_eq, Duid_String_eq]
  simp -zeta only [bind_ok]
  extract_lets opts m1 ov ok jp5 jp4 jp3 jp2 jp1
  refine (stageM jp1 _ _ _ _ _ _ _ (CodeMisc.OptionRouter_eq _) (CodeMisc.OptionRouter_eq _)).trans ?_
  refine (stageM jp2 _ _ _ _ _ _ _ (CodeMisc.optIP_eq 6 _) (CodeMisc.optIP_eq 6 _)).trans ?_
  refine (stageM jp3 _ _ _ _ _ _ _ (CodeMisc.optIP_eq 42 _) (CodeMisc.optIP_eq 42 _)).trans ?_
  refine (stageP jp4 _ _ _ _ _).trans ?_
  refine (stageH jp5 _ _ _).trans ?_
  rfl

/-! ### the model's `dhcpOptions` in the same shape -/

def effRouter (ov : Option Override) (c : SrvCfg) : Option Ip4 :=
  match ov.bind (·.router) with | some r => some r | none => c.router
def effDNS (ov : Option Override) (c : SrvCfg) : List Ip4 :=
  match ov with | some o => if o.dns.isEmpty then c.dns else o.dns | none => c.dns
def effNTP (ov : Option Override) (c : SrvCfg) : List Ip4 :=
  match ov with | some o => if o.ntp.isEmpty then c.ntp else o.ntp | none => c.ntp
def effHost (ov : Option Override) : Bytes :=
  match ov with | some o => o.hostname | none => []

def routerL (r : Option Ip4) : List Opt := match r with | some r => [optRouter (some r)] | none => []
def ipsL (code : UInt8) (l : List Ip4) : List Opt := if l.isEmpty then [] else [optIPs code (l.map some)]
def domL (d : Bytes) : List Opt := if d.isEmpty then [] else [optDomainName d]
def hostL (d : Bytes) : List Opt := if d.isEmpty then [] else [optHostname d]

theorem model_dhcpOptions (c : SrvCfg) (mac : Bytes) :
    c.dhcpOptions mac =
      [optLease (leaseSecs c.leaseNs), optSubnetMask c.mask]
        ++ routerL (effRouter (c.override? mac) c) ++ ipsL 6 (effDNS (c.override? mac) c)
        ++ ipsL 42 (effNTP (c.override? mac) c) ++ domL c.domain ++ hostL (effHost (c.override? mac)) := rfl

/-! ### the parts agree under `CfgOf` -/

/-- The `overrides` lookup against the model's client entry. -/
def OvMatch (c : SrvCfg) (ovm : Option Override) (m : Option LOpts) : Prop :=
  (ovm = none ∧ m = none) ∨ ∃ o g, ovm = some o ∧ m = some g ∧ OvRep c o g

theorem ovMatch_of_cfg (sx : Gen.server.server) (c : SrvCfg) (h : CfgOf sx c) (mac : Bytes) :
    OvMatch c (c.override? mac) (Go.mapGet? sx.overrides (duidKey (sduid mac))) := by
  have hk := h.2.2.2.2.2.2 mac _ (Duid_String_eq (sduid mac))
  cases hc : c.override? mac with
  | none => rw [hc] at hk; exact .inl ⟨rfl, hk⟩
  | some o =>
    rw [hc] at hk
    obtain ⟨g, hg, hr⟩ := hk
    exact .inr ⟨o, g, rfl, hg, hr⟩

theorem lenpos {α : Type} (xs : List α) : decide (Int.ofNat xs.length > 0) = !xs.isEmpty := by
  cases xs <;> simp

theorem isEmpty_of_map_eq {α β γ : Type} (f : α → γ) (g : β → γ) (xs : List α) (ys : List β)
    (h : xs.map f = ys.map g) : xs.isEmpty = ys.isEmpty := by
  cases xs <;> cases ys <;> simp at h ⊢

theorem router_aux (gR lR : Bytes) (e ce : Option Ip4) (hg : IpRep gR e) (hl : IpRep lR ce)
    (hce : e = none → ce = none) :
    (if (!List.isEmpty gR) = true then [optToGen (optRouter (ipOf gR))]
     else if (!List.isEmpty lR) = true then [optToGen (optRouter (ipOf lR))] else []) =
      (routerL e).map optToGen := by
  cases e with
  | none =>
    have h1 : gR = [] := hg.2.mpr rfl
    have h3 : lR = [] := hl.2.mpr (hce rfl)
    simp [h1, h3, routerL]
  | some r =>
    have h1 : ipOf gR = some r := hg.1
    have h2 : gR ≠ [] := fun e => by have := hg.2.mp e; cases this
    simp [h1, h2, routerL]

theorem router_part (lo : LOpts) (c : SrvCfg) (hR : IpRep lo.Router c.router) (ovm : Option Override)
    (m : Option LOpts) (hm : OvMatch c ovm m) :
    gRouter lo m = (routerL (effRouter ovm c)).map optToGen := by
  rcases hm with ⟨rfl, rfl⟩ | ⟨o, g, rfl, rfl, hg, -⟩
  · simp only [gRouter, effRouter, Option.isSome_none, Bool.false_and, Bool.false_eq_true, if_false, Option.bind_none]
    have := router_aux lo.Router lo.Router c.router c.router hR hR id
    by_cases he : (!List.isEmpty lo.Router) = true
    · simpa [he] using this
    · simpa [he] using this
  · simp only [gRouter, effRouter, Option.isSome_some, Bool.true_and, Option.getD_some, Option.bind_some]
    cases hor : o.router with
    | none =>
      simp only [hor] at hg ⊢
      exact router_aux g.Router lo.Router c.router c.router hg hR id
    | some r =>
      simp only [hor] at hg ⊢
      exact router_aux g.Router lo.Router (some r) c.router hg hR (fun e => by cases e)

theorem ips_part (code : UInt8) (sel : LOpts → List Bytes) (lo : LOpts) (cx eff : List Ip4)
    (hL : (sel lo).map ipOf = cx.map some) (m : Option LOpts)
    (hm : (m = none ∧ eff = cx) ∨ ∃ g, m = some g ∧ (sel g).map ipOf = eff.map some ∧ (eff = [] → cx = [])) :
    gIPs code sel lo m = (ipsL code eff).map optToGen := by
  have hLe := isEmpty_of_map_eq _ _ _ _ hL
  rcases hm with ⟨rfl, rfl⟩ | ⟨g, rfl, hg, hc⟩
  · simp only [gIPs, Option.isSome_none, Bool.false_and, Bool.false_eq_true, if_false, lenpos, hLe, hL, ipsL]
    cases eff <;> simp
  · have hge := isEmpty_of_map_eq _ _ _ _ hg
    simp only [gIPs, Option.isSome_some, Bool.true_and, Option.getD_some, lenpos, hLe, hge, hL, hg, ipsL]
    cases eff with
    | nil => simp [hc rfl]
    | cons a l => simp

theorem dom_part (lo : LOpts) (c : SrvCfg) (hD : lo.Domain = c.domain) (ovm : Option Override)
    (m : Option LOpts) (hm : OvMatch c ovm m) :
    gDom lo m = (domL c.domain).map optToGen := by
  rcases hm with ⟨rfl, rfl⟩ | ⟨o, g, rfl, rfl, -, -, -, hg, -⟩
  · simp only [gDom, hD, domL, CodeMisc.OptionDomainName_eq]
    cases c.domain <;> simp
  · simp only [gDom, Option.isSome_some, Bool.true_and, Option.getD_some, hD, hg, domL, CodeMisc.OptionDomainName_eq]
    cases c.domain <;> simp

theorem host_part (c : SrvCfg) (ovm : Option Override) (m : Option LOpts) (hm : OvMatch c ovm m) :
    gHost m = (hostL (effHost ovm)).map optToGen := by
  rcases hm with ⟨rfl, rfl⟩ | ⟨o, g, rfl, rfl, -, -, -, -, hg⟩
  · simp [gHost, hostL, effHost]
  · simp only [gHost, Option.isSome_some, Bool.true_and, Option.getD_some, hg, hostL, effHost, CodeMisc.OptionHostname_eq]
    by_cases he : o.hostname = []
    · simp [he]
    · simp [he]

theorem dhcpOptions_eq (sx : Gen.server.server) (c : SrvCfg) (mac : Bytes) (h : CfgOf sx c) (hl : 0 ≤ c.leaseNs) :
    Gen.server.server_dhcpOptions sx mac = .ok ((c.dhcpOptions mac).map optToGen) := by
  have hm := ovMatch_of_cfg sx c h mac
  obtain ⟨hLease, hMask, hRouter, hDNS, hNTP, hDom, -⟩ := h
  rw [dhcpOptions_pure sx mac (by rw [hLease]; exact hl), model_dhcpOptions]
  have eD : gIPs 6 (·.DNS) sx.lopts (Go.mapGet? sx.overrides (duidKey (sduid mac))) =
      (ipsL 6 (effDNS (c.override? mac) c)).map optToGen := by
    apply ips_part 6 (·.DNS) sx.lopts c.dns _ hDNS
    rcases hm with ⟨h1, h2⟩ | ⟨o, g, h1, h2, hg⟩
    · exact .inl ⟨h2, by rw [h1]; rfl⟩
    · refine .inr ⟨g, h2, ?_, ?_⟩
      · rw [h1]; exact hg.2.1
      · rw [h1]; simp only [effDNS]; intro he; split at he
        · exact he
        · rename_i hne; rw [he] at hne; exact absurd rfl hne
  have eN : gIPs 42 (·.NTP) sx.lopts (Go.mapGet? sx.overrides (duidKey (sduid mac))) =
      (ipsL 42 (effNTP (c.override? mac) c)).map optToGen := by
    apply ips_part 42 (·.NTP) sx.lopts c.ntp _ hNTP
    rcases hm with ⟨h1, h2⟩ | ⟨o, g, h1, h2, hg⟩
    · exact .inl ⟨h2, by rw [h1]; rfl⟩
    · refine .inr ⟨g, h2, ?_, ?_⟩
      · rw [h1]; exact hg.2.2.1
      · rw [h1]; simp only [effNTP]; intro he; split at he
        · exact he
        · rename_i hne; rw [he] at hne; exact absurd rfl hne
  simp only [goOpts, List.map_append, hLease, hMask, router_part _ c hRouter _ _ hm, eD, eN,
    dom_part _ c hDom _ _ hm, host_part c _ _ hm]
  rfl

end PsaDhcp.Proofs.CodeOptions
