import PsaDhcp.Model.Automaton
/-
Proofs for C15 — the client automaton (`Model/Automaton.lean`): step-level facts about `cstep`,
history-level invariants of `crun`, and the T1/T2/expiry ordering of `boundDeadlines`.
Core Lean only.
-/
namespace PsaDhcp.Proofs.AutomatonP
open PsaDhcp

/-! ### buildNetconfig / filterNetconfig -/

theorem netconfig_fields (m : Msg) (o : DecodedOptions) (nc : Ifconfig) (h : buildNetconfig m o = some nc) :
    nc.ip = m.yiaddr ∧ nc.router = o.routers.head? ∧ nc.mtu = o.interfaceMTU ∧ nc.dns = o.dns ∧ nc.domain = o.domainName ∧
    nc.leaseSecs = o.leaseSecs ∧
    nc.netmask = (match o.subnetMask with
      | some sm => if canonicalMask sm then some sm else m.yiaddr.map defaultMask
      | none => m.yiaddr.map defaultMask) := by
  unfold buildNetconfig at h
  cases hr : o.routers with
  | nil => simp [hr] at h
  | cons r rs =>
    simp only [hr, Option.some.injEq] at h
    subst h
    refine ⟨rfl, rfl, rfl, rfl, rfl, rfl, ?_⟩
    cases o.subnetMask <;> rfl

/-! ### single transitions -/

theorem router_withheld (c : Ifconfig) :
    (filterNetconfig false c).router = none ∧ filterNetconfig true c = c ∧
    { filterNetconfig false c with router := c.router } = c := by
  simp [filterNetconfig]

theorem conflict_starts_over (mac : Bytes) (route : Bool) (s : CState) :
    (s.st = .arpCheck → ∀ who, who ≠ mac →
      cstep mac route s (.arp (some who)) = ({ s with st := .discovering, pending := none }, [.panicUnconfigure, .wait30] ++ purgeEffs)) ∧
    (s.st = .ifconfig →
      cstep mac route s (.ifaceResult false) = ({ s with st := .discovering, pending := none }, [.panicUnconfigure, .wait30] ++ purgeEffs)) := by
  rcases s with ⟨st, last, pending⟩
  refine ⟨?_, ?_⟩
  · rintro h who hw
    simp only at h; subst h
    simp [cstep, toPurge, hw]
  · intro h
    simp only at h; subst h
    simp [cstep, toPurge]

theorem renew_rebind_expire (mac : Bytes) (route : Bool) (s : CState) :
    (s.st = .bound → cstep mac route s .t1 = ({ s with st := .renewing }, [.send .renewing (lastYiaddr s) (lastSid s)])) ∧
    (s.st = .renewing → cstep mac route s .deadline = ({ s with st := .rebinding }, [.send .rebinding (lastYiaddr s) none])) ∧
    (s.st = .renewing → cstep mac route s .nack = ({ s with st := .discovering, pending := none }, purgeEffs)) ∧
    (s.st = .rebinding → cstep mac route s .nack = ({ s with st := .discovering, pending := none }, purgeEffs)) ∧
    (s.st = .rebinding → cstep mac route s .deadline = ({ s with st := .discovering, pending := none }, purgeEffs)) ∧
    Eff.unconfigure ∈ purgeEffs ∧ purgeEffs.getLast? = some (.send .discover none none) := by
  rcases s with ⟨st, last, pending⟩
  refine ⟨?_, ?_, ?_, ?_, ?_, ?_, ?_⟩ <;> first
    | (intro h; simp only at h; subst h; simp [cstep, toPurge])
    | simp [purgeEffs]

theorem linkup_revalidates (mac : Bytes) (route : Bool) (s : CState) :
    ((s.st = .bound ∨ s.st = .renewing) →
      cstep mac route s .linkUp = ({ s with st := .rebinding }, [.resume5s, .send .rebinding (lastYiaddr s) none])) ∧
    ((s.st = .discovering ∨ s.st = .selecting ∨ s.st = .arpCheck ∨ s.st = .ifconfig ∨ s.st = .rebinding) →
      cstep mac route s .linkUp = ({ s with st := .discovering, pending := none }, purgeEffs)) := by
  rcases s with ⟨st, last, pending⟩
  cases st <;> simp [cstep, toPurge]

/-! ### where `setIface` comes from -/

/-- Where `setIface` can come from: only `enterIfconfig`. -/
theorem enterIfconfig_setIface (route : Bool) (s : CState) (c : Ifconfig)
    (h : .setIface c ∈ (enterIfconfig route s).2) :
    ∃ m o nc, s.last = some (m, o) ∧ buildNetconfig m o = some nc ∧ c = filterNetconfig route nc ∧
      .pre c ∈ (enterIfconfig route s).2 ∧ (enterIfconfig route s).1.pending = some c := by
  unfold enterIfconfig at h ⊢
  cases hl : s.last with
  | none => simp [hl] at h
  | some p =>
    obtain ⟨m, o⟩ := p
    cases hb : buildNetconfig m o with
    | none => simp [hl, hb] at h
    | some nc =>
      simp [hl, hb] at h
      subst h
      exact ⟨m, o, nc, rfl, hb, rfl, by simp [hb]⟩

theorem enterBound_no_setIface (s : CState) (c : Ifconfig) : Eff.setIface c ∉ (enterBound s).2 := by
  unfold enterBound
  split <;> simp

theorem setIface_step_core (mac : Bytes) (route : Bool) (s : CState) (e : CEv) (c : Ifconfig)
    (h : .setIface c ∈ (cstep mac route s e).2) :
    s.st = .arpCheck ∧ (e = .arp none ∨ e = .arp (some mac)) ∧
      cstep mac route s e = enterIfconfig route s := by
  rcases s with ⟨st, last, pending⟩
  cases st <;> cases e
  case arpCheck.arp ans =>
    cases ans with
    | none => exact ⟨rfl, Or.inl rfl, by simp [cstep]⟩
    | some who =>
      by_cases hw : who = mac
      · subst hw
        exact ⟨rfl, Or.inr rfl, by simp [cstep]⟩
      · exfalso
        simp [cstep, hw, toPurge, purgeEffs] at h
  case ifconfig.ifaceResult ok =>
    exfalso
    cases ok
    · simp [cstep, toPurge, purgeEffs] at h
    · cases pending with
      | none => simp [cstep] at h
      | some f =>
        have := enterBound_no_setIface ⟨.ifconfig, last, some f⟩ c
        simp [cstep] at h
        exact this h
  all_goals (exfalso; revert h; simp [cstep, toPurge, enterArpCheck, purgeEffs])

theorem setIface_step (mac : Bytes) (route : Bool) (s : CState) (e : CEv) (c : Ifconfig)
    (h : .setIface c ∈ (cstep mac route s e).2) :
    s.st = .arpCheck ∧ (e matches .arp none ∨ e matches .arp (some _)) ∧
    (∀ who, (match e with | .arp (some w) => w = who | _ => False) → who = mac) ∧
    ∃ m o nc, s.last = some (m, o) ∧ buildNetconfig m o = some nc ∧ c = filterNetconfig route nc ∧
      .pre c ∈ (cstep mac route s e).2 ∧ (cstep mac route s e).1.pending = some c := by
  obtain ⟨hst, he, hs⟩ := setIface_step_core mac route s e c h
  have hx := enterIfconfig_setIface route s c (hs ▸ h)
  rw [← hs] at hx
  refine ⟨hst, ?_, ?_, hx⟩
  · rcases he with he | he
    · subst he; exact Or.inl rfl
    · subst he; exact Or.inr rfl
  · rcases he with he | he
    · subst he; intro who hw; exact hw.elim
    · subst he; intro who hw; exact hw.symm
 

theorem enterIfconfig_last (route : Bool) (s : CState) : (enterIfconfig route s).1.last = s.last := by
  unfold enterIfconfig; split
  · rfl
  · split <;> rfl

theorem enterIfconfig_st (route : Bool) (s : CState) : (enterIfconfig route s).1.st = .ifconfig := by
  unfold enterIfconfig; split
  · rfl
  · split <;> rfl

theorem enterBound_last (s : CState) : (enterBound s).1.last = s.last := by
  unfold enterBound; split <;> rfl

theorem enterBound_st (s : CState) : (enterBound s).1.st = .bound := by
  unfold enterBound; split <;> rfl

theorem crun_nil (mac : Bytes) (route : Bool) (s : CState) : crun mac route s [] = (s, []) := rfl

theorem crun_cons (mac : Bytes) (route : Bool) (s : CState) (e : CEv) (rest : List CEv) :
    crun mac route s (e :: rest) =
      ((crun mac route (cstep mac route s e).1 rest).1,
       (cstep mac route s e).2 ++ (crun mac route (cstep mac route s e).1 rest).2) := rfl

/-- One step changes `last` only by storing the accepted reply. -/
theorem step_last (mac : Bytes) (route : Bool) (s : CState) (e : CEv) :
    (cstep mac route s e).1.last = s.last ∨
      ∃ m o, e = .accepted m o ∧ (cstep mac route s e).1.last = some (m, o) := by
  rcases s with ⟨st, last, pending⟩
  cases st <;> cases e
  case arpCheck.arp ans =>
    cases ans with
    | none => simp [cstep, enterIfconfig_last]
    | some who => by_cases hw : who = mac <;> simp [cstep, hw, toPurge, enterIfconfig_last]
  case ifconfig.ifaceResult ok =>
    cases ok
    · simp [cstep, toPurge]
    · cases pending <;> simp [cstep, enterBound_last]
  all_goals simp [cstep, toPurge, enterArpCheck]

/-- The ARP-check state is entered only by an accepted reply, with a probe of its address;
otherwise it is kept unchanged. -/
theorem step_arpCheck (mac : Bytes) (route : Bool) (s : CState) (e : CEv)
    (h : (cstep mac route s e).1.st = .arpCheck) :
    (s.st = .arpCheck ∧ (cstep mac route s e).1.last = s.last) ∨
      ∃ m o, e = .accepted m o ∧ (cstep mac route s e).1.last = some (m, o) ∧
        Eff.arpProbe m.yiaddr ∈ (cstep mac route s e).2 := by
  rcases s with ⟨st, last, pending⟩
  cases st <;> cases e
  case arpCheck.arp ans =>
    cases ans with
    | none => simp [cstep, enterIfconfig_st] at h
    | some who => by_cases hw : who = mac <;> simp [cstep, hw, toPurge, enterIfconfig_st] at h
  case ifconfig.ifaceResult ok =>
    cases ok
    · simp [cstep, toPurge] at h
    · cases pending <;> simp [cstep, enterBound_st] at h
  all_goals (revert h; simp [cstep, toPurge, enterArpCheck, lastYiaddr])

theorem crun_last (mac : Bytes) (route : Bool) (evs : List CEv) (m : Msg) (o : DecodedOptions) :
    ∀ s : CState, (crun mac route s evs).1.last = some (m, o) →
      s.last = some (m, o) ∨ CEv.accepted m o ∈ evs := by
  induction evs with
  | nil => intro s h; exact Or.inl h
  | cons e rest ih =>
    intro s h
    rw [crun_cons] at h
    rcases ih _ h with h1 | h1
    · rcases step_last mac route s e with h2 | ⟨m', o', he, h2⟩
      · exact Or.inl (h2 ▸ h1)
      · rw [h2] at h1
        simp only [Option.some.injEq, Prod.mk.injEq] at h1
        obtain ⟨rfl, rfl⟩ := h1
        exact Or.inr (he ▸ List.mem_cons_self)
    · exact Or.inr (List.mem_cons_of_mem _ h1)

theorem last_was_accepted (mac : Bytes) (route : Bool) (evs : List CEv) (m : Msg) (o : DecodedOptions)
    (h : (crun mac route cinit.1 evs).1.last = some (m, o)) : ∃ e ∈ evs, e matches .accepted _ _ ∧
      (match e with | .accepted m' o' => m' = m ∧ o' = o | _ => False) := by
  rcases crun_last mac route evs m o _ h with h1 | h1
  · simp [cinit] at h1
  · exact ⟨_, h1, rfl, rfl, rfl⟩

/-! ### routers_never_empty -/

theorem buildNetconfig_isSome (m : Msg) (o : DecodedOptions) (h : o.routers ≠ []) :
    ∃ nc, buildNetconfig m o = some nc := by
  unfold buildNetconfig
  cases hr : o.routers with
  | nil => exact (h hr).elim
  | cons r rs => exact ⟨_, rfl⟩

theorem enterIfconfig_no_fatal (route : Bool) (s : CState)
    (h : ∃ m o, s.last = some (m, o) ∧ o.routers ≠ []) :
    Eff.fatalRoutersEmpty ∉ (enterIfconfig route s).2 := by
  obtain ⟨m, o, hl, hr⟩ := h
  obtain ⟨nc, hb⟩ := buildNetconfig_isSome m o hr
  simp [enterIfconfig, hl, hb]

theorem enterBound_no_fatal (s : CState) : Eff.fatalRoutersEmpty ∉ (enterBound s).2 := by
  unfold enterBound; split <;> simp

theorem step_no_fatal (mac : Bytes) (route : Bool) (s : CState) (e : CEv)
    (h : s.st = .arpCheck → ∃ m o, s.last = some (m, o) ∧ o.routers ≠ []) :
    Eff.fatalRoutersEmpty ∉ (cstep mac route s e).2 := by
  rcases s with ⟨st, last, pending⟩
  cases st <;> cases e
  case arpCheck.arp ans =>
    have h' := enterIfconfig_no_fatal route _ (h rfl)
    cases ans with
    | none => simpa [cstep] using h'
    | some who =>
      by_cases hw : who = mac
      · simpa [cstep, hw] using h'
      · simp [cstep, hw, toPurge, purgeEffs]
  case ifconfig.ifaceResult ok =>
    cases ok
    · simp [cstep, toPurge, purgeEffs]
    · cases pending with
      | none => simp [cstep]
      | some f => simpa [cstep] using enterBound_no_fatal _
  all_goals simp [cstep, toPurge, enterArpCheck, purgeEffs]

theorem crun_no_fatal (mac : Bytes) (route : Bool) (evs : List CEv) :
    ∀ s : CState, (∀ m o, s.last = some (m, o) → o.routers ≠ []) → (s.st = .arpCheck → s.last ≠ none) →
      (∀ m o, CEv.accepted m o ∈ evs → o.routers ≠ []) →
      Eff.fatalRoutersEmpty ∉ (crun mac route s evs).2 := by
  induction evs with
  | nil => intro s _ _ _; simp [crun_nil]
  | cons e rest ih =>
    intro s h1 h2 hv
    rw [crun_cons]
    simp only [List.mem_append, not_or]
    refine ⟨step_no_fatal mac route s e ?_, ih _ ?_ ?_ ?_⟩
    · intro hst
      cases hl : s.last with
      | none => exact (h2 hst hl).elim
      | some p => exact ⟨p.1, p.2, rfl, h1 p.1 p.2 hl⟩
    · intro m o hl
      rcases step_last mac route s e with h3 | ⟨m', o', he, h3⟩
      · exact h1 m o (h3 ▸ hl)
      · rw [h3] at hl
        simp only [Option.some.injEq, Prod.mk.injEq] at hl
        obtain ⟨rfl, rfl⟩ := hl
        exact hv m' o' (he ▸ List.mem_cons_self)
    · intro hst
      rcases step_arpCheck mac route s e hst with ⟨h3, h4⟩ | ⟨m', o', _, h4, _⟩
      · rw [h4]; exact h2 h3
      · rw [h4]; simp
    · intro m o hm; exact hv m o (List.mem_cons_of_mem _ hm)

theorem routers_never_empty (mac : Bytes) (route : Bool) (evs : List CEv)
    (hv : ∀ e ∈ evs, match e with | .accepted _ o => o.routers ≠ [] | _ => True) :
    Eff.fatalRoutersEmpty ∉ (crun mac route cinit.1 evs).2 := by
  apply crun_no_fatal
  · intro m o h; simp [cinit] at h
  · intro h; simp [cinit] at h
  · intro m o hm; exact hv _ hm

/-! ### setIface_only_acknowledged -/

theorem crun_setIface (mac : Bytes) (route : Bool) (c : Ifconfig) (evs : List CEv) :
    ∀ (s : CState) (Acc : Msg → DecodedOptions → Prop) (Probed : Option Ip4 → Prop),
      (∀ m o, s.last = some (m, o) → Acc m o) →
      (s.st = .arpCheck → ∃ m o, s.last = some (m, o) ∧ Probed m.yiaddr) →
      Eff.setIface c ∈ (crun mac route s evs).2 →
      ∃ m o nc, (Acc m o ∨ CEv.accepted m o ∈ evs) ∧ buildNetconfig m o = some nc ∧
        c = filterNetconfig route nc ∧
        (Probed m.yiaddr ∨ Eff.arpProbe m.yiaddr ∈ (crun mac route s evs).2) := by
  induction evs with
  | nil => intro s Acc Probed _ _ h; simp [crun_nil] at h
  | cons e rest ih =>
    intro s Acc Probed h1 h2 h
    rw [crun_cons] at h ⊢
    simp only [List.mem_append] at h
    rcases h with h | h
    · -- emitted in this very step
      obtain ⟨hst, _, _, m, o, nc, hl, hb, hc, _, _⟩ := setIface_step mac route s e c h
      obtain ⟨m', o', hl', hp⟩ := h2 hst
      rw [hl] at hl'
      simp only [Option.some.injEq, Prod.mk.injEq] at hl'
      obtain ⟨rfl, rfl⟩ := hl'
      exact ⟨m, o, nc, Or.inl (h1 m o hl), hb, hc, Or.inl hp⟩
    · -- emitted later
      have := ih (cstep mac route s e).1 (fun m o => Acc m o ∨ e = .accepted m o)
        (fun ip => Probed ip ∨ Eff.arpProbe ip ∈ (cstep mac route s e).2) ?_ ?_ h
      · obtain ⟨m, o, nc, ha, hb, hc, hp⟩ := this
        refine ⟨m, o, nc, ?_, hb, hc, ?_⟩
        · rcases ha with (ha | ha) | ha
          · exact Or.inl ha
          · exact Or.inr (ha ▸ List.mem_cons_self)
          · exact Or.inr (List.mem_cons_of_mem _ ha)
        · simp only [List.mem_append]
          rcases hp with (hp | hp) | hp
          · exact Or.inl hp
          · exact Or.inr (Or.inl hp)
          · exact Or.inr (Or.inr hp)
      · intro m o hl
        rcases step_last mac route s e with h3 | ⟨m', o', he, h3⟩
        · exact Or.inl (h1 m o (h3 ▸ hl))
        · rw [h3] at hl
          simp only [Option.some.injEq, Prod.mk.injEq] at hl
          obtain ⟨rfl, rfl⟩ := hl
          exact Or.inr he
      · intro hst
        rcases step_arpCheck mac route s e hst with ⟨h3, h4⟩ | ⟨m', o', _, h4, h5⟩
        · obtain ⟨m, o, hl, hp⟩ := h2 h3
          exact ⟨m, o, h4 ▸ hl, Or.inl hp⟩
        · exact ⟨m', o', h4, Or.inr h5⟩

theorem setIface_only_acknowledged (mac : Bytes) (route : Bool) (evs : List CEv) (c : Ifconfig)
    (h : .setIface c ∈ (crun mac route cinit.1 evs).2) :
    ∃ m o nc, (∃ e ∈ evs, match e with | .accepted m' o' => m' = m ∧ o' = o | _ => False) ∧
      buildNetconfig m o = some nc ∧ c = filterNetconfig route nc ∧
      Eff.arpProbe m.yiaddr ∈ (crun mac route cinit.1 evs).2 := by
  obtain ⟨m, o, nc, ha, hb, hc, hp⟩ := crun_setIface mac route c evs cinit.1 (fun _ _ => False) (fun _ => False)
    (by intro m o hl; simp [cinit] at hl) (by intro hst; simp [cinit] at hst) h
  refine ⟨m, o, nc, ?_, hb, hc, ?_⟩
  · rcases ha with ha | ha
    · exact ha.elim
    · exact ⟨_, ha, rfl, rfl⟩
  · rcases hp with hp | hp
    · exact hp.elim
    · exact hp

/-! ### deadlines: rounding to 53 significant bits -/


theorem round53_small (q : Nat) (h : Nat.log2 q + 1 ≤ 53) : round53 q = q := by
  simp [round53, h]

/-- Rounding at a fixed exponent: the result is within half a unit. -/
theorem round_at (q e : Nat) (he : 1 ≤ e) :
    let unit := 2 ^ e
    let lo := q / unit
    let rem := q % unit
    let half := unit / 2
    let up := if rem > half then true else if rem < half then false else decide (lo % 2 = 1)
    q ≤ (if up then lo + 1 else lo) * unit + half ∧ (if up then lo + 1 else lo) * unit ≤ q + half := by
  intro unit lo rem half up
  have hu : 0 < unit := Nat.two_pow_pos e
  have hdm : unit * lo + rem = q := Nat.div_add_mod q unit
  have hrem : rem < unit := Nat.mod_lt _ hu
  have hhalf : unit = 2 * half := by
    show 2 ^ e = 2 * (2 ^ e / 2)
    obtain ⟨k, rfl⟩ : ∃ k, e = k + 1 := ⟨e - 1, by omega⟩
    rw [Nat.pow_succ]; omega
  have hmul : (lo + 1) * unit = lo * unit + unit := by rw [Nat.add_mul, Nat.one_mul]
  have hcomm : unit * lo = lo * unit := Nat.mul_comm _ _
  by_cases h1 : rem > half
  · have : up = true := by simp [up, h1]
    simp only [this, if_true]
    omega
  · by_cases h2 : rem < half
    · have : up = false := by simp [up, h1, h2]
      simp only [this]
      simp only [Bool.false_eq_true, if_false]
      omega
    · have hr : rem = half := by omega
      cases hup : up
      · simp only [Bool.false_eq_true, if_false]; omega
      · simp only [if_true]; omega

theorem round53_near (q : Nat) (h : ¬ Nat.log2 q + 1 ≤ 53) :
    q ≤ round53 q + 2 ^ (Nat.log2 q + 1 - 53) / 2 ∧ round53 q ≤ q + 2 ^ (Nat.log2 q + 1 - 53) / 2 := by
  have := round_at q (Nat.log2 q + 1 - 53) (by omega)
  unfold round53
  rw [if_neg h]
  exact this

theorem round53_bounds (q : Nat) :
    q - q / 9007199254740992 ≤ round53 q ∧ round53 q ≤ q + q / 9007199254740992 := by
  by_cases h : Nat.log2 q + 1 ≤ 53
  · rw [round53_small q h]; omega
  · have hn := round53_near q h
    have hq0 : q ≠ 0 := by
      intro h0; subst h0; exact h (by decide)
    have hle : 2 ^ Nat.log2 q ≤ q := Nat.log2_self_le hq0
    obtain ⟨k, hk⟩ : ∃ k, Nat.log2 q = k + 53 := ⟨Nat.log2 q - 53, by omega⟩
    have he : Nat.log2 q + 1 - 53 = k + 1 := by omega
    rw [he, Nat.pow_succ, Nat.mul_div_cancel _ (by decide : 0 < 2)] at hn
    rw [hk, Nat.pow_add] at hle
    have hh : 2 ^ k ≤ q / 9007199254740992 := by
      rw [Nat.le_div_iff_mul_le (by decide)]
      simpa using hle
    omega

theorem deadlines_ordered (o : DecodedOptions) (hl : o.leaseSecs < 4294967296) :
    (boundDeadlines o).t1 ≤ (boundDeadlines o).t2 ∧ (boundDeadlines o).t2 ≤ (boundDeadlines o).tx ∧
    (boundDeadlines o).tx = o.leaseSecs * 1000000000 ∧
    (if 60 < o.renewalSecs ∧ o.renewalSecs < o.rebindSecs ∧ o.rebindSecs < o.leaseSecs
     then (boundDeadlines o).t1 = o.renewalSecs * 1000000000 ∧ (boundDeadlines o).t2 = o.rebindSecs * 1000000000
     else (boundDeadlines o).t1 = o.leaseSecs * 1000000000 / 2 ∧
          7 * (o.leaseSecs * 1000000000) / 8 - (o.leaseSecs * 1000000000) / 4503599627370496 ≤ (boundDeadlines o).t2 ∧
          (boundDeadlines o).t2 ≤ 7 * (o.leaseSecs * 1000000000) / 8 + (o.leaseSecs * 1000000000) / 4503599627370496) := by
  by_cases hc : 60 < o.renewalSecs ∧ o.renewalSecs < o.rebindSecs ∧ o.rebindSecs < o.leaseSecs
  · have hc' : o.renewalSecs * 1000000000 > 60000000000 ∧ o.rebindSecs * 1000000000 > o.renewalSecs * 1000000000 ∧
        o.rebindSecs * 1000000000 < o.leaseSecs * 1000000000 := by omega
    have hb : boundDeadlines o = { t1 := o.renewalSecs * 1000000000, t2 := o.rebindSecs * 1000000000, tx := o.leaseSecs * 1000000000 } := by
      simp only [boundDeadlines, if_pos hc']
    rw [hb, if_pos hc]
    refine ⟨?_, ?_, rfl, rfl, rfl⟩ <;> simp only <;> omega
  · have hc' : ¬ (o.renewalSecs * 1000000000 > 60000000000 ∧ o.rebindSecs * 1000000000 > o.renewalSecs * 1000000000 ∧
        o.rebindSecs * 1000000000 < o.leaseSecs * 1000000000) := by omega
    have hb : boundDeadlines o = { t1 := o.leaseSecs * 1000000000 / 2, t2 := round53 (o.leaseSecs * 1000000000 * 7 / 8), tx := o.leaseSecs * 1000000000 } := by
      simp only [boundDeadlines, if_neg hc', halfOf, sevenEighths]
    rw [hb, if_neg hc]
    have hr := round53_bounds (o.leaseSecs * 1000000000 * 7 / 8)
    generalize round53 (o.leaseSecs * 1000000000 * 7 / 8) = t at hr
    refine ⟨?_, ?_, rfl, rfl, ?_, ?_⟩ <;> simp only <;> omega

end PsaDhcp.Proofs.AutomatonP
