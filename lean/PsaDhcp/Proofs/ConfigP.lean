import PsaDhcp.Model.Config
import PsaDhcp.Spec.ConfigSpec
import PsaDhcp.Proofs.Ipdb
/-
Proofs for C18 (configuration handling of `server.New`).
-/
namespace PsaDhcp.Proofs.ConfigP
open PsaDhcp PsaDhcp.Spec PsaDhcp.Proofs.Ipdb

/-! ## `newServer` in stages

`newServer` is a large `do` block; unfolding it with `simp`/`dsimp` is prohibitively expensive for
the kernel (nested join points), and the kernel must never be made to evaluate the range checks
of `toUip` on an open address (`Ip4.toNat` multiplies by `16777216`).  So the two database calls
are first abstracted into opaque functions `AP` / `SD`, and `newServer` is shown equal to a staged
copy `newServerP` by case analysis and evaluation only. -/

section Generic
variable {σ : Type}

/-- The duplicate check and the extension of the override list. -/
def dupCheck (db : IPDB σ) (ovs : List (Bytes × LOpts)) (mac : Bytes) (oo : LOpts) :
    Except CfgErr (IPDB σ × List (Bytes × LOpts)) :=
  if ovs.any (·.1 = mac) then .error .duplicateClient else .ok (db, ovs ++ [(mac, oo)])

/-- One client entry (the `step` of `newServer`) over an abstract `AddPermanentClient`. -/
def stepC (AP : IPDB σ → Int → Option Ip4 → Duid → IPDB σ × Except DbErr Unit) (lo : LOpts) (t : Int)
    (acc : Except CfgErr (IPDB σ × List (Bytes × LOpts))) (c : RawClient) :
    Except CfgErr (IPDB σ × List (Bytes × LOpts)) :=
  match acc with
  | .error e => .error e
  | .ok (db, ovs) =>
    match c.mac with
    | none => .error .badMac
    | some mac =>
      match setClientOverrides lo c with
      | .error e => .error e
      | .ok oo =>
        match oo.ip with
        | none => dupCheck db ovs mac oo
        | some ip =>
          match AP db t (some ip) (sduid mac) with
          | (db', .ok _) => dupCheck db' ovs mac oo
          | (_, .error _) => .error .staticRejected

def mkOv : Bytes × LOpts → Override := fun (m, o) =>
  { mac := m, ip := o.ip, router := o.router, dns := o.dns, ntp := o.ntp, hostname := o.hostname }

def mkCfg (r : RawCfg) (selfIp : Ip4) (lo : LOpts) (p : Nat) (ovs : List (Bytes × LOpts)) : SrvCfg :=
  { selfIp := selfIp, selfMac := r.selfMac, leaseNs := lo.leaseNs, mask := maskOf p, router := lo.router,
    dns := lo.dns, ntp := lo.ntp, domain := lo.domain, overrides := ovs.map mkOv }

/-- Registration of the server's own address and assembly of the result. -/
def finish (AP : IPDB σ → Int → Option Ip4 → Duid → IPDB σ × Except DbErr Unit) (r : RawCfg) (t : Int)
    (selfIp : Ip4) (lo : LOpts) (p : Nat) (F : Except CfgErr (IPDB σ × List (Bytes × LOpts))) : Except CfgErr (Started σ) :=
  match F with
  | .error e => .error e
  | .ok (db1, ovs) =>
    match AP db1 t (some selfIp) (sduid r.selfMac) with
    | (db2, .ok _) => .ok { cfg := mkCfg r selfIp lo p ovs, db := db2, merged := ovs }
    | (_, .error _) => .error .selfOutside

def tailP (AP : IPDB σ → Int → Option Ip4 → Duid → IPDB σ × Except DbErr Unit) (r : RawCfg) (clients : List RawClient) (t : Int)
    (selfIp : Ip4) (lo : LOpts) (p : Nat) (db0 : IPDB σ) : Except CfgErr (Started σ) :=
  finish AP r t selfIp lo p
    (clients.foldl (stepC AP lo t) (pure (if r.staticOnly then db0.disableDynamic else db0, [])))

def newServerP (AP : IPDB σ → Int → Option Ip4 → Duid → IPDB σ × Except DbErr Unit)
    (SD : IPDB σ → Option Ip4 → Option Ip4 → IPDB σ × Except DbErr Unit)
    (empty : σ) (r : RawCfg) (clients : List RawClient) (t : Int) : Except CfgErr (Started σ) :=
  match r.selfIp with
  | none => .error .noSelfAddr
  | some selfIp =>
    match parseConfig r with
    | .error e => .error e
    | .ok (lo, base, p) =>
      match r.dyn with
      | .absent => tailP AP r clients t selfIp lo p (IPDB.new empty base p)
      | .badFormat => .error .badDynFormat
      | .badIp => .error .badDynIp
      | .range a b =>
        match SD (IPDB.new empty base p) (some a) (some b) with
        | (db', .ok _) => tailP AP r clients t selfIp lo p db'
        | (_, .error _) => .error .dynOutside

theorem foldl_congr_step {α β : Type} {f g : β → α → β} (h : ∀ b a, f b a = g b a) (l : List α) (b : β) :
    l.foldl f b = l.foldl g b := by
  have : f = g := funext fun b => funext fun a => h b a
  rw [this]

/-- Closes `(do-block of one client) acc c = stepC AP lo t acc c` by case analysis and evaluation. -/
local macro "step_tac" AP:ident lo:ident : tactic => `(tactic| (
  intro acc c
  unfold stepC
  cases acc with
  | error e => rfl
  | ok v =>
    obtain ⟨db, ovs⟩ := v
    cases hm : RawClient.mac c with
    | none => rfl
    | some mac =>
      cases hs : setClientOverrides $lo c with
      | error e => rfl
      | ok oo =>
        obtain ⟨ip, dom, host, ro, dns, ntp, lease⟩ := oo
        cases ip with
        | none => rfl
        | some i =>
          conv => lhs; whnf
          conv => rhs; whnf
          generalize $AP db _ (some i) (sduid mac) = res
          obtain ⟨db', e⟩ := res
          cases e <;> rfl))

/-- From the point where the fold over the clients is the head of both sides. -/
local macro "tail_tac" AP:ident lo:ident t:ident clients:ident selfIp:ident r:ident : tactic => `(tactic| (
  rewrite [foldl_congr_step (g := stepC $AP $lo $t)]
  · conv => rhs; whnf
    generalize List.foldl (stepC $AP $lo $t) _ $clients = F
    cases F with
    | error e => rfl
    | ok v =>
      obtain ⟨db1, ovs⟩ := v
      conv => lhs; whnf
      conv => rhs; whnf
      generalize $AP db1 $t (some $selfIp) (sduid (RawCfg.selfMac $r)) = res
      obtain ⟨db2, e⟩ := res
      cases e <;> rfl
  · step_tac $AP $lo))

theorem newServer_eq (S : Store σ) (empty : σ) (r : RawCfg) (clients : List RawClient) (t : Int) :
    newServer S empty r clients t = newServerP (IPDB.addPermanent S) IPDB.setDynamicRange empty r clients t := by
  unfold newServer
  generalize IPDB.addPermanent S = AP
  generalize @IPDB.setDynamicRange σ = SD
  revert AP SD
  -- as a separate lemma, so that the kernel checks it with `AP`, `SD` opaque
  as_aux_lemma =>
  intro AP SD
  unfold newServerP
  cases r.selfIp with
  | none => rfl
  | some selfIp =>
    cases parseConfig r with
    | error e => rfl
    | ok x =>
      obtain ⟨lo, base, p⟩ := x
      cases r.dyn with
      | badFormat => rfl
      | badIp => rfl
      | absent =>
        conv => lhs; whnf
        tail_tac AP lo t clients selfIp r
      | range a b =>
        conv => lhs; whnf
        conv => rhs; whnf
        generalize SD (IPDB.new empty base p) (some a) (some b) = res
        obtain ⟨db0, e⟩ := res
        cases e with
        | error x => rfl
        | ok u =>
          conv => lhs; whnf
          tail_tac AP lo t clients selfIp r

/-! ### Normal forms of the stages (still over opaque `AP`, `SD`) -/

theorem dupCheck_ok_iff {db db' : IPDB σ} {ovs ovs' : List (Bytes × LOpts)} {mac : Bytes} {oo : LOpts} :
    dupCheck db ovs mac oo = .ok (db', ovs') ↔
      ovs.any (·.1 = mac) = false ∧ db' = db ∧ ovs' = ovs ++ [(mac, oo)] := by
  unfold dupCheck
  cases h : ovs.any (·.1 = mac) with
  | true => simp
  | false =>
    simp only [Bool.false_eq_true, if_false, Except.ok.injEq, Prod.mk.injEq, true_and]
    constructor
    · rintro ⟨rfl, rfl⟩; exact ⟨rfl, rfl⟩
    · rintro ⟨rfl, rfl⟩; exact ⟨rfl, rfl⟩

/-- The static address of an entry (if any) is accepted by the database. -/
def AddOK (AP : IPDB σ → Int → Option Ip4 → Duid → IPDB σ × Except DbErr Unit) (t : Int) (db : IPDB σ)
    (oip : Option Ip4) (mac : Bytes) (db' : IPDB σ) : Prop :=
  (oip = none ∧ db' = db) ∨ ∃ ip u, oip = some ip ∧ AP db t (some ip) (sduid mac) = (db', .ok u)

variable (AP : IPDB σ → Int → Option Ip4 → Duid → IPDB σ × Except DbErr Unit)
variable (SD : IPDB σ → Option Ip4 → Option Ip4 → IPDB σ × Except DbErr Unit)

theorem stepC_error (lo : LOpts) (t : Int) (e : CfgErr) (c : RawClient) : stepC AP lo t (.error e) c = .error e := rfl

theorem stepC_ok_iff (lo : LOpts) (t : Int) (db db' : IPDB σ) (ovs ovs' : List (Bytes × LOpts)) (c : RawClient) :
    stepC AP lo t (.ok (db, ovs)) c = .ok (db', ovs') ↔
      ∃ mac oo, c.mac = some mac ∧ setClientOverrides lo c = .ok oo ∧ AddOK AP t db oo.ip mac db' ∧
        ovs.any (·.1 = mac) = false ∧ ovs' = ovs ++ [(mac, oo)] := by
  constructor
  · intro h
    unfold stepC at h
    simp only at h
    cases hm : c.mac with
    | none => rw [hm] at h; simp at h
    | some mac =>
      rw [hm] at h
      simp only at h
      cases hs : setClientOverrides lo c with
      | error e => rw [hs] at h; simp at h
      | ok oo =>
        rw [hs] at h
        simp only at h
        refine ⟨mac, oo, rfl, rfl, ?_⟩
        cases hip : oo.ip with
        | none =>
          rw [hip] at h
          simp only [dupCheck_ok_iff] at h
          exact ⟨Or.inl ⟨rfl, h.2.1⟩, h.1, h.2.2⟩
        | some ip =>
          rw [hip] at h
          simp only at h
          cases hap : AP db t (some ip) (sduid mac) with
          | mk db1 res =>
            rw [hap] at h
            cases res with
            | error x => simp at h
            | ok u =>
              simp only [dupCheck_ok_iff] at h
              obtain ⟨h1, rfl, h3⟩ := h
              exact ⟨Or.inr ⟨ip, u, rfl, hap⟩, h1, h3⟩
  · rintro ⟨mac, oo, hm, hs, hadd, hany, rfl⟩
    unfold stepC
    simp only [hm, hs]
    rcases hadd with ⟨hip, rfl⟩ | ⟨ip, u, hip, hap⟩
    · rw [hip]; exact dupCheck_ok_iff.2 ⟨hany, rfl, rfl⟩
    · rw [hip]; simp only [hap]; exact dupCheck_ok_iff.2 ⟨hany, rfl, rfl⟩

theorem foldl_stepC_error (lo : LOpts) (t : Int) (e : CfgErr) (cs : List RawClient) :
    cs.foldl (stepC AP lo t) (.error e) = .error e := by
  induction cs with
  | nil => rfl
  | cons c cs ih => rw [List.foldl_cons, stepC_error]; exact ih

theorem foldl_stepC_snoc (lo : LOpts) (t : Int) (init : Except CfgErr (IPDB σ × List (Bytes × LOpts)))
    (cs : List RawClient) (c : RawClient) :
    (cs ++ [c]).foldl (stepC AP lo t) init = stepC AP lo t (cs.foldl (stepC AP lo t) init) c := by
  rw [List.foldl_append]; rfl

/-- The dynamic-range stage. -/
def DynOK (db : IPDB σ) (d : RawDyn) (db0 : IPDB σ) : Prop :=
  (d = .absent ∧ db0 = db) ∨ ∃ a b u, d = .range a b ∧ SD db (some a) (some b) = (db0, .ok u)

def startDb (r : RawCfg) (db0 : IPDB σ) : IPDB σ := if r.staticOnly then db0.disableDynamic else db0

theorem finish_ok_iff (r : RawCfg) (t : Int) (selfIp : Ip4) (lo : LOpts) (p : Nat)
    (F : Except CfgErr (IPDB σ × List (Bytes × LOpts))) (s : Started σ) :
    finish AP r t selfIp lo p F = .ok s ↔
      ∃ db1 ovs db2 u, F = .ok (db1, ovs) ∧ AP db1 t (some selfIp) (sduid r.selfMac) = (db2, .ok u) ∧
        s = { cfg := mkCfg r selfIp lo p ovs, db := db2, merged := ovs } := by
  cases F with
  | error e => simp [finish]
  | ok v =>
    obtain ⟨db1, ovs⟩ := v
    constructor
    · intro h
      unfold finish at h
      simp only at h
      cases hap : AP db1 t (some selfIp) (sduid r.selfMac) with
      | mk db2 res =>
        rw [hap] at h
        cases res with
        | error x => simp at h
        | ok u =>
          simp only [Except.ok.injEq] at h
          exact ⟨db1, ovs, db2, u, rfl, hap, h.symm⟩
    · rintro ⟨db1', ovs', db2, u, hF, hap, rfl⟩
      cases hF
      unfold finish
      simp only [hap]

theorem tailP_ok_iff (r : RawCfg) (clients : List RawClient) (t : Int) (selfIp : Ip4) (lo : LOpts) (p : Nat)
    (db0 : IPDB σ) (s : Started σ) :
    tailP AP r clients t selfIp lo p db0 = .ok s ↔
      ∃ db1 ovs db2 u, clients.foldl (stepC AP lo t) (.ok (startDb r db0, [])) = .ok (db1, ovs) ∧
        AP db1 t (some selfIp) (sduid r.selfMac) = (db2, .ok u) ∧
        s = { cfg := mkCfg r selfIp lo p ovs, db := db2, merged := ovs } := by
  unfold tailP
  rw [finish_ok_iff]
  rfl

theorem newServerP_ok_iff (empty : σ) (r : RawCfg) (clients : List RawClient) (t : Int) (s : Started σ) :
    newServerP AP SD empty r clients t = .ok s ↔
      ∃ selfIp lo base p db0 db1 ovs db2 u,
        r.selfIp = some selfIp ∧ parseConfig r = .ok (lo, base, p) ∧ DynOK SD (IPDB.new empty base p) r.dyn db0 ∧
        clients.foldl (stepC AP lo t) (.ok (startDb r db0, [])) = .ok (db1, ovs) ∧
        AP db1 t (some selfIp) (sduid r.selfMac) = (db2, .ok u) ∧
        s = { cfg := mkCfg r selfIp lo p ovs, db := db2, merged := ovs } := by
  constructor
  · intro h
    unfold newServerP at h
    cases hs : r.selfIp with
    | none => rw [hs] at h; simp at h
    | some selfIp =>
      rw [hs] at h
      simp only at h
      cases hp : parseConfig r with
      | error e => rw [hp] at h; simp at h
      | ok x =>
        obtain ⟨lo, base, p⟩ := x
        rw [hp] at h
        simp only at h
        cases hd : r.dyn with
        | badFormat => rw [hd] at h; simp at h
        | badIp => rw [hd] at h; simp at h
        | absent =>
          rw [hd] at h
          simp only at h
          obtain ⟨db1, ovs, db2, u, h1, h2, h3⟩ := (tailP_ok_iff AP r clients t selfIp lo p _ s).1 h
          exact ⟨selfIp, lo, base, p, _, db1, ovs, db2, u, rfl, rfl, Or.inl ⟨rfl, rfl⟩, h1, h2, h3⟩
        | range a b =>
          rw [hd] at h
          simp only at h
          cases hsd : SD (IPDB.new empty base p) (some a) (some b) with
          | mk db0 res =>
            rw [hsd] at h
            cases res with
            | error x => simp at h
            | ok u0 =>
              simp only at h
              obtain ⟨db1, ovs, db2, u, h1, h2, h3⟩ := (tailP_ok_iff AP r clients t selfIp lo p _ s).1 h
              exact ⟨selfIp, lo, base, p, db0, db1, ovs, db2, u, rfl, rfl, Or.inr ⟨a, b, u0, rfl, hsd⟩, h1, h2, h3⟩
  · rintro ⟨selfIp, lo, base, p, db0, db1, ovs, db2, u, hs, hp, hd, h1, h2, h3⟩
    unfold newServerP
    simp only [hs, hp]
    rcases hd with ⟨hd, rfl⟩ | ⟨a, b, u0, hd, hsd⟩
    · simp only [hd]
      exact (tailP_ok_iff AP r clients t selfIp lo p _ s).2 ⟨db1, ovs, db2, u, h1, h2, h3⟩
    · simp only [hd, hsd]
      exact (tailP_ok_iff AP r clients t selfIp lo p _ s).2 ⟨db1, ovs, db2, u, h1, h2, h3⟩

end Generic

/-! ## Parsing of the address fields -/

theorem entOpt_bad : entOpt .bad = none := by decide
theorem entOpt_empty : entOpt .empty = some none := by decide
theorem entOpt_ok (ip : Ip4) : entOpt (.ok ip) = some (some ip) := by
  simp [entOpt, ipv4List]

theorem entOpt_eq_some_iff (e : Ent) (o : Option Ip4) : entOpt e = some o ↔ e ≠ .bad ∧ o = entIp e := by
  cases e with
  | bad => simp [entOpt_bad]
  | empty => simp [entOpt_empty, entIp]; exact eq_comm
  | ok ip => simp [entOpt_ok, entIp]; exact eq_comm

theorem mapM_ent (g : Ent → Option Ip4) (hg : ∀ e, g e = entIp e) :
    ∀ (l : List Ent) (l' : List Ip4), l.mapM g = some l' ↔ l = l'.map Ent.ok := by
  intro l
  induction l with
  | nil => intro l'; cases l' <;> simp
  | cons e l ih =>
    intro l'
    rw [List.mapM_cons, hg]
    cases e with
    | empty => cases l' <;> simp [entIp]
    | bad => cases l' <;> simp [entIp]
    | ok ip =>
      cases hm : l.mapM g with
      | none =>
        cases l' with
        | nil => simp [entIp]
        | cons x xs =>
          simp only [entIp, Option.bind_eq_bind, Option.bind_some, Option.bind_none, reduceCtorEq, List.map_cons,
            List.cons.injEq, Ent.ok.injEq, false_iff, not_and]
          intro _ h
          have := (ih xs).2 h
          rw [hm] at this
          cases this
      | some bs =>
        have hb := (ih bs).1 hm
        subst hb
        cases l' with
        | nil => simp [entIp]
        | cons x xs =>
          simp only [entIp, Option.bind_eq_bind, Option.bind_some, Option.pure_def, Option.some.injEq, List.cons.injEq,
            List.map_cons, Ent.ok.injEq]
          constructor
          · rintro ⟨rfl, rfl⟩; exact ⟨rfl, rfl⟩
          · rintro ⟨rfl, h⟩
            refine ⟨rfl, ?_⟩
            have := (ih xs).2 h
            rw [hm] at this
            exact Option.some.inj this

theorem map_ok_ne_empty (l' : List Ip4) : l'.map Ent.ok ≠ [Ent.empty] := by
  cases l' with
  | nil => simp
  | cons x xs => simp

theorem ipv4List_eq_some_iff (l : List Ent) (l' : List Ip4) :
    ipv4List l = some l' ↔ (l = [.empty] ∧ l' = []) ∨ l = l'.map Ent.ok := by
  unfold ipv4List
  by_cases h : l = [.empty]
  · rw [if_pos h]
    subst h
    simp only [Option.some.injEq, true_and]
    constructor
    · intro h; exact Or.inl h.symm
    · rintro (h | h)
      · exact h.symm
      · exact absurd h.symm (map_ok_ne_empty l')
  · rw [if_neg h, mapM_ent _ (fun e => by cases e <;> rfl)]
    simp [h]

theorem allOk_iff (l : List Ent) : (∀ e ∈ l, ∃ ip, e = .ok ip) ↔ ∃ l' : List Ip4, l = l'.map Ent.ok := by
  induction l with
  | nil => simp
  | cons e l ih =>
    constructor
    · intro h
      obtain ⟨ip, rfl⟩ := h e (by simp)
      obtain ⟨l', rfl⟩ := ih.1 (fun e he => h e (by simp [he]))
      exact ⟨ip :: l', rfl⟩
    · rintro ⟨l', h⟩
      cases l' with
      | nil => simp at h
      | cons x xs =>
        simp only [List.map_cons, List.cons.injEq] at h
        obtain ⟨rfl, rfl⟩ := h
        intro e he
        simp only [List.mem_cons, List.mem_map] at he
        rcases he with rfl | ⟨y, _, rfl⟩
        · exact ⟨_, rfl⟩
        · exact ⟨_, rfl⟩

theorem ipv4List_isSome_iff (l : List Ent) : (∃ l', ipv4List l = some l') ↔ listValid l := by
  unfold listValid
  rw [allOk_iff]
  constructor
  · rintro ⟨l', h⟩
    rcases (ipv4List_eq_some_iff l l').1 h with ⟨h, _⟩ | h
    · exact Or.inl h
    · exact Or.inr ⟨l', h⟩
  · rintro (h | ⟨l', h⟩)
    · exact ⟨[], (ipv4List_eq_some_iff l []).2 (Or.inl ⟨h, rfl⟩)⟩
    · exact ⟨l', (ipv4List_eq_some_iff l l').2 (Or.inr h)⟩

theorem ipv4List_length {l : List Ent} {l' : List Ip4} (h : ipv4List l = some l') : l'.length = listLen l := by
  unfold listLen
  rcases (ipv4List_eq_some_iff l l').1 h with ⟨h1, h2⟩ | h1
  · rw [if_pos h1, h2]; rfl
  · rw [if_neg (by rw [h1]; exact map_ok_ne_empty l'), h1, List.length_map]

/-! ## `parseConfig` and `setClientOverrides` -/

theorem parseConfig_ok_iff (r : RawCfg) (lo : LOpts) (base p : Nat) :
    parseConfig r = .ok (lo, base, p) ↔
      r.network = some (base, p) ∧ ∃ l ro dns ntp, r.lease = some l ∧ 60000000000 ≤ l ∧ entOpt r.router = some ro ∧
        ipv4List r.dns = some dns ∧ ipv4List r.ntp = some ntp ∧
        lo = { domain := r.domain, router := ro, dns := dns, ntp := ntp, leaseNs := l } ∧ lo.representable = true := by
  unfold parseConfig
  simp only [bind, Except.bind, pure, Except.pure, throw, throwThe, MonadExceptOf.throw]
  cases h0 : r.network with
  | none => simp
  | some x =>
    obtain ⟨b0, p0⟩ := x
    cases h1 : r.lease with
    | none => simp
    | some l =>
      by_cases hl : l < 60000000000
      · simp only [if_pos hl, reduceCtorEq, Option.some.injEq, false_iff, not_and, not_exists]
        intro _ l' ro dns ntp h; subst h; omega
      · simp only [if_neg hl]
        cases h2 : entOpt r.router with
        | none => simp
        | some ro =>
          cases h3 : ipv4List r.dns with
          | none => simp
          | some dns =>
            cases h4 : ipv4List r.ntp with
            | none => simp
            | some ntp =>
              simp only [Option.some.injEq, Prod.mk.injEq]
              by_cases hr : ({ domain := r.domain, router := ro, dns := dns, ntp := ntp, leaseNs := l } : LOpts).representable = true
              · simp only [hr, not_true_eq_false, if_false, Except.ok.injEq, Prod.mk.injEq]
                constructor
                · rintro ⟨rfl, rfl, rfl⟩
                  exact ⟨⟨rfl, rfl⟩, l, ro, dns, ntp, rfl, by omega, rfl, rfl, rfl, rfl, hr⟩
                · rintro ⟨⟨rfl, rfl⟩, l', ro', dns', ntp', rfl, _, rfl, rfl, rfl, rfl, _⟩
                  exact ⟨rfl, rfl, rfl⟩
              · simp only [hr, not_false_eq_true, if_true, reduceCtorEq, false_iff, not_and, not_exists]
                rintro _ l' ro' dns' ntp' rfl _ rfl rfl rfl rfl
                exact hr

/-- The options of a client entry merged over the global ones. -/
def merged (lo : LOpts) (c : RawClient) (ip ro : Option Ip4) (dns ntp : List Ip4) : LOpts :=
  { ip := (match ip with | some i => some i | none => lo.ip),
    domain := lo.domain,
    hostname := (if c.hostname.isEmpty then lo.hostname else c.hostname),
    router := (match ro with | some i => some i | none => lo.router),
    dns := (if dns.isEmpty then lo.dns else dns),
    ntp := (if ntp.isEmpty then lo.ntp else ntp),
    leaseNs := lo.leaseNs }

theorem setClientOverrides_ok_iff (lo : LOpts) (c : RawClient) (oo : LOpts) :
    setClientOverrides lo c = .ok oo ↔
      ∃ ip ro dns ntp, entOpt c.ip = some ip ∧ entOpt c.router = some ro ∧ ipv4List c.dns = some dns ∧
        ipv4List c.ntp = some ntp ∧ oo = merged lo c ip ro dns ntp ∧ oo.representable = true := by
  unfold setClientOverrides
  simp only [bind, Except.bind, pure, Except.pure, throw, throwThe, MonadExceptOf.throw]
  cases h1 : entOpt c.ip with
  | none => simp
  | some ip =>
    cases h2 : entOpt c.router with
    | none => simp
    | some ro =>
      cases h3 : ipv4List c.dns with
      | none => simp
      | some dns =>
        cases h4 : ipv4List c.ntp with
        | none => simp
        | some ntp =>
          simp only [Option.some.injEq]
          change (if ¬ (merged lo c ip ro dns ntp).representable = true then Except.error CfgErr.clientUnrepresentable
            else Except.ok (merged lo c ip ro dns ntp)) = Except.ok oo ↔ _
          by_cases hr : (merged lo c ip ro dns ntp).representable = true
          · simp only [hr, not_true_eq_false, if_false, Except.ok.injEq]
            constructor
            · rintro rfl
              exact ⟨ip, ro, dns, ntp, rfl, rfl, rfl, rfl, rfl, hr⟩
            · rintro ⟨_, _, _, _, rfl, rfl, rfl, rfl, rfl, _⟩
              rfl
          · simp only [hr, not_false_eq_true, if_true, reduceCtorEq, false_iff, not_exists, not_and]
            rintro _ _ _ _ rfl rfl rfl rfl rfl
            exact hr

/-! ## Addresses, identities and the two database calls -/

theorem toNat_inj {a b : Ip4} (h : a.toNat = b.toNat) : a = b := by
  obtain ⟨a0, a1, a2, a3⟩ := a
  obtain ⟨b0, b1, b2, b3⟩ := b
  simp only [Ip4.toNat] at h
  have := a0.toNat_lt; have := a1.toNat_lt; have := a2.toNat_lt; have := a3.toNat_lt
  have := b0.toNat_lt; have := b1.toNat_lt; have := b2.toNat_lt; have := b3.toNat_lt
  have e0 : a0.toNat = b0.toNat := by omega
  have e1 : a1.toNat = b1.toNat := by omega
  have e2 : a2.toNat = b2.toNat := by omega
  have e3 : a3.toNat = b3.toNat := by omega
  rw [UInt8.toNat_inj.1 e0, UInt8.toNat_inj.1 e1, UInt8.toNat_inj.1 e2, UInt8.toNat_inj.1 e3]

theorem sduid_inj {a b : Bytes} (h : sduid a = sduid b) : a = b := List.append_cancel_left h

section
variable {σ : Type}

theorem toUip_some_ok {db : IPDB σ} {i : Ip4} (h1 : db.netFrom ≤ i.toNat) (h2 : i.toNat ≤ db.netTo) :
    db.toUip (some i) = .ok i.toNat := by
  rw [IPDB.toUip, if_neg (by omega)]

theorem toUip_some_err {db : IPDB σ} {i : Ip4} (h : i.toNat < db.netFrom ∨ i.toNat > db.netTo) :
    db.toUip (some i) = .error .notInRange := by
  rw [IPDB.toUip, if_pos h]

theorem addPermanent_in {S : Store σ} {db : IPDB σ} {t : Int} {i : Ip4} {d : Duid}
    (h1 : db.netFrom ≤ i.toNat) (h2 : i.toNat ≤ db.netTo) :
    db.addPermanent S t (some i) d =
      ({ db with s := (S.inject db.s t i.toNat d 0 true).1 },
        if (S.inject db.s t i.toNat d 0 true).2 = .ok then .ok () else .error (.store (S.inject db.s t i.toNat d 0 true).2)) := by
  rw [IPDB.addPermanent, toUip_some_ok h1 h2]

theorem addPermanent_out {S : Store σ} {db : IPDB σ} {t : Int} {i : Ip4} {d : Duid}
    (h : i.toNat < db.netFrom ∨ i.toNat > db.netTo) :
    db.addPermanent S t (some i) d = (db, .error .notInRange) := by
  rw [IPDB.addPermanent, toUip_some_err h]
end

section
variable {σ : Type}

theorem addPermanent_ok_iff (S : Store σ) (db db' : IPDB σ) (t : Int) (i : Ip4) (d : Duid) (u : Unit) :
    db.addPermanent S t (some i) d = (db', .ok u) ↔
      db.netFrom ≤ i.toNat ∧ i.toNat ≤ db.netTo ∧ (S.inject db.s t i.toNat d 0 true).2 = .ok ∧
        db' = { db with s := (S.inject db.s t i.toNat d 0 true).1 } := by
  by_cases h : i.toNat < db.netFrom ∨ i.toNat > db.netTo
  · rw [addPermanent_out h]
    simp only [Prod.mk.injEq, reduceCtorEq, and_false, false_iff, not_and]
    intro h1 h2; omega
  · have h1 : db.netFrom ≤ i.toNat := by omega
    have h2 : i.toNat ≤ db.netTo := by omega
    rw [addPermanent_in h1 h2]
    by_cases hi : (S.inject db.s t i.toNat d 0 true).2 = .ok
    · simp only [hi, if_true, Prod.mk.injEq, and_true, h1, h2, true_and]
      exact eq_comm
    · simp only [hi, if_false, Prod.mk.injEq, reduceCtorEq, and_false, false_and]

/-- The four range fields. -/
def ranges (db : IPDB σ) : Nat × Nat × Nat × Nat := (db.netFrom, db.netTo, db.dynFrom, db.dynTo)

theorem addPermanent_ranges (S : Store σ) (db : IPDB σ) (t : Int) (ip : Option Ip4) (d : Duid) :
    ranges (db.addPermanent S t ip d).1 = ranges db := by
  rw [IPDB.addPermanent]
  cases db.toUip ip <;> rfl

/- `setDynamicRange` is unfolded for *variable* arguments only: the kernel must never be asked to
evaluate `toUip db (some a)` (the comparison `a.toNat < db.netFrom` is not evaluable on open terms). -/
theorem sdr_err1 {db : IPDB σ} {oa ob : Option Ip4} {x : DbErr} (h : db.toUip oa = .error x) :
    db.setDynamicRange oa ob = (db, .error x) := by
  rw [IPDB.setDynamicRange, h]

theorem sdr_err2 {db : IPDB σ} {oa ob : Option Ip4} {bb : Nat} {x : DbErr} (h1 : db.toUip oa = .ok bb)
    (h2 : db.toUip ob = .error x) : db.setDynamicRange oa ob = (db, .error x) := by
  rw [IPDB.setDynamicRange, h1]; simp only; rw [h2]

theorem sdr_ok {db : IPDB σ} {oa ob : Option Ip4} {bb ee : Nat} (h1 : db.toUip oa = .ok bb)
    (h2 : db.toUip ob = .ok ee) :
    db.setDynamicRange oa ob =
      if bb > ee then (db, .error .badRange) else ({ db with dynFrom := bb, dynTo := ee }, .ok ()) := by
  rw [IPDB.setDynamicRange, h1]; simp only; rw [h2]

theorem setDynamicRange_ok_iff (db db' : IPDB σ) (a b : Ip4) (u : Unit) :
    db.setDynamicRange (some a) (some b) = (db', .ok u) ↔
      db.netFrom ≤ a.toNat ∧ a.toNat ≤ b.toNat ∧ b.toNat ≤ db.netTo ∧
        db' = { db with dynFrom := a.toNat, dynTo := b.toNat } := by
  by_cases ha : a.toNat < db.netFrom ∨ a.toNat > db.netTo
  · rw [sdr_err1 (toUip_some_err ha)]
    simp only [Prod.mk.injEq, reduceCtorEq, and_false, false_iff, not_and]
    intro h1 h2 h3; omega
  · have ha' := toUip_some_ok (db := db) (i := a) (by omega) (by omega)
    by_cases hb : b.toNat < db.netFrom ∨ b.toNat > db.netTo
    · rw [sdr_err2 ha' (toUip_some_err hb)]
      simp only [Prod.mk.injEq, reduceCtorEq, and_false, false_iff, not_and]
      intro h1 h2 h3; omega
    · rw [sdr_ok ha' (toUip_some_ok (by omega) (by omega))]
      by_cases hab : a.toNat > b.toNat
      · rw [if_pos hab]
        simp only [Prod.mk.injEq, reduceCtorEq, and_false, false_iff, not_and]
        intro h1 h2; omega
      · rw [if_neg hab]
        simp only [Prod.mk.injEq, and_true]
        constructor
        · intro h; exact ⟨by omega, by omega, by omega, h.symm⟩
        · intro h; exact h.2.2.2.symm

end

/-! ### Over the reference table: a start-up table holds permanent bindings only -/

def PermOnly (T : Table) : Prop := ∀ b ∈ T, b.perm = true

theorem perm_live {b : Binding} (h : b.perm = true) (t : Int) : b.live t = true := by
  simp [Binding.live, h]

theorem liveIp_none_iff {T : Table} (hp : PermOnly T) (t : Int) (a : Nat) :
    T.liveIp t a = none ↔ ∀ b ∈ T, b.ip ≠ a :=
  ⟨fun h b hb => liveIp_none h b hb (perm_live (hp b hb) t), fun h => liveIp_none_of fun b hb _ => h b hb⟩

theorem liveDuid_none_iff {T : Table} (hp : PermOnly T) (t : Int) (d : Duid) :
    T.liveDuid t d = none ↔ ∀ b ∈ T, b.duid ≠ d :=
  ⟨fun h b hb => liveDuid_none h b hb (perm_live (hp b hb) t), fun h => liveDuid_none_of fun b hb _ => h b hb⟩

theorem filter_live_perm {T : Table} (hp : PermOnly T) (t : Int) : T.filter (fun b => b.live t) = T :=
  List.filter_eq_self.2 fun b hb => perm_live (hp b hb) t

/-- `AddPermanentClient` on a start-up table: the address is managed, and neither it nor the
identity occurs in the table. -/
theorem addPermanent_table_ok_iff (db db' : IPDB Table) (t : Int) (i : Ip4) (d : Duid) (u : Unit) (hp : PermOnly db.s) :
    db.addPermanent tableStore t (some i) d = (db', .ok u) ↔
      db.netFrom ≤ i.toNat ∧ i.toNat ≤ db.netTo ∧ (∀ b ∈ db.s, b.ip ≠ i.toNat) ∧ (∀ b ∈ db.s, b.duid ≠ d) ∧
        db' = { db with s := ⟨i.toNat, d, 0, true⟩ :: db.s } := by
  rw [addPermanent_ok_iff]
  show _ ∧ _ ∧ (db.s.inject t i.toNat d 0 true).2 = .ok ∧ db' = { db with s := (db.s.inject t i.toNat d 0 true).1 } ↔ _
  rw [inject_ok_iff, liveIp_none_iff hp, liveDuid_none_iff hp]
  constructor
  · rintro ⟨h1, h2, ⟨h3, h4⟩, h5⟩
    refine ⟨h1, h2, h3, h4, ?_⟩
    rw [h5, inject_ok_eq ((liveIp_none_iff hp t _).2 h3) ((liveDuid_none_iff hp t _).2 h4), filter_live_perm hp]
  · rintro ⟨h1, h2, h3, h4, h5⟩
    refine ⟨h1, h2, ⟨h3, h4⟩, ?_⟩
    rw [h5, inject_ok_eq ((liveIp_none_iff hp t _).2 h3) ((liveDuid_none_iff hp t _).2 h4), filter_live_perm hp]

/-! ## The client entries and the start-up table -/

/-- The override-map entry a client produces: hardware address and merged options. -/
def entryOf (lo : LOpts) (c : RawClient) : Option (Bytes × LOpts) :=
  match c.mac, setClientOverrides lo c with
  | some m, .ok oo => some (m, oo)
  | _, _ => none

theorem entryOf_eq_some_iff (lo : LOpts) (c : RawClient) (e : Bytes × LOpts) :
    entryOf lo c = some e ↔ c.mac = some e.1 ∧ setClientOverrides lo c = .ok e.2 := by
  obtain ⟨m, oo⟩ := e
  unfold entryOf
  cases c.mac <;> cases setClientOverrides lo c <;> simp

def entries (lo : LOpts) (cs : List RawClient) : List (Bytes × LOpts) := cs.filterMap (entryOf lo)

theorem entries_snoc_some {lo : LOpts} {cs : List RawClient} {c : RawClient} {e : Bytes × LOpts}
    (h : entryOf lo c = some e) : entries lo (cs ++ [c]) = entries lo cs ++ [e] := by
  simp [entries, List.filterMap_append, h]

theorem mem_entries {lo : LOpts} {cs : List RawClient} {e : Bytes × LOpts} :
    e ∈ entries lo cs ↔ ∃ c ∈ cs, entryOf lo c = some e := by
  simp [entries, List.mem_filterMap]

/-- The permanent binding an entry with a static address produces. -/
def bindOf (e : Bytes × LOpts) : Option Binding := e.2.ip.map fun ip => ⟨ip.toNat, sduid e.1, 0, true⟩

/-- The table after the entries `es` have been registered in order. -/
def tbl (es : List (Bytes × LOpts)) : Table := (es.filterMap bindOf).reverse

theorem mem_tbl {es : List (Bytes × LOpts)} {b : Binding} :
    b ∈ tbl es ↔ ∃ e ∈ es, ∃ ip, e.2.ip = some ip ∧ b = ⟨ip.toNat, sduid e.1, 0, true⟩ := by
  simp only [tbl, List.mem_reverse, List.mem_filterMap, bindOf, Option.map_eq_some_iff]
  constructor
  · rintro ⟨e, he, ip, h1, h2⟩; exact ⟨e, he, ip, h1, h2.symm⟩
  · rintro ⟨e, he, ip, h1, h2⟩; exact ⟨e, he, ip, h1, h2.symm⟩

theorem tbl_permOnly (es : List (Bytes × LOpts)) : PermOnly (tbl es) := by
  intro b hb
  obtain ⟨e, _, ip, _, rfl⟩ := mem_tbl.1 hb
  rfl

theorem tbl_nil : tbl [] = [] := rfl

theorem tbl_snoc_none {es : List (Bytes × LOpts)} {e : Bytes × LOpts} (h : e.2.ip = none) : tbl (es ++ [e]) = tbl es := by
  simp [tbl, List.filterMap_append, bindOf, h]

theorem tbl_snoc_some {es : List (Bytes × LOpts)} {e : Bytes × LOpts} {ip : Ip4} (h : e.2.ip = some ip) :
    tbl (es ++ [e]) = ⟨ip.toNat, sduid e.1, 0, true⟩ :: tbl es := by
  simp [tbl, List.filterMap_append, bindOf, h]

/-- What the fold checks, on the list of entries: distinct hardware addresses, distinct static
addresses, static addresses inside the managed range. -/
structure GoodE (nf nt : Nat) (es : List (Bytes × LOpts)) : Prop where
  macs : es.Pairwise fun e₁ e₂ => e₁.1 ≠ e₂.1
  ips : es.Pairwise fun e₁ e₂ => ∀ ip, e₁.2.ip = some ip → e₂.2.ip ≠ some ip
  inside : ∀ e ∈ es, ∀ ip, e.2.ip = some ip → nf ≤ ip.toNat ∧ ip.toNat ≤ nt

theorem goodE_nil (nf nt : Nat) : GoodE nf nt [] := ⟨List.Pairwise.nil, List.Pairwise.nil, by simp⟩

theorem goodE_snoc (nf nt : Nat) (es : List (Bytes × LOpts)) (e : Bytes × LOpts) :
    GoodE nf nt (es ++ [e]) ↔ GoodE nf nt es ∧ (∀ a ∈ es, a.1 ≠ e.1) ∧
      (∀ a ∈ es, ∀ ip, a.2.ip = some ip → e.2.ip ≠ some ip) ∧
      (∀ ip, e.2.ip = some ip → nf ≤ ip.toNat ∧ ip.toNat ≤ nt) := by
  constructor
  · rintro ⟨h1, h2, h3⟩
    rw [List.pairwise_append] at h1 h2
    refine ⟨⟨h1.1, h2.1, fun a ha => h3 a (by simp [ha])⟩, fun a ha => h1.2.2 a ha e (by simp),
      fun a ha => h2.2.2 a ha e (by simp), h3 e (by simp)⟩
  · rintro ⟨⟨h1, h2, h3⟩, h4, h5, h6⟩
    refine ⟨?_, ?_, ?_⟩
    · rw [List.pairwise_append]
      refine ⟨h1, List.pairwise_singleton _ _, ?_⟩
      intro a ha b hb; rw [List.mem_singleton] at hb; subst hb; exact h4 a ha
    · rw [List.pairwise_append]
      refine ⟨h2, List.pairwise_singleton _ _, ?_⟩
      intro a ha b hb; rw [List.mem_singleton] at hb; subst hb; exact h5 a ha
    · intro a ha
      rw [List.mem_append, List.mem_singleton] at ha
      rcases ha with ha | rfl
      · exact h3 a ha
      · exact h6

theorem snoc_induction {α : Type} {P : List α → Prop} (nil : P []) (snoc : ∀ l a, P l → P (l ++ [a])) : ∀ l, P l := by
  intro l
  have : ∀ l : List α, P l.reverse := by
    intro l
    induction l with
    | nil => exact nil
    | cons a l ih => rw [List.reverse_cons]; exact snoc _ _ ih
  have h := this l.reverse
  rwa [List.reverse_reverse] at h

/-- Normal form of the fold over the clients, on the reference table starting empty. -/
theorem fold_table_iff (lo : LOpts) (t : Int) (db0 : IPDB Table) (h0 : db0.s = []) :
    ∀ (cs : List RawClient) (db' : IPDB Table) (ovs' : List (Bytes × LOpts)),
      cs.foldl (stepC (IPDB.addPermanent tableStore) lo t) (.ok (db0, [])) = .ok (db', ovs') ↔
        (∀ c ∈ cs, (entryOf lo c).isSome) ∧ GoodE db0.netFrom db0.netTo (entries lo cs) ∧
          ovs' = entries lo cs ∧ db' = { db0 with s := tbl (entries lo cs) } := by
  intro cs
  induction cs using snoc_induction with
  | nil =>
    intro db' ovs'
    simp only [List.foldl_nil, Except.ok.injEq, Prod.mk.injEq, List.not_mem_nil, false_imp_iff, implies_true,
      true_and, entries, List.filterMap_nil, goodE_nil, tbl_nil]
    constructor
    · rintro ⟨rfl, rfl⟩; exact ⟨rfl, by cases db0; cases h0; rfl⟩
    · rintro ⟨rfl, rfl⟩; exact ⟨by cases db0; cases h0; rfl, rfl⟩
  | snoc cs c ih =>
    intro db' ovs'
    rw [foldl_stepC_snoc]
    constructor
    · intro h
      cases hf : cs.foldl (stepC (IPDB.addPermanent tableStore) lo t) (.ok (db0, [])) with
      | error e => rw [hf, stepC_error] at h; cases h
      | ok v =>
        obtain ⟨db1, ovs1⟩ := v
        rw [hf] at h
        obtain ⟨hall, hgood, rfl, rfl⟩ := (ih db1 ovs1).1 hf
        obtain ⟨mac, oo, hm, hs, hadd, hany, rfl⟩ := (stepC_ok_iff _ lo t _ _ _ _ c).1 h
        have he : entryOf lo c = some (mac, oo) := (entryOf_eq_some_iff lo c (mac, oo)).2 ⟨hm, hs⟩
        have hany' : ∀ a ∈ entries lo cs, a.1 ≠ mac := by
          intro a ha heq
          rw [List.any_eq_false] at hany
          exact hany a ha (by simpa using heq)
        rw [entries_snoc_some he, goodE_snoc]
        refine ⟨?_, ?_, rfl, ?_⟩
        · intro c' hc'
          rw [List.mem_append, List.mem_singleton] at hc'
          rcases hc' with hc' | rfl
          · exact hall c' hc'
          · rw [he]; rfl
        · refine ⟨hgood, hany', ?_, ?_⟩
          · intro a ha ip hip hoo
            rcases hadd with ⟨hnone, _⟩ | ⟨ip', u, hsome, hap⟩
            · simp only at hoo; rw [hnone] at hoo; cases hoo
            · simp only at hoo hsome
              rw [hoo] at hsome; cases hsome
              have := ((addPermanent_table_ok_iff _ _ t ip _ u (tbl_permOnly _)).1 hap).2.2.1
              exact this ⟨ip.toNat, sduid a.1, 0, true⟩ (mem_tbl.2 ⟨a, ha, ip, hip, rfl⟩) rfl
          · intro ip hip
            rcases hadd with ⟨hnone, _⟩ | ⟨ip', u, hsome, hap⟩
            · simp only at hip; rw [hnone] at hip; cases hip
            · simp only at hip hsome
              rw [hip] at hsome; cases hsome
              have := (addPermanent_table_ok_iff _ _ t ip _ u (tbl_permOnly _)).1 hap
              exact ⟨this.1, this.2.1⟩
        · rcases hadd with ⟨hnone, rfl⟩ | ⟨ip, u, hsome, hap⟩
          · rw [tbl_snoc_none (e := (mac, oo)) hnone]
          · rw [tbl_snoc_some (e := (mac, oo)) hsome]
            exact ((addPermanent_table_ok_iff _ _ t ip _ u (tbl_permOnly _)).1 hap).2.2.2.2
    · rintro ⟨hall, hgood, rfl, rfl⟩
      have hc : (entryOf lo c).isSome := hall c (by simp)
      obtain ⟨⟨mac, oo⟩, he⟩ := Option.isSome_iff_exists.1 hc
      obtain ⟨hm, hs⟩ := (entryOf_eq_some_iff lo c (mac, oo)).1 he
      rw [entries_snoc_some he, goodE_snoc] at hgood
      obtain ⟨hg, hmac, hip, hin⟩ := hgood
      rw [(ih _ _).2 ⟨fun c' hc' => hall c' (by simp [hc']), hg, rfl, rfl⟩]
      rw [entries_snoc_some he]
      refine (stepC_ok_iff _ lo t _ _ _ _ c).2 ⟨mac, oo, hm, hs, ?_, ?_, rfl⟩
      · cases hoo : oo.ip with
        | none => exact Or.inl ⟨rfl, by rw [tbl_snoc_none (e := (mac, oo)) hoo]⟩
        | some ip =>
          refine Or.inr ⟨ip, (), rfl, ?_⟩
          refine (addPermanent_table_ok_iff _ _ t ip _ () (tbl_permOnly _)).2 ⟨(hin ip hoo).1, (hin ip hoo).2, ?_, ?_, ?_⟩
          · intro b hb hbip
            obtain ⟨a, ha, ipa, hipa, rfl⟩ := mem_tbl.1 hb
            simp only at hbip
            have := toNat_inj hbip
            subst this
            exact hip a ha ipa hipa hoo
          · intro b hb hbd
            obtain ⟨a, ha, ipa, hipa, rfl⟩ := mem_tbl.1 hb
            simp only at hbd
            exact hmac a ha (sduid_inj hbd)
          · rw [tbl_snoc_some (e := (mac, oo)) hoo]
      · rw [List.any_eq_false]
        intro a ha
        simpa using hmac a ha

/-! ## The start-up over the reference table, in closed form -/

theorem startDb_s {σ : Type} (r : RawCfg) (db0 : IPDB σ) : (startDb r db0).s = db0.s := by
  unfold startDb; split <;> rfl

theorem startDb_netFrom {σ : Type} (r : RawCfg) (db0 : IPDB σ) : (startDb r db0).netFrom = db0.netFrom := by
  unfold startDb; split <;> rfl

theorem startDb_netTo {σ : Type} (r : RawCfg) (db0 : IPDB σ) : (startDb r db0).netTo = db0.netTo := by
  unfold startDb; split <;> rfl

theorem dynOK_iff {σ : Type} (db db0 : IPDB σ) (d : RawDyn) :
    DynOK IPDB.setDynamicRange db d db0 ↔
      (d = .absent ∧ db0 = db) ∨ ∃ a b, d = .range a b ∧ db.netFrom ≤ a.toNat ∧ a.toNat ≤ b.toNat ∧
        b.toNat ≤ db.netTo ∧ db0 = { db with dynFrom := a.toNat, dynTo := b.toNat } := by
  unfold DynOK
  constructor
  · rintro (h | ⟨a, b, u, hd, h⟩)
    · exact Or.inl h
    · exact Or.inr ⟨a, b, hd, (setDynamicRange_ok_iff db db0 a b u).1 h⟩
  · rintro (h | ⟨a, b, hd, h⟩)
    · exact Or.inl h
    · exact Or.inr ⟨a, b, (), hd, (setDynamicRange_ok_iff db db0 a b ()).2 h⟩

theorem dynOK_fields {σ : Type} {db db0 : IPDB σ} {d : RawDyn} (h : DynOK IPDB.setDynamicRange db d db0) :
    db0.s = db.s ∧ db0.netFrom = db.netFrom ∧ db0.netTo = db.netTo := by
  rcases (dynOK_iff db db0 d).1 h with ⟨_, rfl⟩ | ⟨a, b, _, _, _, _, rfl⟩
  · exact ⟨rfl, rfl, rfl⟩
  · exact ⟨rfl, rfl, rfl⟩

/-- The server's own binding does not collide with a static entry. -/
def SelfFree (selfIp : Ip4) (selfMac : Bytes) (es : List (Bytes × LOpts)) : Prop :=
  ∀ e ∈ es, ∀ ip, e.2.ip = some ip → ip ≠ selfIp ∧ e.1 ≠ selfMac

theorem selfFree_iff (selfIp : Ip4) (selfMac : Bytes) (es : List (Bytes × LOpts)) :
    SelfFree selfIp selfMac es ↔
      (∀ b ∈ tbl es, b.ip ≠ selfIp.toNat) ∧ (∀ b ∈ tbl es, b.duid ≠ sduid selfMac) := by
  constructor
  · intro h
    constructor
    · intro b hb hbip
      obtain ⟨e, he, ip, hip, rfl⟩ := mem_tbl.1 hb
      exact (h e he ip hip).1 (toNat_inj hbip)
    · intro b hb hbd
      obtain ⟨e, he, ip, hip, rfl⟩ := mem_tbl.1 hb
      exact (h e he ip hip).2 (sduid_inj hbd)
  · rintro ⟨h1, h2⟩ e he ip hip
    have hb := mem_tbl.2 ⟨e, he, ip, hip, rfl⟩
    exact ⟨fun heq => h1 _ hb (by rw [heq]), fun heq => h2 _ hb (by rw [heq])⟩

/-- The started server, in closed form. -/
def startedOf (r : RawCfg) (selfIp : Ip4) (lo : LOpts) (p : Nat) (db0 : IPDB Table) (es : List (Bytes × LOpts)) :
    Started Table :=
  { cfg := mkCfg r selfIp lo p es,
    db := { startDb r db0 with s := ⟨selfIp.toNat, sduid r.selfMac, 0, true⟩ :: tbl es },
    merged := es }

theorem start_table_iff (r : RawCfg) (clients : List RawClient) (t : Int) (s : Started Table) :
    newServer tableStore ([] : Table) r clients t = .ok s ↔
      ∃ selfIp lo base p db0,
        r.selfIp = some selfIp ∧ parseConfig r = .ok (lo, base, p) ∧
        DynOK IPDB.setDynamicRange (IPDB.new ([] : Table) base p) r.dyn db0 ∧
        (∀ c ∈ clients, (entryOf lo c).isSome) ∧
        GoodE db0.netFrom db0.netTo (entries lo clients) ∧
        db0.netFrom ≤ selfIp.toNat ∧ selfIp.toNat ≤ db0.netTo ∧
        SelfFree selfIp r.selfMac (entries lo clients) ∧
        s = startedOf r selfIp lo p db0 (entries lo clients) := by
  rw [newServer_eq, newServerP_ok_iff]
  constructor
  · rintro ⟨selfIp, lo, base, p, db0, db1, ovs, db2, u, hs, hp, hd, hf, hap, rfl⟩
    have hd' := dynOK_fields hd
    have h0 : (startDb r db0).s = [] := by rw [startDb_s, hd'.1]; rfl
    obtain ⟨hall, hgood, rfl, rfl⟩ := (fold_table_iff lo t (startDb r db0) h0 clients db1 ovs).1 hf
    rw [startDb_netFrom, startDb_netTo] at hgood
    obtain ⟨h1, h2, h3, h4, rfl⟩ := (addPermanent_table_ok_iff _ _ t selfIp _ u (tbl_permOnly _)).1 hap
    simp only [startDb_netFrom, startDb_netTo] at h1 h2
    exact ⟨selfIp, lo, base, p, db0, hs, hp, hd, hall, hgood, h1, h2, (selfFree_iff _ _ _).2 ⟨h3, h4⟩, rfl⟩
  · rintro ⟨selfIp, lo, base, p, db0, hs, hp, hd, hall, hgood, h1, h2, hfree, rfl⟩
    have hd' := dynOK_fields hd
    have h0 : (startDb r db0).s = [] := by rw [startDb_s, hd'.1]; rfl
    refine ⟨selfIp, lo, base, p, db0, _, _, _, (), hs, hp, hd,
      (fold_table_iff lo t (startDb r db0) h0 clients _ _).2 ⟨hall, ?_, rfl, rfl⟩, ?_, rfl⟩
    · rw [startDb_netFrom, startDb_netTo]; exact hgood
    · obtain ⟨h3, h4⟩ := (selfFree_iff _ _ _).1 hfree
      refine (addPermanent_table_ok_iff _ _ t selfIp _ () (tbl_permOnly _)).2 ⟨?_, ?_, h3, h4, rfl⟩
      · simp only [startDb_netFrom]; exact h1
      · simp only [startDb_netTo]; exact h2

/-! ## What is in effect after a successful start -/

theorem representable_iff (o : LOpts) :
    o.representable = true ↔ o.domain.length ≤ 255 ∧ o.hostname.length ≤ 255 ∧ o.dns.length * 4 ≤ 255 ∧
      o.ntp.length * 4 ≤ 255 ∧ o.leaseNs / 1000000000 ≤ 4294967295 := by
  simp only [LOpts.representable, Bool.and_eq_true, decide_eq_true_eq, and_assoc]

/-- What `parseConfig` leaves in the global options. -/
structure GlobalOf (r : RawCfg) (lo : LOpts) (l : Int) : Prop where
  lease : r.lease = some l
  leaseMin : 60000000000 ≤ l
  router : r.router ≠ .bad
  dns : ipv4List r.dns = some lo.dns
  ntp : ipv4List r.ntp = some lo.ntp
  eq : lo = { domain := r.domain, router := entIp r.router, dns := lo.dns, ntp := lo.ntp, leaseNs := l }
  repr : lo.representable = true

theorem parseConfig_global {r : RawCfg} {lo : LOpts} {base p : Nat} (h : parseConfig r = .ok (lo, base, p)) :
    r.network = some (base, p) ∧ ∃ l, GlobalOf r lo l := by
  obtain ⟨hn, l, ro, dns, ntp, hl, hmin, hro, hdns, hntp, rfl, hrep⟩ := (parseConfig_ok_iff r lo base p).1 h
  obtain ⟨hro1, rfl⟩ := (entOpt_eq_some_iff _ _).1 hro
  exact ⟨hn, l, ⟨hl, hmin, hro1, hdns, hntp, rfl, hrep⟩⟩

theorem GlobalOf.ip {r : RawCfg} {lo : LOpts} {l : Int} (g : GlobalOf r lo l) : lo.ip = none := by rw [g.eq]
theorem GlobalOf.hostname {r : RawCfg} {lo : LOpts} {l : Int} (g : GlobalOf r lo l) : lo.hostname = [] := by rw [g.eq]
theorem GlobalOf.domain {r : RawCfg} {lo : LOpts} {l : Int} (g : GlobalOf r lo l) : lo.domain = r.domain := by rw [g.eq]
theorem GlobalOf.router_eq {r : RawCfg} {lo : LOpts} {l : Int} (g : GlobalOf r lo l) : lo.router = entIp r.router := by rw [g.eq]
theorem GlobalOf.leaseNs {r : RawCfg} {lo : LOpts} {l : Int} (g : GlobalOf r lo l) : lo.leaseNs = l := by rw [g.eq]

theorem new_netFrom {σ : Type} (e : σ) (base p : Nat) : (IPDB.new e base p).netFrom = (fromTo base p).1 := rfl
theorem new_netTo {σ : Type} (e : σ) (base p : Nat) : (IPDB.new e base p).netTo = (fromTo base p).2 := rfl
theorem new_dynFrom {σ : Type} (e : σ) (base p : Nat) : (IPDB.new e base p).dynFrom = (fromTo base p).1 := rfl
theorem new_dynTo {σ : Type} (e : σ) (base p : Nat) : (IPDB.new e base p).dynTo = (fromTo base p).2 := rfl

theorem effective_global (r : RawCfg) (clients : List RawClient) (t : Int) (s : Started Table)
    (h : newServer tableStore ([] : Table) r clients t = .ok s) :
    r.selfIp = some s.cfg.selfIp ∧ r.lease = some s.cfg.leaseNs ∧ s.cfg.router = entIp r.router ∧
    ipv4List r.dns = some s.cfg.dns ∧ ipv4List r.ntp = some s.cfg.ntp ∧ s.cfg.domain = r.domain ∧
    (∃ base p, r.network = some (base, p) ∧ (s.db.netFrom, s.db.netTo) = fromTo base p ∧ s.cfg.mask = maskOf p) ∧
    (s.db.dynFrom, s.db.dynTo) = (if r.staticOnly then (0, 0) else match r.dyn with
        | .range a b => (a.toNat, b.toNat)
        | _ => (s.db.netFrom, s.db.netTo)) := by
  obtain ⟨selfIp, lo, base, p, db0, hs, hp, hd, _, _, _, _, _, rfl⟩ := (start_table_iff r clients t s).1 h
  obtain ⟨hn, l, g⟩ := parseConfig_global hp
  have hf := dynOK_fields hd
  refine ⟨hs, ?_, g.router_eq, g.dns, g.ntp, g.domain, ⟨base, p, hn, ?_, rfl⟩, ?_⟩
  · show r.lease = some lo.leaseNs
    rw [g.leaseNs]; exact g.lease
  · show ((startDb r db0).netFrom, (startDb r db0).netTo) = fromTo base p
    rw [startDb_netFrom, startDb_netTo, hf.2.1, hf.2.2, new_netFrom, new_netTo]
  · show ((startDb r db0).dynFrom, (startDb r db0).dynTo) = (if r.staticOnly then (0, 0) else match r.dyn with
        | .range a b => (a.toNat, b.toNat)
        | _ => ((startDb r db0).netFrom, (startDb r db0).netTo))
    rw [startDb_netFrom, startDb_netTo]
    unfold startDb
    cases r.staticOnly with
    | true => rfl
    | false =>
      simp only [Bool.false_eq_true, if_false]
      rcases (dynOK_iff _ db0 r.dyn).1 hd with ⟨hdyn, rfl⟩ | ⟨a, b, hdyn, _, _, _, rfl⟩
      · rw [hdyn]; rfl
      · rw [hdyn]

theorem find?_mkOv {es : List (Bytes × LOpts)} (hp : es.Pairwise fun e₁ e₂ => e₁.1 ≠ e₂.1) {e : Bytes × LOpts}
    (he : e ∈ es) : (es.map mkOv).find? (·.mac = e.1) = some (mkOv e) := by
  induction es with
  | nil => cases he
  | cons x xs ih =>
    rw [List.pairwise_cons] at hp
    rw [List.map_cons, List.find?_cons]
    have hx : (mkOv x).mac = x.1 := by obtain ⟨m, o⟩ := x; rfl
    rcases List.mem_cons.1 he with rfl | he'
    · simp [hx]
    · have : ¬ x.1 = e.1 := hp.1 e he'
      simp only [hx, this, decide_false]
      exact ih hp.2 he'

theorem entIp_eq_some {e : Ent} {ip : Ip4} : entIp e = some ip ↔ e = .ok ip := by
  cases e <;> simp [entIp]

/-- The merged options of an entry, read off the raw client. -/
theorem entry_fields {r : RawCfg} {lo : LOpts} {l : Int} (g : GlobalOf r lo l) {c : RawClient} {oo : LOpts}
    (h : setClientOverrides lo c = .ok oo) :
    oo.ip = entIp c.ip ∧ oo.router = (match entIp c.router with | some x => some x | none => lo.router) ∧
    (∃ d, ipv4List c.dns = some d ∧ oo.dns = (if d.isEmpty then lo.dns else d)) ∧
    (∃ n, ipv4List c.ntp = some n ∧ oo.ntp = (if n.isEmpty then lo.ntp else n)) ∧
    oo.hostname = c.hostname ∧ oo.domain = lo.domain ∧ oo.leaseNs = lo.leaseNs := by
  obtain ⟨ip, ro, dns, ntp, h1, h2, h3, h4, rfl, _⟩ := (setClientOverrides_ok_iff lo c oo).1 h
  obtain ⟨_, rfl⟩ := (entOpt_eq_some_iff _ _).1 h1
  obtain ⟨_, rfl⟩ := (entOpt_eq_some_iff _ _).1 h2
  refine ⟨?_, rfl, ⟨dns, h3, rfl⟩, ⟨ntp, h4, rfl⟩, ?_, rfl, rfl⟩
  · show (match entIp c.ip with | some i => some i | none => lo.ip) = entIp c.ip
    rw [g.ip]; cases entIp c.ip <;> rfl
  · show (if c.hostname.isEmpty then lo.hostname else c.hostname) = c.hostname
    rw [g.hostname]
    cases hh : c.hostname with
    | nil => rfl
    | cons x xs => rfl

theorem effective_client (r : RawCfg) (clients : List RawClient) (t : Int) (s : Started Table)
    (h : newServer tableStore ([] : Table) r clients t = .ok s) (c : RawClient) (hc : c ∈ clients) :
    ∃ mac o, c.mac = some mac ∧ s.cfg.override? mac = some o ∧ o.ip = entIp c.ip ∧
      o.router = (match entIp c.router with | some x => some x | none => s.cfg.router) ∧
      (∃ d, ipv4List c.dns = some d ∧ o.dns = (if d.isEmpty then s.cfg.dns else d)) ∧
      (∃ n, ipv4List c.ntp = some n ∧ o.ntp = (if n.isEmpty then s.cfg.ntp else n)) ∧
      o.hostname = c.hostname ∧
      (∀ ip, c.ip = .ok ip → ∃ b ∈ s.db.s, b.ip = ip.toNat ∧ b.duid = sduid mac ∧ b.perm = true) := by
  obtain ⟨selfIp, lo, base, p, db0, hs, hp, hd, hall, hgood, _, _, _, rfl⟩ := (start_table_iff r clients t s).1 h
  obtain ⟨hn, l, g⟩ := parseConfig_global hp
  obtain ⟨⟨mac, oo⟩, he⟩ := Option.isSome_iff_exists.1 (hall c hc)
  obtain ⟨hm, hso⟩ := (entryOf_eq_some_iff lo c (mac, oo)).1 he
  have hmem : (mac, oo) ∈ entries lo clients := mem_entries.2 ⟨c, hc, he⟩
  obtain ⟨f1, f2, f3, f4, f5, _, _⟩ := entry_fields g hso
  refine ⟨mac, mkOv (mac, oo), hm, find?_mkOv hgood.macs hmem, f1, f2, f3, f4, f5, ?_⟩
  intro ip hip
  refine ⟨⟨ip.toNat, sduid mac, 0, true⟩, ?_, rfl, rfl, rfl⟩
  show _ ∈ _ :: tbl (entries lo clients)
  refine List.mem_cons_of_mem _ (mem_tbl.2 ⟨(mac, oo), hmem, ip, ?_, rfl⟩)
  show oo.ip = some ip
  rw [f1]; exact entIp_eq_some.2 hip

/-! ## The server starts exactly on valid configurations -/

theorem pairwise_filterMap_of_isSome {α β : Type} {f : α → Option β} {R : β → β → Prop} {S : α → α → Prop}
    (hRS : ∀ a₁ a₂ b₁ b₂, f a₁ = some b₁ → f a₂ = some b₂ → (R b₁ b₂ ↔ S a₁ a₂)) :
    ∀ (l : List α), (∀ a ∈ l, (f a).isSome) → ((l.filterMap f).Pairwise R ↔ l.Pairwise S) := by
  intro l
  induction l with
  | nil => intro _; simp
  | cons a l ih =>
    intro hall
    obtain ⟨b, hb⟩ := Option.isSome_iff_exists.1 (hall a (by simp))
    have hall' : ∀ a ∈ l, (f a).isSome := fun x hx => hall x (by simp [hx])
    rw [List.filterMap_cons_some hb, List.pairwise_cons, List.pairwise_cons, ih hall']
    refine and_congr ?_ Iff.rfl
    constructor
    · intro h a' ha'
      obtain ⟨b', hb'⟩ := Option.isSome_iff_exists.1 (hall' a' ha')
      exact (hRS a a' b b' hb hb').1 (h b' (List.mem_filterMap.2 ⟨a', ha', hb'⟩))
    · intro h b' hb'
      obtain ⟨a', ha', hfa'⟩ := List.mem_filterMap.1 hb'
      exact (hRS a a' b b' hb hfa').2 (h a' ha')

theorem entry_ip {r : RawCfg} {lo : LOpts} {l : Int} (g : GlobalOf r lo l) {c : RawClient} {e : Bytes × LOpts}
    (h : entryOf lo c = some e) : c.mac = some e.1 ∧ e.2.ip = entIp c.ip := by
  obtain ⟨hm, hs⟩ := (entryOf_eq_some_iff lo c e).1 h
  exact ⟨hm, (entry_fields g hs).1⟩

theorem ite_isEmpty_length_le {α : Type} (x y : List α) (n : Nat) (hy : y.length ≤ n) (hx : x.length ≤ n) :
    (if x.isEmpty then y else x).length ≤ n := by
  cases x <;> simpa

/-- The per-client checks of `SetClientOverrides`, given a parsed global section. -/
theorem client_ok_iff {r : RawCfg} {lo : LOpts} {l : Int} (g : GlobalOf r lo l) (c : RawClient) :
    (∃ oo, setClientOverrides lo c = .ok oo) ↔
      entValid c.ip ∧ entValid c.router ∧ listValid c.dns ∧ listLen c.dns ≤ 63 ∧ listValid c.ntp ∧
        listLen c.ntp ≤ 63 ∧ c.hostname.length ≤ 255 := by
  have hrep := (representable_iff lo).1 g.repr
  constructor
  · rintro ⟨oo, h⟩
    obtain ⟨ip, ro, dns, ntp, h1, h2, h3, h4, rfl, h5⟩ := (setClientOverrides_ok_iff lo c oo).1 h
    obtain ⟨_, hh, hd, hn, _⟩ := (representable_iff _).1 h5
    simp only [merged] at hh hd hn
    have l3 := ipv4List_length h3
    have l4 := ipv4List_length h4
    refine ⟨((entOpt_eq_some_iff _ _).1 h1).1, ((entOpt_eq_some_iff _ _).1 h2).1,
      (ipv4List_isSome_iff _).1 ⟨_, h3⟩, ?_, (ipv4List_isSome_iff _).1 ⟨_, h4⟩, ?_, ?_⟩
    · cases dns with
      | nil => simp at l3; omega
      | cons x xs => simp only [List.isEmpty_cons, Bool.false_eq_true, if_false] at hd; omega
    · cases ntp with
      | nil => simp at l4; omega
      | cons x xs => simp only [List.isEmpty_cons, Bool.false_eq_true, if_false] at hn; omega
    · cases hc : c.hostname with
      | nil => simp
      | cons x xs => rw [hc] at hh; simpa using hh
  · rintro ⟨v1, v2, v3, v4, v5, v6, v7⟩
    obtain ⟨dns, h3⟩ := (ipv4List_isSome_iff _).2 v3
    obtain ⟨ntp, h4⟩ := (ipv4List_isSome_iff _).2 v5
    have l3 := ipv4List_length h3
    have l4 := ipv4List_length h4
    refine ⟨_, (setClientOverrides_ok_iff lo c _).2 ⟨entIp c.ip, entIp c.router, dns, ntp,
      (entOpt_eq_some_iff _ _).2 ⟨v1, rfl⟩, (entOpt_eq_some_iff _ _).2 ⟨v2, rfl⟩, h3, h4, rfl, ?_⟩⟩
    rw [representable_iff]
    simp only [merged]
    refine ⟨hrep.1, ?_, ?_, ?_, hrep.2.2.2.2⟩
    · exact ite_isEmpty_length_le _ _ _ hrep.2.1 v7
    · have := ite_isEmpty_length_le dns lo.dns 63 (by omega) (by omega); omega
    · have := ite_isEmpty_length_le ntp lo.ntp 63 (by omega) (by omega); omega

set_option linter.unusedVariables false in
theorem starts_iff_valid (r : RawCfg) (clients : List RawClient) (t : Int)
    (hnet : ∀ base p, r.network = some (base, p) → base < 4294967296 ∧ p ≤ 32) :
    (∃ s, newServer tableStore ([] : Table) r clients t = .ok s) ↔ Valid r clients := by
  constructor
  · rintro ⟨s, h⟩
    obtain ⟨selfIp, lo, base, p, db0, hs, hp, hd, hall, hgood, hin1, hin2, hfree, _⟩ :=
      (start_table_iff r clients t s).1 h
    obtain ⟨hn, l, g⟩ := parseConfig_global hp
    have hf := dynOK_fields hd
    have hnf : db0.netFrom = (fromTo base p).1 := hf.2.1
    have hnt : db0.netTo = (fromTo base p).2 := hf.2.2
    have hrep := (representable_iff lo).1 g.repr
    have hent : ∀ c ∈ clients, ∃ e, entryOf lo c = some e ∧ e ∈ entries lo clients ∧ c.mac = some e.1 ∧
        e.2.ip = entIp c.ip := by
      intro c hc
      obtain ⟨e, he⟩ := Option.isSome_iff_exists.1 (hall c hc)
      exact ⟨e, he, mem_entries.2 ⟨c, hc, he⟩, entry_ip g he⟩
    refine ⟨?_, ?_, ?_, g.router, ?_, ?_, ?_, ?_, ?_, ?_, ?_, ?_, ?_, ?_⟩
    · rw [hs]; simp
    · rw [hn]; simp
    · refine ⟨l, g.lease, g.leaseMin, ?_⟩
      have := hrep.2.2.2.2; rwa [g.leaseNs] at this
    · refine ⟨(ipv4List_isSome_iff _).1 ⟨_, g.dns⟩, ?_⟩
      have := ipv4List_length g.dns; have := hrep.2.2.1; omega
    · refine ⟨(ipv4List_isSome_iff _).1 ⟨_, g.ntp⟩, ?_⟩
      have := ipv4List_length g.ntp; have := hrep.2.2.2.1; omega
    · have := hrep.1; rwa [g.domain] at this
    · rcases (dynOK_iff _ db0 r.dyn).1 hd with ⟨hdyn, _⟩ | ⟨a, b, hdyn, h1, h2, h3, _⟩
      · exact Or.inl hdyn
      · exact Or.inr ⟨a, b, base, p, hdyn, hn, h1, h2, h3⟩
    · intro c hc
      obtain ⟨e, he, _, hm, _⟩ := hent c hc
      obtain ⟨_, hso⟩ := (entryOf_eq_some_iff lo c e).1 he
      exact ⟨by rw [hm]; simp, (client_ok_iff g c).1 ⟨_, hso⟩⟩
    · intro c hc ip hip
      obtain ⟨e, he, hmem, _, heip⟩ := hent c hc
      have := hgood.inside e hmem ip (by rw [heip]; exact entIp_eq_some.2 hip)
      exact ⟨base, p, hn, by rw [← hnf]; exact this.1, by rw [← hnt]; exact this.2⟩
    · refine (pairwise_filterMap_of_isSome ?_ clients hall).1 hgood.macs
      intro c₁ c₂ e₁ e₂ h1 h2
      rw [(entry_ip g h1).1, (entry_ip g h2).1]
      simp
    · refine (pairwise_filterMap_of_isSome ?_ clients hall).1 hgood.ips
      intro c₁ c₂ e₁ e₂ h1 h2
      rw [(entry_ip g h1).2, (entry_ip g h2).2]
      simp only [ne_eq, entIp_eq_some]
    · intro s' hs'
      rw [hs] at hs'; cases hs'
      exact ⟨base, p, hn, by rw [← hnf]; exact hin1, by rw [← hnt]; exact hin2⟩
    · intro c hc ip hip
      obtain ⟨e, he, hmem, hm, heip⟩ := hent c hc
      have := hfree e hmem ip (by rw [heip]; exact entIp_eq_some.2 hip)
      refine ⟨?_, ?_⟩
      · rw [hs]; intro h; cases h; exact this.1 rfl
      · rw [hm]; intro h; exact this.2 (Option.some.inj h)
  · intro v
    obtain ⟨selfIp, hs⟩ := Option.ne_none_iff_exists'.1 v.selfIp
    obtain ⟨⟨base, p⟩, hn⟩ := Option.ne_none_iff_exists'.1 v.network
    obtain ⟨l, hl, hmin, hmax⟩ := v.lease
    obtain ⟨dns, hdns⟩ := (ipv4List_isSome_iff _).2 v.dns.1
    obtain ⟨ntp, hntp⟩ := (ipv4List_isSome_iff _).2 v.ntp.1
    have ldns := ipv4List_length hdns
    have lntp := ipv4List_length hntp
    have hp : parseConfig r = .ok ({ domain := r.domain, router := entIp r.router, dns := dns, ntp := ntp, leaseNs := l }, base, p) := by
      refine (parseConfig_ok_iff r _ base p).2 ⟨hn, l, entIp r.router, dns, ntp, hl, hmin,
        (entOpt_eq_some_iff _ _).2 ⟨v.router, rfl⟩, hdns, hntp, rfl, ?_⟩
      rw [representable_iff]
      refine ⟨v.domain, by simp, ?_, ?_, hmax⟩
      · have := v.dns.2; show dns.length * 4 ≤ 255; omega
      · have := v.ntp.2; show ntp.length * 4 ≤ 255; omega
    generalize hlo : ({ domain := r.domain, router := entIp r.router, dns := dns, ntp := ntp, leaseNs := l } : LOpts) = lo at hp
    obtain ⟨_, l', g⟩ := parseConfig_global hp
    have hnet' : ∀ base' p', r.network = some (base', p') → base' = base ∧ p' = p := by
      intro base' p' h; rw [hn] at h; cases h; exact ⟨rfl, rfl⟩
    obtain ⟨db0, hd⟩ : ∃ db0, DynOK IPDB.setDynamicRange (IPDB.new ([] : Table) base p) r.dyn db0 := by
      rcases v.dyn with hdyn | ⟨a, b, base', p', hdyn, hn', h1, h2, h3⟩
      · exact ⟨_, (dynOK_iff _ _ _).2 (Or.inl ⟨hdyn, rfl⟩)⟩
      · obtain ⟨rfl, rfl⟩ := hnet' _ _ hn'
        exact ⟨_, (dynOK_iff _ _ _).2 (Or.inr ⟨a, b, hdyn, h1, h2, h3, rfl⟩)⟩
    have hf := dynOK_fields hd
    have hnf : db0.netFrom = (fromTo base p).1 := hf.2.1
    have hnt : db0.netTo = (fromTo base p).2 := hf.2.2
    have hall : ∀ c ∈ clients, (entryOf lo c).isSome := by
      intro c hc
      obtain ⟨hm, hrest⟩ := v.clientFields c hc
      obtain ⟨mac, hmac⟩ := Option.ne_none_iff_exists'.1 hm
      obtain ⟨oo, hoo⟩ := (client_ok_iff g c).2 hrest
      rw [(entryOf_eq_some_iff lo c (mac, oo)).2 ⟨hmac, hoo⟩]; rfl
    have hent : ∀ e ∈ entries lo clients, ∃ c ∈ clients, c.mac = some e.1 ∧ e.2.ip = entIp c.ip := by
      intro e he
      obtain ⟨c, hc, hce⟩ := mem_entries.1 he
      exact ⟨c, hc, entry_ip g hce⟩
    refine ⟨startedOf r selfIp lo p db0 (entries lo clients), (start_table_iff r clients t _).2
      ⟨selfIp, lo, base, p, db0, hs, hp, hd, hall, ⟨?_, ?_, ?_⟩, ?_, ?_, ?_, rfl⟩⟩
    · refine (pairwise_filterMap_of_isSome ?_ clients hall).2 v.distinctMac
      intro c₁ c₂ e₁ e₂ h1 h2
      rw [(entry_ip g h1).1, (entry_ip g h2).1]
      simp
    · refine (pairwise_filterMap_of_isSome ?_ clients hall).2 v.distinctIp
      intro c₁ c₂ e₁ e₂ h1 h2
      rw [(entry_ip g h1).2, (entry_ip g h2).2]
      simp only [ne_eq, entIp_eq_some]
    · intro e he ip hip
      obtain ⟨c, hc, _, heip⟩ := hent e he
      obtain ⟨base', p', hn', h1, h2⟩ := v.staticInside c hc ip (entIp_eq_some.1 (by rw [← heip]; exact hip))
      obtain ⟨rfl, rfl⟩ := hnet' _ _ hn'
      rw [hnf, hnt]; exact ⟨h1, h2⟩
    · obtain ⟨base', p', hn', h1, _⟩ := v.selfInside selfIp hs
      obtain ⟨rfl, rfl⟩ := hnet' _ _ hn'
      rw [hnf]; exact h1
    · obtain ⟨base', p', hn', _, h2⟩ := v.selfInside selfIp hs
      obtain ⟨rfl, rfl⟩ := hnet' _ _ hn'
      rw [hnt]; exact h2
    · intro e he ip hip
      obtain ⟨c, hc, hm, heip⟩ := hent e he
      obtain ⟨h1, h2⟩ := v.selfFree c hc ip (entIp_eq_some.1 (by rw [← heip]; exact hip))
      refine ⟨?_, ?_⟩
      · rintro rfl; exact h1 hs
      · intro h; exact h2 (by rw [hm, h])

/-! ## The order in which the client entries are visited does not matter -/

theorem goodE_perm {nf nt : Nat} {es₁ es₂ : List (Bytes × LOpts)} (hp : es₁.Perm es₂) (h : GoodE nf nt es₁) :
    GoodE nf nt es₂ := by
  refine ⟨?_, ?_, ?_⟩
  · exact (hp.pairwise_iff (fun {x y} hxy => Ne.symm hxy)).1 h.macs
  · refine (hp.pairwise_iff ?_).1 h.ips
    intro x y hxy ip hy hx
    exact hxy ip hx hy
  · intro e he; exact h.inside e (hp.mem_iff.2 he)

theorem find?_mkOv_none {es : List (Bytes × LOpts)} {mac : Bytes} (h : ∀ e ∈ es, e.1 ≠ mac) :
    (es.map mkOv).find? (·.mac = mac) = none := by
  rw [List.find?_eq_none]
  intro o ho
  obtain ⟨e, he, rfl⟩ := List.mem_map.1 ho
  have hx : (mkOv e).mac = e.1 := by obtain ⟨m, o⟩ := e; rfl
  simpa [hx] using h e he

theorem override_perm {es₁ es₂ : List (Bytes × LOpts)} (hp : es₁.Perm es₂)
    (h₁ : es₁.Pairwise fun e₁ e₂ => e₁.1 ≠ e₂.1) (mac : Bytes) :
    (es₁.map mkOv).find? (·.mac = mac) = (es₂.map mkOv).find? (·.mac = mac) := by
  have h₂ : es₂.Pairwise fun e₁ e₂ => e₁.1 ≠ e₂.1 := (hp.pairwise_iff (fun {x y} hxy => Ne.symm hxy)).1 h₁
  by_cases hex : ∃ e ∈ es₁, e.1 = mac
  · obtain ⟨e, he, rfl⟩ := hex
    rw [find?_mkOv h₁ he, find?_mkOv h₂ (hp.mem_iff.1 he)]
  · have hn : ∀ e ∈ es₁, e.1 ≠ mac := fun e he heq => hex ⟨e, he, heq⟩
    rw [find?_mkOv_none hn, find?_mkOv_none (fun e he => hn e (hp.mem_iff.2 he))]

theorem dhcpOptions_congr (r : RawCfg) (selfIp : Ip4) (lo : LOpts) (p : Nat) (es₁ es₂ : List (Bytes × LOpts)) (mac : Bytes)
    (h : (mkCfg r selfIp lo p es₁).override? mac = (mkCfg r selfIp lo p es₂).override? mac) :
    (mkCfg r selfIp lo p es₁).dhcpOptions mac = (mkCfg r selfIp lo p es₂).dhcpOptions mac := by
  unfold SrvCfg.dhcpOptions
  rw [h]
  rfl

set_option linter.unusedVariables false in
theorem order_independent (r : RawCfg) (c₁ c₂ : List RawClient) (t : Int) (hp : List.Perm c₁ c₂)
    (hnet : ∀ base p, r.network = some (base, p) → base < 4294967296 ∧ p ≤ 32) :
    (∀ s₁, newServer tableStore ([] : Table) r c₁ t = .ok s₁ →
      ∃ s₂, newServer tableStore ([] : Table) r c₂ t = .ok s₂ ∧
        (∀ mac, s₁.cfg.dhcpOptions mac = s₂.cfg.dhcpOptions mac) ∧ List.Perm s₁.db.s s₂.db.s ∧
        (s₁.db.netFrom, s₁.db.netTo, s₁.db.dynFrom, s₁.db.dynTo) = (s₂.db.netFrom, s₂.db.netTo, s₂.db.dynFrom, s₂.db.dynTo)) := by
  intro s₁ h
  obtain ⟨selfIp, lo, base, p, db0, hs, hpc, hd, hall, hgood, hin1, hin2, hfree, rfl⟩ := (start_table_iff r c₁ t s₁).1 h
  have hpe : (entries lo c₁).Perm (entries lo c₂) := hp.filterMap _
  refine ⟨startedOf r selfIp lo p db0 (entries lo c₂), (start_table_iff r c₂ t _).2
    ⟨selfIp, lo, base, p, db0, hs, hpc, hd, fun c hc => hall c (hp.mem_iff.2 hc), goodE_perm hpe hgood, hin1, hin2,
      fun e he => hfree e (hpe.mem_iff.2 he), rfl⟩, ?_, ?_, rfl⟩
  · intro mac
    exact dhcpOptions_congr r selfIp lo p _ _ mac (override_perm hpe hgood.macs mac)
  · show List.Perm (_ :: tbl (entries lo c₁)) (_ :: tbl (entries lo c₂))
    refine List.Perm.cons _ ?_
    unfold tbl
    exact (List.reverse_perm _).trans ((hpe.filterMap _).trans (List.reverse_perm _).symm)

/-! ## The concrete store and the reference table agree on whether the server starts -/

section Sim
variable {σ₁ σ₂ : Type} {Rel : σ₁ → σ₂ → Int → Prop}

/-- Corresponding intermediate results: the same error, or related databases and the same overrides. -/
def AccRel (Rel : σ₁ → σ₂ → Int → Prop) (t : Int) :
    Except CfgErr (IPDB σ₁ × List (Bytes × LOpts)) → Except CfgErr (IPDB σ₂ × List (Bytes × LOpts)) → Prop
  | .error e₁, .error e₂ => e₁ = e₂
  | .ok (db1, o1), .ok (db2, o2) => o1 = o2 ∧ DbRel Rel db1 db2 t
  | _, _ => False

/-- Both fail, or both succeed. -/
def SameOutcome {α β : Type} : Except CfgErr α → Except CfgErr β → Prop
  | .error e₁, .error e₂ => e₁ = e₂
  | .ok _, .ok _ => True
  | _, _ => False

variable (AP₁ : IPDB σ₁ → Int → Option Ip4 → Duid → IPDB σ₁ × Except DbErr Unit)
variable (AP₂ : IPDB σ₂ → Int → Option Ip4 → Duid → IPDB σ₂ × Except DbErr Unit)
variable (SD₁ : IPDB σ₁ → Option Ip4 → Option Ip4 → IPDB σ₁ × Except DbErr Unit)
variable (SD₂ : IPDB σ₂ → Option Ip4 → Option Ip4 → IPDB σ₂ × Except DbErr Unit)

theorem stepC_sim (t : Int)
    (hAP : ∀ db1 db2 ip d, DbRel Rel db1 db2 t → (AP₁ db1 t ip d).2 = (AP₂ db2 t ip d).2 ∧
      DbRel Rel (AP₁ db1 t ip d).1 (AP₂ db2 t ip d).1 t)
    (lo : LOpts) (c : RawClient) (a₁ : Except CfgErr (IPDB σ₁ × List (Bytes × LOpts)))
    (a₂ : Except CfgErr (IPDB σ₂ × List (Bytes × LOpts))) (h : AccRel Rel t a₁ a₂) :
    AccRel Rel t (stepC AP₁ lo t a₁ c) (stepC AP₂ lo t a₂ c) := by
  cases a₁ with
  | error e₁ =>
    cases a₂ with
    | error e₂ => exact h
    | ok v₂ => exact h.elim
  | ok v₁ =>
    cases a₂ with
    | error e₂ => obtain ⟨db1, o1⟩ := v₁; exact h.elim
    | ok v₂ =>
      obtain ⟨db1, o1⟩ := v₁
      obtain ⟨db2, o2⟩ := v₂
      obtain ⟨rfl, hR⟩ := h
      unfold stepC
      simp only
      cases c.mac with
      | none => exact rfl
      | some mac =>
        simp only
        cases setClientOverrides lo c with
        | error e => exact rfl
        | ok oo =>
          simp only
          have hdup : ∀ (d1 : IPDB σ₁) (d2 : IPDB σ₂), DbRel Rel d1 d2 t →
              AccRel Rel t (dupCheck d1 o1 mac oo) (dupCheck d2 o1 mac oo) := by
            intro d1 d2 hd
            unfold dupCheck
            cases o1.any (·.1 = mac) with
            | true => exact rfl
            | false => exact ⟨rfl, hd⟩
          cases oo.ip with
          | none => exact hdup _ _ hR
          | some ip =>
            simp only
            obtain ⟨e, r⟩ := hAP db1 db2 (some ip) (sduid mac) hR
            revert e r
            cases AP₁ db1 t (some ip) (sduid mac) with
            | mk d1 r1 =>
              cases AP₂ db2 t (some ip) (sduid mac) with
              | mk d2 r2 =>
                intro e r
                simp only at e r
                subst e
                cases r1 with
                | error x => exact rfl
                | ok u => exact hdup _ _ r

theorem foldl_stepC_sim (t : Int)
    (hAP : ∀ db1 db2 ip d, DbRel Rel db1 db2 t → (AP₁ db1 t ip d).2 = (AP₂ db2 t ip d).2 ∧
      DbRel Rel (AP₁ db1 t ip d).1 (AP₂ db2 t ip d).1 t)
    (lo : LOpts) (cs : List RawClient) : ∀ (a₁ : Except CfgErr (IPDB σ₁ × List (Bytes × LOpts)))
    (a₂ : Except CfgErr (IPDB σ₂ × List (Bytes × LOpts))), AccRel Rel t a₁ a₂ →
    AccRel Rel t (cs.foldl (stepC AP₁ lo t) a₁) (cs.foldl (stepC AP₂ lo t) a₂) := by
  induction cs with
  | nil => intro a₁ a₂ h; exact h
  | cons c cs ih =>
    intro a₁ a₂ h
    rw [List.foldl_cons, List.foldl_cons]
    exact ih _ _ (stepC_sim AP₁ AP₂ t hAP lo c a₁ a₂ h)

theorem finish_sim (t : Int)
    (hAP : ∀ db1 db2 ip d, DbRel Rel db1 db2 t → (AP₁ db1 t ip d).2 = (AP₂ db2 t ip d).2 ∧
      DbRel Rel (AP₁ db1 t ip d).1 (AP₂ db2 t ip d).1 t)
    (r : RawCfg) (selfIp : Ip4) (lo : LOpts) (p : Nat) (a₁ : Except CfgErr (IPDB σ₁ × List (Bytes × LOpts)))
    (a₂ : Except CfgErr (IPDB σ₂ × List (Bytes × LOpts))) (h : AccRel Rel t a₁ a₂) :
    SameOutcome (finish AP₁ r t selfIp lo p a₁) (finish AP₂ r t selfIp lo p a₂) := by
  cases a₁ with
  | error e₁ =>
    cases a₂ with
    | error e₂ => exact h
    | ok v₂ => exact h.elim
  | ok v₁ =>
    cases a₂ with
    | error e₂ => obtain ⟨db1, o1⟩ := v₁; exact h.elim
    | ok v₂ =>
      obtain ⟨db1, o1⟩ := v₁
      obtain ⟨db2, o2⟩ := v₂
      obtain ⟨rfl, hR⟩ := h
      unfold finish
      simp only
      obtain ⟨e, r⟩ := hAP db1 db2 (some selfIp) (sduid r.selfMac) hR
      revert e r
      cases AP₁ db1 t (some selfIp) (sduid r.selfMac) with
      | mk d1 r1 =>
        cases AP₂ db2 t (some selfIp) (sduid r.selfMac) with
        | mk d2 r2 =>
          intro e _
          simp only at e
          subst e
          cases r1 with
          | error x => exact rfl
          | ok u => exact trivial

theorem disableDynamic_rel {db1 : IPDB σ₁} {db2 : IPDB σ₂} {t : Int} (h : DbRel Rel db1 db2 t) :
    DbRel Rel db1.disableDynamic db2.disableDynamic t :=
  ⟨h.1, h.2.1, rfl, rfl, h.2.2.2.2⟩

theorem newServerP_sim (t : Int)
    (hAP : ∀ db1 db2 ip d, DbRel Rel db1 db2 t → (AP₁ db1 t ip d).2 = (AP₂ db2 t ip d).2 ∧
      DbRel Rel (AP₁ db1 t ip d).1 (AP₂ db2 t ip d).1 t)
    (hSD : ∀ db1 db2 a b, DbRel Rel db1 db2 t → (SD₁ db1 a b).2 = (SD₂ db2 a b).2 ∧
      DbRel Rel (SD₁ db1 a b).1 (SD₂ db2 a b).1 t)
    (e₁ : σ₁) (e₂ : σ₂) (he : Rel e₁ e₂ t) (r : RawCfg) (clients : List RawClient) :
    SameOutcome (newServerP AP₁ SD₁ e₁ r clients t) (newServerP AP₂ SD₂ e₂ r clients t) := by
  have tl : ∀ (selfIp : Ip4) (lo : LOpts) (p : Nat) (d1 : IPDB σ₁) (d2 : IPDB σ₂), DbRel Rel d1 d2 t →
      SameOutcome (tailP AP₁ r clients t selfIp lo p d1) (tailP AP₂ r clients t selfIp lo p d2) := by
    intro selfIp lo p d1 d2 hd
    unfold tailP
    refine finish_sim AP₁ AP₂ t hAP r selfIp lo p _ _ (foldl_stepC_sim AP₁ AP₂ t hAP lo clients _ _ ?_)
    refine ⟨rfl, ?_⟩
    cases r.staticOnly with
    | true => exact disableDynamic_rel hd
    | false => exact hd
  have hnew : ∀ base p, DbRel Rel (IPDB.new e₁ base p) (IPDB.new e₂ base p) t :=
    fun base p => ⟨rfl, rfl, rfl, rfl, he⟩
  unfold newServerP
  cases r.selfIp with
  | none => exact rfl
  | some selfIp =>
    simp only
    cases parseConfig r with
    | error e => exact rfl
    | ok x =>
      obtain ⟨lo, base, p⟩ := x
      simp only
      cases r.dyn with
      | absent => exact tl _ _ _ _ _ (hnew base p)
      | badFormat => exact rfl
      | badIp => exact rfl
      | range a b =>
        simp only
        obtain ⟨e, rr⟩ := hSD _ _ (some a) (some b) (hnew base p)
        revert e rr
        cases SD₁ (IPDB.new e₁ base p) (some a) (some b) with
        | mk d1 r1 =>
          cases SD₂ (IPDB.new e₂ base p) (some a) (some b) with
          | mk d2 r2 =>
            intro e rr
            simp only at e rr
            subst e
            cases r1 with
            | error x => exact rfl
            | ok u => exact tl _ _ _ _ _ rr

theorem sameOutcome_ok_iff {α β : Type} {x : Except CfgErr α} {y : Except CfgErr β} (h : SameOutcome x y) :
    (∃ a, x = .ok a) ↔ (∃ b, y = .ok b) := by
  cases x <;> cases y <;> simp_all [SameOutcome]

end Sim

theorem addPermanent_sim {σ₁ σ₂ : Type} {S₁ : Store σ₁} {S₂ : Store σ₂} {Rel : σ₁ → σ₂ → Int → Prop}
    (sim : StoreSim S₁ S₂ Rel) {db1 : IPDB σ₁} {db2 : IPDB σ₂} {t : Int} (h : DbRel Rel db1 db2 t)
    (ip : Option Ip4) (d : Duid) :
    (db1.addPermanent S₁ t ip d).2 = (db2.addPermanent S₂ t ip d).2 ∧
      DbRel Rel (db1.addPermanent S₁ t ip d).1 (db2.addPermanent S₂ t ip d).1 t := by
  have := step_sim sim h (.addPermanent ip d) trivial
  exact ⟨DbRes.unit.inj this.1, this.2⟩

theorem setDynamicRange_sim {σ₁ σ₂ : Type} {S₁ : Store σ₁} {S₂ : Store σ₂} {Rel : σ₁ → σ₂ → Int → Prop}
    (sim : StoreSim S₁ S₂ Rel) {db1 : IPDB σ₁} {db2 : IPDB σ₂} {t : Int} (h : DbRel Rel db1 db2 t)
    (a b : Option Ip4) :
    (db1.setDynamicRange a b).2 = (db2.setDynamicRange a b).2 ∧
      DbRel Rel (db1.setDynamicRange a b).1 (db2.setDynamicRange a b).1 t := by
  have := step_sim sim h (.setDynamicRange a b) trivial
  exact ⟨DbRes.unit.inj this.1, this.2⟩

theorem start_refines (r : RawCfg) (clients : List RawClient) (t : Int) :
    (∃ s, newServer clientsStore Clients.empty r clients t = .ok s) ↔ (∃ s, newServer tableStore ([] : Table) r clients t = .ok s) := by
  rw [newServer_eq, newServer_eq]
  exact sameOutcome_ok_iff (newServerP_sim _ _ _ _ t
    (fun db1 db2 ip d h => addPermanent_sim clients_table_sim h ip d)
    (fun db1 db2 a b h => setDynamicRange_sim clients_table_sim h a b)
    Clients.empty ([] : Table) (R.empty t) r clients)

end PsaDhcp.Proofs.ConfigP
