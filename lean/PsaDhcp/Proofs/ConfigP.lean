import PsaDhcp.Model.Config
import PsaDhcp.Spec.ConfigSpec
import PsaDhcp.Proofs.Ipdb
namespace PsaDhcp.Proofs.ConfigP
end PsaDhcp.Proofs.ConfigP
