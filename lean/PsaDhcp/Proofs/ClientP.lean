import PsaDhcp.Model.Client
import PsaDhcp.Model.Sanitize
import PsaDhcp.Spec.Inet
import PsaDhcp.Proofs.Wire
import PsaDhcp.Proofs.Dhcp
/-
Proofs for C14 (client receive path), C16 (client templates, retransmission) and C17 (hook
environment / resolv.conf sanitising).  Property-level statements: Props/C14, C16, C17.
-/
namespace PsaDhcp.Proofs.ClientP
open PsaDhcp PsaDhcp.Spec

/-! ## C14 — verifier and receive loop -/

def wxid : Waiting → Nat
  | .offer x | .selectingAck _ _ x | .renewingAck _ _ x | .rebindingAck _ _ x => x

def wexpectedType : Waiting → UInt8
  | .offer _ => 2
  | _ => 5

theorem verifyCommon_passed_iff (xid : Nat) (m : Msg) (o : DecodedOptions) :
    verifyCommon xid m o = .passed ↔
      (m.xid = xid ∧ m.yiaddr ≠ none ∧ m.yiaddr ≠ some Ip4.zero ∧ m.yiaddr ≠ some Ip4.bcast ∧
       o.serverIdentifier ≠ none ∧ o.serverIdentifier ≠ some Ip4.zero ∧ o.serverIdentifier ≠ some Ip4.bcast ∧
       o.routers ≠ [] ∧ 60 ≤ o.leaseSecs) := by
  unfold verifyCommon
  split
  · simp; intro h; contradiction
  · split
    · rename_i h1 h2
      simp only [reduceCtorEq, false_iff]
      intro h
      rcases h2 with h2 | h2 | h2 | h2
      · simp at h2; exact h.2.2.2.2.2.2.2.1 h2
      · exact h.2.1 h2
      · exact h.2.2.1 h2
      · exact h.2.2.2.1 h2
    · split
      · rename_i h1 h2 h3
        simp only [reduceCtorEq, false_iff]
        intro h
        rcases h3 with h3 | h3 | h3
        · exact h.2.2.2.2.1 h3
        · exact h.2.2.2.2.2.1 h3
        · exact h.2.2.2.2.2.2.1 h3
      · split
        · simp only [reduceCtorEq, false_iff]; intro h; omega
        · rename_i h1 h2 h3 h4
          simp only [true_iff]
          simp only [not_or, List.isEmpty_iff] at h2 h3
          simp only [Decidable.not_not] at h1
          refine ⟨h1, h2.2.1, h2.2.2.1, h2.2.2.2, h3.1, h3.2.1, h3.2.2, h2.1, by omega⟩

theorem verifyCommon_ne_nack (xid : Nat) (m : Msg) (o : DecodedOptions) : verifyCommon xid m o ≠ .isNack := by
  unfold verifyCommon
  repeat' split
  all_goals simp

theorem verify_passed_iff (w : Waiting) (m : Msg) (o : DecodedOptions) :
    w.verify m o = .passed ↔
      (m.xid = wxid w ∧ o.messageType = wexpectedType w ∧
       m.yiaddr ≠ none ∧ m.yiaddr ≠ some Ip4.zero ∧ m.yiaddr ≠ some Ip4.bcast ∧
       o.serverIdentifier ≠ none ∧ o.serverIdentifier ≠ some Ip4.zero ∧ o.serverIdentifier ≠ some Ip4.bcast ∧
       o.routers ≠ [] ∧ 60 ≤ o.leaseSecs ∧
       (match w with
        | .offer _ => True
        | .selectingAck off ch _ | .renewingAck off ch _ => m.yiaddr = off ∧ o.serverIdentifier = ch
        | .rebindingAck off _ _ => m.yiaddr = off)) := by
  cases w with
  | offer x =>
    simp only [Waiting.verify, verifyOffer, wxid, wexpectedType, and_true]
    by_cases h : o.messageType = 2
    · simp only [h, ne_eq, not_true_eq_false, if_false, verifyCommon_passed_iff, true_and]
    · simp [h]
  | selectingAck off ch x =>
    simp only [Waiting.verify, verifyGenAck, wxid, wexpectedType]
    by_cases h6 : o.messageType = 6
    · simp [h6]
    by_cases h5 : o.messageType = 5
    · by_cases hy : m.yiaddr = off
      · by_cases hs : o.serverIdentifier = ch
        · simp [h5, hy, hs, verifyCommon_passed_iff]
        · simp [h5, hy, hs]
      · simp [h5, hy]
    · simp [h6, h5]
  | renewingAck off ch x =>
    simp only [Waiting.verify, verifyGenAck, wxid, wexpectedType]
    by_cases h6 : o.messageType = 6
    · simp [h6]
    by_cases h5 : o.messageType = 5
    · by_cases hy : m.yiaddr = off
      · by_cases hs : o.serverIdentifier = ch
        · simp [h5, hy, hs, verifyCommon_passed_iff]
        · simp [h5, hy, hs]
      · simp [h5, hy]
    · simp [h6, h5]
  | rebindingAck off ch x =>
    simp only [Waiting.verify, verifyGenAck, wxid, wexpectedType]
    by_cases h6 : o.messageType = 6
    · simp [h6]
    by_cases h5 : o.messageType = 5
    · by_cases hy : m.yiaddr = off
      · simp [h5, hy, verifyCommon_passed_iff]
      · simp [h5, hy]
    · simp [h6, h5]

theorem verify_nack_iff (w : Waiting) (m : Msg) (o : DecodedOptions) :
    w.verify m o = .isNack ↔ (o.messageType = 6 ∧ ∀ x, w ≠ .offer x) := by
  cases w with
  | offer x =>
    simp only [Waiting.verify, verifyOffer]
    constructor
    · intro h; split at h
      · simp at h
      · exact absurd h (verifyCommon_ne_nack _ _ _)
    · intro h; exact absurd rfl (h.2 x)
  | selectingAck off ch x | renewingAck off ch x | rebindingAck off ch x =>
    simp only [Waiting.verify, verifyGenAck]
    by_cases h6 : o.messageType = 6
    · simp [h6]
    · simp only [h6, if_false, false_and, iff_false]
      repeat' split
      all_goals first | simp | exact verifyCommon_ne_nack _ _ _

/-- Normal form of `catchOne`: what it returns in terms of the successful decodings. -/
theorem catchOne_spec (mac : Bytes) (w : Waiting) (b : Bytes) :
    (catchOne mac w b = .ok .ignored ∧
      ¬ ∃ ip udp m, decodeIPv4 b = .ok ip ∧ ip.proto = 0x11 ∧ decodeUDP ip.data = .ok udp ∧ udp.dstPort = 68 ∧
        decode udp.data = .ok m ∧ m.chaddr = mac ∧ w.verify m (decodeOptions m.options) ≠ .failed) ∨
    (∃ ip udp m, decodeIPv4 b = .ok ip ∧ ip.proto = 0x11 ∧ decodeUDP ip.data = .ok udp ∧ udp.dstPort = 68 ∧
        decode udp.data = .ok m ∧ m.chaddr = mac ∧
        ((w.verify m (decodeOptions m.options) = .passed ∧ catchOne mac w b = .ok (.passed m (decodeOptions m.options))) ∨
         (w.verify m (decodeOptions m.options) = .isNack ∧ catchOne mac w b = .ok (.nack m (decodeOptions m.options))))) := by
  unfold catchOne
  cases h1 : decodeIPv4 b with
  | error e =>
    cases e with
    | reject s => left; simp [pure, Except.pure]
    | panic s => exact absurd h1 (Proofs.Wire.decoders_never_panic b s).1
  | ok v4 =>
    by_cases hp : v4.proto = 0x11
    · cases h2 : decodeUDP v4.data with
      | error e =>
        cases e with
        | reject s => left; simp [pure, Except.pure, hp, h2]
        | panic s => exact absurd h2 (Proofs.Wire.decoders_never_panic v4.data s).2.1
      | ok udp =>
        by_cases hd : udp.dstPort = 68
        · cases h3 : decode udp.data with
          | error e =>
            cases e with
            | reject s => left; simp [pure, Except.pure, hp, h2, hd, h3]
            | panic s => exact absurd h3 (Proofs.Dhcp.decode_never_panics udp.data s)
          | ok m =>
            by_cases hc : m.chaddr = mac
            · cases hv : w.verify m (decodeOptions m.options) with
              | failed => left; simp [pure, Except.pure, hp, h2, hd, h3, hc, hv]
              | passed => right; exact ⟨v4, udp, m, rfl, hp, h2, hd, h3, hc, by simp [pure, Except.pure, hp, h2, hd, h3, hc, hv]⟩
              | isNack => right; exact ⟨v4, udp, m, rfl, hp, h2, hd, h3, hc, by simp [pure, Except.pure, hp, h2, hd, h3, hc, hv]⟩
            · left; simp [pure, Except.pure, hp, h2, hd, h3, hc]
        · left; simp [pure, Except.pure, hp, h2, hd]
    · left; simp [pure, Except.pure, hp]

theorem accept_iff (mac : Bytes) (w : Waiting) (b : Bytes) (m : Msg) (o : DecodedOptions) :
    catchOne mac w b = .ok (.passed m o) ↔
      ∃ ip udp, decodeIPv4 b = .ok ip ∧ ip.proto = 0x11 ∧ decodeUDP ip.data = .ok udp ∧ udp.dstPort = 68 ∧
        decode udp.data = .ok m ∧ m.chaddr = mac ∧ o = decodeOptions m.options ∧ w.verify m o = .passed := by
  rcases catchOne_spec mac w b with ⟨h, hn⟩ | ⟨ip, udp, m', h1, hp, h2, hd, h3, hc, hv⟩
  · rw [h]
    constructor
    · intro h'; simp at h'
    · rintro ⟨ip, udp, h1, hp, h2, hd, h3, hc, ho, hv⟩
      subst ho
      exact absurd ⟨ip, udp, m, h1, hp, h2, hd, h3, hc, by simp [hv]⟩ hn
  · constructor
    · intro h
      rcases hv with ⟨hv, hr⟩ | ⟨hv, hr⟩
      · rw [hr] at h
        injection h with h; injection h with hm ho
        subst hm; subst ho
        exact ⟨ip, udp, h1, hp, h2, hd, h3, hc, rfl, hv⟩
      · rw [hr] at h; injection h with h; cases h
    · rintro ⟨ip', udp', h1', hp', h2', hd', h3', hc', ho, hv'⟩
      subst ho
      rw [h1] at h1'; injection h1' with h1'; subst h1'
      rw [h2] at h2'; injection h2' with h2'; subst h2'
      rw [h3] at h3'; injection h3' with h3'; subst h3'
      rcases hv with ⟨hv, hr⟩ | ⟨hv, hr⟩
      · exact hr
      · rw [hv] at hv'; cases hv'

theorem nack_iff (mac : Bytes) (w : Waiting) (b : Bytes) (m : Msg) (o : DecodedOptions) :
    catchOne mac w b = .ok (.nack m o) ↔
      ∃ ip udp, decodeIPv4 b = .ok ip ∧ ip.proto = 0x11 ∧ decodeUDP ip.data = .ok udp ∧ udp.dstPort = 68 ∧
        decode udp.data = .ok m ∧ m.chaddr = mac ∧ o = decodeOptions m.options ∧ w.verify m o = .isNack := by
  rcases catchOne_spec mac w b with ⟨h, hn⟩ | ⟨ip, udp, m', h1, hp, h2, hd, h3, hc, hv⟩
  · rw [h]
    constructor
    · intro h'; simp at h'
    · rintro ⟨ip, udp, h1, hp, h2, hd, h3, hc, ho, hv⟩
      subst ho
      exact absurd ⟨ip, udp, m, h1, hp, h2, hd, h3, hc, by simp [hv]⟩ hn
  · constructor
    · intro h
      rcases hv with ⟨hv, hr⟩ | ⟨hv, hr⟩
      · rw [hr] at h; injection h with h; cases h
      · rw [hr] at h
        injection h with h; injection h with hm ho
        subst hm; subst ho
        exact ⟨ip, udp, h1, hp, h2, hd, h3, hc, rfl, hv⟩
    · rintro ⟨ip', udp', h1', hp', h2', hd', h3', hc', ho, hv'⟩
      subst ho
      rw [h1] at h1'; injection h1' with h1'; subst h1'
      rw [h2] at h2'; injection h2' with h2'; subst h2'
      rw [h3] at h3'; injection h3' with h3'; subst h3'
      rcases hv with ⟨hv, hr⟩ | ⟨hv, hr⟩
      · rw [hv] at hv'; cases hv'
      · exact hr

theorem catch_never_panics (mac : Bytes) (w : Waiting) (b : Bytes) (site : String) :
    catchOne mac w b ≠ .error (.panic site) := by
  rcases catchOne_spec mac w b with ⟨h, _⟩ | ⟨ip, udp, m', _, _, _, _, _, _, ⟨_, hr⟩ | ⟨_, hr⟩⟩ <;> rw [‹catchOne mac w b = _›] <;> simp

theorem ignored_have_no_effect (mac : Bytes) (w : Waiting) (junk rest : List Bytes)
    (h : ∀ b ∈ junk, catchOne mac w b = .ok .ignored) : catchReply mac w (junk ++ rest) = catchReply mac w rest := by
  induction junk with
  | nil => rfl
  | cons b js ih =>
    have hb := h b (by simp)
    simp only [List.cons_append, catchReply, hb, bind, Except.bind]
    exact ih (fun b' hb' => h b' (by simp [hb']))
/-! ## C16 — templates and retransmission -/

theorem nextDelay_ge (d r : Nat) : d ≤ nextDelay d r := by
  unfold nextDelay; split <;> omega

theorem delays_mono : ∀ (rs : List Nat) (d : Nat),
    (∀ x ∈ delays d rs, d ≤ x) ∧ List.Pairwise (· ≤ ·) (delays d rs) := by
  intro rs
  induction rs with
  | nil => intro d; simp [delays]
  | cons r rest ih =>
    intro d
    have h0 := nextDelay_ge d r
    obtain ⟨h1, h2⟩ := ih (nextDelay d r)
    simp only [delays, List.mem_cons, List.pairwise_cons]
    refine ⟨?_, h1, h2⟩
    rintro x (rfl | hx)
    · exact h0
    · exact Nat.le_trans h0 (h1 x hx)

theorem retransmit_delays (rs : List Nat) :
    (∀ d ∈ delays retransBase rs, 700000000 ≤ d) ∧ List.Pairwise (· ≤ ·) (delays retransBase rs) :=
  delays_mono rs retransBase

theorem unicast_only_renewing (st : ReqState) (mac : Bytes) (xid ident : Nat) (offered server : Ip4) :
    (template st mac xid ident offered server).2 = (if st = .renewing then some (offered, server) else none) := by
  cases st <;> simp [template]

theorem client_identifier_shape (mac : Bytes) :
    (optClientIdentifier mac).code = 61 ∧ (optClientIdentifier mac).data.length = 15 ∧
    (optClientIdentifier mac).data.head? = some 0xff ∧ (optClientIdentifier mac).data.drop 9 = copyInto 6 mac := by
  refine ⟨rfl, ?_, rfl, rfl⟩
  simp [optClientIdentifier, put32, Proofs.Dhcp.copyInto_length]

set_option linter.unusedVariables false in
theorem retransmission_same_xid (st : ReqState) (mac : Bytes) (xid i₁ i₂ : Nat) (offered server : Ip4)
    (h₁ : i₁ < 65536) (h₂ : i₂ < 65536) :
    ((template st mac xid i₁ offered server).1.drop 20) = ((template st mac xid i₂ offered server).1.drop 20) := by
  cases st <;> simp only [template, clientRequest, Proofs.Wire.assemble_drop20] <;> rfl

/-- The option list of `clientRequest`. -/
def reqOpts (mac : Bytes) (t : UInt8) (reqIP sid : Option Ip4) : List Opt :=
  [optType t, optClientIdentifier mac, optMaxMessageSize 1500, optParametersList paramList]
    ++ (match reqIP with | some r => [optRequestedIP (some r)] | none => [])
    ++ (match sid with | some s => [optServerIdentifier (some s)] | none => [])

/-- The DHCP message of `clientRequest`, with the `sname` / `file` contents as parameters. -/
def reqMsg (mac : Bytes) (xid : Nat) (t : UInt8) (src : Ip4) (reqIP sid : Option Ip4) (sname file : Bytes) : Msg :=
  { op := 1, htype := 1, hops := 0, xid := xid, secs := 0, flags := 0, ciaddr := some src,
    yiaddr := none, siaddr := none, giaddr := none, chaddr := mac, sname := sname, file := file,
    cookie := 0x63825363, options := reqOpts mac t reqIP sid }

def reqUdp (m : Msg) : UDP := { srcPort := 68, dstPort := 67, data := m.assemble }

def reqIp (ident : Nat) (src dst : Ip4) (u : UDP) : IPv4 :=
  { ident := ident, flags := 0, ttl := 64, proto := 0x11, src := some src, dst := some dst, data := u.assemble }

theorem clientRequest_eq (mac : Bytes) (xid ident : Nat) (t : UInt8) (src dst : Ip4) (reqIP sid : Option Ip4) :
    clientRequest mac xid ident t src dst reqIP sid
      = (reqIp ident src dst (reqUdp (reqMsg mac xid t src reqIP sid [] []))).assemble := rfl

/-- `copy` into the zeroed 64- and 128-byte fields: an empty `sname` / `file` is the all-zero one. -/
theorem assemble_pad (mac : Bytes) (xid : Nat) (t : UInt8) (src : Ip4) (reqIP sid : Option Ip4) :
    (reqMsg mac xid t src reqIP sid [] []).assemble
      = (reqMsg mac xid t src reqIP sid (List.replicate 64 0) (List.replicate 128 0)).assemble := by
  have h (n : Nat) : copyInto n [] = copyInto n (List.replicate n (0 : UInt8)) := by
    rw [Proofs.Dhcp.copyInto_self (List.length_replicate ..)]; simp [copyInto]
  simp only [Msg.assemble, Msg.header, reqMsg]
  rw [h 64, h 128]
  congr 5

theorem reqOpts_ne_nil (mac : Bytes) (t : UInt8) (reqIP sid : Option Ip4) : reqOpts mac t reqIP sid ≠ [] := by
  simp [reqOpts]

theorem reqOpts_wf (mac : Bytes) (t : UInt8) (reqIP sid : Option Ip4) :
    ∀ o ∈ reqOpts mac t reqIP sid, o.code ≠ 0 ∧ o.code ≠ 0xff ∧ o.data.length ≤ 15 := by
  intro o ho
  have hci : (optClientIdentifier mac).data.length = 15 := by
    simp [optClientIdentifier, put32, Proofs.Dhcp.copyInto_length]
  simp only [reqOpts, List.mem_append, List.mem_cons, List.not_mem_nil, or_false] at ho
  rcases ho with ((rfl | rfl | rfl | rfl) | ho) | ho
  · exact ⟨by simp [optType], by simp [optType], by simp [optType]⟩
  · exact ⟨by simp [optClientIdentifier], by simp [optClientIdentifier], by omega⟩
  · exact ⟨by decide, by decide, by decide⟩
  · exact ⟨by decide, by decide, by decide⟩
  · cases reqIP with
    | none => simp at ho
    | some r => simp at ho; subst ho; refine ⟨?_, ?_, ?_⟩ <;> simp [optRequestedIP, optIPs, optIpBytes, Ip4.bytes]
  · cases sid with
    | none => simp at ho
    | some r => simp at ho; subst ho; refine ⟨?_, ?_, ?_⟩ <;> simp [optServerIdentifier, optIPs, optIpBytes, Ip4.bytes]

theorem optsWire_length_le : ∀ (os : List Opt), (∀ o ∈ os, o.data.length ≤ 15) → (optsWire os).length ≤ 17 * os.length := by
  intro os
  induction os with
  | nil => intro _; simp [optsWire]
  | cons o r ih =>
    intro h
    have h1 := h o (by simp)
    have h2 := ih (fun o' ho' => h o' (by simp [ho']))
    simp only [optsWire, Opt.wire, List.length_append, List.length_cons, List.length_nil]
    omega

theorem reqOpts_length_le (mac : Bytes) (t : UInt8) (reqIP sid : Option Ip4) : (reqOpts mac t reqIP sid).length ≤ 6 := by
  cases reqIP <;> cases sid <;> simp [reqOpts]

theorem reqMsg_wf (mac : Bytes) (xid : Nat) (t : UInt8) (src : Ip4) (reqIP sid : Option Ip4)
    (hm : mac.length ≤ 16) (hx : xid < 4294967296) :
    Msg.Wf (reqMsg mac xid t src reqIP sid (List.replicate 64 0) (List.replicate 128 0)) where
  xid := hx
  secs := by simp [reqMsg]
  flags := by simp [reqMsg]
  cookie := by simp [reqMsg]
  chaddr := hm
  sname := List.length_replicate ..
  file := List.length_replicate ..
  nonempty := reqOpts_ne_nil _ _ _ _
  opts := fun o ho => by
    have := reqOpts_wf mac t reqIP sid o ho
    exact ⟨this.1, this.2.1, by omega⟩

theorem reqMsg_assemble_length (mac : Bytes) (xid : Nat) (t : UInt8) (src : Ip4) (reqIP sid : Option Ip4) (sn fl : Bytes) :
    (reqMsg mac xid t src reqIP sid sn fl).assemble.length ≤ 343 := by
  have h1 := optsWire_length_le (reqOpts mac t reqIP sid) (fun o ho => (reqOpts_wf mac t reqIP sid o ho).2.2)
  have h2 := reqOpts_length_le mac t reqIP sid
  have h3 : (reqOpts mac t reqIP sid).isEmpty = false := by
    cases reqIP <;> cases sid <;> rfl
  simp only [Msg.assemble, Msg.header, reqMsg, h3, Bool.false_eq_true, if_false, List.length_append, Proofs.Dhcp.copyInto_length, put32, put16,
    Proofs.Wire.optIpBytes_length, List.length_cons, List.length_nil]
  omega

/-- One template, read back with the stack's decoders. -/
theorem clientRequest_wire (mac : Bytes) (xid ident : Nat) (t : UInt8) (src dst : Ip4) (reqIP sid : Option Ip4)
    (hm : mac.length ≤ 16) (hx : xid < 4294967296) (hi : ident < 65536) :
    ∃ ip udp r, decodeIPv4 (clientRequest mac xid ident t src dst reqIP sid) = .ok ip ∧
      decodeUDP ip.data = .ok udp ∧ decode udp.data = .ok r ∧
      IpHeaderVerifies (clientRequest mac xid ident t src dst reqIP sid) ∧
      UdpVerifies (optIp ip.src) (optIp ip.dst) 0x11 ((clientRequest mac xid ident t src dst reqIP sid).drop 20) ∧
      ip.proto = 0x11 ∧ ip.ttl = 64 ∧ udp.srcPort = 68 ∧ udp.dstPort = 67 ∧ r.op = 1 ∧ r.htype = 1 ∧ r.xid = xid ∧
      r.chaddr = mac ∧ ip.src = some src ∧ ip.dst = some dst ∧ r.ciaddr = some src ∧
      r.options = reqOpts mac t reqIP sid := by
  rw [clientRequest_eq]
  have hlen := reqMsg_assemble_length mac xid t src reqIP sid [] []
  generalize hu : reqUdp (reqMsg mac xid t src reqIP sid [] []) = u at *
  have hud : u.data = (reqMsg mac xid t src reqIP sid [] []).assemble := by rw [← hu]; rfl
  have hus : u.srcPort = 68 := by rw [← hu]; rfl
  have hup : u.dstPort = 67 := by rw [← hu]; rfl
  generalize hp : reqIp ident src dst u = p
  have hpd : p.data = u.assemble := by rw [← hp]; rfl
  have hpp : p.proto = 0x11 := by rw [← hp]; rfl
  have hl : 20 + 8 + u.data.length ≤ 65535 := by rw [hud]; omega
  obtain ⟨c, hdec⟩ := Proofs.Wire.decode_assemble_ip p (by rw [← hp]; exact hi) (by rw [← hp]; simp [reqIp])
    (by rw [hpd, Proofs.Wire.udp_assemble_length]; omega)
  have hdu := Proofs.Wire.decode_udp_inside_ip p u hpd (by omega) (by omega) hl
  have hdm : decode u.data = .ok (Spec.Msg.norm (reqMsg mac xid t src reqIP sid (List.replicate 64 0) (List.replicate 128 0))) := by
    rw [hud, assemble_pad]; exact Proofs.Dhcp.decode_assemble _ (reqMsg_wf mac xid t src reqIP sid hm hx)
  have hcs := Proofs.Wire.udp_checksum_verifies p u hpd hpp hl
  refine ⟨_, u, _, hdec, hdu, hdm, Proofs.Wire.ip_checksum_verifies p, ?_, hpp, ?_, hus, hup, rfl, rfl, rfl, rfl, ?_, ?_, rfl, rfl⟩
  · rw [hpp] at hcs; exact hcs
  · rw [← hp]; rfl
  · rw [← hp]; rfl
  · rw [← hp]; rfl

theorem toUint16_1500 : toUint16 (put16 1500) = 1500 := by decide

theorem toV4_ip (r : Ip4) : toV4 (optIpBytes (some r)) = some r := by
  simp [toV4, toV4A, chunks4, optIpBytes, Ip4.bytes]

/-- What `DecodeOptions` reads back from the option list of a template. -/
theorem decodeOptions_reqOpts (mac : Bytes) (t : UInt8) (reqIP sid : Option Ip4) :
    (decodeOptions (reqOpts mac t reqIP sid)).clientIdentifier = (optClientIdentifier mac).data ∧
    (decodeOptions (reqOpts mac t reqIP sid)).maxMessageSize = 1500 ∧
    (decodeOptions (reqOpts mac t reqIP sid)).parametersList = paramList ∧
    (decodeOptions (reqOpts mac t reqIP sid)).messageType = t ∧
    (decodeOptions (reqOpts mac t reqIP sid)).requestedIP = reqIP ∧
    (decodeOptions (reqOpts mac t reqIP sid)).serverIdentifier = sid := by
  cases reqIP <;> cases sid <;>
    simp [reqOpts, decodeOptions, applyOpt, optType, optClientIdentifier, optMaxMessageSize, optParametersList,
      optRequestedIP, optServerIdentifier, optIPs, toUint8, toUint16_1500, toV4_ip]

theorem template_wire (st : ReqState) (mac : Bytes) (xid ident : Nat) (offered server : Ip4)
    (hm : mac.length ≤ 16) (hx : xid < 4294967296) (hi : ident < 65536) :
    let pkt := (template st mac xid ident offered server).1
    ∃ ip udp r, decodeIPv4 pkt = .ok ip ∧ decodeUDP ip.data = .ok udp ∧ decode udp.data = .ok r ∧
      IpHeaderVerifies pkt ∧ UdpVerifies (optIp ip.src) (optIp ip.dst) 0x11 (pkt.drop 20) ∧
      ip.proto = 0x11 ∧ ip.ttl = 64 ∧ udp.srcPort = 68 ∧ udp.dstPort = 67 ∧ r.op = 1 ∧ r.htype = 1 ∧ r.xid = xid ∧ r.chaddr = mac ∧
      (decodeOptions r.options).clientIdentifier = (optClientIdentifier mac).data ∧
      (decodeOptions r.options).maxMessageSize = 1500 ∧ (decodeOptions r.options).parametersList = paramList ∧
      (match st with
       | .discover => (decodeOptions r.options).messageType = 1 ∧ ip.src = some Ip4.zero ∧ ip.dst = some Ip4.bcast ∧
           r.ciaddr = some Ip4.zero ∧ (decodeOptions r.options).requestedIP = none ∧ (decodeOptions r.options).serverIdentifier = none
       | .selecting => (decodeOptions r.options).messageType = 3 ∧ ip.src = some Ip4.zero ∧ ip.dst = some Ip4.bcast ∧
           r.ciaddr = some Ip4.zero ∧ (decodeOptions r.options).requestedIP = some offered ∧
           (decodeOptions r.options).serverIdentifier = some server
       | .renewing => (decodeOptions r.options).messageType = 3 ∧ ip.src = some offered ∧ ip.dst = some server ∧
           r.ciaddr = some offered ∧ (decodeOptions r.options).requestedIP = none ∧ (decodeOptions r.options).serverIdentifier = none
       | .rebinding => (decodeOptions r.options).messageType = 3 ∧ ip.src = some offered ∧ ip.dst = some Ip4.bcast ∧
           r.ciaddr = some offered ∧ (decodeOptions r.options).requestedIP = none ∧ (decodeOptions r.options).serverIdentifier = none) := by
  intro pkt
  cases st
  all_goals
    simp only [pkt, template]
    obtain ⟨ip, udp, r, h1, h2, h3, h4, h5, h6, h7, h8, h9, h10, h11, h12, h13, h14, h15, h16, h17⟩ :=
      clientRequest_wire mac xid ident _ _ _ _ _ hm hx hi
    obtain ⟨o1, o2, o3, o4, o5, o6⟩ := decodeOptions_reqOpts mac _ _ _
    rw [← h17] at o1 o2 o3 o4 o5 o6
    exact ⟨ip, udp, r, h1, h2, h3, h4, h5, h6, h7, h8, h9, h10, h11, h12, h13, o1, o2, o3, o4, h14, h15, h16, o5, o6⟩
/-! ## C17 — sanitising -/

theorem sanitize_cons (f : Nat) (b : UInt8) (rest : Bytes) :
    sanitize (f + 1) (b :: rest) =
      if (runeWidth (b :: rest)).1 = 1 ∧ (runeWidth (b :: rest)).2 = true ∧ envGood b = true then b :: sanitize f rest
      else 0x5F :: sanitize f ((b :: rest).drop (runeWidth (b :: rest)).1) := by
  simp only [sanitize]

theorem envSafe_5F : envSafe 0x5F = true := by decide

theorem sanitize_safe : ∀ (f : Nat) (v : Bytes), ∀ b ∈ sanitize f v, envSafe b = true := by
  intro f
  induction f with
  | zero => intro v b hb; simp [sanitize] at hb
  | succ f ih =>
    intro v b hb
    cases v with
    | nil => simp [sanitize] at hb
    | cons c rest =>
      rw [sanitize_cons] at hb
      split at hb
      · rename_i hc
        rcases List.mem_cons.1 hb with rfl | hb
        · simp [envSafe, hc.2.2]
        · exact ih _ _ hb
      · rcases List.mem_cons.1 hb with rfl | hb
        · exact envSafe_5F
        · exact ih _ _ hb

theorem env_value_safe (val : Bytes) : ∀ b ∈ sanitize val.length val, envSafe b = true :=
  sanitize_safe _ _

theorem runeWidth_pos (b : UInt8) (rest : Bytes) : 1 ≤ (runeWidth (b :: rest)).1 := by
  unfold runeWidth
  simp only
  repeat' split
  all_goals simp

theorem sanitize_len_le : ∀ (f : Nat) (v : Bytes), (sanitize f v).length ≤ v.length := by
  intro f
  induction f with
  | zero => intro v; simp [sanitize]
  | succ f ih =>
    intro v
    cases v with
    | nil => simp [sanitize]
    | cons c rest =>
      rw [sanitize_cons]
      split
      · simp only [List.length_cons]; have := ih rest; omega
      · have h1 := runeWidth_pos c rest
        have h2 := ih ((c :: rest).drop (runeWidth (c :: rest)).1)
        simp only [List.length_cons, List.length_drop] at h2 ⊢
        omega

theorem runeWidth_ascii (b : UInt8) (rest : Bytes) (h : b.toNat < 0x80) : runeWidth (b :: rest) = (1, true) := by
  simp [runeWidth, h]

theorem sanitize_len_ascii : ∀ (f : Nat) (v : Bytes), v.length ≤ f → v.all (fun b => b.toNat < 0x80) = true →
    (sanitize f v).length = v.length := by
  intro f
  induction f with
  | zero => intro v hv _; cases v <;> simp_all [sanitize]
  | succ f ih =>
    intro v hv ha
    cases v with
    | nil => simp [sanitize]
    | cons c rest =>
      simp only [List.all_cons, Bool.and_eq_true, decide_eq_true_eq] at ha
      simp only [List.length_cons] at hv
      rw [sanitize_cons, runeWidth_ascii c rest ha.1]
      split
      · simp only [List.length_cons]; rw [ih rest (by omega) ha.2]
      · simp only [List.length_cons, List.drop_succ_cons, List.drop_zero]; rw [ih rest (by omega) ha.2]

theorem sanitize_length (val : Bytes) : (sanitize val.length val).length ≤ val.length ∧
    (val.all (fun b => b.toNat < 0x80) → (sanitize val.length val).length = val.length) :=
  ⟨sanitize_len_le _ _, fun h => sanitize_len_ascii _ _ (Nat.le_refl _) h⟩

theorem env_entries_safe (c : Ifconfig) :
    ∀ e ∈ dumpScriptConf c, ∃ key v, e = str "PSA_DHCPC_" ++ str key ++ [0x3D] ++ v ∧ (∀ b ∈ v, envSafe b = true) ∧
      key ∈ ["IPV4_ROUTER", "IPV4_ADDRESS", "NETMASK", "DOMAIN_NAME", "DNS_LIST", "MTU", "LEASE_SEC"] := by
  intro e he
  simp only [dumpScriptConf, List.mem_cons, List.not_mem_nil, or_false] at he
  rcases he with rfl | rfl | rfl | rfl | rfl | rfl | rfl
  all_goals exact ⟨_, _, rfl, env_value_safe _, by simp⟩

/-! resolv.conf -/

def RInv (r : ResolvIn) : Prop :=
  (r.search = [] ∨ allIn hostChar r.search = true) ∧ ∀ ns ∈ r.nameservers, allIn numChar ns = true

theorem scan_step_inv (acc : ResolvIn) (e : Bytes) (h : RInv acc) :
    RInv (match splitEq e with
    | none => acc
    | some (k, v) =>
      let acc := if k = str "PSA_DHCPC_DOMAIN_NAME" ∧ allIn hostChar v then { acc with search := v } else acc
      if k = str "PSA_DHCPC_DNS_LIST" ∧ ¬ v.isEmpty then
        { acc with nameservers := acc.nameservers ++ (splitComma v).filter (allIn numChar) }
      else acc) := by
  cases splitEq e with
  | none => exact h
  | some p =>
    obtain ⟨k, v⟩ := p
    simp only
    have h1 : RInv (if k = str "PSA_DHCPC_DOMAIN_NAME" ∧ allIn hostChar v then { acc with search := v } else acc) := by
      split
      · rename_i hc; exact ⟨Or.inr hc.2, h.2⟩
      · exact h
    generalize (if k = str "PSA_DHCPC_DOMAIN_NAME" ∧ allIn hostChar v then { acc with search := v } else acc) = acc' at h1
    split
    · refine ⟨h1.1, ?_⟩
      intro ns hns
      simp only [List.mem_append, List.mem_filter] at hns
      rcases hns with hns | hns
      · exact h1.2 ns hns
      · exact hns.2
    · exact h1

theorem foldl_inv {α β : Type} (P : β → Prop) (f : β → α → β) (hf : ∀ b a, P b → P (f b a)) :
    ∀ (l : List α) (b : β), P b → P (l.foldl f b) := by
  intro l
  induction l with
  | nil => intro b hb; exact hb
  | cons a l ih => intro b hb; exact ih _ (hf b a hb)

theorem scanEnv_inv (env : List Bytes) : RInv (scanEnv env) := by
  unfold scanEnv
  apply foldl_inv RInv
  · intro b a hb; exact scan_step_inv b a hb
  · exact ⟨Or.inl rfl, by intro ns hns; simp at hns⟩

theorem resolv_grammar (env : List Bytes) (out : Bytes) (h : resolvRun env = some out) :
    ∃ search nss, nss ≠ [] ∧ (search = [] ∨ allIn hostChar search = true) ∧ (∀ ns ∈ nss, allIn numChar ns = true) ∧
      out = str "# written by psa-dhcpc\n"
        ++ (if search = [] then [] else str "search " ++ search ++ [0x0A])
        ++ (nss.map fun ns => str "nameserver " ++ ns ++ [0x0A]).flatten := by
  have hinv := scanEnv_inv env
  unfold resolvRun renderResolv at h
  split at h
  · cases h
  · rename_i hne
    injection h with h
    refine ⟨(scanEnv env).search, (scanEnv env).nameservers, ?_, hinv.1, hinv.2, ?_⟩
    · simpa [List.isEmpty_iff] using hne
    · rw [← h]
      simp only [List.isEmpty_iff]

theorem untouched_iff_no_nameserver (env : List Bytes) :
    resolvRun env = none ↔ (scanEnv env).nameservers = [] := by
  unfold resolvRun renderResolv
  split
  · rename_i h; simpa [List.isEmpty_iff] using h
  · rename_i h; simpa [List.isEmpty_iff] using h

set_option linter.unusedVariables false in
theorem ack_to_file (m : Msg) (o : DecodedOptions) (c : Ifconfig) (route : Bool) (other : List Bytes)
    (hc : buildNetconfig m o = some c) (out : Bytes)
    (h : resolvRun (other ++ dumpScriptConf (filterNetconfig route c)) = some out) :
    ∃ search nss, nss ≠ [] ∧ (search = [] ∨ allIn hostChar search = true) ∧ (∀ ns ∈ nss, allIn numChar ns = true) ∧
      out = str "# written by psa-dhcpc\n"
        ++ (if search = [] then [] else str "search " ++ search ++ [0x0A])
        ++ (nss.map fun ns => str "nameserver " ++ ns ++ [0x0A]).flatten :=
  resolv_grammar _ out h

theorem envSafe_nat (b : UInt8) (h : envSafe b = true) :
    (0x61 ≤ b.toNat ∧ b.toNat ≤ 0x7A) ∨ (0x41 ≤ b.toNat ∧ b.toNat ≤ 0x5A) ∨ (0x30 ≤ b.toNat ∧ b.toNat ≤ 0x39) ∨
    b.toNat = 0x2C ∨ b.toNat = 0x2E ∨ b.toNat = 0x2D ∨ b.toNat = 0x5F := by
  simp only [envSafe, envGood, isAlnum, Bool.or_eq_true, Bool.and_eq_true, decide_eq_true_eq, ← UInt8.toNat_inj] at h
  simp at h
  omega

theorem safe_excludes_metacharacters (b : UInt8) (h : envSafe b = true) :
    b ≠ 0x0A ∧ b ≠ 0x20 ∧ b ≠ 0x3D ∧ b ≠ 0x00 ∧ b ≠ 0x22 ∧ b ≠ 0x27 ∧ b ≠ 0x24 ∧ b ≠ 0x60 ∧ b ≠ 0x3B ∧ b ≠ 0x26 ∧
    b ≠ 0x7C ∧ b ≠ 0x3C ∧ b ≠ 0x3E ∧ b ≠ 0x5C ∧ b ≠ 0x28 ∧ b ≠ 0x29 ∧ b.toNat < 0x80 := by
  have hn := envSafe_nat b h
  simp only [ne_eq, ← UInt8.toNat_inj]
  simp
  omega

theorem hostChar_nat (b : UInt8) (h : hostChar b = true ∨ numChar b = true) :
    (0x61 ≤ b.toNat ∧ b.toNat ≤ 0x7A) ∨ (0x41 ≤ b.toNat ∧ b.toNat ≤ 0x5A) ∨ (0x30 ≤ b.toNat ∧ b.toNat ≤ 0x39) ∨
    b.toNat = 0x2E ∨ b.toNat = 0x2D := by
  simp only [hostChar, numChar, isAlnum, Bool.or_eq_true, Bool.and_eq_true, decide_eq_true_eq, ← UInt8.toNat_inj] at h
  simp at h
  omega

theorem allIn_mem {cls : UInt8 → Bool} {s : Bytes} (h : allIn cls s = true) : ∀ b ∈ s, cls b = true := by
  simp only [allIn, Bool.and_eq_true, List.all_eq_true] at h
  exact h.2

theorem tokens_have_no_separators (s : Bytes) (h : allIn hostChar s = true ∨ allIn numChar s = true) :
    ∀ b ∈ s, b ≠ 0x0A ∧ b ≠ 0x20 ∧ b ≠ 0x3D ∧ b ≠ 0x00 ∧ b ≠ 0x09 ∧ b ≠ 0x0D := by
  intro b hb
  have hn := hostChar_nat b (h.imp (fun h => allIn_mem h b hb) (fun h => allIn_mem h b hb))
  simp only [ne_eq, ← UInt8.toNat_inj]
  simp
  omega
end PsaDhcp.Proofs.ClientP
