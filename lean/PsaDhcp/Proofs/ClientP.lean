import PsaDhcp.Model.Client
import PsaDhcp.Model.Sanitize
import PsaDhcp.Spec.Inet
import PsaDhcp.Proofs.Wire
import PsaDhcp.Proofs.Dhcp
namespace PsaDhcp.Proofs.ClientP
end PsaDhcp.Proofs.ClientP
