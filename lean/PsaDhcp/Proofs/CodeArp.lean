import PsaDhcp.Code.Bridge7
import PsaDhcp.Proofs.CodeLayer
import PsaDhcp.Proofs.CodeLayerIp
import PsaDhcp.Proofs.CodeDhcp
import PsaDhcp.Proofs.CodeVerify
/-
Socket layer: translated code = model (statements fixed in Props/C10Code.lean, Props/C08Code.lean).
-/
namespace PsaDhcp.Proofs.CodeArp
open PsaDhcp PsaDhcp.Go PsaDhcp.Code

/-! ### The read buffer -/

theorem readInto_length (buf f : Bytes) (h : buf.length = 28) : (Go.readInto buf f).1.length = 28 := by
  simp only [Go.readInto, Go.overwrite, List.take_zero, List.nil_append, List.length_append, List.length_take,
    List.length_drop, h]
  omega

theorem readInto_snd (buf f : Bytes) (h : buf.length = 28) : (Go.readInto buf f).2 = ((min f.length 28 : Nat) : Int) := by
  simp [Go.readInto, h]

/-- `nr, _ := rs.Read(buf); buf[0:nr]` is the frame cut to the 28 bytes of the buffer, whatever the buffer held. -/
theorem readInto_slice (buf f : Bytes) (site : String) (h : buf.length = 28) :
    Go.slice (Go.readInto buf f).1 (0 : Int) (Go.readInto (Go.readInto buf f).1 f).2 site = .ok (f.take 28) := by
  rw [readInto_snd _ f (readInto_length buf f h)]
  rw [CodeLayerAux.slice_ok _ (0 : Int) _ 0 (min f.length 28) site rfl rfl (by omega)
    (by rw [readInto_length buf f h]; omega)]
  simp only [Go.readInto, Go.overwrite, List.take_zero, List.nil_append, List.drop_zero, h]
  congr 1
  rw [List.take_append_of_le_length (by rw [List.length_take]; omega)]
  rw [List.take_take, Nat.min_assoc, Nat.min_self]
  by_cases hl : f.length ≤ 28
  · rw [Nat.min_eq_left hl, List.take_of_length_le (Nat.le_refl _), List.take_of_length_le hl]
  · rw [Nat.min_eq_right (by omega)]

/-! ### The comparison `target.Equal(arp.SenderIP)` -/

theorem ipEqual_bytes (t j : Ip4) : Go.ipEqual t.bytes (ipToGen j) = decide (j = t) := by
  cases t; cases j
  simp [Go.ipEqual, Ip4.bytes, ipToGen, Go.netIPv4, Go.v4InV6Prefix]
  rw [Bool.eq_iff_iff]; simp
  constructor <;> (rintro ⟨rfl, rfl, rfl, rfl⟩; exact ⟨rfl, rfl, rfl, rfl⟩)

theorem ipEqual_target (tb : Bytes) (t : Ip4) (ht : tb = ipToGen t ∨ tb = t.bytes) (a : Option Ip4) :
    Go.ipEqual tb (optIpToGen a) = decide (a = some t) := by
  rcases ht with rfl | rfl
  · have := CodeVerify.ipEqual_optIpToGen (some t) a
    simp only [optIpToGen] at this ⊢
    rw [this]
    by_cases h : a = some t
    · simp [h]
    · have : ¬ some t = a := fun e => h e.symm
      simp [h, this]
  · cases a with
    | none => simp [optIpToGen, Go.ipEqual, Ip4.bytes]
    | some j => simp [optIpToGen, ipEqual_bytes]

/-! ### `catchARPReply` -/

theorem env_SockRead_nil (o : GoErr) (n : Int) (k : Nat) :
    (arpEnv o).SockRead n { rest := [], senders := k } = .ok (([], readClosed), { rest := [], senders := k }) := rfl

theorem env_SockRead_cons (o : GoErr) (n : Int) (k : Nat) (f : Bytes) (r : List Bytes) :
    (arpEnv o).SockRead n { rest := f :: r, senders := k } = .ok ((f, none), { rest := r, senders := k }) := rfl

theorem lift_ok {σ α : Type} (a : α) :
    (liftM (Except.ok a : R α) : StateT σ R α) = fun st => .ok (a, st) := rfl

/-- The read loop over the frames `fs`, from any buffer contents. -/
theorem loop_eq (o : GoErr) (tb : Bytes) (t : Ip4) (ht : tb = ipToGen t ∨ tb = t.bytes) (k : Nat) :
    ∀ (fs : List Bytes) (fuel : Nat) (buf : Bytes), buf.length = 28 → fs.length < fuel →
    ∃ st, Gen.arpping.catchARPReply.loop1 (arpEnv o) tb () fuel buf { rest := fs, senders := k } =
        .ok (LoopOut.ret (arpResToGen (catchARPReply t fs)), st) ∧ st.senders = k := by
  intro fs
  induction fs with
  | nil =>
    intro fuel buf hb hf
    obtain ⟨fuel, rfl⟩ : ∃ n, fuel = n + 1 := ⟨fuel - 1, by simp at hf; omega⟩
    refine ⟨{ rest := [], senders := k }, ?_, rfl⟩
    simp [Gen.arpping.catchARPReply.loop1, bind, StateT.bind, Except.bind, env_SockRead_nil, readClosed,
      pure, Except.pure, StateT.pure, catchARPReply, arpResToGen]
  | cons f rest ih =>
    intro fuel buf hb hf
    obtain ⟨fuel, rfl⟩ : ∃ n, fuel = n + 1 := ⟨fuel - 1, by simp at hf; omega⟩
    have hf' : rest.length < fuel := by simp at hf; omega
    simp only [Gen.arpping.catchARPReply.loop1, catchARPReply]
    simp only [bind, StateT.bind, Except.bind, env_SockRead_cons, Option.isNone_none, Bool.not_true,
      Bool.false_eq_true, if_false]
    rw [readInto_slice buf f _ hb, lift_ok]
    simp only [CodeLayer.DecodeARP_eq]
    have hnp := fun s => (Wire.decoders_never_panic (f.take 28) s).2.2
    cases hd : decodeARP (f.take 28) with
    | error e =>
      cases e with
      | panic s => exact absurd hd (hnp s)
      | reject w =>
        simp only [liftDec, lift_ok, Option.isNone_some, Bool.false_eq_true, if_false, pure, StateT.pure]
        exact ih fuel _ (readInto_length buf f hb) hf'
    | ok a =>
      simp only [liftDec, lift_ok, Option.isNone_none, if_true, Go.derefOpt, pure, Except.pure, StateT.bind,
        StateT.pure, arpToGen, bind, Except.bind, ipEqual_target tb t ht]
      by_cases hs : a.senderIP = some t
      · refine ⟨{ rest := rest, senders := k }, ?_, rfl⟩
        simp [hs, arpResToGen, StateT.bind, StateT.pure, bind, Except.bind]; rfl
      · simp only [hs, decide_false, Bool.false_eq_true, if_false]
        exact ih fuel _ (readInto_length buf f hb) hf'

/-- `catchARPReply(ctx, iface, target)` over the frames `fs`, with `k` sender goroutines already started. -/
theorem catchARPReply_run (iface : Go.NetInterface) (tb : Bytes) (t : Ip4) (fs : List Bytes) (fuel k : Nat)
    (ht : tb = ipToGen t ∨ tb = t.bytes) (hf : fs.length < fuel) :
    ∃ st, (Gen.arpping.catchARPReply (arpEnv none) iface tb fuel).run { rest := fs, senders := k } =
        .ok (arpResToGen (catchARPReply t fs), st) ∧ st.senders = k := by
  obtain ⟨st, h, hk⟩ := loop_eq none tb t ht k fs fuel (List.replicate 28 0) (by simp) hf
  refine ⟨st, ?_, hk⟩
  have hm : Go.makeList (0 : UInt8) (28 : Int) "arpping.go:36" = .ok (List.replicate 28 0) := rfl
  have ho : (arpEnv none).OpenARPRecvSock iface { rest := fs, senders := k } =
      .ok (((), none), { rest := fs, senders := k }) := rfl
  simp only [Gen.arpping.catchARPReply, StateT.run, bind, StateT.bind, Except.bind, ho, hm, lift_ok,
    Option.isNone_none, Bool.not_true, Bool.false_eq_true, if_false, h]
  rfl

theorem catchARPReply_eq (iface : Go.NetInterface) (tb : Bytes) (t : Ip4) (fs : List Bytes) (fuel : Nat)
    (ht : tb = ipToGen t ∨ tb = t.bytes) (hf : fs.length < fuel) :
    ∃ st, (Gen.arpping.catchARPReply (arpEnv none) iface tb fuel).run { rest := fs, senders := 0 } =
        .ok (arpResToGen (catchARPReply t fs), st) ∧ st.senders = 0 :=
  catchARPReply_run iface tb t fs fuel 0 ht hf

/-- `Ping`: one sender goroutine, then `catchARPReply`. -/
theorem Ping_eq (iface : Go.NetInterface) (src tb : Bytes) (t : Ip4) (fs : List Bytes) (fuel : Nat)
    (ht : tb = ipToGen t ∨ tb = t.bytes) (hf : fs.length < fuel) :
    ∃ st, (Gen.arpping.Ping (arpEnv none) iface src tb fuel).run { rest := fs, senders := 0 } =
        .ok (arpResToGen (catchARPReply t fs), st) ∧ st.senders = 1 := by
  obtain ⟨st, h, hk⟩ := catchARPReply_run iface tb t fs fuel 1 ht hf
  refine ⟨st, ?_, hk⟩
  have hg : (arpEnv none).Go_sendARPPing iface src tb { rest := fs, senders := 0 } =
      .ok ((), { rest := fs, senders := 1 }) := rfl
  simp only [StateT.run] at h
  simp only [Gen.arpping.Ping, StateT.run, bind, StateT.bind, Except.bind, hg, h]
  rfl

/-- The receive socket cannot be opened: that error is the result, nothing is read. -/
theorem catchARPReply_open_fails (iface : Go.NetInterface) (tb : Bytes) (st : ArpState) (fuel : Nat) (e : String) :
    (Gen.arpping.catchARPReply (arpEnv (some e)) iface tb fuel).run st = .ok (([], some e), st) := by
  have ho : (arpEnv (some e)).OpenARPRecvSock iface st = .ok (((), some e), st) := rfl
  simp only [Gen.arpping.catchARPReply, StateT.run, bind, StateT.bind, Except.bind, ho, Option.isNone_some,
    Bool.not_false, if_true]
  rfl

/-! ### `arpVerify` -/

/-- The ping loop with `n` rounds left (`i = 3 - n`). -/
theorem verify_loop (sx : Gen.server.server) (hw ip : Bytes) (fs : List Bytes)
    (hd : List (Bytes × Bytes × Gen.dhcpmsg.Message)) :
    ∀ (n fuel : Nat) (i : Int) (outs : List (Option Bytes)), n ≤ 3 → i = 3 - (n : Int) → n < fuel →
    ∃ r st, Gen.server.server_arpVerify.loop1 (runEnv none) sx hw ip fuel i
          { rest := fs, pings := outs, handled := hd } = .ok (r, st) ∧
      (r = .ret (arpVerify hw (outs.take n)) ∨ (∃ j, r = .done j) ∧ arpVerify hw (outs.take n) = true) ∧
      st.rest = fs ∧ st.handled = hd := by
  intro n
  induction n with
  | zero =>
    intro fuel i outs _ hi hf
    obtain ⟨fuel, rfl⟩ : ∃ m, fuel = m + 1 := ⟨fuel - 1, by omega⟩
    subst hi
    refine ⟨.done 3, _, rfl, Or.inr ⟨⟨3, rfl⟩, rfl⟩, rfl, rfl⟩
  | succ n ih =>
    intro fuel i outs hn hi hf
    obtain ⟨fuel, rfl⟩ : ∃ m, fuel = m + 1 := ⟨fuel - 1, by omega⟩
    have hlt : i < 3 := by omega
    simp only [Gen.server.server_arpVerify.loop1, hlt, decide_true, Bool.not_true, Bool.false_eq_true, if_false]
    cases outs with
    | nil =>
      have hp : (runEnv none).Ping sx.iface sx.selfIP ip { rest := fs, pings := [], handled := hd } =
        .ok (([], some "timeout"), { rest := fs, pings := [], handled := hd }) := rfl
      simp only [bind, StateT.bind, Except.bind, hp, Option.isNone_some, Bool.false_eq_true, if_false]
      have := ih fuel (i + 1) [] (by omega) (by omega) (by omega)
      simpa using this
    | cons o r =>
      cases o with
      | none =>
        have hp : (runEnv none).Ping sx.iface sx.selfIP ip { rest := fs, pings := none :: r, handled := hd } =
          .ok (([], some "timeout"), { rest := fs, pings := r, handled := hd }) := rfl
        simp only [bind, StateT.bind, Except.bind, hp, Option.isNone_some, Bool.false_eq_true, if_false]
        have := ih fuel (i + 1) r (by omega) (by omega) (by omega)
        simpa [arpVerify] using this
      | some mac =>
        have hp : (runEnv none).Ping sx.iface sx.selfIP ip { rest := fs, pings := some mac :: r, handled := hd } =
          .ok ((mac, none), { rest := fs, pings := r, handled := hd }) := rfl
        simp only [bind, StateT.bind, Except.bind, hp, Option.isNone_none, if_true]
        refine ⟨_, _, rfl, Or.inl ?_, rfl, rfl⟩
        simp only [List.take_succ_cons, arpVerify, LoopOut.ret.injEq]
        rw [Bool.eq_iff_iff]; simp

/-- `arpVerify(hw)(ctx, ip)`: up to three pings; free iff all timed out or the first answer is the client's own. -/
theorem arpVerify_eq (sx : Gen.server.server) (hw ip : Bytes) (outcomes : List (Option Bytes)) (fs : List Bytes)
    (hd : List (Bytes × Bytes × Gen.dhcpmsg.Message)) :
    ∃ st, (Gen.server.server_arpVerify (runEnv none) sx hw ip).run { rest := fs, pings := outcomes, handled := hd } =
        .ok (arpVerify hw (outcomes.take 3), st) ∧ st.rest = fs ∧ st.handled = hd := by
  obtain ⟨r, st, h, hr, h1, h2⟩ := verify_loop sx hw ip fs hd 3 4 0 outcomes (by omega) (by omega) (by omega)
  refine ⟨st, ?_, h1, h2⟩
  simp only [Gen.server.server_arpVerify, StateT.run, bind, StateT.bind, Except.bind, h]
  rcases hr with rfl | ⟨⟨j, rfl⟩, hv⟩
  · rfl
  · rw [hv]; rfl

end PsaDhcp.Proofs.CodeArp
