import PsaDhcp.Code.Bridge14
import PsaDhcp.Proofs.CodeStack
import PsaDhcp.Proofs.CodeClients
import PsaDhcp.Proofs.Safety
import PsaDhcp.Proofs.Liveness
/-
Helper lemmas for Proofs/CodeFull.lean: the translated clients.go as a store (`genStore`) is well-formed, bounded and
simulates `clientsStore`; `Store.norm` is invisible below an `IPDB`; one handler run over two stores related by a
clock-independent relation.
-/
namespace PsaDhcp.Proofs.CodeFullAux
open PsaDhcp PsaDhcp.Go PsaDhcp.Code PsaDhcp.Spec

theorem gEmpty_ok : Gen.clients.NewClients = .ok (some gEmpty.1) ∧ GRel gEmpty Clients.empty 0 := by
  refine ⟨rfl, rfl, ?_, ?_⟩
  · intro k s _ _; rfl
  · intro k i hi; simp [Clients.empty] at hi

/-! ### gRef / gLookupRes -/

theorem gRef_lt (h : Gen.Heap) (p : Go.Ptr) (x : Nat × Int) (hx : gRef h p = some x) : x.1 < 4294967296 := by
  unfold gRef at hx
  split at hx
  · cases hx
  · split at hx
    · rename_i a _ e _ _ _
      cases hx
      exact a.toNat_lt
    · cases hx

theorem gLookupRes_wf (h : Gen.Heap) (p1 p2 : Go.Ptr) : LookupWf (gLookupRes h p1 p2) := by
  unfold LookupWf gLookupRes
  simp only [Option.isSome_map, Bool.and_eq_true, beq_iff_eq]
  refine ⟨?_, fun h => h⟩
  rintro ⟨h1, rfl⟩
  exact ⟨h1, h1⟩

theorem genStore_wf : StoreWf genStore := by
  intro s t n d
  unfold genStore
  simp only
  split
  · exact gLookupRes_wf _ _ _
  · exact ⟨fun h => Bool.noConfusion h, fun h => Bool.noConfusion h⟩

theorem genStore_lookup_byDuid_lt (s : GTbl) (t : Int) (n : Nat) (d : Duid) (a : Nat)
    (h : (genStore.lookup s t n d).2.byDuid = some a) : a < 4294967296 := by
  unfold genStore at h
  simp only at h
  split at h
  · simp only [gLookupRes, Option.map_eq_some_iff] at h
    obtain ⟨x, hx, rfl⟩ := h
    exact gRef_lt _ _ x hx
  · cases h

theorem genStore_bounded (db : IPDB GTbl) (rx : Rx) (o : HOracle) : LookupsBounded genStore db rx o := by
  unfold LookupsBounded
  intro g a ha
  unfold IPDB.lookupByDuid at ha
  simp only at ha
  split at ha
  · rename_i a' h'
    cases ha
    exact genStore_lookup_byDuid_lt _ _ _ _ _ h'
  · cases ha


/-! ### genStore simulates clientsStore -/

theorem resOfGen_resToGen (r : Clients.Res) : resOfGen (resToGen r) = r := by
  cases r <;> decide +kernel

theorem gRef_rep (cx : Gen.clients.Clients) (h : Gen.Heap) (c : Clients) (hr : CRep cx h c) (i : Nat) (e : Entry)
    (he : c.ents[i]? = some e) : gRef h (some i) = some (e.ip, e.exp) := by
  have hb : e.ip < 4294967296 := by
    have he' := he
    rw [← hr.1, List.getElem?_map] at he'
    cases hg : h[i]? with
    | none => simp [hg] at he'
    | some r =>
      simp only [hg, Option.map_some, Option.some.injEq] at he'
      subst he'
      exact r.ip.toNat_lt
  obtain ⟨h1, h2⟩ := Proofs.CodeClients.accessors_eq cx h c i e hr he hb
  unfold gRef
  simp only [h1, h2, UInt32.toNat_ofNat', Nat.mod_eq_of_lt hb]

theorem gRef_opt (cx : Gen.clients.Clients) (h : Gen.Heap) (c : Clients) (hr : CRep cx h c) (p : Option Nat)
    (hp : ∀ i, p = some i → i < c.ents.length) :
    gRef h p = p.bind fun i => (c.ents[i]?).map fun e => (e.ip, e.exp) := by
  cases p with
  | none => rfl
  | some i =>
    have hi := hp i rfl
    have he : c.ents[i]? = some c.ents[i] := List.getElem?_eq_getElem hi
    rw [gRef_rep cx h c hr i _ he]
    simp [he]

theorem lookup_some2 (c : Clients) (now : Int) (ip : Nat) (d : Bytes) (a : Nat)
    (h : (c.lookup now ip d).2.2 = some a) : a < (c.lookup now ip d).1.ents.length := by
  simp only [Clients.lookup] at h ⊢
  exact Proofs.CodeClients.look1_some _ now _ a h

theorem gLookupRes_rep (cx : Gen.clients.Clients) (h : Gen.Heap) (c : Clients) (now : Int) (a : Nat) (d : Duid)
    (hr : CRep cx h (c.lookup now a d).1) :
    gLookupRes h (c.lookup now a d).2.1 (c.lookup now a d).2.2 = (c.lookupRes now a d).2 := by
  have e1 := gRef_opt cx h _ hr (c.lookup now a d).2.1 (Proofs.CodeClients.lookup_some1 c now a d)
  have e2 := gRef_opt cx h _ hr (c.lookup now a d).2.2 (lookup_some2 c now a d)
  have l1 := Proofs.CodeClients.lookup_some1 c now a d
  unfold gLookupRes Clients.lookupRes Clients.ipOf
  simp only [e1, e2]
  generalize (c.lookup now a d) = r at l1 ⊢
  obtain ⟨c', p1, p2⟩ := r
  simp only at l1 ⊢
  congr 1
  · cases p1 <;> simp [Option.map_map, Function.comp_def]
  · cases p2 <;> simp [Option.map_map, Function.comp_def]
  · cases p1 with
    | none => rfl
    | some i => simp [List.getElem?_eq_getElem (l1 i rfl)]
  · cases p1 <;> simp [Option.map_map, Function.comp_def]

theorem toNat_ofNat_mod (a : Nat) : (UInt32.ofNat (a % 4294967296)).toNat = a % 4294967296 := by
  simp [UInt32.toNat_ofNat']

theorem gRunRes_rep (g : GTbl) (m : StateT Gen.Heap R (GoErr × Gen.clients.Clients)) (r : Clients.Res)
    (cx' : Gen.clients.Clients) (h' : Gen.Heap) (hm : m.run g.2 = .ok ((resToGen r, cx'), h')) :
    gRunRes g m = ((cx', h'), r) := by
  unfold gRunRes
  rw [hm]
  simp only [resOfGen_resToGen]

theorem genStore_sim : Proofs.Ipdb.StoreSim genStore.norm clientsStore.norm GRel where
  mono := fun _ _ _ _ h _ => h
  lookup := by
    intro g c t a d hr
    obtain ⟨cx', h', he, hr'⟩ := Proofs.CodeClients.Lookup_eq g.1 g.2 c t (UInt32.ofNat (a % 4294967296)) d hr
    rw [toNat_ofNat_mod] at he hr'
    have hl : genStore.norm.lookup g t a d =
        ((cx', h'), gLookupRes h' (c.lookup t (a % 4294967296) d).2.1 (c.lookup t (a % 4294967296) d).2.2) := by
      show (match (Gen.clients.Clients_Lookup g.1 t (UInt32.ofNat (a % 4294967296)) d).run g.2 with
        | .ok ((p1, p2, cx'), h') => ((cx', h'), gLookupRes h' p1 p2)
        | .error _ => (g, { byIp := none, byDuid := none, same := false, ipExp := none })) = _
      rw [he]
    rw [hl]
    show _ = (c.lookupRes t (a % 4294967296) d).2 ∧ GRel _ (c.lookupRes t (a % 4294967296) d).1 t
    exact ⟨gLookupRes_rep cx' h' c t _ d hr', hr'⟩
  inject := by
    intro g c t a d exp perm hr
    cases perm with
    | true =>
      obtain ⟨cx', h', he, hr'⟩ :=
        Proofs.CodeClients.InjectPermanent_eq g.1 g.2 c t (UInt32.ofNat (a % 4294967296)) d hr
      rw [toNat_ofNat_mod] at he hr'
      have hl : genStore.norm.inject g t a d exp true = ((cx', h'), (c.inject t (a % 4294967296) d 0 true).2) :=
        gRunRes_rep g _ _ cx' h' he
      rw [hl]
      exact ⟨rfl, hr'⟩
    | false =>
      obtain ⟨cx', h', he, hr'⟩ :=
        Proofs.CodeClients.Inject_eq g.1 g.2 c t (UInt32.ofNat (a % 4294967296)) d exp hr
      rw [toNat_ofNat_mod] at he hr'
      have hl : genStore.norm.inject g t a d exp false = ((cx', h'), (c.inject t (a % 4294967296) d exp false).2) :=
        gRunRes_rep g _ _ cx' h' he
      rw [hl]
      exact ⟨rfl, hr'⟩
  setLease := by
    intro g c t a d exp hr
    obtain ⟨cx', h', he, hr'⟩ :=
      Proofs.CodeClients.SetLease_eq g.1 g.2 c t (UInt32.ofNat (a % 4294967296)) d exp hr
    rw [toNat_ofNat_mod] at he hr'
    have hl : genStore.norm.setLease g t a d exp = ((cx', h'), (c.setLease t (a % 4294967296) d exp).2) :=
      gRunRes_rep g _ _ cx' h' he
    rw [hl]
    exact ⟨rfl, hr'⟩


/-! ### `Store.norm` is invisible below an `IPDB` -/
section norm
variable {σ : Type} (S : Store σ)

theorem norm_lookup_lt (s : σ) (t : Int) (a : Nat) (d : Duid) (h : a < 4294967296) :
    S.norm.lookup s t a d = S.lookup s t a d := by
  show S.lookup s t (a % 4294967296) d = _
  rw [Nat.mod_eq_of_lt h]

theorem norm_setLease_lt (s : σ) (t : Int) (a : Nat) (d : Duid) (e : Int) (h : a < 4294967296) :
    S.norm.setLease s t a d e = S.setLease s t a d e := by
  show S.setLease s t (a % 4294967296) d e = _
  rw [Nat.mod_eq_of_lt h]

theorem norm_inject_false_lt (s : σ) (t : Int) (a : Nat) (d : Duid) (e : Int) (h : a < 4294967296) :
    S.norm.inject s t a d e false = S.inject s t a d e false := by
  show S.inject s t (a % 4294967296) d e false = _
  rw [Nat.mod_eq_of_lt h]

theorem norm_inject_perm_lt (s : σ) (t : Int) (a : Nat) (d : Duid) (h : a < 4294967296) :
    S.norm.inject s t a d 0 true = S.inject s t a d 0 true := by
  show S.inject s t (a % 4294967296) d 0 true = _
  rw [Nat.mod_eq_of_lt h]

theorem toUip_lt (db : IPDB σ) (ip : Option Ip4) (n : Nat) (h : db.toUip ip = .ok n) : n < 4294967296 := by
  rcases Proofs.CodeIpdbOps.toUip_cases db ip with ⟨e, msg, h', -, -⟩ | ⟨n', h', hn⟩
  · rw [h'] at h; cases h
  · rw [h'] at h; cases h; exact hn

theorem norm_lookupByDuid (db : IPDB σ) (now : Int) (d : Duid) :
    db.lookupByDuid S.norm now d = db.lookupByDuid S now d := by
  unfold IPDB.lookupByDuid
  rw [norm_lookup_lt S _ _ 0 _ (by omega)]

theorem norm_addPermanent (db : IPDB σ) (now : Int) (ip : Option Ip4) (d : Duid) :
    db.addPermanent S.norm now ip d = db.addPermanent S now ip d := by
  unfold IPDB.addPermanent
  cases h : db.toUip ip with
  | error x => rfl
  | ok n => simp only [norm_inject_perm_lt S _ _ n _ (toUip_lt db ip n h)]

theorem norm_updTail (s : σ) (now : Int) (n : Nat) (d : Duid) (lt : Int) (h : n < 4294967296) :
    Proofs.Ipdb.updTail S.norm s now n d lt = Proofs.Ipdb.updTail S s now n d lt := by
  unfold Proofs.Ipdb.updTail
  simp only [norm_setLease_lt S _ _ n _ _ h, norm_inject_false_lt S _ _ n _ _ h]

theorem norm_updateClient (db : IPDB σ) (now : Int) (ip : Option Ip4) (d : Duid) (ttl : Int) :
    db.updateClient S.norm now ip d ttl = db.updateClient S now ip d ttl := by
  rw [Proofs.Ipdb.updateClient_eq, Proofs.Ipdb.updateClient_eq]
  cases h : db.toUip ip with
  | error x => rfl
  | ok n =>
    have hn := toUip_lt db ip n h
    simp only [norm_lookup_lt S _ _ n _ hn, norm_updTail S _ _ n _ _ hn]

theorem norm_findLoop (df : Nat) (orc : Nat → IPDB.Iter) (vs : List Nat) :
    ∀ (i : Nat) (s : σ), IPDB.findLoop S.norm df vs orc i s = IPDB.findLoop S df vs orc i s := by
  induction vs with
  | nil => intro i s; rfl
  | cons v rest ih =>
    intro i s
    unfold IPDB.findLoop
    have hp : (df + v) % 4294967296 < 4294967296 := Nat.mod_lt _ (by omega)
    simp only [norm_lookup_lt S _ _ _ _ hp, ih]

theorem suggN_lt (db : IPDB σ) (sugg : Option Ip4) : Proofs.Ipdb.suggN db sugg < 4294967296 := by
  unfold Proofs.Ipdb.suggN
  cases h : db.toUip sugg with
  | error x => simp only; omega
  | ok n => exact toUip_lt db sugg n h

theorem norm_findCore (df dt : Nat) (s : σ) (now : Int) (n : Nat) (d : Duid) (perm : List Nat) (orc : Nat → IPDB.Iter)
    (h : n < 4294967296) :
    Proofs.Ipdb.findCore S.norm df dt s now n d perm orc = Proofs.Ipdb.findCore S df dt s now n d perm orc := by
  unfold Proofs.Ipdb.findCore
  simp only [norm_lookup_lt S _ _ n _ h, norm_findLoop]

theorem norm_findIP (db : IPDB σ) (now : Int) (sugg : Option Ip4) (d : Duid) (perm : List Nat) (orc : Nat → IPDB.Iter) :
    db.findIP S.norm now sugg d perm orc = db.findIP S now sugg d perm orc := by
  rw [Proofs.Ipdb.findIP_eq, Proofs.Ipdb.findIP_eq, norm_findCore S _ _ _ _ _ _ _ _ (suggN_lt db sugg)]

theorem norm_lookupByDuid_fn : IPDB.lookupByDuid S.norm = IPDB.lookupByDuid S := by
  funext db now d; exact norm_lookupByDuid S db now d

theorem norm_addPermanent_fn : IPDB.addPermanent S.norm = IPDB.addPermanent S := by
  funext db now ip d; exact norm_addPermanent S db now ip d

theorem norm_updateClient_fn : IPDB.updateClient S.norm = IPDB.updateClient S := by
  funext db now ip d ttl; exact norm_updateClient S db now ip d ttl

theorem norm_findIP_fn : IPDB.findIP S.norm = IPDB.findIP S := by
  funext db now sugg d perm orc; exact norm_findIP S db now sugg d perm orc

/-- Everything above the lease database sees a store only through these four operations. -/
structure SameOps (S' S : Store σ) : Prop where
  lookup : IPDB.lookupByDuid S' = IPDB.lookupByDuid S
  add : IPDB.addPermanent S' = IPDB.addPermanent S
  update : IPDB.updateClient S' = IPDB.updateClient S
  find : IPDB.findIP S' = IPDB.findIP S

theorem norm_sameOps : SameOps S.norm S :=
  ⟨norm_lookupByDuid_fn S, norm_addPermanent_fn S, norm_updateClient_fn S, norm_findIP_fn S⟩

variable {S} {S' : Store σ} (H : SameOps S' S)
include H

theorem getDuid_congr : getDuid S' = getDuid S := by
  funext db t hw cid
  unfold getDuid
  rw [H.lookup]

theorem handle_congr (c : SrvCfg) (db : IPDB σ) (rx : Rx) (o : HOracle) :
    handle S' c db rx o = handle S c db rx o := by
  unfold handle
  rw [getDuid_congr H, H.lookup, H.update, H.find]

theorem step_congr (c : SrvCfg) (s : Sys σ) (e : Ev) : Sys.step S' c s e = Sys.step S c s e := by
  cases e with
  | recv t b => unfold Sys.step; rw [getDuid_congr H]
  | find i t perm orc tEnd => unfold Sys.step; rw [H.find]
  | hold i t => unfold Sys.step; rw [H.update]
  | look i t pf => unfold Sys.step; rw [H.lookup]
  | lease i t => unfold Sys.step; rw [H.update]

theorem run_congr (c : SrvCfg) (evs : List Ev) : ∀ (s : Sys σ), Sys.run S' c s evs = Sys.run S c s evs := by
  induction evs with
  | nil => intro s; rfl
  | cons e rest ih =>
    intro s
    show Sys.run S' c (Sys.step S' c s e) rest = Sys.run S c (Sys.step S c s e) rest
    rw [step_congr H, ih]

theorem serverInit_congr (e : σ) (c : SrvCfg) (base p : Nat) (dyn : Option (Ip4 × Ip4))
    (staticOnly : Bool) (t : Int) :
    serverInit S' e c base p dyn staticOnly t = serverInit S e c base p dyn staticOnly t := by
  unfold serverInit
  rw [H.add]

end norm


/-! ### simulation of one handler run, for a clock-independent relation -/
section hsim
open PsaDhcp.Proofs PsaDhcp.Proofs.Ipdb PsaDhcp.Proofs.Safety
variable {σ₁ σ₂ : Type} {S₁ : Store σ₁} {S₂ : Store σ₂} {Rel : σ₁ → σ₂ → Int → Prop}

theorem findLoop_ci (sim : StoreSim S₁ S₂ Rel) (hci : ∀ s1 s2 t t', Rel s1 s2 t → Rel s1 s2 t') (df : Nat)
    (orc : Nat → IPDB.Iter) (tEnd : Int) (vs : List Nat) :
    ∀ (i : Nat) (s1 : σ₁) (s2 : σ₂) (t : Int), Rel s1 s2 t →
      (IPDB.findLoop S₁ df vs orc i s1).2 = (IPDB.findLoop S₂ df vs orc i s2).2 ∧
      Rel (IPDB.findLoop S₁ df vs orc i s1).1 (IPDB.findLoop S₂ df vs orc i s2).1 tEnd := by
  induction vs with
  | nil =>
    intro i s1 s2 t h
    exact ⟨rfl, hci _ _ _ _ h⟩
  | cons v rest ih =>
    intro i s1 s2 t h
    unfold IPDB.findLoop
    by_cases hc : (orc i).cancelled = true
    · simp only [hc, if_true]
      exact ⟨trivial, hci _ _ _ _ h⟩
    · simp only [hc, Bool.false_eq_true, if_false]
      obtain ⟨e1, h1⟩ := sim.lookup s1 s2 (orc i).now ((df + v) % 4294967296) [] (hci _ _ _ _ h)
      simp only [e1]
      split
      · exact ⟨rfl, hci _ _ _ _ h1⟩
      · exact ih (i + 1) _ _ _ h1

theorem findCore_ci (sim : StoreSim S₁ S₂ Rel) (hci : ∀ s1 s2 t t', Rel s1 s2 t → Rel s1 s2 t') {s1 : σ₁} {s2 : σ₂}
    {now : Int} (hR : Rel s1 s2 now) (df dt n : Nat) (d : Duid) (perm : List Nat) (orc : Nat → IPDB.Iter) (tEnd : Int) :
    (findCore S₁ df dt s1 now n d perm orc).2 = (findCore S₂ df dt s2 now n d perm orc).2 ∧
    Rel (findCore S₁ df dt s1 now n d perm orc).1 (findCore S₂ df dt s2 now n d perm orc).1 tEnd := by
  unfold findCore
  obtain ⟨e1, r1⟩ := sim.lookup s1 s2 now n d hR
  simp only [e1]
  cases (S₂.lookup s2 now n d).2.byDuid with
  | some a => exact ⟨rfl, hci _ _ _ _ r1⟩
  | none =>
    simp only
    split
    · exact ⟨rfl, hci _ _ _ _ r1⟩
    · obtain ⟨e2, r2⟩ := findLoop_ci sim hci df orc tEnd
        (if (S₂.lookup s2 now n d).2.byIp.isNone = true ∧ df ≤ n ∧ n ≤ dt then (n - df) :: perm else perm)
        0 _ _ now r1
      simp only [e2]
      exact ⟨trivial, r2⟩

theorem findIP_ci (sim : StoreSim S₁ S₂ Rel) (hci : ∀ s1 s2 t t', Rel s1 s2 t → Rel s1 s2 t') {db1 : IPDB σ₁}
    {db2 : IPDB σ₂} {now : Int} (h : DbRel Rel db1 db2 now) (sugg : Option Ip4) (d : Duid) (perm : List Nat)
    (orc : Nat → IPDB.Iter) (tEnd : Int) :
    (db1.findIP S₁ now sugg d perm orc).2 = (db2.findIP S₂ now sugg d perm orc).2 ∧
    DbRel Rel (db1.findIP S₁ now sugg d perm orc).1 (db2.findIP S₂ now sugg d perm orc).1 tEnd := by
  obtain ⟨nf, nt, df, dt, s1⟩ := db1
  obtain ⟨nf', nt', df', dt', s2⟩ := db2
  obtain ⟨h1, h2, h3, h4, hR⟩ := h
  simp only at h1 h2 h3 h4 hR
  subst h1 h2 h3 h4
  have hn : suggN (⟨nf, nt, df, dt, s1⟩ : IPDB σ₁) sugg = suggN (⟨nf, nt, df, dt, s2⟩ : IPDB σ₂) sugg := rfl
  rw [findIP_eq, findIP_eq, hn]
  obtain ⟨e, r⟩ := findCore_ci sim hci hR df dt (suggN (⟨nf, nt, df, dt, s2⟩ : IPDB σ₂) sugg) d perm orc tEnd
  exact ⟨e, rfl, rfl, rfl, rfl, r⟩

theorem dbRel_ci (hci : ∀ s1 s2 t t', Rel s1 s2 t → Rel s1 s2 t') {db1 : IPDB σ₁} {db2 : IPDB σ₂} {t : Int} (t' : Int)
    (h : DbRel Rel db1 db2 t) : DbRel Rel db1 db2 t' :=
  ⟨h.1, h.2.1, h.2.2.1, h.2.2.2.1, hci _ _ _ _ h.2.2.2.2⟩

/-- The two results of a database step: same answer, related databases. -/
def StepRel {α : Type} (Rel : σ₁ → σ₂ → Int → Prop) (r1 : IPDB σ₁ × α) (r2 : IPDB σ₂ × α) : Prop :=
  r1.2 = r2.2 ∧ DbRel Rel r1.1 r2.1 0

/-- A pair is the pair of its components, with the components named. -/
theorem pair_split {α β : Type} (x : α × β) : ∃ a b, x = (a, b) := ⟨x.1, x.2, rfl⟩

theorem handle_sim (sim : StoreSim S₁ S₂ Rel) (hci : ∀ s1 s2 t t', Rel s1 s2 t → Rel s1 s2 t') {db1 : IPDB σ₁}
    {db2 : IPDB σ₂} (h : DbRel Rel db1 db2 0) (c : SrvCfg) (rx : Rx) (o : HOracle) :
    (handle S₁ c db1 rx o).2 = (handle S₂ c db2 rx o).2 ∧
      DbRel Rel (handle S₁ c db1 rx o).1 (handle S₂ c db2 rx o).1 0 := by
  have hg := getDuid_sim sim (dbRel_ci hci o.t0 h) rx.msg.chaddr (decodeOptions rx.msg.options).clientIdentifier
  obtain ⟨d1, u1, hg1⟩ := pair_split (getDuid S₁ db1 o.t0 rx.msg.chaddr (decodeOptions rx.msg.options).clientIdentifier)
  obtain ⟨d2, u2, hg2⟩ := pair_split (getDuid S₂ db2 o.t0 rx.msg.chaddr (decodeOptions rx.msg.options).clientIdentifier)
  rw [hg1, hg2] at hg
  obtain ⟨hu, hd⟩ := hg
  simp only at hu hd
  subst hu
  have htd : todo c d1 rx = todo c d2 rx := todo_congr hd.1 hd.2.1 rx
  cases ht2 : todo c d2 rx with
  | drop =>
    rw [ht2] at htd
    rw [Liveness.handle_drop S₁ c db1 rx o hg1 htd, Liveness.handle_drop S₂ c db2 rx o hg2 ht2]
    exact ⟨rfl, dbRel_ci hci 0 hd⟩
  | discover =>
    rw [ht2] at htd
    have hf := findIP_ci sim hci (dbRel_ci hci o.t1 hd) (decodeOptions rx.msg.options).requestedIP u1 o.perm o.iters o.t2
    obtain ⟨x1, r1, hf1⟩ := pair_split (d1.findIP S₁ o.t1 (decodeOptions rx.msg.options).requestedIP u1 o.perm o.iters)
    obtain ⟨x2, r2, hf2⟩ := pair_split (d2.findIP S₂ o.t1 (decodeOptions rx.msg.options).requestedIP u1 o.perm o.iters)
    rw [hf1, hf2] at hf
    obtain ⟨hr, hx⟩ := hf
    simp only at hr hx
    subst hr
    cases r1 with
    | error e =>
      rw [Liveness.handle_discover_none S₁ c db1 rx o hg1 htd hf1, Liveness.handle_discover_none S₂ c db2 rx o hg2 ht2 hf2]
      exact ⟨rfl, dbRel_ci hci 0 hx⟩
    | ok a =>
      have hu := updateClient_sim sim hx (some (Ip4.ofNat a)) u1 offerHoldNs
      obtain ⟨y1, q1, hu1⟩ := pair_split (x1.updateClient S₁ o.t2 (some (Ip4.ofNat a)) u1 offerHoldNs)
      obtain ⟨y2, q2, hu2⟩ := pair_split (x2.updateClient S₂ o.t2 (some (Ip4.ofNat a)) u1 offerHoldNs)
      rw [hu1, hu2] at hu
      obtain ⟨hq, hy⟩ := hu
      simp only at hq hy
      subst hq
      cases q1 with
      | error e =>
        rw [Liveness.handle_discover_uerr S₁ c db1 rx o hg1 htd hf1 hu1,
          Liveness.handle_discover_uerr S₂ c db2 rx o hg2 ht2 hf2 hu2]
        exact ⟨rfl, dbRel_ci hci 0 hy⟩
      | ok v =>
        rw [Safety.handle_discover S₁ c db1 rx o hg1 htd hf1 hu1, Safety.handle_discover S₂ c db2 rx o hg2 ht2 hf2 hu2]
        exact ⟨rfl, dbRel_ci hci 0 hy⟩
  | request want =>
    rw [ht2] at htd
    have hl := lookupByDuid_sim sim (dbRel_ci hci o.t1 hd) u1
    obtain ⟨x1, r1, hl1⟩ := pair_split (d1.lookupByDuid S₁ o.t1 u1)
    obtain ⟨x2, r2, hl2⟩ := pair_split (d2.lookupByDuid S₂ o.t1 u1)
    rw [hl1, hl2] at hl
    obtain ⟨hr, hx⟩ := hl
    simp only at hr hx
    subst hr
    cases r1 with
    | error e =>
      rw [Liveness.handle_request_lerr S₁ c db1 rx o hg1 htd hl1, Liveness.handle_request_lerr S₂ c db2 rx o hg2 ht2 hl2]
      exact ⟨rfl, dbRel_ci hci 0 hx⟩
    | ok lease =>
      by_cases hw : want.toNat = lease ∧ o.probeFree = true
      · have hu := updateClient_sim sim (dbRel_ci hci o.t2 hx) (some (Ip4.ofNat lease)) u1 c.leaseNs
        obtain ⟨y1, q1, hu1⟩ := pair_split (x1.updateClient S₁ o.t2 (some (Ip4.ofNat lease)) u1 c.leaseNs)
        obtain ⟨y2, q2, hu2⟩ := pair_split (x2.updateClient S₂ o.t2 (some (Ip4.ofNat lease)) u1 c.leaseNs)
        rw [hu1, hu2] at hu
        obtain ⟨hq, hy⟩ := hu
        simp only at hq hy
        subst hq
        cases q1 with
        | error e =>
          rw [Liveness.handle_request_uerr S₁ c db1 rx o hg1 htd hl1 hw.1 hw.2 hu1,
            Liveness.handle_request_uerr S₂ c db2 rx o hg2 ht2 hl2 hw.1 hw.2 hu2]
          exact ⟨rfl, dbRel_ci hci 0 hy⟩
        | ok v =>
          rw [Liveness.handle_request_ack S₁ c db1 rx o hg1 htd hl1 hw.1 hw.2 hu1,
            Liveness.handle_request_ack S₂ c db2 rx o hg2 ht2 hl2 hw.1 hw.2 hu2]
          exact ⟨rfl, dbRel_ci hci 0 hy⟩
      · rw [Liveness.handle_request_nak S₁ c db1 rx o hg1 htd hl1 hw, Liveness.handle_request_nak S₂ c db2 rx o hg2 ht2 hl2 hw]
        exact ⟨rfl, dbRel_ci hci 0 hx⟩

end hsim
end PsaDhcp.Proofs.CodeFullAux
