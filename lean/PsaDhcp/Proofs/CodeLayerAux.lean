import PsaDhcp.Code.Bridge
import PsaDhcp.Proofs.Wire
/-
Small facts about the primitives of Go/Prelude.lean (each for an arbitrary `site`), used by the
`Gen.f = model f` proofs.  Index arguments are given as `i = (n : Int)` so that literals and
`Int.ofNat b.length` are both discharged by `rfl`.
-/
namespace PsaDhcp.Proofs.CodeLayerAux
open PsaDhcp PsaDhcp.Code

/-! ### indexing, slicing, writing -/

theorem idx_ok {α : Type} (b : List α) (i : Int) (n : Nat) (site : String) (hi : i = (n : Int))
    (h : n < b.length) : Go.idx b i site = .ok b[n] := by
  subst hi
  unfold Go.idx
  rw [if_neg (by omega)]
  simp only [Int.toNat_natCast, List.getElem?_eq_getElem h]; rfl

theorem slice_ok {α : Type} (b : List α) (lo hi : Int) (l h : Nat) (site : String)
    (hl : lo = (l : Int)) (hh : hi = (h : Int)) (h1 : l ≤ h) (h2 : h ≤ b.length) :
    Go.slice b lo hi site = .ok ((b.take h).drop l) := by
  subst hl hh
  unfold Go.slice
  rw [if_pos (by omega)]; rfl

theorem sliceFrom_ok {α : Type} (b : List α) (lo : Int) (l : Nat) (site : String)
    (hl : lo = (l : Int)) (h1 : l ≤ b.length) :
    Go.sliceFrom b lo site = .ok (b.drop l) := by
  unfold Go.sliceFrom
  rw [slice_ok b lo b.length l b.length site hl rfl h1 (Nat.le_refl _), List.take_length]

theorem setIdx_ok {α : Type} (b : List α) (i : Int) (n : Nat) (v : α) (site : String) (hi : i = (n : Int))
    (h : n < b.length) : Go.setIdx b i v site = .ok (b.set n v) := by
  subst hi
  unfold Go.setIdx
  rw [if_pos (by omega)]; rfl

theorem makeList_ok {α : Type} (z : α) (i : Int) (n : Nat) (site : String) (hi : i = (n : Int)) :
    Go.makeList z i site = .ok (List.replicate n z) := by
  subst hi
  unfold Go.makeList
  rw [if_neg (by omega)]; rfl

theorem copyAt_ok {α : Type} (b : List α) (lo hi : Int) (l h : Nat) (src : List α) (site : String)
    (hl : lo = (l : Int)) (hh : hi = (h : Int)) (h1 : l ≤ h) (h2 : h ≤ b.length) :
    Go.copyAt b lo hi src site = .ok (Go.overwrite b l (src.take (h - l))) := by
  subst hl hh
  unfold Go.copyAt
  rw [if_pos (by omega)]
  have : ((h : Int) - (l : Int)).toNat = h - l := by omega
  rw [this]; rfl

theorem putU16_ok (b : Bytes) (lo hi : Int) (l h : Nat) (v : UInt16) (site : String)
    (hl : lo = (l : Int)) (hh : hi = (h : Int)) (h1 : l + 2 ≤ h) (h2 : h ≤ b.length) :
    Go.putU16 b lo hi v site = .ok (Go.overwrite b l (Go.u16Bytes v)) := by
  subst hl hh
  unfold Go.putU16
  rw [if_pos (by omega)]; rfl

theorem putU32_ok (b : Bytes) (lo hi : Int) (l h : Nat) (v : UInt32) (site : String)
    (hl : lo = (l : Int)) (hh : hi = (h : Int)) (h1 : l + 4 ≤ h) (h2 : h ≤ b.length) :
    Go.putU32 b lo hi v site = .ok (Go.overwrite b l (Go.u32Bytes v)) := by
  subst hl hh
  unfold Go.putU32
  rw [if_pos (by omega)]; rfl

/-! ### `overwrite` and the model's `overlay` -/

theorem overwrite_length {α : Type} (b : List α) (off : Nat) (src : List α) (h : off + src.length ≤ b.length) :
    (Go.overwrite b off src).length = b.length := by
  simp only [Go.overwrite, List.length_append, List.length_take, List.length_drop]; omega

theorem overwrite_at {α : Type} (p q src : List α) (off : Nat) (h : off = p.length) :
    Go.overwrite (p ++ q) off src = p ++ (src ++ q.drop src.length) := by
  subst h
  simp [Go.overwrite, List.drop_append]

theorem overlay_eq_overwrite (buf : Bytes) (off : Nat) (src : Bytes) :
    overlay buf off src = Go.overwrite buf off (src.take (buf.length - off)) := rfl

theorem overlay_at (p q src : Bytes) (off : Nat) (h : off = p.length) (hq : q.length = src.length) :
    overlay (p ++ q) off src = p ++ src := by
  subst h
  have e : (p ++ q).length - p.length = src.length := by rw [List.length_append]; omega
  rw [overlay_eq_overwrite, overwrite_at p q _ _ rfl, e, List.take_length, ← hq, List.drop_length,
    List.append_nil]

theorem copyAt_from (b : Bytes) (lo : Int) (l : Nat) (src : Bytes) (site : String)
    (hl : lo = (l : Int)) (h : l ≤ b.length) :
    Go.copyAt b lo (Int.ofNat b.length) src site = .ok (overlay b l src) := by
  exact copyAt_ok b lo _ l b.length src site hl rfl h (Nat.le_refl _)

theorem putU32_from (b : Bytes) (lo : Int) (l : Nat) (v : UInt32) (site : String)
    (hl : lo = (l : Int)) (h : l + 4 ≤ b.length) :
    Go.putU32 b lo (Int.ofNat b.length) v site = .ok (Go.overwrite b l (Go.u32Bytes v)) :=
  putU32_ok b lo _ l b.length v site hl rfl h (Nat.le_refl _)

/-! ### fixed-width integers -/

theorem shl8_or (a b : Nat) (ha : a < 256) (hb : b < 256) :
    a * 256 % 65536 ||| b = (a * 256 + b) % 65536 := by
  rw [Nat.mod_eq_of_lt (by omega), Nat.mod_eq_of_lt (by omega), Nat.mul_comm]
  exact (Nat.two_pow_add_eq_or_of_lt (i := 8) hb a).symm

theorem u16Bytes_eq (v : UInt16) : Go.u16Bytes v = put16 v.toNat := by
  unfold Go.u16Bytes put16
  congr 1
  · apply UInt8.toNat_inj.mp
    simp [UInt16.toNat_shiftRight, Nat.shiftRight_eq_div_pow]
  · congr 1
    apply UInt8.toNat_inj.mp
    simp

theorem put16_mod (n : Nat) : put16 (n % 65536) = put16 n := by
  unfold put16
  have h1 : n % 65536 / 256 % 256 = n / 256 % 256 := by omega
  have h2 : n % 65536 % 256 = n % 256 := by omega
  rw [h1, h2]

theorem u16OfInt_toNat (n : Nat) : (Go.u16OfInt (n : Int)).toNat = n % 65536 := by
  unfold Go.u16OfInt
  have : ((n : Int) % 65536).toNat = n % 65536 := by omega
  rw [this]
  simp

theorem be16_lt (x : Bytes) : be16 x < 65536 := by
  unfold be16
  split
  · rename_i h l _
    have := h.toNat_lt; have := l.toNat_lt; omega
  · omega

theorem beU16_ok (x : Bytes) (site : String) (h : 2 ≤ x.length) :
    Go.beU16 x site = .ok (UInt16.ofNat (be16 x)) := by
  match x, h with
  | a :: b :: r, _ =>
    unfold Go.beU16 be16
    simp only [pure, Except.pure]
    congr 1
    apply UInt16.toNat_inj.mp
    have := a.toNat_lt; have := b.toNat_lt
    simp [UInt16.toNat_or, UInt16.toNat_shiftLeft, Nat.shiftLeft_eq]
    exact shl8_or _ _ (by omega) (by omega)

theorem putU16_from (b : Bytes) (lo : Int) (l : Nat) (v : UInt16) (site : String)
    (hl : lo = (l : Int)) (h : l + 2 ≤ b.length) :
    Go.putU16 b lo (Int.ofNat b.length) v site = .ok (Go.overwrite b l (put16 v.toNat)) := by
  rw [← u16Bytes_eq]; exact putU16_ok b lo _ l b.length v site hl rfl h (Nat.le_refl _)

theorem put16_u16OfInt (n : Nat) : put16 (Go.u16OfInt (n : Int)).toNat = put16 n := by
  rw [u16OfInt_toNat, put16_mod]

theorem toNat_ofNat_be16 (x : Bytes) : (UInt16.ofNat (be16 x)).toNat = be16 x := by
  simp only [UInt16.toNat_ofNat']
  exact Nat.mod_eq_of_lt (be16_lt x)

theorem u32Bytes_length (v : UInt32) : (Go.u32Bytes v).length = 4 := rfl

/-! ### `net.IP` -/

theorem to4_length (x : Bytes) : (Go.to4 x).length = 4 ∨ Go.to4 x = [] := by
  unfold Go.to4
  split
  · left; assumption
  · split
    · rename_i h; left; rw [List.length_drop]; omega
    · right; rfl

theorem to4_cases (x : Bytes) :
    (Go.to4 x = [] ∧ ipOf x = none) ∨ ∃ i : Ip4, Go.to4 x = i.bytes ∧ ipOf x = some i := by
  unfold ipOf
  rcases to4_length x with h | h
  · right
    match hy : Go.to4 x, h with
    | [a, b, c, d], _ => exact ⟨⟨a, b, c, d⟩, rfl, rfl⟩
  · left; rw [h]; exact ⟨rfl, rfl⟩

end PsaDhcp.Proofs.CodeLayerAux
