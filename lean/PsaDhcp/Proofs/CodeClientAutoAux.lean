import PsaDhcp.Code.Bridge8
/-
Client automaton, part 1: conversions, `buildNetconfig`, `ResumeClient`, `runStateBound`, and what one iteration of
`Run`'s loop does in the world `cliEnv` for each state and each next event (used by Proofs/CodeClientAuto.lean).
-/
namespace PsaDhcp.Proofs.CodeClientAuto
open PsaDhcp PsaDhcp.Go PsaDhcp.Code

/-! ### Conversions -/

theorem ipOf_ipToGen (i : Ip4) : ipOf (ipToGen i) = some i := by
  simp [ipOf, ipToGen, Go.netIPv4, Go.to4, Go.v4InV6Prefix, Ip4.ofBytes?]

theorem ipOf_nil : ipOf [] = none := rfl

theorem ipOf_optIpToGen (a : Option Ip4) : ipOf (optIpToGen a) = a := by
  cases a with
  | none => rfl
  | some i => exact ipOf_ipToGen i

theorem filterMap_ipOf (l : List Ip4) : (l.map ipToGen).filterMap ipOf = l := by
  induction l with
  | nil => rfl
  | cons a r ih => simp [ipOf_ipToGen, ih]

theorem ofBytes_bytes (i : Ip4) : Ip4.ofBytes? i.bytes = some i := rfl

theorem secs_back (n : Nat) : (secsToGen n / 1000000000).toNat = n := by
  unfold secsToGen; omega

theorem secs_toNat (n : Nat) : (secsToGen n).toNat = n * 1000000000 := by
  unfold secsToGen; omega

theorem u16_back (n : Nat) (h : n < 65536) : (Int.ofNat (UInt16.ofNat n).toNat).toNat = n := by
  simp [UInt16.toNat_ofNat']
  omega

/-! ### `buildNetconfig` -/

theorem defaultMask_gen (a : Option Ip4) :
    Ip4.ofBytes? (Go.ipDefaultMask (optIpToGen a)) = a.map defaultMask := by
  unfold Go.ipDefaultMask
  have h := ipOf_optIpToGen a
  unfold ipOf at h
  rw [h]
  cases a <;> rfl

def canonOpt : Option Ip4 → Bool
  | some i => canonicalMask i
  | none => false

theorem maskSize_gen (sm : Option Ip4) : ((Go.maskSize (maskToGen sm)).2 != 0) = canonOpt sm := by
  cases sm with
  | none => rfl
  | some i =>
    simp only [maskToGen, Go.maskSize, ofBytes_bytes, canonOpt]
    cases canonicalMask i <;> rfl

/-- The translated `buildNetconfig` with a router: the record it returns. -/
theorem build_ok (dx : Gen.dclient.dclient) (m : Msg) (o : DecodedOptions) (r : Ip4) (rs : List Ip4)
    (hm : dx.lastMsg = msgToGen m) (ho : dx.lastOpts = doptsToGen o) (hr : o.routers = r :: rs) :
    Gen.dclient.dclient_buildNetconfig dx = .ok
      { Interface := dx.iface, Router := ipToGen r, IP := optIpToGen m.yiaddr,
        MTU := Int.ofNat (UInt16.ofNat o.interfaceMTU).toNat, DNS := o.dns.map ipToGen, DomainName := o.domainName,
        Netmask := if canonOpt o.subnetMask = true
                   then maskToGen o.subnetMask else Go.ipDefaultMask (optIpToGen m.yiaddr),
        LeaseDuration := secsToGen o.leaseSecs } := by
  have hidx : Go.idx (List.map ipToGen (r :: rs)) (0 : Int) "dclient.go:121" = .ok (ipToGen r) := rfl
  simp only [Gen.dclient.dclient_buildNetconfig, ho, hm, doptsToGen, msgToGen, hr, hidx, maskSize_gen]
  cases canonOpt o.subnetMask <;> rfl

theorem buildNetconfig_eq (dx : Gen.dclient.dclient) (m : Msg) (o : DecodedOptions)
    (hm : dx.lastMsg = msgToGen m) (ho : dx.lastOpts = doptsToGen o) (hmtu : o.interfaceMTU < 65536) :
    match buildNetconfig m o with
    | some nc => ∃ c, Gen.dclient.dclient_buildNetconfig dx = .ok c ∧ ifcOf c = nc ∧ c.Interface = dx.iface
    | none => ∃ site, Gen.dclient.dclient_buildNetconfig dx = .error (.panic site) := by
  unfold buildNetconfig
  cases hr : o.routers with
  | nil =>
    refine ⟨"dclient.go:121", ?_⟩
    simp only [Gen.dclient.dclient_buildNetconfig, ho, doptsToGen, hr, List.map_nil]
    split <;> rfl
  | cons r rs =>
    refine ⟨_, build_ok dx m o r rs hm ho hr, ?_, rfl⟩
    cases hsm : o.subnetMask with
    | none =>
      simp only [ifcOf, ipOf_ipToGen, ipOf_optIpToGen, filterMap_ipOf, secs_back, defaultMask_gen,
        u16_back _ hmtu, Bool.false_eq_true, if_false, canonOpt]
    | some sm =>
      cases hc : canonicalMask sm with
      | true =>
        simp only [ifcOf, ipOf_ipToGen, ipOf_optIpToGen, filterMap_ipOf, secs_back, ofBytes_bytes,
          u16_back _ hmtu, if_true, hc, maskToGen, canonOpt]
      | false =>
        simp only [ifcOf, ipOf_ipToGen, ipOf_optIpToGen, filterMap_ipOf, secs_back, defaultMask_gen,
          u16_back _ hmtu, Bool.false_eq_true, if_false, hc, canonOpt]

/-! ### `ResumeClient` -/

theorem resumeClient_eq (route : Bool) (dx : Gen.dclient.dclient) (w : CliWorld) :
    (Gen.dclient.dclient_ResumeClient (cliEnv route) dx).run w =
      .ok (if dx.state = 6 ∨ dx.state = 7 ∨ dx.state = 8 then
             { dx with state := 8, boundDeadlines := { t1 := w.now + 5000000000, t2 := w.now + 5000000000, tx := w.now + 5000000000 } }
           else { dx with state := 1 }, w) := by
  by_cases h : dx.state = 6 ∨ dx.state = 7 ∨ dx.state = 8
  · have hb : (dx.state == 6 || dx.state == 7 || dx.state == 8) = true := by
      rcases h with h | h | h <;> simp [h]
    simp only [Gen.dclient.dclient_ResumeClient, StateT.run, hb, if_true, if_pos h]
    rfl
  · have hb : (dx.state == 6 || dx.state == 7 || dx.state == 8) = false := by
      simp only [not_or] at h
      simp [h.1, h.2.1, h.2.2]
    simp only [Gen.dclient.dclient_ResumeClient, StateT.run, hb, if_neg h]
    rfl

/-! ### `runStateBound` -/

/-- The deadlines `runStateBound` computes at `now` from the stored options. -/
def bdOf (now : Int) (lo : Gen.dhcpmsg.DecodedOptions) : Gen.dclient.boundDeadlines :=
  if (decide (lo.RenewalDuration > (60000000000 : Int)) && decide (lo.RebindDuration > lo.RenewalDuration) &&
      decide (lo.RebindDuration < lo.IPAddressLeaseDuration)) = true then
    { t1 := now + lo.RenewalDuration, t2 := now + lo.RebindDuration, tx := now + lo.IPAddressLeaseDuration }
  else
    { t1 := now + Go.durTimesFloat lo.IPAddressLeaseDuration 1 2, t2 := now + Go.durTimesFloat lo.IPAddressLeaseDuration 7 8,
      tx := now + lo.IPAddressLeaseDuration }

/-- The world after `SleepUntil`. -/
def sleepW (w : CliWorld) : CliWorld :=
  match w.evs with
  | [] => { w with cancelled := true, over := true }
  | .linkUp :: r => { w with evs := r, cancelled := true }
  | _ :: r => { w with evs := r }

theorem bound_run (route : Bool) (dx : Gen.dclient.dclient) (next : Int) :
    Gen.dclient.dclient_runStateBound (cliEnv route) dx next =
      fun w => .ok ({ dx with boundDeadlines := bdOf w.now dx.lastOpts, state := next }, sleepW w) := by
  funext w
  obtain ⟨evs, L, c, t, ov⟩ := w
  unfold bdOf
  by_cases h : (decide (dx.lastOpts.RenewalDuration > (60000000000 : Int)) &&
      decide (dx.lastOpts.RebindDuration > dx.lastOpts.RenewalDuration) &&
      decide (dx.lastOpts.RebindDuration < dx.lastOpts.IPAddressLeaseDuration)) = true
  · simp only [Gen.dclient.dclient_runStateBound, h, if_true]
    cases evs with
    | nil => rfl
    | cons e r => cases e <;> rfl
  · simp only [Gen.dclient.dclient_runStateBound, h, if_false, Bool.false_eq_true]
    cases evs with
    | nil => rfl
    | cons e r => cases e <;> rfl

theorem round_tail (x u : Nat) (hu : 2 ≤ u) (hd : x % u = 0) :
    (if (if x % u > u / 2 then true else if x % u < u / 2 then false else decide (x / u % 2 = 1)) = true
      then x / u + 1 else x / u) * u = x := by
  have h1 : ¬ (x % u > u / 2) := by omega
  have h2 : x % u < u / 2 := by omega
  rw [if_neg h1, if_pos h2]
  simp only [Bool.false_eq_true, if_false]
  exact Nat.div_mul_cancel (Nat.dvd_of_mod_eq_zero hd)

theorem round53_mul256 (k : Nat) (hk : 256 * k < 2305843009213693952) : round53 (256 * k) = 256 * k := by
  unfold round53
  simp only []
  by_cases hb : Nat.log2 (256 * k) + 1 ≤ 53
  · rw [if_pos hb]
  · have hk0 : 256 * k ≠ 0 := by
      intro h; rw [h] at hb; simp at hb
    have hlt : Nat.log2 (256 * k) < 61 := (Nat.log2_lt hk0).2 hk
    rw [if_neg hb]
    obtain ⟨e, he, he1, he8⟩ : ∃ e, Nat.log2 (256 * k) + 1 - 53 = e ∧ 1 ≤ e ∧ e ≤ 8 := ⟨_, rfl, by omega, by omega⟩
    rw [he]
    have hd : 2 ^ e ∣ 256 * k := Nat.dvd_trans (Nat.pow_dvd_pow 2 he8) (Nat.dvd_mul_right 256 k)
    have hu : 2 ≤ 2 ^ e := by
      calc 2 = 2 ^ 1 := rfl
        _ ≤ 2 ^ e := Nat.pow_le_pow_right (by decide) he1
    exact round_tail _ _ hu (Nat.mod_eq_zero_of_dvd hd)

theorem round53_half (s : Nat) (hs : s < 4294967296) : round53 (s * 1000000000 * 1 / 2) = s * 1000000000 / 2 := by
  have h : s * 1000000000 * 1 / 2 = 256 * (s * 1953125) := by omega
  have h' : s * 1000000000 / 2 = 256 * (s * 1953125) := by omega
  rw [h, h']
  exact round53_mul256 _ (by omega)

theorem secs_cast (a : Nat) : secsToGen a = ((a * 1000000000 : Nat) : Int) := by
  unfold secsToGen; omega

theorem bdOf_gen (now : Int) (o : DecodedOptions) (hl : o.leaseSecs < 4294967296) :
    bdOf now (doptsToGen o) =
      { t1 := now + (boundDeadlines o).t1, t2 := now + (boundDeadlines o).t2, tx := now + (boundDeadlines o).tx } := by
  have e1 : (doptsToGen o).RenewalDuration = secsToGen o.renewalSecs := rfl
  have e2 : (doptsToGen o).RebindDuration = secsToGen o.rebindSecs := rfl
  have e3 : (doptsToGen o).IPAddressLeaseDuration = secsToGen o.leaseSecs := rfl
  by_cases h : o.renewalSecs * 1000000000 > 60000000000 ∧ o.rebindSecs * 1000000000 > o.renewalSecs * 1000000000 ∧
      o.rebindSecs * 1000000000 < o.leaseSecs * 1000000000
  · have hb : boundDeadlines o = { t1 := o.renewalSecs * 1000000000, t2 := o.rebindSecs * 1000000000, tx := o.leaseSecs * 1000000000 } := by
      simp only [boundDeadlines, if_pos h]
    have h1 : (doptsToGen o).RenewalDuration > (60000000000 : Int) := by rw [e1]; unfold secsToGen; omega
    have h2 : (doptsToGen o).RebindDuration > (doptsToGen o).RenewalDuration := by rw [e1, e2]; unfold secsToGen; omega
    have h3 : (doptsToGen o).RebindDuration < (doptsToGen o).IPAddressLeaseDuration := by rw [e2, e3]; unfold secsToGen; omega
    have hc : (decide ((doptsToGen o).RenewalDuration > (60000000000 : Int)) &&
        decide ((doptsToGen o).RebindDuration > (doptsToGen o).RenewalDuration) &&
        decide ((doptsToGen o).RebindDuration < (doptsToGen o).IPAddressLeaseDuration)) = true := by
      rw [decide_eq_true h1, decide_eq_true h2, decide_eq_true h3]; rfl
    unfold bdOf
    rw [if_pos hc, hb]
    simp only [e1, e2, e3, secs_cast]
  · have hb : boundDeadlines o = { t1 := o.leaseSecs * 1000000000 / 2, t2 := round53 (o.leaseSecs * 1000000000 * 7 / 8), tx := o.leaseSecs * 1000000000 } := by
      simp only [boundDeadlines, if_neg h, halfOf, sevenEighths]
    have hc : ¬ ((decide ((doptsToGen o).RenewalDuration > (60000000000 : Int)) &&
        decide ((doptsToGen o).RebindDuration > (doptsToGen o).RenewalDuration) &&
        decide ((doptsToGen o).RebindDuration < (doptsToGen o).IPAddressLeaseDuration)) = true) := by
      intro hc
      rw [Bool.and_eq_true, Bool.and_eq_true] at hc
      have h1 := of_decide_eq_true hc.1.1
      have h2 := of_decide_eq_true hc.1.2
      have h3 := of_decide_eq_true hc.2
      rw [e1] at h1
      rw [e1, e2] at h2
      rw [e2, e3] at h3
      unfold secsToGen at h1 h2 h3
      omega
    unfold bdOf
    rw [if_neg hc, hb]
    simp only [e3, Go.durTimesFloat, secs_toNat, round53_half _ hl, Int.ofNat_eq_natCast]
    rw [secs_cast]

theorem bound_deadlines (route : Bool) (dx : Gen.dclient.dclient) (o : DecodedOptions) (w : CliWorld) (next : Int)
    (ho : dx.lastOpts = doptsToGen o) (hl : o.leaseSecs < 4294967296) :
    ∃ dx' w', (Gen.dclient.dclient_runStateBound (cliEnv route) dx next).run w = .ok (dx', w') ∧
      dx'.boundDeadlines = { t1 := w.now + (boundDeadlines o).t1, t2 := w.now + (boundDeadlines o).t2,
                             tx := w.now + (boundDeadlines o).tx } ∧ dx'.state = next := by
  refine ⟨{ dx with boundDeadlines := bdOf w.now dx.lastOpts, state := next }, sleepW w, ?_, ?_, rfl⟩
  · rw [StateT.run, bound_run]
  · rw [ho]; exact bdOf_gen w.now o hl

/-! ### One iteration of `Run`'s loop inside `mclient.Run`'s loop -/

/-- A world in which the context is live. -/
@[reducible] def W (evs : List CEv) (L : List Eff) (t : Int) : CliWorld :=
  { evs := evs, log := L, cancelled := false, now := t, over := false }

/-- A client value. -/
@[reducible] def D (ifc : NetInterface) (k : Int) (lm : Gen.dhcpmsg.Message) (lo : Gen.dhcpmsg.DecodedOptions)
    (bd : Gen.dclient.boundDeadlines) : Gen.dclient.dclient :=
  { iface := ifc, state := k, lastMsg := lm, lastOpts := lo, boundDeadlines := bd }

/-- `dclient.Run` with `fuel` iterations of its loop left (the text of `Gen.dclient.dclient_Run`). -/
def runFrom (route : Bool) (fuel : Nat) (dx : Gen.dclient.dclient) : StateT CliWorld R (GoErr × Gen.dclient.dclient) := do
  let mut dx := dx
  match (← Gen.dclient.dclient_Run.loop1 (cliEnv route) fuel dx) with
  | LoopOut.ret __l10 => return __l10
  | LoopOut.done __l10 =>
    dx := __l10
  throw (Err.panic "unreachable:dclient.dclient_Run")

/-- `mrun` from inside `Run`'s loop: `fuel` iterations left in the current `Run`, `outer` further calls of `Run`. -/
def mcont (route : Bool) (outer inner fuel : Nat) (dx : Gen.dclient.dclient) : StateT CliWorld R Gen.dclient.dclient := do
  let r ← runFrom route fuel dx
  let w ← get
  if w.over then pure r.2
  else
    let dx' ← Gen.dclient.dclient_ResumeClient (cliEnv route) r.2
    modify fun w => { w with cancelled := false }
    mrun route outer inner dx'

theorem mrun_succ (route : Bool) (outer inner : Nat) (dx : Gen.dclient.dclient) :
    mrun route (outer + 1) inner dx = mcont route outer inner inner dx := rfl

/-- All three deadlines five seconds from `t`. -/
@[reducible] def r5 (t : Int) : Gen.dclient.boundDeadlines :=
  { t1 := t + 5000000000, t2 := t + 5000000000, tx := t + 5000000000 }

@[reducible] def eDisc : Eff := .send .discover none none
@[reducible] def eSel (lm : Gen.dhcpmsg.Message) (lo : Gen.dhcpmsg.DecodedOptions) : Eff :=
  .send .selecting (ipOf lm.YourIP) (ipOf lo.ServerIdentifier)
@[reducible] def eRen (lm : Gen.dhcpmsg.Message) (lo : Gen.dhcpmsg.DecodedOptions) : Eff :=
  .send .renewing (ipOf lm.YourIP) (ipOf lo.ServerIdentifier)
@[reducible] def eReb (lm : Gen.dhcpmsg.Message) : Eff := .send .rebinding (ipOf lm.YourIP) none
@[reducible] def eArp (lm : Gen.dhcpmsg.Message) : Eff := .arpProbe (ipOf lm.YourIP)

section
variable {route : Bool} {o i f : Nat} {ifc : NetInterface} {lm : Gen.dhcpmsg.Message} {lo : Gen.dhcpmsg.DecodedOptions}
  {bd : Gen.dclient.boundDeadlines} {r : List CEv} {L : List Eff} {t : Int} {m : Msg} {o' : DecodedOptions}

/-- state 1: `runStatePurgeInterface` consumes no event. -/
theorem it_purge {evs : List CEv} :
    mcont route o i (f + 1) (D ifc 1 lm lo bd) (W evs L t) =
      mcont route o i f (D ifc 2 lm lo bd) (W evs (L ++ [.preNil] ++ [.unconfigure] ++ [.up] ++ [.postNil]) t) := rfl

/-! state 2: discovering -/
theorem it_d_acc : mcont route o i (f + 1) (D ifc 2 lm lo bd) (W (.accepted m o' :: r) L t) =
    mcont route o i f (D ifc 3 (msgToGen m) (doptsToGen o') bd) (W r (L ++ [eDisc]) t) := rfl
theorem it_d_nack : mcont route o i (f + 1) (D ifc 2 lm lo bd) (W (.nack :: r) L t) =
    mcont route o i f (D ifc 2 lm lo bd) (W r (L ++ [eDisc]) t) := rfl
theorem it_d_dl : mcont route o i (f + 1) (D ifc 2 lm lo bd) (W (.deadline :: r) L t) =
    mcont route o i f (D ifc 2 lm lo bd) (W r (L ++ [eDisc]) t) := rfl
theorem it_d_link : mcont route (o + 1) i (f + 1) (D ifc 2 lm lo bd) (W (.linkUp :: r) L t) =
    mcont route o i i (D ifc 1 lm lo bd) (W r (L ++ [eDisc]) t) := rfl
theorem it_d_end : ∃ dx' w', mcont route o i (f + 1) (D ifc 2 lm lo bd) (W [] L t) = .ok (dx', w') ∧
    w'.log = L ++ [eDisc] := ⟨_, _, rfl, rfl⟩

/-! state 3: selecting -/
theorem it_s_acc : mcont route o i (f + 1) (D ifc 3 lm lo bd) (W (.accepted m o' :: r) L t) =
    mcont route o i f (D ifc 4 (msgToGen m) (doptsToGen o') bd) (W r (L ++ [eSel lm lo]) t) := rfl
theorem it_s_nack : mcont route o i (f + 1) (D ifc 3 lm lo bd) (W (.nack :: r) L t) =
    mcont route o i f (D ifc 2 lm lo bd) (W r (L ++ [eSel lm lo]) t) := rfl
theorem it_s_dl : mcont route o i (f + 1) (D ifc 3 lm lo bd) (W (.deadline :: r) L t) =
    mcont route o i f (D ifc 2 lm lo bd) (W r (L ++ [eSel lm lo]) t) := rfl
theorem it_s_link : mcont route (o + 1) i (f + 1) (D ifc 3 lm lo bd) (W (.linkUp :: r) L t) =
    mcont route o i i (D ifc 1 lm lo bd) (W r (L ++ [eSel lm lo]) t) := rfl
theorem it_s_end : ∃ dx' w', mcont route o i (f + 1) (D ifc 3 lm lo bd) (W [] L t) = .ok (dx', w') ∧
    w'.log = L ++ [eSel lm lo] := ⟨_, _, rfl, rfl⟩

/-! state 7: renewing -/
theorem it_r_acc : mcont route o i (f + 1) (D ifc 7 lm lo bd) (W (.accepted m o' :: r) L t) =
    mcont route o i f (D ifc 4 (msgToGen m) (doptsToGen o') bd) (W r (L ++ [eRen lm lo]) t) := rfl
theorem it_r_nack : mcont route o i (f + 1) (D ifc 7 lm lo bd) (W (.nack :: r) L t) =
    mcont route o i f (D ifc 1 lm lo bd) (W r (L ++ [eRen lm lo]) t) := rfl
theorem it_r_dl : mcont route o i (f + 1) (D ifc 7 lm lo bd) (W (.deadline :: r) L t) =
    mcont route o i f (D ifc 8 lm lo bd) (W r (L ++ [eRen lm lo]) t) := rfl
theorem it_r_link : mcont route (o + 1) i (f + 1) (D ifc 7 lm lo bd) (W (.linkUp :: r) L t) =
    mcont route o i i (D ifc 8 lm lo (r5 t)) (W r (L ++ [eRen lm lo]) t) := rfl
theorem it_r_end : ∃ dx' w', mcont route o i (f + 1) (D ifc 7 lm lo bd) (W [] L t) = .ok (dx', w') ∧
    w'.log = L ++ [eRen lm lo] := ⟨_, _, rfl, rfl⟩

/-! state 8: rebinding -/
theorem it_e_acc : mcont route o i (f + 1) (D ifc 8 lm lo bd) (W (.accepted m o' :: r) L t) =
    mcont route o i f (D ifc 4 (msgToGen m) (doptsToGen o') bd) (W r (L ++ [eReb lm]) t) := rfl
theorem it_e_nack : mcont route o i (f + 1) (D ifc 8 lm lo bd) (W (.nack :: r) L t) =
    mcont route o i f (D ifc 1 lm lo bd) (W r (L ++ [eReb lm]) t) := rfl
theorem it_e_dl : mcont route o i (f + 1) (D ifc 8 lm lo bd) (W (.deadline :: r) L t) =
    mcont route o i f (D ifc 1 lm lo bd) (W r (L ++ [eReb lm]) t) := rfl
theorem it_e_link : mcont route (o + 1) i (f + 1) (D ifc 8 lm lo bd) (W (.linkUp :: r) L t) =
    mcont route o i i (D ifc 1 lm lo bd) (W r (L ++ [eReb lm]) t) := rfl
theorem it_e_end : ∃ dx' w', mcont route o i (f + 1) (D ifc 8 lm lo bd) (W [] L t) = .ok (dx', w') ∧
    w'.log = L ++ [eReb lm] := ⟨_, _, rfl, rfl⟩

/-! state 4: ARP check -/
theorem it_a_none : mcont route o i (f + 1) (D ifc 4 lm lo bd) (W (.arp none :: r) L t) =
    mcont route o i f (D ifc 5 lm lo bd) (W r (L ++ [eArp lm]) t) := rfl
theorem it_a_link : mcont route (o + 1) i (f + 1) (D ifc 4 lm lo bd) (W (.linkUp :: r) L t) =
    mcont route o i i (D ifc 1 lm lo bd) (W r (L ++ [eArp lm]) t) := rfl
theorem it_a_end : ∃ dx' w', mcont route o i (f + 1) (D ifc 4 lm lo bd) (W [] L t) = .ok (dx', w') ∧
    w'.log = L ++ [eArp lm] := ⟨_, _, rfl, rfl⟩

theorem env_Ping_some {src dst who : Bytes} {c ov : Bool} :
    (cliEnv route).Ping ifc src dst { evs := .arp (some who) :: r, log := L, cancelled := c, now := t, over := ov } =
      .ok ((who, none), { evs := r, log := L ++ [.arpProbe (ipOf dst)], cancelled := c, now := t, over := ov }) := rfl

theorem it_a_self {who : Bytes} (h : who = ifc.HardwareAddr) :
    mcont route o i (f + 1) (D ifc 4 lm lo bd) (W (.arp (some who) :: r) L t) =
      mcont route o i f (D ifc 5 lm lo bd) (W r (L ++ [eArp lm]) t) := by
  have hb : (who == ifc.HardwareAddr) = true := by rw [h]; exact beq_self_eq_true _
  simp only [mcont, runFrom, Gen.dclient.dclient_Run.loop1, Gen.dclient.dclient_runStateArpCheck,
    bind, StateT.bind, Except.bind, Int.reduceBEq, Bool.false_eq_true, if_false, if_true, env_Ping_some, hb]
  rfl

theorem it_a_other {who : Bytes} (h : who ≠ ifc.HardwareAddr) :
    mcont route o i (f + 1) (D ifc 4 lm lo bd) (W (.arp (some who) :: r) L t) =
      mcont route o i f (D ifc 1 lm lo bd) (W r (L ++ [eArp lm] ++ [.unconfigure] ++ [.wait30]) t) := by
  have hb : (who == ifc.HardwareAddr) = false := by
    rw [Bool.eq_false_iff]; intro hc; exact h (eq_of_beq hc)
  simp only [mcont, runFrom, Gen.dclient.dclient_Run.loop1, Gen.dclient.dclient_runStateArpCheck,
    bind, StateT.bind, Except.bind, Int.reduceBEq, Bool.false_eq_true, if_false, if_true, env_Ping_some, hb]
  rfl

/-! state 5: ifconfig -/
theorem it_i_true {c : Gen.libif.Ifconfig} (hb : Gen.dclient.dclient_buildNetconfig (D ifc 5 lm lo bd) = .ok c) :
    mcont route o i (f + 1) (D ifc 5 lm lo bd) (W (.ifaceResult true :: r) L t) =
      mcont route o i f (D ifc 6 lm lo bd) (W r (L ++ [.pre (ifcOf (filterGen route c))] ++
        [.setIface (ifcOf (filterGen route c))] ++ [.post (ifcOf (filterGen route c))]) t) := by
  simp only [mcont, runFrom, Gen.dclient.dclient_Run.loop1, Gen.dclient.dclient_runStateIfconfig, bind, StateT.bind, hb]
  rfl

theorem it_i_false {c : Gen.libif.Ifconfig} (hb : Gen.dclient.dclient_buildNetconfig (D ifc 5 lm lo bd) = .ok c) :
    mcont route o i (f + 1) (D ifc 5 lm lo bd) (W (.ifaceResult false :: r) L t) =
      mcont route o i f (D ifc 1 lm lo bd) (W r (L ++ [.pre (ifcOf (filterGen route c))] ++
        [.setIface (ifcOf (filterGen route c))] ++ [.unconfigure] ++ [.wait30]) t) := by
  simp only [mcont, runFrom, Gen.dclient.dclient_Run.loop1, Gen.dclient.dclient_runStateIfconfig, bind, StateT.bind, hb]
  rfl

theorem it_i_end {c : Gen.libif.Ifconfig} (hb : Gen.dclient.dclient_buildNetconfig (D ifc 5 lm lo bd) = .ok c) :
    ∃ dx' w', mcont route o i (f + 1) (D ifc 5 lm lo bd) (W [] L t) = .ok (dx', w') ∧
      w'.log = L ++ [.pre (ifcOf (filterGen route c))] ++ [.setIface (ifcOf (filterGen route c))] ++
        [.post (ifcOf (filterGen route c))] := by
  simp only [mcont, runFrom, Gen.dclient.dclient_Run.loop1, Gen.dclient.dclient_runStateIfconfig, bind, StateT.bind, hb]
  exact ⟨_, _, rfl, rfl⟩

/-! state 6: bound -/
theorem it_b_t1 : mcont route o i (f + 1) (D ifc 6 lm lo bd) (W (.t1 :: r) L t) =
    mcont route o i f (D ifc 7 lm lo (bdOf t lo)) (W r L t) := by
  simp only [mcont, runFrom, Gen.dclient.dclient_Run.loop1, bind, StateT.bind, bound_run]
  rfl
theorem it_b_link : mcont route (o + 1) i (f + 1) (D ifc 6 lm lo bd) (W (.linkUp :: r) L t) =
    mcont route o i i (D ifc 8 lm lo (r5 t)) (W r L t) := by
  simp only [mcont, runFrom, Gen.dclient.dclient_Run.loop1, bind, StateT.bind, bound_run]
  rfl
theorem it_b_end : ∃ dx' w', mcont route o i (f + 1) (D ifc 6 lm lo bd) (W [] L t) = .ok (dx', w') ∧ w'.log = L := by
  simp only [mcont, runFrom, Gen.dclient.dclient_Run.loop1, bind, StateT.bind, bound_run]
  exact ⟨_, _, rfl, rfl⟩

end
end PsaDhcp.Proofs.CodeClientAuto
