import PsaDhcp.Code.Bridge9
import PsaDhcp.Proofs.CodeOptions
import PsaDhcp.Proofs.CodeIpdb
import PsaDhcp.Proofs.ConfigP
/-
Translated configuration code = Model/Config.lean (statements fixed in Props/C18Code.lean).

* `ipv4_val` / `ipv4_eq`, `representable_eq`: the helpers of lib/server/leaseopts.
* `ParseConfig_cases`, `SetClientOverrides_cases`: the translated functions against `parseConfig` / `setClientOverrides`;
  a Go `LeaseOptions` value is `toG mask o` for the model's merged options `o`.
* `loop_spec`: the client loop of `server.New` against the model's fold of `stepC` (Proofs/ConfigP.lean), with the
  invariant `Inv` on the `overrides` map (keys `duidFromHwAddr(mac).String()`, injective).
* `New_spec` / `new_eq`: the constructor.  The database calls are kept abstract (`EnvOk`, `ErrOk`): as in
  Proofs/ConfigP.lean, no proof step may make the kernel evaluate the range checks of the model database on an open
  address.  The code checks in a different order than the model in two places (an interface address that is not IPv4
  is only noticed by the last `AddPermanentClient`; an IPv6 network only by `ipdb.New`); both sides refuse.
* `IpdbNew_code_ok` / `IpdbNew_faithful` / `IpdbNew_noncanonical_mask`: `newEnv.IpdbNew` against the translated `ipdb.New`.
-/
set_option linter.unusedSimpArgs false
namespace PsaDhcp.Proofs.CodeConfig
open PsaDhcp PsaDhcp.Go PsaDhcp.Code
open PsaDhcp.Proofs.ConfigP

/-! ### `ipv4` -/

def okOf (e : Ent) : Option Ip4 := match e with | .ok ip => some ip | _ => none

theorem ipv4List_eq (l : List Ent) : ipv4List l = if l = [.empty] then some [] else l.mapM okOf := rfl

theorem to4_nil : Go.to4 [] = [] := by decide

/-- One element of the loop. -/
theorem elem_cases (hp : ParsersOk) (s : Bytes) :
    (okOf (entOfStr s) = none ∧ ((!(Go.parseIP s).isEmpty) && (!(Go.to4 (Go.parseIP s)).isEmpty)) = false) ∨
    ∃ i : Ip4, okOf (entOfStr s) = some i ∧ Go.to4 (Go.parseIP s) = i.bytes ∧
      ((!(Go.parseIP s).isEmpty) && (!(Go.to4 (Go.parseIP s)).isEmpty)) = true := by
  by_cases hs : s = []
  · left
    subst hs
    simp [entOfStr, okOf, hp.1]
  · rcases CodeIpdb.to4_cases (Go.parseIP s) with ⟨h, hi⟩ | ⟨i, h, hi⟩
    · left
      simp [entOfStr, hs, okOf, h, Ip4.ofBytes?]
    · right
      refine ⟨i, ?_, h, ?_⟩
      · unfold ipOf at hi
        simp [entOfStr, hs, hi, okOf]
      · have : Go.parseIP s ≠ [] := by
          intro e; rw [e, to4_nil] at h; cases h
        cases hx : Go.parseIP s with
        | nil => exact absurd hx this
        | cons a r => rw [hx] at h; simp [h]

theorem ipv4_loop (hp : ParsersOk) : ∀ (l : List Bytes) (i : Int) (res : List Bytes),
    Gen.leaseopts.ipv4.loop1 l i res = .ok
      (match (l.map entOfStr).mapM okOf with
       | some ips => LoopOut.done (res ++ ips.map Ip4.bytes)
       | none => LoopOut.ret ([], some "")) := by
  intro l
  induction l with
  | nil => intro i res; simp [Gen.leaseopts.ipv4.loop1, pure, Except.pure]
  | cons s l ih =>
    intro i res
    rcases elem_cases hp s with ⟨h1, h2⟩ | ⟨ip, h1, h2, h3⟩
    · simp [Gen.leaseopts.ipv4.loop1, h1, h2, pure, Except.pure]
    · simp only [Gen.leaseopts.ipv4.loop1, h3, if_true, List.map_cons, List.mapM_cons, h1]
      simp only [bind, Except.bind, pure, Except.pure, ih, h2]
      cases (l.map entOfStr).mapM okOf with
      | none => rfl
      | some ips => simp [Option.bind]

/-- What `ipv4` returns. -/
def ipv4Res (o : Option (List Ip4)) : List Bytes × GoErr :=
  match o with
  | some ips => (ips.map Ip4.bytes, none)
  | none => ([], some "")

theorem ipv4_val (hp : ParsersOk) (l : List Bytes) :
    Gen.leaseopts.ipv4 l = .ok (ipv4Res (ipv4List (l.map entOfStr))) := by
  unfold Gen.leaseopts.ipv4
  by_cases h : l.map entOfStr = [.empty]
  · have : l = [[]] := by
      match l, h with
      | [s], h =>
        simp only [List.map_cons, List.map_nil, List.cons.injEq, and_true] at h
        by_cases hs : s = []
        · rw [hs]
        · simp only [entOfStr, hs, if_false] at h
          split at h <;> cases h
      | [], h => cases h
      | _ :: _ :: _, h => simp at h
    subst this
    rfl
  · rw [ipv4List_eq, if_neg h]
    have hc : (do if ((Int.ofNat l.length) == (1 : Int)) then pure ((← Go.idx l (0 : Int) "leaseopts.go:127") == ([] : Bytes)) else pure false : R Bool) = .ok false := by
      match l, h with
      | [], _ => rfl
      | [s], h =>
        have hs : s ≠ [] := by
          intro e; subst e; exact h (by simp [entOfStr])
        simp [Go.idx, bind, Except.bind, pure, Except.pure, hs]
      | _ :: _ :: _, _ =>
        simp [pure, Except.pure]; omega
    rw [hc]
    simp only [bind, Except.bind, ipv4_loop hp, Bool.false_eq_true, if_false]
    cases (l.map entOfStr).mapM okOf with
    | none => rfl
    | some ips => simp [ipv4Res, pure, Except.pure]

theorem ipv4_eq (l : List Bytes) (hp : ParsersOk) :
    ∃ r, Gen.leaseopts.ipv4 l = .ok r ∧
      match ipv4List (l.map entOfStr) with
      | some ips => r = (ips.map Ip4.bytes, none)
      | none => r.2.isSome := by
  refine ⟨_, ipv4_val hp l, ?_⟩
  cases ipv4List (l.map entOfStr) <;> simp [ipv4Res]

/-! ### `representable` -/

theorem representable_eq (g : Gen.leaseopts.LeaseOptions) (o : LOpts)
    (h : g.Domain = o.domain ∧ g.Hostname = o.hostname ∧ g.DNS.length = o.dns.length ∧ g.NTP.length = o.ntp.length ∧
         g.LeaseDuration = o.leaseNs) (hl : 0 ≤ o.leaseNs) :
    (Gen.leaseopts.representable g).isNone = o.representable := by
  obtain ⟨h1, h2, h3, h4, h5⟩ := h
  have ht : Int.tdiv o.leaseNs 1000000000 = o.leaseNs / 1000000000 := Int.tdiv_eq_ediv_of_nonneg hl
  unfold Gen.leaseopts.representable LOpts.representable
  rw [h1, h2, h3, h4, h5, ht]
  simp only [Id.run, pure, bind, Int.ofNat_eq_natCast]
  by_cases c1 : o.domain.length ≤ 255
  · by_cases c2 : o.hostname.length ≤ 255
    · by_cases c3 : o.dns.length * 4 ≤ 255
      · by_cases c4 : o.ntp.length * 4 ≤ 255
        · by_cases c5 : o.leaseNs / 1000000000 ≤ 4294967295
          · have e1 : ¬ ((o.domain.length : Int) > 255) := by omega
            have e2 : ¬ ((o.hostname.length : Int) > 255) := by omega
            have e3 : ¬ ((o.dns.length : Int) * 4 > 255) := by omega
            have e4 : ¬ ((o.ntp.length : Int) * 4 > 255) := by omega
            have e5 : ¬ (o.leaseNs / 1000000000 > 4294967295) := by omega
            simp [c1, c2, c3, c4, c5, e1, e2, e3, e4, e5]
          · have e1 : ¬ ((o.domain.length : Int) > 255) := by omega
            have e2 : ¬ ((o.hostname.length : Int) > 255) := by omega
            have e3 : ¬ ((o.dns.length : Int) * 4 > 255) := by omega
            have e4 : ¬ ((o.ntp.length : Int) * 4 > 255) := by omega
            have e5 : (o.leaseNs / 1000000000 > 4294967295) := by omega
            simp [c1, c2, c3, c4, c5, e1, e2, e3, e4, e5]
        · have e1 : ¬ ((o.domain.length : Int) > 255) := by omega
          have e2 : ¬ ((o.hostname.length : Int) > 255) := by omega
          have e3 : ¬ ((o.dns.length : Int) * 4 > 255) := by omega
          have e4 : ((o.ntp.length : Int) * 4 > 255) := by omega
          simp [c1, c2, c3, c4, e1, e2, e3, e4]
      · have e1 : ¬ ((o.domain.length : Int) > 255) := by omega
        have e2 : ¬ ((o.hostname.length : Int) > 255) := by omega
        have e3 : ((o.dns.length : Int) * 4 > 255) := by omega
        simp [c1, c2, c3, e1, e2, e3]
    · have e1 : ¬ ((o.domain.length : Int) > 255) := by omega
      have e2 : ((o.hostname.length : Int) > 255) := by omega
      simp [c1, c2, e1, e2]
  · have e1 : ((o.domain.length : Int) > 255) := by omega
    simp [c1, e1]

/-! ### `ParseConfig` -/

def optB (o : Option Ip4) : Bytes := match o with | some i => i.bytes | none => []

/-- The Go `LeaseOptions` value for merged options `o` (netmask `mask`). -/
def toG (mask : Bytes) (o : LOpts) : Gen.leaseopts.LeaseOptions :=
  { IP := optB o.ip, Domain := o.domain, Hostname := o.hostname, Netmask := mask, Router := optB o.router,
    DNS := o.dns.map Ip4.bytes, NTP := o.ntp.map Ip4.bytes, LeaseDuration := o.leaseNs }

theorem entOpt_cases (e : Ent) :
    (ipv4List [e] = none ∧ entOpt e = none) ∨ (ipv4List [e] = some [] ∧ entOpt e = some none) ∨
      ∃ x, ipv4List [e] = some [x] ∧ entOpt e = some (some x) := by
  cases e with
  | empty => right; left; exact ⟨rfl, rfl⟩
  | bad => left; exact ⟨rfl, rfl⟩
  | ok i => right; right; exact ⟨i, rfl, rfl⟩

theorem not_ok_error {ε α : Type} (x : Except ε α) (h : ∀ a, x ≠ .ok a) : ∃ e, x = .error e := by
  cases x with
  | error e => exact ⟨e, rfl⟩
  | ok a => exact absurd rfl (h a)

/-- The global options are those of the model (`parseConfig_ok_iff` without the network). -/
def PO (r : RawCfg) (lo : LOpts) : Prop :=
  ∃ l ro dns ntp, r.lease = some l ∧ 60000000000 ≤ l ∧ entOpt r.router = some ro ∧
    ipv4List r.dns = some dns ∧ ipv4List r.ntp = some ntp ∧
    lo = { domain := r.domain, router := ro, dns := dns, ntp := ntp, leaseNs := l } ∧ lo.representable = true

theorem idx0 {α : Type} (a : α) (l : List α) (site : String) : Go.idx (a :: l) 0 site = .ok a := rfl

theorem pc_tail (G : Gen.leaseopts.LeaseOptions) (lo : LOpts) (n : Go.IPNet) (x : Bytes) (raw : RawCfg)
    (hGlo : G = toG n.Mask lo) (hnn : 0 ≤ lo.leaseNs) (hPO : lo.representable = true → PO raw lo)
    (hnot : lo.representable ≠ true → ∃ e', parseConfig raw = .error e') :
    (∃ e, (if (!(Gen.leaseopts.representable G).isNone) = true then
              (Except.ok (none, none, Gen.leaseopts.representable G) : R (Option Gen.leaseopts.LeaseOptions × Option Go.IPNet × GoErr))
            else Except.ok (some G, some n, none)) = Except.ok (none, none, some e) ∧
          ∃ e', parseConfig raw = Except.error e') ∨
      ∃ x_1 n_1 lo,
        (x, some n, (none : GoErr)) = (x_1, some n_1, none) ∧
          (if (!(Gen.leaseopts.representable G).isNone) = true then
                (Except.ok (none, none, Gen.leaseopts.representable G) : R (Option Gen.leaseopts.LeaseOptions × Option Go.IPNet × GoErr))
              else Except.ok (some G, some n, none)) = Except.ok (some (toG n_1.Mask lo), some n_1, none) ∧
            PO raw lo := by
  have hrep := representable_eq G lo (by rw [hGlo]; simp [toG]) hnn
  by_cases hr : lo.representable = true
  · right
    rw [hr] at hrep
    simp only [hrep, Bool.not_true, Bool.false_eq_true, if_false]
    exact ⟨x, n, lo, rfl, by rw [hGlo], hPO hr⟩
  · left
    have hr' : lo.representable = false := by simpa using hr
    rw [hr'] at hrep
    simp only [hrep, Bool.not_false, if_true]
    cases hG' : Gen.leaseopts.representable G with
    | none => rw [hG'] at hrep; cases hrep
    | some e => exact ⟨e, rfl, hnot hr⟩

set_option hygiene false in
local macro "pc_fin" rr:term : tactic => `(tactic| (
            rw [← r2] at e2
            simp only [e1, ipv4Res, Option.isNone_none, Bool.not_true, Bool.false_eq_true, if_false, List.map_nil,
              List.map_cons, List.length_nil, List.length_cons, idx0]
            simp only [show (Int.ofNat 0 == 1) = false from rfl, show (Int.ofNat (0 + 1) == 1) = true from rfl,
              if_true, if_false, Bool.false_eq_true]
            cases e3 : ipv4List (conf.Dns.map entOfStr) with
            | none =>
              left; refine ⟨_, rfl, not_ok_error _ ?_⟩
              rintro ⟨lo, base, p⟩ h
              obtain ⟨-, l, ro, dns, ntp, -, -, -, hr, -⟩ := (parseConfig_ok_iff raw lo base p).1 h
              rw [r3, e3] at hr; cases hr
            | some dl =>
              rw [← r3] at e3
              cases e4 : ipv4List (conf.Ntp.map entOfStr) with
              | none =>
                left; refine ⟨_, rfl, not_ok_error _ ?_⟩
                rintro ⟨lo, base, p⟩ h
                obtain ⟨-, l, ro, dns, ntp, -, -, -, -, hr, -⟩ := (parseConfig_ok_iff raw lo base p).1 h
                rw [r4, e4] at hr; cases hr
              | some nl =>
                rw [← r4] at e4
                simp only [Option.isNone_none, Bool.not_true, Bool.false_eq_true, if_false]
                refine pc_tail _ { domain := conf.Domain, router := $rr, dns := dl, ntp := nl, leaseNs := d } n x raw rfl
                  (show (0:Int) ≤ d by omega) ?_ ?_
                · intro hr
                  exact ⟨d, _, dl, nl, hl', by omega, e2, e3, e4, by rw [r5], hr⟩
                · intro hr
                  refine not_ok_error _ ?_
                  rintro ⟨lo', base, p⟩ h
                  obtain ⟨-, l, ro, dns, ntp, h1, -, h3, h4, h5, h6, h7⟩ := (parseConfig_ok_iff raw lo' base p).1 h
                  rw [hl'] at h1; rw [e2] at h3; rw [e3] at h4; rw [e4] at h5
                  cases h1; cases h3; cases h4; cases h5
                  rw [h6, r5] at h7
                  exact hr h7))

theorem ParseConfig_cases (hp : ParsersOk) (conf : Gen.serverconfig.ServerConfig) (iface : Go.NetInterface)
    (selfAddr : Bytes × GoErr) :
    (∃ e, Gen.leaseopts.ParseConfig conf = .ok (none, none, some e) ∧
      ∃ e', parseConfig (rawOf conf iface selfAddr) = .error e') ∨
    (∃ x n lo, Go.parseCIDR conf.Network = (x, some n, none) ∧
      Gen.leaseopts.ParseConfig conf = .ok (some (toG n.Mask lo), some n, none) ∧
      PO (rawOf conf iface selfAddr) lo) := by
  have hraw : (rawOf conf iface selfAddr).lease = leaseOfStr conf.LeaseDuration ∧
      (rawOf conf iface selfAddr).router = entOfStr conf.Router ∧
      (rawOf conf iface selfAddr).dns = conf.Dns.map entOfStr ∧
      (rawOf conf iface selfAddr).ntp = conf.Ntp.map entOfStr ∧
      (rawOf conf iface selfAddr).domain = conf.Domain ∧
      (rawOf conf iface selfAddr).network = netOfStr conf.Network := ⟨rfl, rfl, rfl, rfl, rfl, rfl⟩
  obtain ⟨r1, r2, r3, r4, r5, r6⟩ := hraw
  generalize rawOf conf iface selfAddr = raw at *
  unfold Gen.leaseopts.ParseConfig
  have h2 := hp.2 conf.Network
  rcases hc : Go.parseCIDR conf.Network with ⟨x, on, e⟩
  rw [hc] at h2
  cases e with
  | some e =>
    left; refine ⟨_, rfl, not_ok_error _ ?_⟩
    rintro ⟨lo, base, p⟩ h
    have := ((parseConfig_ok_iff raw lo base p).1 h).1
    rw [r6] at this; simp [netOfStr, hc] at this
  | none =>
    simp only [forall_const] at h2
    cases on with
    | none => cases h2
    | some n =>
      simp only [Option.isNone_none, Bool.not_true, Bool.false_eq_true, if_false, Go.derefOpt, bind, Except.bind, pure, Except.pure]
      simp only [ipv4_val hp, List.map_cons, List.map_nil]
      rcases hd : Go.parseDuration conf.LeaseDuration with ⟨d, e2⟩
      cases e2 with
      | some e2 =>
        left; refine ⟨_, rfl, not_ok_error _ ?_⟩
        rintro ⟨lo, base, p⟩ h
        obtain ⟨-, l, ro, dns, ntp, hl, -⟩ := (parseConfig_ok_iff raw lo base p).1 h
        rw [r1] at hl; simp [leaseOfStr, hd] at hl
      | none =>
        have hl' : raw.lease = some d := by rw [r1]; simp [leaseOfStr, hd]
        simp only [Option.isNone_none, Bool.not_true, Bool.false_eq_true, if_false, bind, Except.bind, pure, Except.pure]
        by_cases hlt : d < 60000000000
        · left; simp only [hlt, decide_true, if_true]
          refine ⟨_, rfl, not_ok_error _ ?_⟩
          rintro ⟨lo, base, p⟩ h
          obtain ⟨-, l, ro, dns, ntp, hl, hge, -⟩ := (parseConfig_ok_iff raw lo base p).1 h
          rw [hl'] at hl; cases hl; omega
        · simp only [hlt, decide_false, Bool.false_eq_true, if_false]
          rcases entOpt_cases (entOfStr conf.Router) with ⟨e1, e2⟩ | ⟨e1, e2⟩ | ⟨ro, e1, e2⟩
          · left; simp only [e1, ipv4Res, Option.isNone_some, Bool.not_false, if_true]
            refine ⟨_, rfl, not_ok_error _ ?_⟩
            rintro ⟨lo, base, p⟩ h
            obtain ⟨-, l, ro, dns, ntp, -, -, hr, -⟩ := (parseConfig_ok_iff raw lo base p).1 h
            rw [r2, e2] at hr; cases hr
          · pc_fin none
          · pc_fin (some ro)

/-! ### `SetClientOverrides` -/

theorem sc_tail (G orig : Gen.leaseopts.LeaseOptions) (oo lo : LOpts) (c : RawClient) (m : Bytes)
    (hG : G = toG m oo) (hnn : 0 ≤ oo.leaseNs) (hok : oo.representable = true → setClientOverrides lo c = .ok oo)
    (hnot : oo.representable ≠ true → ∃ e', setClientOverrides lo c = .error e') :
    (∃ e g, (if (!(Gen.leaseopts.representable G).isNone) = true then
              (Except.ok (Gen.leaseopts.representable G, orig) : R (GoErr × Gen.leaseopts.LeaseOptions))
            else Except.ok (none, G)) = Except.ok (some e, g) ∧
          ∃ e', setClientOverrides lo c = Except.error e') ∨
      ∃ oo, (if (!(Gen.leaseopts.representable G).isNone) = true then
                (Except.ok (Gen.leaseopts.representable G, orig) : R (GoErr × Gen.leaseopts.LeaseOptions))
              else Except.ok (none, G)) = Except.ok (none, toG m oo) ∧
            setClientOverrides lo c = .ok oo := by
  have hrep := representable_eq G oo (by rw [hG]; simp [toG]) hnn
  by_cases hr : oo.representable = true
  · right
    rw [hr] at hrep
    simp only [hrep, Bool.not_true, Bool.false_eq_true, if_false]
    exact ⟨oo, by rw [hG], hok hr⟩
  · left
    have hr' : oo.representable = false := by simpa using hr
    rw [hr'] at hrep
    simp only [hrep, Bool.not_false, if_true]
    cases hG' : Gen.leaseopts.representable G with
    | none => rw [hG'] at hrep; cases hrep
    | some e => exact ⟨e, _, rfl, hnot hr⟩

theorem ipv4Res_some (l : List Ip4) : ipv4Res (some l) = (l.map Ip4.bytes, none) := rfl

theorem ipv4Res_none : ipv4Res none = ([], some "") := rfl

theorem sc_fin (lo : LOpts) (c : RawClient) (m : Bytes) (ip ro : Option Ip4) (dl nl : List Ip4)
    (e2 : entOpt c.ip = some ip) (f2 : entOpt c.router = some ro) (e3 : ipv4List c.dns = some dl)
    (e4 : ipv4List c.ntp = some nl) (G orig : Gen.leaseopts.LeaseOptions)
    (hG : G = toG m (merged lo c ip ro dl nl)) (hnn : 0 ≤ lo.leaseNs) :
    (∃ e g, (if (!(Gen.leaseopts.representable G).isNone) = true then
              (Except.ok (Gen.leaseopts.representable G, orig) : R (GoErr × Gen.leaseopts.LeaseOptions))
            else Except.ok (none, G)) = Except.ok (some e, g) ∧
          ∃ e', setClientOverrides lo c = Except.error e') ∨
      ∃ oo, (if (!(Gen.leaseopts.representable G).isNone) = true then
                (Except.ok (Gen.leaseopts.representable G, orig) : R (GoErr × Gen.leaseopts.LeaseOptions))
              else Except.ok (none, G)) = Except.ok (none, toG m oo) ∧
            setClientOverrides lo c = .ok oo := by
  refine sc_tail G orig (merged lo c ip ro dl nl) lo c m hG hnn ?_ ?_
  · intro hr
    exact (setClientOverrides_ok_iff lo c _).2 ⟨ip, ro, dl, nl, e2, f2, e3, e4, rfl, hr⟩
  · intro hr
    refine not_ok_error _ ?_
    intro oo h
    obtain ⟨ip', ro', dns', ntp', h1, h2, h3, h4, h5, h6⟩ := (setClientOverrides_ok_iff lo c oo).1 h
    rw [e2] at h1; rw [f2] at h2; rw [e3] at h3; rw [e4] at h4
    cases h1; cases h2; cases h3; cases h4
    rw [h5] at h6
    exact hr h6

set_option hygiene false in
local macro "sc_leaf" ip:term "," ro:term : tactic => `(tactic| (
  simp only [CodeOptions.lenpos, List.isEmpty_map]
  cases dl <;> cases nl <;> cases hv : v.Hostname <;>
  simp only [List.map_nil, List.map_cons, List.isEmpty_nil,
    List.isEmpty_cons, Bool.not_true, Bool.not_false, Bool.false_eq_true, if_true, if_false, bne_self_eq_false,
    show ∀ (a : UInt8) (l : Bytes), ((a :: l) != []) = true from fun _ _ => rfl] <;>
  refine sc_fin lo c m $ip $ro _ _ e2 f2 e3 e4 _ _ ?_ hnn <;>
  simp [toG, merged, r5, hv, optB]))

set_option hygiene false in
local macro "sc_dns" ip:term "," ro:term : tactic => `(tactic| (
  rw [← r2] at f2
  simp only [f1, ipv4Res_some, ipv4Res_none, Option.isNone_none, Bool.not_true, Bool.false_eq_true, if_false, List.map_nil,
    List.map_cons, List.length_nil, List.length_cons, idx0]
  simp only [show (Int.ofNat 0 == 1) = false from rfl, show (Int.ofNat (0 + 1) == 1) = true from rfl,
    if_true, if_false, Bool.false_eq_true]
  cases e3 : ipv4List (v.Dns.map entOfStr) with
  | none =>
    left; refine ⟨_, _, rfl, not_ok_error _ ?_⟩
    intro oo h
    obtain ⟨ip, ro, dns, ntp, -, -, h1, -⟩ := (setClientOverrides_ok_iff lo c oo).1 h
    rw [r3, e3] at h1; cases h1
  | some dl =>
    rw [← r3] at e3
    rw [ipv4Res_some]
    cases e4 : ipv4List (v.Ntp.map entOfStr) with
    | none =>
      left
      simp only [Option.isNone_none, Bool.not_true, Bool.false_eq_true, if_false, Option.isNone_some, Bool.not_false, if_true]
      split
      all_goals
        refine ⟨_, _, rfl, not_ok_error _ ?_⟩
        intro oo h
        obtain ⟨ip, ro, dns, ntp, -, -, -, h1, -⟩ := (setClientOverrides_ok_iff lo c oo).1 h
        rw [r4, e4] at h1; cases h1
    | some nl =>
      rw [← r4] at e4
      rw [ipv4Res_some]
      simp only [Option.isNone_none, Bool.not_true, Bool.false_eq_true, if_false]
      sc_leaf $ip, $ro))

set_option hygiene false in
local macro "sc_ro" ip:term : tactic => `(tactic| (
  rw [← r1] at e2
  simp only [e1, ipv4Res_some, ipv4Res_none, Option.isNone_none, Bool.not_true, Bool.false_eq_true, if_false, List.map_nil,
    List.map_cons, List.length_nil, List.length_cons, idx0]
  simp only [show (Int.ofNat 0 == 1) = false from rfl, show (Int.ofNat (0 + 1) == 1) = true from rfl,
    if_true, if_false, Bool.false_eq_true]
  rcases entOpt_cases (entOfStr v.Router) with ⟨f1, f2⟩ | ⟨f1, f2⟩ | ⟨ro, f1, f2⟩
  · left; simp only [f1, ipv4Res_some, ipv4Res_none, Option.isNone_some, Bool.not_false, if_true]
    refine ⟨_, _, rfl, not_ok_error _ ?_⟩
    intro oo h
    obtain ⟨ip, ro, dns, ntp, -, h1, -⟩ := (setClientOverrides_ok_iff lo c oo).1 h
    rw [r2, f2] at h1; cases h1
  · sc_dns $ip, none
  · sc_dns $ip, (some ro)))

theorem SetClientOverrides_cases (hp : ParsersOk) (m : Bytes) (lo : LOpts) (k : Bytes)
    (v : Gen.serverconfig.ClientConfig) (hnn : 0 ≤ lo.leaseNs) :
    (∃ e g, Gen.leaseopts.SetClientOverrides (toG m lo) v = .ok (some e, g) ∧
      ∃ e', setClientOverrides lo (rawClientOf (k, v)) = .error e') ∨
    (∃ oo, Gen.leaseopts.SetClientOverrides (toG m lo) v = .ok (none, toG m oo) ∧
      setClientOverrides lo (rawClientOf (k, v)) = .ok oo) := by
  have hraw : (rawClientOf (k, v)).ip = entOfStr v.Ip ∧ (rawClientOf (k, v)).router = entOfStr v.Router ∧
      (rawClientOf (k, v)).dns = v.Dns.map entOfStr ∧ (rawClientOf (k, v)).ntp = v.Ntp.map entOfStr ∧
      (rawClientOf (k, v)).hostname = v.Hostname := ⟨rfl, rfl, rfl, rfl, rfl⟩
  obtain ⟨r1, r2, r3, r4, r5⟩ := hraw
  generalize rawClientOf (k, v) = c at *
  unfold Gen.leaseopts.SetClientOverrides
  simp only [ipv4_val hp, List.map_cons, List.map_nil, bind, Except.bind, pure, Except.pure]
  rcases entOpt_cases (entOfStr v.Ip) with ⟨e1, e2⟩ | ⟨e1, e2⟩ | ⟨ip, e1, e2⟩
  · left; simp only [e1, ipv4Res_some, ipv4Res_none, Option.isNone_some, Bool.not_false, if_true]
    refine ⟨_, _, rfl, not_ok_error _ ?_⟩
    intro oo h
    obtain ⟨ip, ro, dns, ntp, h1, -⟩ := (setClientOverrides_ok_iff lo c oo).1 h
    rw [r1, e2] at h1; cases h1
  · sc_ro none
  · sc_ro (some ip)

/-! ### the client loop of `New` -/

theorem lift_ok {σ α : Type} (a : α) :
    (liftM (Except.ok a : R α) : StateT σ R α) = fun st => .ok (a, st) := rfl

theorem ipOf_bytes (i : Ip4) : ipOf i.bytes = some i := rfl

theorem toUip_none {σ : Type} (db : IPDB σ) : db.toUip none = .error .notV4 := rfl

theorem toUip_err {σ : Type} (db : IPDB σ) (o : Option Ip4) (x : DbErr) (h : db.toUip o = .error x) :
    ∃ msg, dbErrToGen x = some msg := by
  cases o with
  | none => cases h; exact ⟨_, rfl⟩
  | some i =>
    simp only [IPDB.toUip] at h
    split at h
    · cases h; exact ⟨_, rfl⟩
    · cases h

/-- `AddPermanentClient` reports an error exactly when the model's call fails. -/
theorem addPerm_err {σ : Type} (S : Store σ) (db : IPDB σ) (t : Int) (o : Option Ip4) (d : Duid) :
    (∃ u, (db.addPermanent S t o d).2 = .ok u ∧ unitResToGen' (db.addPermanent S t o d).2 = none) ∨
    (∃ x msg, (db.addPermanent S t o d).2 = .error x ∧ unitResToGen' (db.addPermanent S t o d).2 = some msg) := by
  unfold IPDB.addPermanent
  cases h : db.toUip o with
  | error x =>
    right
    obtain ⟨msg, hm⟩ := toUip_err db o x h
    exact ⟨x, msg, rfl, hm⟩
  | ok n =>
    simp only
    by_cases hr : (S.inject db.s t n d 0 true).2 = .ok
    · left; simp [hr, unitResToGen']
    · right
      simp only [hr, if_false]
      simp only [unitResToGen', dbErrToGen]
      cases hh : (S.inject db.s t n d 0 true).2 <;> first | exact absurd hh hr | exact ⟨_, _, rfl, rfl⟩

theorem mapGet_del {α : Type} (m : Go.Map α) (k k' : Bytes) :
    Go.mapGet? (Go.mapDel m k) k' = if k' = k then none else Go.mapGet? m k' := by
  induction m with
  | nil => simp [Go.mapGet?, Go.mapDel]
  | cons e m ih =>
    rcases e with ⟨ek, ev⟩
    simp only [Go.mapGet?, Go.mapDel] at ih ⊢
    by_cases h : ek = k
    · subst h
      by_cases h2 : k' = ek
      · subst h2; simp
      · have h3 : ¬ ek = k' := fun h => h2 h.symm
        simpa [List.filter_cons, List.find?_cons, h2, h3] using ih
    · by_cases h2 : ek = k'
      · subst h2; simp [h]
      · simpa [List.filter_cons, List.find?_cons, h, h2] using ih

theorem mapGet_set {α : Type} (m : Go.Map α) (k k' : Bytes) (v : α) :
    Go.mapGet? (Go.mapSet m k v) k' = if k' = k then some v else Go.mapGet? m k' := by
  have h := mapGet_del m k k'
  simp only [Go.mapGet?, Go.mapSet] at h ⊢
  by_cases h2 : k' = k
  · subst h2; simp
  · have h3 : ¬ k = k' := fun h' => h2 h'.symm
    simpa [List.find?_cons, h2, h3] using h

/-- The `overrides` map holds, under `duidFromHwAddr(mac).String()`, the merged options of the first (and only) entry for `mac`. -/
def Inv (m : Bytes) (overrides : Go.Map Gen.leaseopts.LeaseOptions) (ovs : List (Bytes × LOpts)) : Prop :=
  ∀ mac, Go.mapGet? overrides (CodeOptions.duidKey (sduid mac)) =
    (ovs.find? (fun e => decide (e.1 = mac))).map (fun e => toG m e.2)

theorem inv_nil (m : Bytes) : Inv m [] [] := fun _ => rfl

theorem inv_dup (m : Bytes) (overrides ovs) (h : Inv m overrides ovs) (mac : Bytes) :
    (Go.mapGet? overrides (CodeOptions.duidKey (sduid mac))).isSome = ovs.any (fun e => decide (e.1 = mac)) := by
  rw [h mac, Option.isSome_map]
  rw [Bool.eq_iff_iff]
  simp

theorem inv_set (m : Bytes) (overrides ovs) (h : Inv m overrides ovs) (mac : Bytes) (oo : LOpts)
    (hd : ovs.any (fun e => decide (e.1 = mac)) = false) :
    Inv m (Go.mapSet overrides (CodeOptions.duidKey (sduid mac)) (toG m oo)) (ovs ++ [(mac, oo)]) := by
  intro mac'
  rw [mapGet_set, List.find?_append]
  by_cases he : mac' = mac
  · subst he
    have : ovs.find? (fun e => decide (e.1 = mac')) = none := by
      rw [List.find?_eq_none]
      intro x hx
      have := List.any_eq_false.1 hd x hx
      simpa using this
    simp [this]
  · have hk : ¬ CodeOptions.duidKey (sduid mac') = CodeOptions.duidKey (sduid mac) := fun e =>
      he (sduid_inj (CodeOptions.duidKey_inj _ _ e))
    have hne : ¬ mac = mac' := fun e => he e.symm
    rw [if_neg hk, h mac']
    simp [hne]

section
variable {σ : Type} (AP : IPDB σ → Int → Option Ip4 → Duid → IPDB σ × Except DbErr Unit)
theorem stepC_some_ok (lo : LOpts) (t : Int) (db : IPDB σ) (ovs : List (Bytes × LOpts)) (c : RawClient) (mac : Bytes)
    (oo : LOpts) (ip : Ip4) (db' : IPDB σ) (u : Unit) (hm : c.mac = some mac) (h2 : setClientOverrides lo c = .ok oo)
    (hip : oo.ip = some ip) (hap : AP db t (some ip) (sduid mac) = (db', .ok u)) :
    stepC AP lo t (.ok (db, ovs)) c = dupCheck db' ovs mac oo := by
  unfold stepC; simp only [hm, h2, hip, hap]
theorem stepC_some_err (lo : LOpts) (t : Int) (db : IPDB σ) (ovs : List (Bytes × LOpts)) (c : RawClient) (mac : Bytes)
    (oo : LOpts) (ip : Ip4) (db' : IPDB σ) (x : DbErr) (hm : c.mac = some mac) (h2 : setClientOverrides lo c = .ok oo)
    (hip : oo.ip = some ip) (hap : AP db t (some ip) (sduid mac) = (db', .error x)) :
    stepC AP lo t (.ok (db, ovs)) c = .error .staticRejected := by
  unfold stepC; simp only [hm, h2, hip, hap]
end

open Lean.Parser.Tactic in
local macro "stsimp" "[" ts:simpLemma,* "]" : tactic =>
  `(tactic| simp only [bind, StateT.bind, pure, StateT.pure, Except.bind, Except.pure, lift_ok, Option.isNone_none,
      Option.isNone_some, Bool.not_true, Bool.not_false, Bool.false_eq_true, if_true, if_false, $ts,*])

/-- The calls of `server.New` into the lease database, over abstract `AddPermanentClient` / `SetDynamicRange`
(`AP`, `SD`): kept opaque so that no proof step evaluates the range checks of the model database. -/
structure EnvOk {σ : Type} (E : Gen.NewEnv (IPDB σ))
    (AP : IPDB σ → Int → Option Ip4 → Duid → IPDB σ × Except DbErr Unit)
    (SD : IPDB σ → Option Ip4 → Option Ip4 → IPDB σ × Except DbErr Unit)
    (empty : σ) (selfAddr : Bytes × GoErr) (t : Int) : Prop where
  ap : ∀ ip duid db, E.AddPermanentClient ip duid db =
    Except.ok (unitResToGen' (AP db t (ipOf ip) duid).2, (AP db t (ipOf ip) duid).1)
  sd : ∀ b e db, E.SetDynamicRange b e db =
    Except.ok (unitResToGen' (SD db (ipOf b) (ipOf e)).2, (SD db (ipOf b) (ipOf e)).1)
  dd : ∀ db, E.DisableDynamic db = Except.ok ((), db.disableDynamic)
  ia : ∀ i db, E.InterfaceAddr i db = Except.ok (selfAddr, db)
  nw : ∀ ip mask db, E.IpdbNew ip mask db =
    match ipOf ip, prefixOf mask with
    | some i, some p => Except.ok ((some (ixToGen (IPDB.new empty i.toNat p)), none), IPDB.new empty i.toNat p)
    | _, _ => Except.ok ((none, some "invalid network"), db)

/-- A database call reports an error exactly when the model's call fails. -/
def ErrOk {α : Type} (r : α × Except DbErr Unit) : Prop :=
  (∃ u, r.2 = .ok u ∧ unitResToGen' r.2 = none) ∨ (∃ x msg, r.2 = .error x ∧ unitResToGen' r.2 = some msg)

theorem loop_spec {σ : Type} (hp : ParsersOk) (E : Gen.NewEnv (IPDB σ))
    (AP : IPDB σ → Int → Option Ip4 → Duid → IPDB σ × Except DbErr Unit)
    (SD : IPDB σ → Option Ip4 → Option Ip4 → IPDB σ × Except DbErr Unit) (empty : σ)
    (selfAddr : Bytes × GoErr) (t : Int) (hE : EnvOk E AP SD empty selfAddr t)
    (hAP : ∀ db t o d, ErrOk (AP db t o d))
    (m : Bytes) (lo : LOpts) (hnn : 0 ≤ lo.leaseNs) (dbx : Option Gen.ipdb.IPDB) :
    ∀ (cs : List (Bytes × Gen.serverconfig.ClientConfig)) (i : Int) (overrides : Go.Map Gen.leaseopts.LeaseOptions)
      (ovs : List (Bytes × LOpts)) (db : IPDB σ), Inv m overrides ovs →
      match (cs.map rawClientOf).foldl (stepC AP lo t) (.ok (db, ovs)) with
      | .ok (db1, ovs1) => ∃ ov1,
          Gen.server.New.loop1 E (some (toG m lo)) dbx cs i overrides db =
            .ok (LoopOut.done ov1, db1) ∧ Inv m ov1 ovs1
      | .error _ => ∃ e' db',
          Gen.server.New.loop1 E (some (toG m lo)) dbx cs i overrides db =
            .ok (LoopOut.ret (none, some e'), db') := by
  intro cs
  induction cs with
  | nil =>
    intro i overrides ovs db hinv
    exact ⟨overrides, rfl, hinv⟩
  | cons kv cs ih =>
    obtain ⟨k, v⟩ := kv
    intro i overrides ovs db hinv
    simp only [List.map_cons, List.foldl_cons]
    simp only [Gen.server.New.loop1, CodeIpdb.duidFromHwAddr_eq, CodeOptions.Duid_String_eq, Go.derefOpt]
    have hmac : (rawClientOf (k, v)).mac = (match Go.parseMAC k with | (m, none) => some m | _ => none) := rfl
    rcases hm : Go.parseMAC k with ⟨hw, e⟩
    rw [hm] at hmac
    cases e with
    | some e =>
      have hs : stepC AP lo t (.ok (db, ovs)) (rawClientOf (k, v)) = .error .badMac := by
        unfold stepC; simp only [hmac]
      rw [hs, foldl_stepC_error]
      stsimp []
      exact ⟨_, _, rfl⟩
    | none =>
      stsimp []
      rcases SetClientOverrides_cases hp m lo k v hnn with ⟨e, g, h1, e', h2⟩ | ⟨oo, h1, h2⟩
      · have hs : stepC AP lo t (.ok (db, ovs)) (rawClientOf (k, v)) = .error e' := by
          unfold stepC; simp only [hmac, h2]
        rw [hs, foldl_stepC_error]
        stsimp [h1]
        exact ⟨_, _, rfl⟩
      · stsimp [h1]
        have hdup := inv_dup m overrides ovs hinv hw
        cases hip : oo.ip with
        | none =>
          have hIP : (toG m oo).IP = [] := by simp [toG, hip, optB]
          stsimp [hIP, List.isEmpty_nil, hdup]
          cases hany : ovs.any (fun e => decide (e.1 = hw)) with
          | true =>
            have hs : stepC AP lo t (.ok (db, ovs)) (rawClientOf (k, v)) = .error .duplicateClient := by
              unfold stepC; simp only [hmac, h2, hip, dupCheck, hany, if_true]
            rw [hs, foldl_stepC_error]
            exact ⟨_, _, rfl⟩
          | false =>
            have hs : stepC AP lo t (.ok (db, ovs)) (rawClientOf (k, v)) = .ok (db, ovs ++ [(hw, oo)]) := by
              unfold stepC; simp only [hmac, h2, hip, dupCheck, hany, Bool.false_eq_true, if_false]
            rw [hs]
            stsimp []
            exact ih (i + 1) _ _ db (inv_set m overrides ovs hinv hw oo hany)
        | some ip =>
          have hIP : (toG m oo).IP = ip.bytes := by simp [toG, hip, optB]
          have hne : (!List.isEmpty ip.bytes) = true := rfl
          stsimp [hIP, hne, hE.ap, ipOf_bytes]
          have hA := hAP db t (some ip) (sduid hw)
          rcases hres : AP db t (some ip) (sduid hw) with ⟨db', r⟩
          rw [hres] at hA
          rcases hA with ⟨u, ha, hb⟩ | ⟨x, msg, ha, hb⟩
          · simp only at ha hb
            subst ha
            rw [stepC_some_ok _ lo t db ovs _ hw oo ip db' u hmac h2 hip hres]
            simp only [hb]
            stsimp [hdup]
            cases hany : ovs.any (fun e => decide (e.1 = hw)) with
            | true =>
              simp only [dupCheck, hany, if_true]
              rw [foldl_stepC_error]
              exact ⟨_, _, rfl⟩
            | false =>
              simp only [dupCheck, hany, Bool.false_eq_true, if_false]
              exact ih (i + 1) _ _ _ (inv_set m overrides ovs hinv hw oo hany)
          · simp only at ha hb
            subst ha
            rw [stepC_some_err _ lo t db ovs _ hw oo ip db' x hmac h2 hip hres, foldl_stepC_error]
            simp only [hb]
            stsimp []
            exact ⟨_, _, rfl⟩


/-! ### the model's `newServer`, cut where the code is cut -/

section model
variable {σ : Type} (AP : IPDB σ → Int → Option Ip4 → Duid → IPDB σ × Except DbErr Unit)
variable (SD : IPDB σ → Option Ip4 → Option Ip4 → IPDB σ × Except DbErr Unit)

/-- Everything after the dynamic range, for an interface address that may or may not be IPv4. -/
def tailQ (r : RawCfg) (clients : List RawClient) (t : Int) (osip : Option Ip4) (lo : LOpts) (p : Nat)
    (db0 : IPDB σ) : Except CfgErr (Started σ) :=
  match osip with
  | none => .error .noSelfAddr
  | some selfIp => tailP AP r clients t selfIp lo p db0

theorem mP_self_none (empty : σ) (r : RawCfg) (cl : List RawClient) (t : Int) (h : r.selfIp = none) :
    ∃ e, newServerP AP SD empty r cl t = .error e := by
  unfold newServerP; rw [h]; exact ⟨_, rfl⟩

theorem mP_parse_err (empty : σ) (r : RawCfg) (cl : List RawClient) (t : Int) (e : CfgErr)
    (h : parseConfig r = .error e) : ∃ e', newServerP AP SD empty r cl t = .error e' := by
  unfold newServerP
  cases r.selfIp with
  | none => exact ⟨_, rfl⟩
  | some ip => simp only [h]; exact ⟨_, rfl⟩

theorem mP_dyn_err (empty : σ) (r : RawCfg) (cl : List RawClient) (t : Int) (lo : LOpts) (base p : Nat)
    (h : parseConfig r = .ok (lo, base, p))
    (hd : r.dyn = .badFormat ∨ r.dyn = .badIp ∨
      ∃ a b db' x, r.dyn = .range a b ∧ SD (IPDB.new empty base p) (some a) (some b) = (db', .error x)) :
    ∃ e', newServerP AP SD empty r cl t = .error e' := by
  unfold newServerP
  cases r.selfIp with
  | none => exact ⟨_, rfl⟩
  | some ip =>
    simp only [h]
    rcases hd with hd | hd | ⟨a, b, db', x, hd, hs⟩
    · simp only [hd]; exact ⟨_, rfl⟩
    · simp only [hd]; exact ⟨_, rfl⟩
    · simp only [hd, hs]; exact ⟨_, rfl⟩

theorem mP_tail (empty : σ) (r : RawCfg) (cl : List RawClient) (t : Int) (lo : LOpts) (base p : Nat) (db0 : IPDB σ)
    (h : parseConfig r = .ok (lo, base, p)) (hd : DynOK SD (IPDB.new empty base p) r.dyn db0) :
    newServerP AP SD empty r cl t = tailQ AP r cl t r.selfIp lo p db0 := by
  unfold newServerP tailQ
  cases r.selfIp with
  | none => rfl
  | some ip =>
    simp only [h]
    rcases hd with ⟨hd, rfl⟩ | ⟨a, b, u, hd, hs⟩
    · simp only [hd]
    · simp only [hd, hs]

theorem tailP_unfold (r : RawCfg) (cl : List RawClient) (t : Int) (selfIp : Ip4) (lo : LOpts) (p : Nat) (db0 : IPDB σ) :
    tailP AP r cl t selfIp lo p db0 =
      finish AP r t selfIp lo p (cl.foldl (stepC AP lo t) (.ok (startDb r db0, []))) := rfl

/-- What the override entries inherit from the global options. -/
def Sub (lo oo : LOpts) : Prop :=
  (oo.router = none → lo.router = none) ∧ (oo.dns = [] → lo.dns = []) ∧ (oo.ntp = [] → lo.ntp = []) ∧
    oo.domain = lo.domain

theorem sub_merged (lo : LOpts) (c : RawClient) (ip ro : Option Ip4) (dns ntp : List Ip4) :
    Sub lo (merged lo c ip ro dns ntp) := by
  refine ⟨?_, ?_, ?_, rfl⟩
  · intro h; simp only [merged] at h; cases ro with
    | none => exact h
    | some i => cases h
  · intro h; simp only [merged] at h; cases dns with
    | nil => exact h
    | cons a l => simp at h
  · intro h; simp only [merged] at h; cases ntp with
    | nil => exact h
    | cons a l => simp at h

theorem fold_sub (lo : LOpts) (t : Int) : ∀ (cs : List RawClient) (db : IPDB σ) (ovs : List (Bytes × LOpts))
    (db1 : IPDB σ) (ovs1 : List (Bytes × LOpts)),
    cs.foldl (stepC AP lo t) (.ok (db, ovs)) = .ok (db1, ovs1) → (∀ e ∈ ovs, Sub lo e.2) → ∀ e ∈ ovs1, Sub lo e.2 := by
  intro cs
  induction cs with
  | nil =>
    intro db ovs db1 ovs1 h hs
    simp only [List.foldl_nil, Except.ok.injEq, Prod.mk.injEq] at h
    rw [← h.2]; exact hs
  | cons c cs ih =>
    intro db ovs db1 ovs1 h hs
    rw [List.foldl_cons] at h
    cases hstep : stepC AP lo t (.ok (db, ovs)) c with
    | error e => rw [hstep, foldl_stepC_error] at h; cases h
    | ok v =>
      obtain ⟨db', ovs'⟩ := v
      rw [hstep] at h
      obtain ⟨mac, oo, -, hso, -, -, rfl⟩ := (stepC_ok_iff AP lo t db db' ovs ovs' c).1 hstep
      refine ih db' _ db1 ovs1 h ?_
      intro e he
      rcases List.mem_append.1 he with he | he
      · exact hs e he
      · simp only [List.mem_singleton] at he
        subst he
        obtain ⟨ip, ro, dns, ntp, -, -, -, -, rfl, -⟩ := (setClientOverrides_ok_iff lo c oo).1 hso
        exact sub_merged lo c ip ro dns ntp
end model

/-! ### the server value carries the model configuration -/

theorem ipRep_optB (o : Option Ip4) : IpRep (optB o) o := by
  cases o with
  | none => exact ⟨rfl, by simp [optB]⟩
  | some i => exact ⟨rfl, by simp [optB, Ip4.bytes]⟩

theorem map_ipOf_bytes (l : List Ip4) : (l.map Ip4.bytes).map ipOf = l.map some := by
  induction l with
  | nil => rfl
  | cons a l ih => simp only [List.map_cons, ih]; rfl

theorem find_mkOv (ovs : List (Bytes × LOpts)) (mac : Bytes) :
    (ovs.map mkOv).find? (fun o => decide (o.mac = mac)) = (ovs.find? (fun e => decide (e.1 = mac))).map mkOv := by
  induction ovs with
  | nil => rfl
  | cons x xs ih =>
    obtain ⟨m, o⟩ := x
    simp only [List.map_cons, List.find?_cons]
    have : (mkOv (m, o)).mac = m := rfl
    rw [this]
    by_cases h : m = mac
    · simp [h]
    · simp [h, ih]

theorem cfgOf_mk (r : RawCfg) (selfIp : Ip4) (lo : LOpts) (p : Nat) (ovs : List (Bytes × LOpts))
    (ov1 : Go.Map Gen.leaseopts.LeaseOptions) (hinv : Inv (maskOf p) ov1 ovs) (hsub : ∀ e ∈ ovs, Sub lo e.2)
    (iface : Go.NetInterface) (sip : Bytes) :
    CfgOf { iface := iface, selfIP := sip, lopts := toG (maskOf p) lo, overrides := ov1 } (mkCfg r selfIp lo p ovs) := by
  refine ⟨rfl, rfl, ipRep_optB lo.router, map_ipOf_bytes lo.dns, map_ipOf_bytes lo.ntp, rfl, ?_⟩
  intro mac k hk
  rw [CodeOptions.Duid_String_eq] at hk
  cases hk
  have hfind : (mkCfg r selfIp lo p ovs).override? mac = (ovs.find? (fun e => decide (e.1 = mac))).map mkOv :=
    find_mkOv ovs mac
  rw [hfind]
  rw [hinv mac]
  cases hf : ovs.find? (fun e => decide (e.1 = mac)) with
  | none => rfl
  | some e =>
    obtain ⟨m', oo⟩ := e
    have hs := hsub _ (List.mem_of_find?_eq_some hf)
    refine ⟨_, rfl, ?_⟩
    obtain ⟨s1, s2, s3, s4⟩ := hs
    simp only at s1 s2 s3 s4
    refine ⟨?_, ?_, ?_, ?_, rfl⟩
    · show IpRep (optB oo.router) (match oo.router with | some r => some r | none => lo.router)
      cases hr : oo.router with
      | none => rw [s1 hr]; exact ipRep_optB none
      | some x => exact ipRep_optB (some x)
    · show (oo.dns.map Ip4.bytes).map ipOf = (if oo.dns.isEmpty then lo.dns else oo.dns).map some
      rw [map_ipOf_bytes]
      cases hd : oo.dns with
      | nil => rw [s2 hd]; rfl
      | cons a l => rfl
    · show (oo.ntp.map Ip4.bytes).map ipOf = (if oo.ntp.isEmpty then lo.ntp else oo.ntp).map some
      rw [map_ipOf_bytes]
      cases hd : oo.ntp with
      | nil => rw [s3 hd]; rfl
      | cons a l => rfl
    · exact s4


/-! ### `server.New` -/

theorem static_step {σ α : Type} (E : Gen.NewEnv (IPDB σ)) (AP SD) (empty : σ) (selfAddr) (t : Int)
    (hE : EnvOk E AP SD empty selfAddr t) (b : Bool) (L : StateT (IPDB σ) R α) (db : IPDB σ) :
    (if b = true then (discard E.DisableDynamic).bind fun _ => L else L) db =
      L (if b = true then db.disableDynamic else db) := by
  cases b with
  | false => rfl
  | true =>
    simp only [if_true, StateT.bind, Functor.discard, Functor.mapConst, StateT.map, bind, Except.bind, hE.dd, Function.comp, pure, Except.pure]

open Lean.Parser.Tactic in
local macro "stsimp" "[" ts:simpLemma,* "]" "at" h:ident : tactic =>
  `(tactic| simp only [bind, StateT.bind, pure, StateT.pure, Except.bind, Except.pure, lift_ok, Option.isNone_none,
      Option.isNone_some, Bool.not_true, Bool.not_false, Bool.false_eq_true, if_true, if_false, $ts,*] at $h:ident)

theorem prefixOf_some (m : Bytes) (p : Nat) (h : prefixOf m = some p) : m = maskOf p := by
  have := List.find?_some h
  simpa using this

/-- Outcome of `New` against the model's outcome. -/
def Agrees {σ : Type} (iface : Go.NetInterface) (model : Except CfgErr (Started σ))
    (out : Except Err ((Option Gen.server.server × GoErr) × IPDB σ)) : Prop :=
  match model with
  | .ok s => ∃ sx, out = .ok ((some sx, none), s.db) ∧ CfgOf sx s.cfg ∧ sx.iface = iface ∧
      ipOf sx.selfIP = some s.cfg.selfIp ∧ sx.iface.HardwareAddr = s.cfg.selfMac
  | .error _ => ∃ e db', out = .ok ((none, some e), db')

theorem agrees_err {σ : Type} (iface : Go.NetInterface) (model : Except CfgErr (Started σ)) (e : String) (db' : IPDB σ)
    (h : ∃ e', model = .error e') : Agrees iface model (.ok ((none, some e), db')) := by
  obtain ⟨e', rfl⟩ := h
  exact ⟨e, db', rfl⟩

theorem New_spec {σ : Type} (hp : ParsersOk) (E : Gen.NewEnv (IPDB σ))
    (AP : IPDB σ → Int → Option Ip4 → Duid → IPDB σ × Except DbErr Unit)
    (SD : IPDB σ → Option Ip4 → Option Ip4 → IPDB σ × Except DbErr Unit) (empty : σ)
    (selfAddr : Bytes × GoErr) (t : Int) (hE : EnvOk E AP SD empty selfAddr t)
    (hAP : ∀ db t o d, ErrOk (AP db t o d)) (hSD : ∀ db a b, ErrOk (SD db a b))
    (hAPn : ∀ db t d, ∃ x, (AP db t none d).2 = .error x)
    (hSDn : ∀ db a b, a = none ∨ b = none → ∃ x, (SD db a b).2 = .error x)
    (iface : Go.NetInterface) (conf : Gen.serverconfig.ServerConfig) (db0 : IPDB σ) :
    ∀ out, (Gen.server.New E iface conf).run db0 = out →
      Agrees iface (newServerP AP SD empty (rawOf conf iface selfAddr) (conf.Client.map rawClientOf) t) out := by
  intro out hout
  have hPC := ParseConfig_cases hp conf iface selfAddr
  have hr1a : ∀ ip, selfAddr = (ip, none) → (rawOf conf iface selfAddr).selfIp = ipOf ip := by
    intro ip h; rw [h]; rfl
  have hr1b : ∀ ip e, selfAddr = (ip, some e) → (rawOf conf iface selfAddr).selfIp = none := by
    intro ip e h; rw [h]; rfl
  have hr : (rawOf conf iface selfAddr).selfMac = iface.HardwareAddr ∧
      (rawOf conf iface selfAddr).network = netOfStr conf.Network ∧
      (rawOf conf iface selfAddr).dyn = dynOfStr conf.DynamicRange ∧
      (rawOf conf iface selfAddr).staticOnly = conf.StaticOnly := ⟨rfl, rfl, rfl, rfl⟩
  obtain ⟨hr2, hr3, hr4, hr5⟩ := hr
  generalize rawOf conf iface selfAddr = r at *
  generalize hcl : conf.Client.map rawClientOf = cl
  simp only [Gen.server.New, StateT.run] at hout
  stsimp [hE.ia] at hout
  rcases hsa : selfAddr with ⟨sip, serr⟩
  rw [hsa] at hout
  cases serr with
  | some e =>
    stsimp [] at hout
    subst hout
    exact agrees_err _ _ _ _ (mP_self_none AP SD empty r cl t (hr1b _ _ hsa))
  | none =>
    have hr1 := hr1a _ hsa
    stsimp [] at hout
    rcases hPC with ⟨e, h1, e', h2⟩ | ⟨x, n, lo, hc, h1, hPO⟩
    · stsimp [h1] at hout
      subst hout
      exact agrees_err _ _ _ _ (mP_parse_err AP SD empty r cl t e' h2)
    · stsimp [h1, Go.derefOpt, hE.nw] at hout
      have hnet : netOfStr conf.Network = (match ipOf n.IP, prefixOf n.Mask with
          | some i, some p => some (i.toNat, p) | _, _ => none) := by
        simp only [netOfStr, hc]
        cases ipOf n.IP <;> cases prefixOf n.Mask <;> rfl
      have hnn : 0 ≤ lo.leaseNs := by
        obtain ⟨l, ro, dns, ntp, -, hge, -, -, -, hlo, -⟩ := hPO
        rw [hlo]; show (0:Int) ≤ l; omega
      cases hi : ipOf n.IP with
      | none =>
        simp only [hi] at hout hnet
        stsimp [] at hout
        subst hout
        refine agrees_err _ _ _ _ ?_
        obtain ⟨e', he'⟩ := not_ok_error (parseConfig r) (by
          rintro ⟨lo', base, p⟩ h
          have := ((parseConfig_ok_iff r lo' base p).1 h).1
          rw [hr3, hnet] at this; cases this)
        exact mP_parse_err AP SD empty r cl t e' he'
      | some i =>
        cases hpf : prefixOf n.Mask with
        | none =>
          simp only [hi, hpf] at hout hnet
          stsimp [] at hout
          subst hout
          refine agrees_err _ _ _ _ ?_
          obtain ⟨e', he'⟩ := not_ok_error (parseConfig r) (by
            rintro ⟨lo', base, p⟩ h
            have := ((parseConfig_ok_iff r lo' base p).1 h).1
            rw [hr3, hnet] at this; cases this)
          exact mP_parse_err AP SD empty r cl t e' he'
        | some p =>
          simp only [hi, hpf] at hout hnet
          stsimp [] at hout
          have hpc : parseConfig r = .ok (lo, i.toNat, p) :=
            (parseConfig_ok_iff r lo i.toNat p).2 ⟨by rw [hr3, hnet], hPO⟩
          have hmask : n.Mask = maskOf p := prefixOf_some _ _ hpf
          generalize hdbN : IPDB.new empty i.toNat p = dbN at hout
          generalize hK : (ite (conf.StaticOnly = true) _ _ : StateT (IPDB σ) R (Option Gen.server.server × GoErr)) = K at hout
          have hKspec : ∀ dbD out, K dbD = out → Agrees iface (tailQ AP r cl t (ipOf sip) lo p dbD) out := by
            subst hK
            intro dbD out hout
            rw [static_step E AP SD empty selfAddr t hE] at hout
            have hS : (if conf.StaticOnly = true then dbD.disableDynamic else dbD) = startDb r dbD := by
              unfold startDb; rw [hr5]
            rw [hS] at hout
            have hl := loop_spec hp E AP SD empty selfAddr t hE hAP n.Mask lo hnn (some (ixToGen dbN)) conf.Client 0 [] []
              (startDb r dbD) (inv_nil _)
            rw [hcl] at hl
            simp only [StateT.bind, bind, Except.bind] at hout
            cases hF : cl.foldl (stepC AP lo t) (.ok (startDb r dbD, [])) with
            | error e =>
              rw [hF] at hl
              obtain ⟨e', db', hl⟩ := hl
              rw [hl] at hout
              stsimp [] at hout
              subst hout
              refine agrees_err _ _ _ _ ?_
              unfold tailQ
              cases ipOf sip with
              | none => exact ⟨_, rfl⟩
              | some selfIp => simp only [tailP_unfold, hF]; exact ⟨_, rfl⟩
            | ok v =>
              obtain ⟨db1, ovs⟩ := v
              rw [hF] at hl
              obtain ⟨ov1, hl, hinv⟩ := hl
              rw [hl] at hout
              stsimp [hE.ap, CodeIpdb.duidFromHwAddr_eq] at hout
              have hA := hAP db1 t (ipOf sip) (sduid iface.HardwareAddr)
              have hAn := hAPn db1 t (sduid iface.HardwareAddr)
              unfold tailQ
              cases hsip : ipOf sip with
              | none =>
                rw [hsip] at hA hout
                rcases hA with ⟨u, ha, -⟩ | ⟨x, msg, ha, hb⟩
                · obtain ⟨x, hx⟩ := hAn; rw [hx] at ha; cases ha
                · rw [hb] at hout
                  stsimp [] at hout
                  subst hout
                  exact ⟨_, _, rfl⟩
              | some selfIp =>
                rw [hsip] at hA hout
                simp only [tailP_unfold, hF, finish, hr2]
                rcases hres : AP db1 t (some selfIp) (sduid iface.HardwareAddr) with ⟨db2, res⟩
                rw [hres] at hA hout
                rcases hA with ⟨u, ha, hb⟩ | ⟨x, msg, ha, hb⟩
                · simp only at ha hb
                  subst ha
                  rw [hb] at hout
                  stsimp [] at hout
                  subst hout
                  refine ⟨_, rfl, ?_, rfl, hsip, hr2.symm⟩
                  rw [hmask]
                  rw [hmask] at hinv
                  exact cfgOf_mk r selfIp lo p ovs ov1 hinv
                    (fold_sub AP lo t cl _ [] db1 ovs hF (fun e he => by cases he)) iface sip
                · simp only at ha hb
                  subst ha
                  rw [hb] at hout
                  stsimp [] at hout
                  subst hout
                  exact ⟨_, _, rfl⟩
          clear hK
          by_cases hdr : conf.DynamicRange = []
          · have hd : r.dyn = .absent := by rw [hr4]; simp [dynOfStr, hdr]
            have hne : (conf.DynamicRange != []) = false := by rw [hdr]; rfl
            rw [hne] at hout
            simp only [Bool.false_eq_true, if_false] at hout
            rw [mP_tail AP SD empty r cl t lo i.toNat p dbN hpc (Or.inl ⟨hd, hdbN.symm⟩), hr1]
            exact hKspec _ _ hout
          · have hne : (conf.DynamicRange != []) = true := by simp [hdr]
            rw [hne] at hout
            simp only [if_true] at hout
            have hdyn : r.dyn = (match Go.stringsSplit conf.DynamicRange [45] with
                | [a, b] => (match ipOf (Go.parseIP a), ipOf (Go.parseIP b) with
                    | some x, some y => RawDyn.range x y
                    | _, _ => RawDyn.badIp)
                | _ => RawDyn.badFormat) := by
              rw [hr4]; simp only [dynOfStr, hdr, if_false]; rfl
            have hbadFormat : r.dyn = .badFormat → Agrees iface (newServerP AP SD empty r cl t)
                (.ok ((none, some "dynamic_range format '"), dbN)) := fun hd =>
              agrees_err _ _ _ _ (mP_dyn_err AP SD empty r cl t lo i.toNat p hpc (.inl hd))
            rcases hsp : Go.stringsSplit conf.DynamicRange [45] with _ | ⟨a, _ | ⟨b, _ | ⟨c, rest⟩⟩⟩
            · rw [hsp] at hout hdyn
              stsimp [List.length_nil, show (Int.ofNat 0 != 2) = true from rfl] at hout
              subst hout
              exact hbadFormat hdyn
            · rw [hsp] at hout hdyn
              stsimp [List.length_nil, List.length_cons, show (Int.ofNat (0 + 1) != 2) = true from rfl] at hout
              subst hout
              exact hbadFormat hdyn
            · rw [hsp] at hout hdyn
              simp only at hdyn
              stsimp [List.length_nil, List.length_cons, show (Int.ofNat (0 + 1 + 1) != 2) = false from rfl, idx0,
                show ∀ (a b : Bytes) (s : String), Go.idx [a, b] 1 s = .ok b from fun _ _ _ => rfl] at hout
              by_cases hemp : (List.isEmpty (Go.parseIP a) || List.isEmpty (Go.parseIP b)) = true
              · stsimp [hemp] at hout
                subst hout
                refine agrees_err _ _ _ _ (mP_dyn_err AP SD empty r cl t lo i.toNat p hpc (.inr (.inl ?_)))
                rw [hdyn]
                have hnil : ipOf [] = none := rfl
                rcases Bool.or_eq_true_iff.1 hemp with h | h
                · rw [List.isEmpty_iff.1 h, hnil]
                · rw [List.isEmpty_iff.1 h, hnil]
                  cases ipOf (Go.parseIP a) <;> rfl
              · stsimp [hemp, hE.sd] at hout
                have hS := hSD dbN (ipOf (Go.parseIP a)) (ipOf (Go.parseIP b))
                have hSn := hSDn dbN (ipOf (Go.parseIP a)) (ipOf (Go.parseIP b))
                rcases hres : SD dbN (ipOf (Go.parseIP a)) (ipOf (Go.parseIP b)) with ⟨dbD, res⟩
                rw [hres] at hS hSn hout
                rcases hS with ⟨u, ha, hb⟩ | ⟨x, msg, ha, hb⟩
                · simp only at ha hb
                  subst ha
                  rw [hb] at hout
                  stsimp [] at hout
                  cases hA : ipOf (Go.parseIP a) with
                  | none => obtain ⟨x, hx⟩ := hSn (.inl hA); cases hx
                  | some xa =>
                    cases hB : ipOf (Go.parseIP b) with
                    | none => obtain ⟨x, hx⟩ := hSn (.inr hB); cases hx
                    | some xb =>
                      rw [hA, hB] at hdyn hres
                      simp only at hdyn
                      rw [← hdbN] at hres
                      rw [mP_tail AP SD empty r cl t lo i.toNat p dbD hpc (Or.inr ⟨xa, xb, u, hdyn, hres⟩), hr1]
                      exact hKspec _ _ hout
                · simp only at ha hb
                  subst ha
                  rw [hb] at hout
                  stsimp [] at hout
                  subst hout
                  refine agrees_err _ _ _ _ (mP_dyn_err AP SD empty r cl t lo i.toNat p hpc ?_)
                  cases hA : ipOf (Go.parseIP a) with
                  | none => rw [hA] at hdyn; exact .inr (.inl hdyn)
                  | some xa =>
                    cases hB : ipOf (Go.parseIP b) with
                    | none => rw [hA, hB] at hdyn; exact .inr (.inl hdyn)
                    | some xb =>
                      rw [hA, hB] at hdyn hres
                      rw [← hdbN] at hres
                      exact .inr (.inr ⟨xa, xb, dbD, x, hdyn, hres⟩)
            · rw [hsp] at hout hdyn
              have hlen : (Int.ofNat (rest.length + 1 + 1 + 1) != 2) = true := by
                simp only [bne_iff_ne, ne_eq, Int.ofNat_eq_natCast]; omega
              stsimp [List.length_cons, hlen] at hout
              subst hout
              exact hbadFormat hdyn

/-! ### the concrete environment -/

theorem envOk_newEnv {σ : Type} (S : Store σ) (empty : σ) (selfAddr : Bytes × GoErr) (t : Int) :
    EnvOk (newEnv S empty selfAddr t) (IPDB.addPermanent S) IPDB.setDynamicRange empty selfAddr t where
  ap := fun _ _ _ => rfl
  sd := fun _ _ _ => rfl
  dd := fun _ => rfl
  ia := fun _ _ => rfl
  nw := fun ip mask db => by
    show (match ipOf ip, prefixOf mask with
      | some i, some p => Except.ok ((some (ixToGen (IPDB.new empty i.toNat p)), none), IPDB.new empty i.toNat p)
      | _, _ => Except.ok ((none, some "invalid network"), db)) = _
    cases ipOf ip <;> cases prefixOf mask <;> rfl

theorem errOk_addPermanent {σ : Type} (S : Store σ) (db : IPDB σ) (t : Int) (o : Option Ip4) (d : Duid) :
    ErrOk (IPDB.addPermanent S db t o d) := addPerm_err S db t o d

theorem errOk_setDynamicRange {σ : Type} (db : IPDB σ) (a b : Option Ip4) : ErrOk (db.setDynamicRange a b) := by
  unfold IPDB.setDynamicRange
  cases ha : db.toUip a with
  | error x =>
    obtain ⟨msg, hm⟩ := toUip_err db a x ha
    exact .inr ⟨x, msg, rfl, hm⟩
  | ok bb =>
    cases hb : db.toUip b with
    | error x =>
      obtain ⟨msg, hm⟩ := toUip_err db b x hb
      exact .inr ⟨x, msg, rfl, hm⟩
    | ok ee =>
      simp only
      split
      · exact .inr ⟨_, _, rfl, rfl⟩
      · exact .inl ⟨(), rfl, rfl⟩

theorem addPermanent_none {σ : Type} (S : Store σ) (db : IPDB σ) (t : Int) (d : Duid) :
    ∃ x, (IPDB.addPermanent S db t none d).2 = .error x := ⟨_, rfl⟩

theorem setDynamicRange_none {σ : Type} (db : IPDB σ) (a b : Option Ip4) (h : a = none ∨ b = none) :
    ∃ x, (db.setDynamicRange a b).2 = .error x := by
  unfold IPDB.setDynamicRange
  rcases h with rfl | rfl
  · exact ⟨_, rfl⟩
  · cases db.toUip a with
    | error x => exact ⟨_, rfl⟩
    | ok bb => exact ⟨_, rfl⟩

/-- `server.New` = the model's `newServer` (statement fixed in Props/C18Code.lean). -/
theorem new_eq {σ : Type} (S : Store σ) (empty : σ) (iface : Go.NetInterface) (conf : Gen.serverconfig.ServerConfig)
    (selfAddr : Bytes × GoErr) (t : Int) (db0 : IPDB σ) (hp : ParsersOk) :
    match newServer S empty (rawOf conf iface selfAddr) (conf.Client.map rawClientOf) t with
    | .ok s => ∃ sx, (Gen.server.New (newEnv S empty selfAddr t) iface conf).run db0 = .ok ((some sx, none), s.db) ∧
        CfgOf sx s.cfg ∧ sx.iface = iface ∧ ipOf sx.selfIP = some s.cfg.selfIp ∧ sx.iface.HardwareAddr = s.cfg.selfMac
    | .error _ => ∃ e db', (Gen.server.New (newEnv S empty selfAddr t) iface conf).run db0 = .ok ((none, some e), db') := by
  rw [newServer_eq]
  have h := New_spec hp (newEnv S empty selfAddr t) (IPDB.addPermanent S) IPDB.setDynamicRange empty selfAddr t
    (envOk_newEnv S empty selfAddr t) (errOk_addPermanent S) errOk_setDynamicRange (addPermanent_none S)
    setDynamicRange_none iface conf db0 _ rfl
  unfold Agrees at h
  cases hm : newServerP (IPDB.addPermanent S) IPDB.setDynamicRange empty (rawOf conf iface selfAddr)
      (conf.Client.map rawClientOf) t with
  | ok s => rw [hm] at h; exact h
  | error e => rw [hm] at h; exact h

/-! ### `newEnv.IpdbNew` against the translated `ipdb.New` -/

theorem ip4_ofNat_toNat (i : Ip4) : Ip4.ofNat i.toNat = i := by
  obtain ⟨a, b, c, d⟩ := i
  have ha := a.toNat_lt; have hb := b.toNat_lt; have hc := c.toNat_lt; have hd := d.toNat_lt
  simp only [Ip4.ofNat, Ip4.toNat, Ip4.mk.injEq]
  refine ⟨?_, ?_, ?_, ?_⟩ <;> apply UInt8.toNat_inj.1 <;> simp only [UInt8.toNat_ofNat'] <;> omega

theorem prefixOf_le (m : Bytes) (p : Nat) (h : prefixOf m = some p) : p ≤ 32 := by
  have := List.mem_of_find?_eq_some h
  simp only [List.mem_range] at this
  omega

theorem ip4_toNat_lt (i : Ip4) : i.toNat < 4294967296 := by
  have ha := i.a.toNat_lt; have hb := i.b.toNat_lt; have hc := i.c.toNat_lt; have hd := i.d.toNat_lt
  simp only [Ip4.toNat]; omega

theorem ipdbNew_gen {σ : Type} (empty : σ) (ft : Nat × Nat) :
    (do
      let __r1 ← (Except.ok (UInt32.ofNat ft.1, UInt32.ofNat ft.2, none) : R (UInt32 × UInt32 × GoErr))
      let from_ : UInt32 := __r1.1
      let to : UInt32 := __r1.2.1
      let err : GoErr := __r1.2.2
      if (!err.isNone) then
        return (none, err)
      return ((some { Gen.ipdb.IPDB.zero with netFrom := from_, netTo := to, dynFrom := from_, dynTo := to }), (none : GoErr)) :
        R ((Option Gen.ipdb.IPDB) × GoErr)) =
    .ok (some (ixToGen ({ netFrom := ft.1, netTo := ft.2, dynFrom := ft.1, dynTo := ft.2, s := empty } : IPDB σ)), none) := rfl

/-- For an IPv4 network with a canonical mask, `newEnv.IpdbNew` returns what the translated `ipdb.New` returns. -/
theorem IpdbNew_code_ok {σ : Type} (empty : σ) (ip mask : Bytes) (i : Ip4) (p : Nat) (hi : ipOf ip = some i)
    (hp : prefixOf mask = some p) :
    Gen.ipdb.New ip mask = .ok (some (ixToGen (IPDB.new empty i.toNat p)), none) := by
  have hm := prefixOf_some mask p hp
  have hle := prefixOf_le mask p hp
  have h2 : IPDB.new empty i.toNat p = (⟨(PsaDhcp.fromTo i.toNat p).1, (PsaDhcp.fromTo i.toNat p).2,
      (PsaDhcp.fromTo i.toNat p).1, (PsaDhcp.fromTo i.toNat p).2, empty⟩ : IPDB σ) := rfl
  unfold Gen.ipdb.New
  rw [CodeIpdb.fromTo_eq ip mask i.toNat p (ip4_toNat_lt i) hle (by rw [ip4_ofNat_toNat]; exact hi) hm, h2]
  exact ipdbNew_gen empty (PsaDhcp.fromTo i.toNat p)

/-- For a network address that is not IPv4, both refuse. -/
theorem IpdbNew_code_notV4 (ip mask : Bytes) (hi : ipOf ip = none) :
    Gen.ipdb.New ip mask = .ok (none, some "invalid network") := by
  rcases CodeIpdb.to4_cases ip with ⟨h, -⟩ | ⟨i, -, h⟩
  · simp [Gen.ipdb.New, Gen.ipdb.fromTo, h, bind, Except.bind, pure, Except.pure]
  · rw [hi] at h; cases h

/-- FINDING (environment, not reachable with Go's `net.ParseCIDR`): on a four-byte mask that is not a CIDR mask
`newEnv.IpdbNew` refuses (`prefixOf = none`), while the translated `ipdb.New` accepts it. -/
theorem IpdbNew_noncanonical_mask :
    prefixOf [255, 0, 255, 0] = none ∧ ∃ ix, Gen.ipdb.New [10, 0, 0, 0] [255, 0, 255, 0] = .ok (some ix, none) := by
  refine ⟨by decide, _, rfl⟩


/-- On everything `ParseCIDR` can hand to it, `newEnv.IpdbNew` succeeds exactly when the translated `ipdb.New` does,
with the same database value. -/
theorem IpdbNew_faithful {σ : Type} (S : Store σ) (empty : σ) (selfAddr : Bytes × GoErr) (t : Int) (hm : CidrMaskOk)
    (s x : Bytes) (n : Go.IPNet) (hc : Go.parseCIDR s = (x, some n, none)) (db : IPDB σ) :
    ∃ r r' db', (newEnv S empty selfAddr t).IpdbNew n.IP n.Mask db = .ok (r, db') ∧
      Gen.ipdb.New n.IP n.Mask = .ok r' ∧ r'.1 = r.1 ∧ r'.2.isSome = r.2.isSome := by
  have hnw := (envOk_newEnv S empty selfAddr t).nw n.IP n.Mask db
  cases hi : ipOf n.IP with
  | none =>
    rw [hi] at hnw
    exact ⟨_, _, _, hnw, IpdbNew_code_notV4 _ _ hi, rfl, rfl⟩
  | some i =>
    cases hp : prefixOf n.Mask with
    | some p =>
      rw [hi, hp] at hnw
      exact ⟨_, _, _, hnw, IpdbNew_code_ok empty _ _ i p hi hp, rfl, rfl⟩
    | none =>
      rw [hi, hp] at hnw
      have hlen : ¬ n.Mask.length = 4 := by
        intro h; have := hm s x n hc h; rw [hp] at this; cases this
      refine ⟨_, (none, some "invalid netmask"), _, hnw, ?_, rfl, rfl⟩
      rcases CodeIpdb.to4_cases n.IP with ⟨-, h⟩ | ⟨j, h, -⟩
      · rw [hi] at h; cases h
      · have hl : ¬ ((n.Mask.length : Int) = 4) := by omega
        simp [Gen.ipdb.New, Gen.ipdb.fromTo, h, hl, bind, Except.bind, pure, Except.pure]

end PsaDhcp.Proofs.CodeConfig
