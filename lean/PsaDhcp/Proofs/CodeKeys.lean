import PsaDhcp.Code.Bridge6
import PsaDhcp.Proofs.CodeOptions
/-
The key-string facts the clients-table proofs use (`Proofs/CodeClients.lean`), proved in `Proofs/CodeOptions.lean`.
-/
namespace PsaDhcp.Proofs.CodeKeys
open PsaDhcp PsaDhcp.Go PsaDhcp.Code

theorem Duid_String_total (d : Bytes) : ∃ k, Gen.duid.Duid_String d = .ok k := Proofs.CodeOptions.Duid_String_total d
theorem Duid_String_injective (d₁ d₂ : Bytes) (h : Gen.duid.Duid_String d₁ = Gen.duid.Duid_String d₂) : d₁ = d₂ :=
  Proofs.CodeOptions.Duid_String_injective d₁ d₂ h
theorem Uip_String_injective (a b : UInt32) (h : Gen.uip.Uip_String a = Gen.uip.Uip_String b) : a = b :=
  Proofs.CodeOptions.Uip_String_injective a b h
theorem keys_disjoint (a : UInt32) (d : Bytes) : Gen.duid.Duid_String d ≠ .ok (Gen.uip.Uip_String a) :=
  Proofs.CodeOptions.keys_disjoint a d

end PsaDhcp.Proofs.CodeKeys
