import PsaDhcp.Code.Bridge8
import PsaDhcp.Proofs.CodeVerify
import PsaDhcp.Proofs.CodeLayer
import PsaDhcp.Proofs.CodeLayerIp
import PsaDhcp.Proofs.CodeDhcp
import PsaDhcp.Proofs.CodeDhcpOpts
import PsaDhcp.Proofs.CodeClientAutoAux
/-
Client automaton / receive path: translated code = model (statements fixed in Props/C15Code.lean, Props/C14CodeCatch.lean).

Part 1 (Proofs/CodeClientAutoAux.lean, same namespace): `buildNetconfig_eq`, `resumeClient_eq`, `bound_deadlines`, and
the iteration lemmas `it_*` (what one turn of `Run`'s loop does for each state and next event).  Here: the simulation
`client_trace` of the model automaton `crun` by `mclient.Run`'s loop over the translated `dclient.Run`.
-/
namespace PsaDhcp.Proofs.CodeClientAuto
open PsaDhcp PsaDhcp.Go PsaDhcp.Code

/-! ### The model side: client values for model states, entry effects, invariant -/

@[reducible] def stNum : CS → Int
  | .discovering => 2 | .selecting => 3 | .arpCheck => 4 | .ifconfig => 5 | .bound => 6 | .renewing => 7 | .rebinding => 8

def lmOf (s : CState) : Gen.dhcpmsg.Message :=
  match s.last with
  | some (m, _) => msgToGen m
  | none => Gen.dhcpmsg.Message.zero

def loOf (s : CState) : Gen.dhcpmsg.DecodedOptions :=
  match s.last with
  | some (_, o) => doptsToGen o
  | none => Gen.dhcpmsg.DecodedOptions.zero

@[reducible] def ifc0 (mac : Bytes) : NetInterface := { NetInterface.zero with HardwareAddr := mac }

/-- The client value in model state `s` (the deadlines are not part of the model state). -/
@[reducible] def dxOf (mac : Bytes) (s : CState) (bd : Gen.dclient.boundDeadlines) : Gen.dclient.dclient :=
  D (ifc0 mac) (stNum s.st) (lmOf s) (loOf s) bd

/-- What the state function of `s.st` logs before it waits. -/
def entry (s : CState) : List Eff :=
  match s.st with
  | .discovering => [.send .discover none none]
  | .selecting => [.send .selecting (lastYiaddr s) (lastSid s)]
  | .arpCheck => [.arpProbe (lastYiaddr s)]
  | .ifconfig => match s.pending with
    | some f => [.pre f, .setIface f]
    | none => []
  | .bound => []
  | .renewing => [.send .renewing (lastYiaddr s) (lastSid s)]
  | .rebinding => [.send .rebinding (lastYiaddr s) none]

/-- What holds of every model state a fitting script reaches. -/
structure SInv (route : Bool) (s : CState) : Prop where
  ok : ∀ m o, s.last = some (m, o) → o.routers ≠ [] ∧ o.interfaceMTU < 65536
  arp : s.st = .arpCheck → ∃ m o, s.last = some (m, o)
  ifc : s.st = .ifconfig → ∃ m o nc, s.last = some (m, o) ∧ buildNetconfig m o = some nc ∧
          s.pending = some (filterNetconfig route nc)

theorem ipOf_lm (s : CState) : ipOf (lmOf s).YourIP = lastYiaddr s := by
  obtain ⟨st, last, pending⟩ := s
  cases last with
  | none => rfl
  | some p => exact ipOf_optIpToGen p.1.yiaddr

theorem ipOf_lo (s : CState) : ipOf (loOf s).ServerIdentifier = lastSid s := by
  obtain ⟨st, last, pending⟩ := s
  cases last with
  | none => rfl
  | some p => exact ipOf_optIpToGen p.2.serverIdentifier

theorem ifcOf_filter (route : Bool) (c : Gen.libif.Ifconfig) :
    ifcOf (filterGen route c) = filterNetconfig route (ifcOf c) := by
  cases route <;> rfl

theorem build_some (m : Msg) (o : DecodedOptions) (h : o.routers ≠ []) : ∃ nc, buildNetconfig m o = some nc := by
  unfold buildNetconfig
  cases hr : o.routers with
  | nil => exact absurd hr h
  | cons a l => exact ⟨_, rfl⟩

/-- In state ifconfig the translated `buildNetconfig` succeeds with the model's configuration. -/
theorem build_state (mac : Bytes) (m : Msg) (o : DecodedOptions) (p : Option Ifconfig) (nc : Ifconfig) (bd) (k : Int)
    (hmtu : o.interfaceMTU < 65536) (hnc : buildNetconfig m o = some nc) :
    ∃ c, Gen.dclient.dclient_buildNetconfig (D (ifc0 mac) k (lmOf ⟨.ifconfig, some (m, o), p⟩) (loOf ⟨.ifconfig, some (m, o), p⟩) bd) = .ok c ∧
      ifcOf c = nc := by
  have h := buildNetconfig_eq (D (ifc0 mac) k (msgToGen m) (doptsToGen o) bd) m o rfl rfl hmtu
  rw [hnc] at h
  obtain ⟨c, hc, he, _⟩ := h
  exact ⟨c, hc, he⟩

theorem mcont_log {route : Bool} {o i f : Nat} {dx dx' : Gen.dclient.dclient} {r : List CEv} {l l' : List Eff} {t : Int}
    (hd : dx = dx') (hl : l = l') : mcont route o i f dx (W r l t) = mcont route o i f dx' (W r l' t) := by
  subst hd hl; rfl

/-- One model transition is simulated: the invariant is kept, the model's (normalised) effects are `P` followed by the
entry effects of the new state, and the code gets from "about to log the entry effects of `s`" to "about to log the
entry effects of the new state", having logged the entry effects of `s` and `P`, using at most two iterations (or a
fresh `Run`, after a link-up). -/
def StepOK (mac : Bytes) (route : Bool) (i o f : Nat) (t : Int) (bd : Gen.dclient.boundDeadlines) (s : CState) (e : CEv) : Prop :=
  SInv route (cstep mac route s e).1 ∧
  ∃ P, normTrace (cstep mac route s e).2 = P ++ entry (cstep mac route s e).1 ∧
  ∃ bd' f' o', (f ≤ f' ∨ i ≤ f') ∧ o ≤ o' ∧ ∀ r L,
    mcont route (o + 1) (i + 2) (f + 2) (dxOf mac s bd) (W (e :: r) L t) =
      mcont route o' (i + 2) f' (dxOf mac (cstep mac route s e).1 bd') (W r (L ++ entry s ++ P) t)

section
variable {mac : Bytes} {route : Bool} {i o f : Nat} {t : Int} {bd : Gen.dclient.boundDeadlines}

theorem step_discovering (last pending) (e : CEv) (hinv : SInv route ⟨.discovering, last, pending⟩)
    (hfit : EvFits .discovering e) : StepOK mac route i o f t bd ⟨.discovering, last, pending⟩ e := by
  cases e with
  | accepted m o' =>
    refine ⟨⟨?_, ?_, ?_⟩, [], rfl, bd, f + 1, o + 1, Or.inl (by omega), by omega, fun r L => ?_⟩
    · intro m1 o1 h; cases h; exact ⟨hfit.2.1, hfit.2.2.1⟩
    · intro h; cases h
    · intro h; cases h
    · exact it_d_acc.trans (mcont_log rfl (by simp [entry]))
  | nack =>
    refine ⟨hinv, [], rfl, bd, f + 1, o + 1, Or.inl (by omega), by omega, fun r L => ?_⟩
    exact it_d_nack.trans (mcont_log rfl (by simp [entry]))
  | deadline =>
    refine ⟨hinv, [], rfl, bd, f + 1, o + 1, Or.inl (by omega), by omega, fun r L => ?_⟩
    exact it_d_dl.trans (mcont_log rfl (by simp [entry]))
  | linkUp =>
    refine ⟨⟨hinv.ok, ?_, ?_⟩, [.preNil, .unconfigure, .up, .postNil], rfl, bd, i + 1, o, Or.inr (by omega), by omega, fun r L => ?_⟩
    · intro h; cases h
    · intro h; cases h
    · exact it_d_link.trans (it_purge.trans (mcont_log rfl (by simp [entry])))
  | arp a => exact absurd hfit (by simp [EvFits])
  | ifaceResult b => exact absurd hfit (by simp [EvFits])
  | t1 => exact absurd hfit (by simp [EvFits])
theorem step_selecting (last pending) (e : CEv) (hinv : SInv route ⟨.selecting, last, pending⟩)
    (hfit : EvFits .selecting e) : StepOK mac route i o f t bd ⟨.selecting, last, pending⟩ e := by
  cases e with
  | accepted m o' =>
    refine ⟨⟨?_, ?_, ?_⟩, [], rfl, bd, f + 1, o + 1, Or.inl (by omega), by omega, fun r L => ?_⟩
    · intro m1 o1 h; cases h; exact ⟨hfit.2.1, hfit.2.2.1⟩
    · intro _; exact ⟨_, _, rfl⟩
    · intro h; cases h
    · exact it_s_acc.trans (mcont_log rfl (by simp [entry, ipOf_lm, ipOf_lo]))
  | nack =>
    refine ⟨⟨hinv.ok, ?_, ?_⟩, [], rfl, bd, f + 1, o + 1, Or.inl (by omega), by omega, fun r L => ?_⟩
    · intro h; cases h
    · intro h; cases h
    · exact it_s_nack.trans (mcont_log rfl (by simp [entry, ipOf_lm, ipOf_lo]))
  | deadline =>
    refine ⟨⟨hinv.ok, ?_, ?_⟩, [], rfl, bd, f + 1, o + 1, Or.inl (by omega), by omega, fun r L => ?_⟩
    · intro h; cases h
    · intro h; cases h
    · exact it_s_dl.trans (mcont_log rfl (by simp [entry, ipOf_lm, ipOf_lo]))
  | linkUp =>
    refine ⟨⟨hinv.ok, ?_, ?_⟩, [.preNil, .unconfigure, .up, .postNil], rfl, bd, i + 1, o, Or.inr (by omega), by omega, fun r L => ?_⟩
    · intro h; cases h
    · intro h; cases h
    · exact it_s_link.trans (it_purge.trans (mcont_log rfl (by simp [entry, ipOf_lm, ipOf_lo])))
  | arp a => exact absurd hfit (by simp [EvFits])
  | ifaceResult b => exact absurd hfit (by simp [EvFits])
  | t1 => exact absurd hfit (by simp [EvFits])

theorem step_renewing (last pending) (e : CEv) (hinv : SInv route ⟨.renewing, last, pending⟩)
    (hfit : EvFits .renewing e) : StepOK mac route i o f t bd ⟨.renewing, last, pending⟩ e := by
  cases e with
  | accepted m o' =>
    refine ⟨⟨?_, ?_, ?_⟩, [], rfl, bd, f + 1, o + 1, Or.inl (by omega), by omega, fun r L => ?_⟩
    · intro m1 o1 h; cases h; exact ⟨hfit.2.1, hfit.2.2.1⟩
    · intro _; exact ⟨_, _, rfl⟩
    · intro h; cases h
    · exact it_r_acc.trans (mcont_log rfl (by simp [entry, ipOf_lm, ipOf_lo]))
  | nack =>
    refine ⟨⟨hinv.ok, ?_, ?_⟩, [.preNil, .unconfigure, .up, .postNil], rfl, bd, f, o + 1, Or.inl (by omega), by omega, fun r L => ?_⟩
    · intro h; cases h
    · intro h; cases h
    · exact it_r_nack.trans (it_purge.trans (mcont_log rfl (by simp [entry, ipOf_lm, ipOf_lo])))
  | deadline =>
    refine ⟨⟨hinv.ok, ?_, ?_⟩, [], rfl, bd, f + 1, o + 1, Or.inl (by omega), by omega, fun r L => ?_⟩
    · intro h; cases h
    · intro h; cases h
    · exact it_r_dl.trans (mcont_log rfl (by simp [entry, ipOf_lm, ipOf_lo]))
  | linkUp =>
    refine ⟨⟨hinv.ok, ?_, ?_⟩, [], rfl, r5 t, i + 2, o, Or.inr (by omega), by omega, fun r L => ?_⟩
    · intro h; cases h
    · intro h; cases h
    · exact it_r_link.trans (mcont_log rfl (by simp [entry, ipOf_lm, ipOf_lo]))
  | arp a => exact absurd hfit (by simp [EvFits])
  | ifaceResult b => exact absurd hfit (by simp [EvFits])
  | t1 => exact absurd hfit (by simp [EvFits])

theorem step_rebinding (last pending) (e : CEv) (hinv : SInv route ⟨.rebinding, last, pending⟩)
    (hfit : EvFits .rebinding e) : StepOK mac route i o f t bd ⟨.rebinding, last, pending⟩ e := by
  cases e with
  | accepted m o' =>
    refine ⟨⟨?_, ?_, ?_⟩, [], rfl, bd, f + 1, o + 1, Or.inl (by omega), by omega, fun r L => ?_⟩
    · intro m1 o1 h; cases h; exact ⟨hfit.2.1, hfit.2.2.1⟩
    · intro _; exact ⟨_, _, rfl⟩
    · intro h; cases h
    · exact it_e_acc.trans (mcont_log rfl (by simp [entry, ipOf_lm]))
  | nack =>
    refine ⟨⟨hinv.ok, ?_, ?_⟩, [.preNil, .unconfigure, .up, .postNil], rfl, bd, f, o + 1, Or.inl (by omega), by omega, fun r L => ?_⟩
    · intro h; cases h
    · intro h; cases h
    · exact it_e_nack.trans (it_purge.trans (mcont_log rfl (by simp [entry, ipOf_lm])))
  | deadline =>
    refine ⟨⟨hinv.ok, ?_, ?_⟩, [.preNil, .unconfigure, .up, .postNil], rfl, bd, f, o + 1, Or.inl (by omega), by omega, fun r L => ?_⟩
    · intro h; cases h
    · intro h; cases h
    · exact it_e_dl.trans (it_purge.trans (mcont_log rfl (by simp [entry, ipOf_lm])))
  | linkUp =>
    refine ⟨⟨hinv.ok, ?_, ?_⟩, [.preNil, .unconfigure, .up, .postNil], rfl, bd, i + 1, o, Or.inr (by omega), by omega, fun r L => ?_⟩
    · intro h; cases h
    · intro h; cases h
    · exact it_e_link.trans (it_purge.trans (mcont_log rfl (by simp [entry, ipOf_lm])))
  | arp a => exact absurd hfit (by simp [EvFits])
  | ifaceResult b => exact absurd hfit (by simp [EvFits])
  | t1 => exact absurd hfit (by simp [EvFits])

theorem step_bound (last pending) (e : CEv) (hinv : SInv route ⟨.bound, last, pending⟩)
    (hfit : EvFits .bound e) : StepOK mac route i o f t bd ⟨.bound, last, pending⟩ e := by
  cases e with
  | t1 =>
    refine ⟨⟨hinv.ok, ?_, ?_⟩, [], rfl, bdOf t (loOf ⟨.bound, last, pending⟩), f + 1, o + 1, Or.inl (by omega), by omega, fun r L => ?_⟩
    · intro h; cases h
    · intro h; cases h
    · exact it_b_t1.trans (mcont_log rfl (by simp [entry]))
  | linkUp =>
    refine ⟨⟨hinv.ok, ?_, ?_⟩, [], rfl, r5 t, i + 2, o, Or.inr (by omega), by omega, fun r L => ?_⟩
    · intro h; cases h
    · intro h; cases h
    · exact it_b_link.trans (mcont_log rfl (by simp [entry]))
  | accepted m o' => exact absurd hfit.1 (by simp)
  | nack => exact absurd hfit (by simp [EvFits])
  | deadline => exact absurd hfit (by simp [EvFits])
  | arp a => exact absurd hfit (by simp [EvFits])
  | ifaceResult b => exact absurd hfit (by simp [EvFits])
theorem step_arpCheck (last pending) (e : CEv) (hinv : SInv route ⟨.arpCheck, last, pending⟩)
    (hfit : EvFits .arpCheck e) : StepOK mac route i o f t bd ⟨.arpCheck, last, pending⟩ e := by
  obtain ⟨m, o1, hlast⟩ := hinv.arp rfl
  simp only at hlast
  subst hlast
  obtain ⟨nc, hnc⟩ := build_some m o1 (hinv.ok m o1 rfl).1
  have hent : enterIfconfig route ⟨.arpCheck, some (m, o1), pending⟩ =
      (⟨.ifconfig, some (m, o1), some (filterNetconfig route nc)⟩,
        [.pre (filterNetconfig route nc), .setIface (filterNetconfig route nc)]) := by
    simp only [enterIfconfig, hnc]
  have hinv' : SInv route ⟨.ifconfig, some (m, o1), some (filterNetconfig route nc)⟩ :=
    ⟨hinv.ok, fun h => (by cases h), fun _ => ⟨m, o1, nc, rfl, hnc, rfl⟩⟩
  cases e with
  | arp a =>
    cases a with
    | none =>
      have hc : cstep mac route ⟨.arpCheck, some (m, o1), pending⟩ (.arp none) =
          (⟨.ifconfig, some (m, o1), some (filterNetconfig route nc)⟩,
            [.pre (filterNetconfig route nc), .setIface (filterNetconfig route nc)]) := hent
      unfold StepOK
      rw [hc]
      refine ⟨hinv', [], rfl, bd, f + 1, o + 1, Or.inl (by omega), by omega, fun r L => ?_⟩
      exact it_a_none.trans (mcont_log rfl (by simp [entry, ipOf_lm]))
    | some who =>
      by_cases hw : who = mac
      · have hc : cstep mac route ⟨.arpCheck, some (m, o1), pending⟩ (.arp (some who)) =
          (⟨.ifconfig, some (m, o1), some (filterNetconfig route nc)⟩,
            [.pre (filterNetconfig route nc), .setIface (filterNetconfig route nc)]) := by
          simp only [cstep, hw, ne_eq, not_true_eq_false, if_false]
          exact hent
        unfold StepOK
        rw [hc]
        refine ⟨hinv', [], rfl, bd, f + 1, o + 1, Or.inl (by omega), by omega, fun r L => ?_⟩
        exact (it_a_self hw).trans (mcont_log rfl (by simp [entry, ipOf_lm]))
      · have hc : cstep mac route ⟨.arpCheck, some (m, o1), pending⟩ (.arp (some who)) =
            (⟨.discovering, some (m, o1), none⟩, [.panicUnconfigure, .wait30] ++ purgeEffs) := by
          simp only [cstep, ne_eq, hw, not_false_eq_true, if_true, toPurge]
        unfold StepOK
        rw [hc]
        refine ⟨⟨hinv.ok, ?_, ?_⟩, [.unconfigure, .wait30, .preNil, .unconfigure, .up, .postNil], rfl, bd, f, o + 1,
          Or.inl (by omega), by omega, fun r L => ?_⟩
        · intro h; cases h
        · intro h; cases h
        · exact (it_a_other hw).trans (it_purge.trans (mcont_log rfl (by simp [entry, ipOf_lm])))
  | linkUp =>
    refine ⟨⟨hinv.ok, ?_, ?_⟩, [.preNil, .unconfigure, .up, .postNil], rfl, bd, i + 1, o, Or.inr (by omega), by omega, fun r L => ?_⟩
    · intro h; cases h
    · intro h; cases h
    · exact it_a_link.trans (it_purge.trans (mcont_log rfl (by simp [entry, ipOf_lm])))
  | accepted m o' => exact absurd hfit.1 (by simp)
  | nack => exact absurd hfit (by simp [EvFits])
  | deadline => exact absurd hfit (by simp [EvFits])
  | ifaceResult b => exact absurd hfit (by simp [EvFits])
  | t1 => exact absurd hfit (by simp [EvFits])

theorem step_ifconfig (last pending) (e : CEv) (hinv : SInv route ⟨.ifconfig, last, pending⟩)
    (hfit : EvFits .ifconfig e) : StepOK mac route i o f t bd ⟨.ifconfig, last, pending⟩ e := by
  obtain ⟨m, o1, nc, hlast, hnc, hpend⟩ := hinv.ifc rfl
  simp only at hlast hpend
  subst hlast hpend
  obtain ⟨c, hb, hcn⟩ := build_state mac m o1 (some (filterNetconfig route nc)) nc bd 5 (hinv.ok m o1 rfl).2 hnc
  have hf : ifcOf (filterGen route c) = filterNetconfig route nc := by rw [ifcOf_filter, hcn]
  cases e with
  | ifaceResult b =>
    cases b with
    | true =>
      refine ⟨⟨hinv.ok, ?_, ?_⟩, [.post (filterNetconfig route nc)], rfl, bd, f + 1, o + 1, Or.inl (by omega), by omega,
        fun r L => ?_⟩
      · intro h; cases h
      · intro h; cases h
      · exact (it_i_true hb).trans (mcont_log rfl (by simp [entry, hf]))
    | false =>
      refine ⟨⟨hinv.ok, ?_, ?_⟩, [.unconfigure, .wait30, .preNil, .unconfigure, .up, .postNil], rfl, bd, f, o + 1,
        Or.inl (by omega), by omega, fun r L => ?_⟩
      · intro h; cases h
      · intro h; cases h
      · exact (it_i_false hb).trans (it_purge.trans (mcont_log rfl (by simp [entry, hf])))
  | linkUp => exact absurd hfit (by simp [EvFits])
  | accepted m o' => exact absurd hfit.1 (by simp)
  | nack => exact absurd hfit (by simp [EvFits])
  | deadline => exact absurd hfit (by simp [EvFits])
  | arp a => exact absurd hfit (by simp [EvFits])
  | t1 => exact absurd hfit (by simp [EvFits])
end

theorem step (mac : Bytes) (route : Bool) (i o f : Nat) (t : Int) (bd : Gen.dclient.boundDeadlines) (s : CState) (e : CEv)
    (hinv : SInv route s) (hfit : EvFits s.st e) : StepOK mac route i o f t bd s e := by
  obtain ⟨st, last, pending⟩ := s
  cases st with
  | discovering => exact step_discovering last pending e hinv hfit
  | selecting => exact step_selecting last pending e hinv hfit
  | arpCheck => exact step_arpCheck last pending e hinv hfit
  | ifconfig => exact step_ifconfig last pending e hinv hfit
  | bound => exact step_bound last pending e hinv hfit
  | renewing => exact step_renewing last pending e hinv hfit
  | rebinding => exact step_rebinding last pending e hinv hfit

/-- The script is over: the state function in progress logs its entry effects, the wait finds no event, the world
cancels both contexts, `Run` returns and `mclient.Run`'s loop ends. -/
theorem final (mac : Bytes) (route : Bool) (i o f : Nat) (t : Int) (bd : Gen.dclient.boundDeadlines) (s : CState) (L : List Eff)
    (hinv : SInv route s) :
    ∃ dx' w', mcont route o i (f + 1) (dxOf mac s bd) (W [] L t) = .ok (dx', w') ∧ (L ++ entry s) <+: w'.log := by
  obtain ⟨st, last, pending⟩ := s
  cases st with
  | discovering =>
    obtain ⟨dx', w', h, hl⟩ := it_d_end (route := route) (o := o) (i := i) (f := f) (ifc := ifc0 mac)
      (lm := lmOf ⟨.discovering, last, pending⟩) (lo := loOf ⟨.discovering, last, pending⟩) (bd := bd) (L := L) (t := t)
    exact ⟨dx', w', h, by rw [hl]; simp [entry]⟩
  | selecting =>
    obtain ⟨dx', w', h, hl⟩ := it_s_end (route := route) (o := o) (i := i) (f := f) (ifc := ifc0 mac)
      (lm := lmOf ⟨.selecting, last, pending⟩) (lo := loOf ⟨.selecting, last, pending⟩) (bd := bd) (L := L) (t := t)
    exact ⟨dx', w', h, by rw [hl]; simp [entry, ipOf_lm, ipOf_lo]⟩
  | arpCheck =>
    obtain ⟨dx', w', h, hl⟩ := it_a_end (route := route) (o := o) (i := i) (f := f) (ifc := ifc0 mac)
      (lm := lmOf ⟨.arpCheck, last, pending⟩) (lo := loOf ⟨.arpCheck, last, pending⟩) (bd := bd) (L := L) (t := t)
    exact ⟨dx', w', h, by rw [hl]; simp [entry, ipOf_lm]⟩
  | ifconfig =>
    obtain ⟨m, o1, nc, hlast, hnc, hpend⟩ := hinv.ifc rfl
    simp only at hlast hpend
    subst hlast hpend
    obtain ⟨c, hb, hcn⟩ := build_state mac m o1 (some (filterNetconfig route nc)) nc bd 5 (hinv.ok m o1 rfl).2 hnc
    have hf : ifcOf (filterGen route c) = filterNetconfig route nc := by rw [ifcOf_filter, hcn]
    obtain ⟨dx', w', h, hl⟩ := it_i_end (route := route) (o := o) (i := i) (f := f) (L := L) (t := t) hb
    refine ⟨dx', w', h, ?_⟩
    rw [hl, hf]
    exact ⟨[.post (filterNetconfig route nc)], by simp [entry]⟩
  | bound =>
    obtain ⟨dx', w', h, hl⟩ := it_b_end (route := route) (o := o) (i := i) (f := f) (ifc := ifc0 mac)
      (lm := lmOf ⟨.bound, last, pending⟩) (lo := loOf ⟨.bound, last, pending⟩) (bd := bd) (L := L) (t := t)
    exact ⟨dx', w', h, by rw [hl]; simp [entry]⟩
  | renewing =>
    obtain ⟨dx', w', h, hl⟩ := it_r_end (route := route) (o := o) (i := i) (f := f) (ifc := ifc0 mac)
      (lm := lmOf ⟨.renewing, last, pending⟩) (lo := loOf ⟨.renewing, last, pending⟩) (bd := bd) (L := L) (t := t)
    exact ⟨dx', w', h, by rw [hl]; simp [entry, ipOf_lm, ipOf_lo]⟩
  | rebinding =>
    obtain ⟨dx', w', h, hl⟩ := it_e_end (route := route) (o := o) (i := i) (f := f) (ifc := ifc0 mac)
      (lm := lmOf ⟨.rebinding, last, pending⟩) (lo := loOf ⟨.rebinding, last, pending⟩) (bd := bd) (L := L) (t := t)
    exact ⟨dx', w', h, by rw [hl]; simp [entry, ipOf_lm]⟩

theorem normTrace_append (a b : List Eff) : normTrace (a ++ b) = normTrace a ++ normTrace b := by
  simp [normTrace]

/-- The simulation, from any point where the code is about to run the state function of the model state. -/
theorem sim (mac : Bytes) (route : Bool) (inner : Nat) (t : Int) :
    ∀ (evs : List CEv) (s : CState) (bd : Gen.dclient.boundDeadlines) (L : List Eff) (fuel outer : Nat),
      SInv route s → ScriptFits mac route s evs → 2 * evs.length + 1 ≤ fuel → 2 * evs.length + 2 ≤ inner →
      evs.length ≤ outer →
      ∃ dx' w', mcont route outer inner fuel (dxOf mac s bd) (W evs L t) = .ok (dx', w') ∧
        (L ++ entry s ++ normTrace (crun mac route s evs).2) <+: w'.log := by
  intro evs
  induction evs with
  | nil =>
    intro s bd L fuel outer hinv _ hf _ _
    obtain ⟨f, rfl⟩ : ∃ f, fuel = f + 1 := ⟨fuel - 1, by omega⟩
    obtain ⟨dx', w', h, hp⟩ := final mac route inner outer f t bd s L hinv
    exact ⟨dx', w', h, by simpa [crun, normTrace] using hp⟩
  | cons e rest ih =>
    intro s bd L fuel outer hinv hfit hf hi ho
    simp only [List.length_cons] at hf hi ho
    obtain ⟨f, rfl⟩ : ∃ f, fuel = f + 2 := ⟨fuel - 2, by omega⟩
    obtain ⟨i, rfl⟩ : ∃ i, inner = i + 2 := ⟨inner - 2, by omega⟩
    obtain ⟨o, rfl⟩ : ∃ o, outer = o + 1 := ⟨outer - 1, by omega⟩
    obtain ⟨hinv', P, hP, bd', f', o', hf', ho', hrun⟩ := step mac route i o f t bd s e hinv hfit.1
    obtain ⟨dx', w', h, hp⟩ := ih (cstep mac route s e).1 bd' (L ++ entry s ++ P) f' o' hinv' hfit.2
      (by omega) (by omega) (by omega)
    refine ⟨dx', w', by rw [hrun]; exact h, ?_⟩
    have : L ++ entry s ++ normTrace (crun mac route s (e :: rest)).2 =
        L ++ entry s ++ P ++ entry (cstep mac route s e).1 ++ normTrace (crun mac route (cstep mac route s e).1 rest).2 := by
      simp only [crun, normTrace_append, hP, List.append_assoc]
    rw [this]
    exact hp

theorem client_trace (mac : Bytes) (route : Bool) (evs : List CEv) (t : Int) (n : Nat)
    (hf : ScriptFits mac route cinit.1 evs) (hn : 2 * evs.length + 4 ≤ n) :
    ∃ dx w, (mrun route n n (dx0 mac)).run { evs := evs, log := [], cancelled := false, now := t } = .ok (dx, w) ∧
      normTrace (cinit.2 ++ (crun mac route cinit.1 evs).2) <+: w.log := by
  obtain ⟨k, rfl⟩ : ∃ k, n = k + 2 := ⟨n - 2, by omega⟩
  have hinv : SInv route cinit.1 := ⟨fun m o h => (by cases h), fun h => (by cases h), fun h => (by cases h)⟩
  obtain ⟨dx', w', h, hp⟩ := sim mac route (k + 2) t evs cinit.1 Gen.dclient.boundDeadlines.zero
    ([] ++ [.preNil] ++ [.unconfigure] ++ [.up] ++ [.postNil]) (k + 1) (k + 1) hinv hf (by omega) (by omega) (by omega)
  refine ⟨dx', w', ?_, ?_⟩
  · have h1 : (mrun route (k + 2) (k + 2) (dx0 mac)).run (W evs [] t) =
        mcont route (k + 1) (k + 2) (k + 1) (dxOf mac cinit.1 Gen.dclient.boundDeadlines.zero)
          (W evs ([] ++ [.preNil] ++ [.unconfigure] ++ [.up] ++ [.postNil]) t) :=
      it_purge (route := route) (o := k + 1) (i := k + 2) (f := k + 1) (ifc := ifc0 mac)
    exact h1.trans h
  · have : normTrace (cinit.2 ++ (crun mac route cinit.1 evs).2) =
        [] ++ [.preNil] ++ [.unconfigure] ++ [.up] ++ [.postNil] ++ entry cinit.1 ++ normTrace (crun mac route cinit.1 evs).2 := by
      rw [normTrace_append]; rfl
    rw [this]
    exact hp

end PsaDhcp.Proofs.CodeClientAuto
