import PsaDhcp.Code.Bridge13
import PsaDhcp.Proofs.CodeServer
import PsaDhcp.Proofs.CodeIpdbOps
import PsaDhcp.Proofs.CodeStackHandlers
/-
Vertical composition: translated handlers over the translated lease database = model `handle` (statement fixed in Props/C01CodeStack.lean).

Layout.  `srvEnvGen S c o` is, field by field and on EVERY state, the abstract handler environment `gEnv (gOps S) c o
feGen` (CodeStackHandlers.lean): `gOps S` are the model's database steps run on the database with its range fields
reduced mod 2³² (what `ixToGen` hands to the translated methods), the store put back into the original record (what
`onDb` does); `feGen` are the error texts of ipdb.go / clients.go.  So `ghandleMsg_run` applies with no invariant
to carry through the monadic code.  On a database with 32-bit range fields (`DbBounded`, preserved by every step
because no step touches the range fields) `gOps S` and `Ops.of S` agree, which is a statement about pure functions
(`aHandle_congr`).
-/
set_option linter.unusedSimpArgs false
set_option linter.unusedVariables false
namespace PsaDhcp.Proofs.CodeStack
open PsaDhcp PsaDhcp.Go PsaDhcp.Code PsaDhcp.Proofs PsaDhcp.Proofs.CodeServer

/-! ### error values -/

/-- The error texts of the lease database by error class. -/
def feGen : DbErr → String := fun e => (dbErrToGen e).getD ""

/-- A result whose error, if any, has a (non-nil) Go error value: everything except `.error (.store .ok)`. -/
def Good {α : Type} (r : Except DbErr α) : Prop := ∀ e, r = .error e → dbErrToGen e ≠ none

theorem good_ok {α : Type} (a : α) : Good (.ok a : Except DbErr α) := by intro e h; cases h

theorem good_err {α : Type} (e : DbErr) (h : dbErrToGen e ≠ none) : Good (.error e : Except DbErr α) := by
  intro e' h'; cases h'; exact h

theorem good_store {α : Type} (r : Clients.Res) (h : r ≠ .ok) : Good (.error (.store r) : Except DbErr α) :=
  good_err _ (fun hn => h ((CodeIpdbOps.resToGen_eq_none r).1 hn))

theorem dbErr_fe (e : DbErr) (h : dbErrToGen e ≠ none) : dbErrToGen e = some (feGen e) := by
  unfold feGen
  cases hd : dbErrToGen e with
  | none => exact absurd hd h
  | some s => rfl

theorem addrRes_eq (r : Except DbErr Nat) (h : Good r) : addrResToGen r = gIpRes feGen r := by
  cases r with
  | ok a => rfl
  | error e => simp only [addrResToGen, gIpRes, dbErr_fe e (h e rfl)]

theorem unitRes_eq (r : Except DbErr Unit) (h : Good r) : unitResToGen' r = gUnitRes feGen r := by
  cases r with
  | ok a => rfl
  | error e => simp only [unitResToGen', gUnitRes, dbErr_fe e (h e rfl)]

/-! ### the model's database steps: range fields untouched, errors have Go values -/

/-- `db'` has the range fields of `db`. -/
def SameRanges {σ : Type} (db db' : IPDB σ) : Prop :=
  db'.netFrom = db.netFrom ∧ db'.netTo = db.netTo ∧ db'.dynFrom = db.dynFrom ∧ db'.dynTo = db.dynTo

theorem SameRanges.put {σ : Type} {db db' : IPDB σ} (h : SameRanges db db') : { db with s := db'.s } = db' := by
  obtain ⟨a, b, c, d, s⟩ := db
  obtain ⟨a', b', c', d', s'⟩ := db'
  obtain ⟨h1, h2, h3, h4⟩ := h
  simp only at h1 h2 h3 h4
  subst h1 h2 h3 h4
  rfl

theorem SameRanges.bounded {σ : Type} {db db' : IPDB σ} (h : SameRanges db db') (hb : DbBounded db) : DbBounded db' := by
  obtain ⟨h1, h2, h3, h4⟩ := h
  unfold DbBounded
  rw [h1, h2, h3, h4]
  exact hb

section model
variable {σ : Type} (S : Store σ) (db : IPDB σ)

theorem toUip_good (ip : Option Ip4) : Good (db.toUip ip) := by
  rcases CodeIpdbOps.toUip_cases db ip with ⟨e, msg, h, -, he⟩ | ⟨n, h, -⟩
  · rw [h]; exact good_err _ (by rw [he]; simp)
  · rw [h]; exact good_ok _

theorem lookup_same (t : Int) (d : Duid) : SameRanges db (db.lookupByDuid S t d).1 := ⟨rfl, rfl, rfl, rfl⟩

theorem lookup_good (t : Int) (d : Duid) : Good (db.lookupByDuid S t d).2 := by
  unfold IPDB.lookupByDuid
  simp only
  split
  · exact good_ok _
  · exact good_err _ (by simp [dbErrToGen])

theorem find_same (t : Int) (sugg : Option Ip4) (d : Duid) (perm : List Nat) (orc : Nat → IPDB.Iter) :
    SameRanges db (db.findIP S t sugg d perm orc).1 := by
  unfold IPDB.findIP
  simp only
  split
  · exact ⟨rfl, rfl, rfl, rfl⟩
  · split <;> exact ⟨rfl, rfl, rfl, rfl⟩

theorem find_good (t : Int) (sugg : Option Ip4) (d : Duid) (perm : List Nat) (orc : Nat → IPDB.Iter) :
    Good (db.findIP S t sugg d perm orc).2 := by
  unfold IPDB.findIP
  simp only
  split
  · exact good_ok _
  · split
    · exact good_err _ (by simp [dbErrToGen])
    · simp only
      split
      · exact good_ok _
      · exact good_err _ (by simp [dbErrToGen])

theorem update_same (t : Int) (ip : Option Ip4) (d : Duid) (ttl : Int) :
    SameRanges db (db.updateClient S t ip d ttl).1 := by
  unfold IPDB.updateClient
  split
  · exact ⟨rfl, rfl, rfl, rfl⟩
  · simp only
    repeat' split
    all_goals exact ⟨rfl, rfl, rfl, rfl⟩

theorem update_good (t : Int) (ip : Option Ip4) (d : Duid) (ttl : Int) :
    Good (db.updateClient S t ip d ttl).2 := by
  have hu := toUip_good db ip
  unfold IPDB.updateClient
  split
  · rename_i x hx
    rw [hx] at hu
    intro e h
    cases h
    exact hu _ rfl
  · simp only
    repeat' split
    all_goals first
      | exact good_ok _
      | exact good_store _ (by assumption)

end model

/-! ### what `ixToGen` / `onDb` do to a database -/

/-- The database the translated methods see: range fields as `uint32`. -/
def nrm {σ : Type} (db : IPDB σ) : IPDB σ :=
  { db with netFrom := db.netFrom % 4294967296, netTo := db.netTo % 4294967296,
            dynFrom := db.dynFrom % 4294967296, dynTo := db.dynTo % 4294967296 }

theorem ix_nrm {σ : Type} (db : IPDB σ) : IxOf (ixToGen db) (nrm db) := by
  unfold IxOf ixToGen nrm
  simp [UInt32.toNat_ofNat']

theorem nrm_bounded {σ : Type} (db : IPDB σ) (h : DbBounded db) : nrm db = db := by
  obtain ⟨h1, h2, h3, h4⟩ := h
  obtain ⟨a, b, c, d, s⟩ := db
  simp only at h1 h2 h3 h4
  simp only [nrm, Nat.mod_eq_of_lt h1, Nat.mod_eq_of_lt h2, Nat.mod_eq_of_lt h3, Nat.mod_eq_of_lt h4]

theorem onDb_ok {σ α : Type} (db : IPDB σ) (m : StateT (DState σ) R α) (a : α) (ds : DState σ)
    (h : m.run { s := db.s, nows := 0, ctxs := 0 } = .ok (a, ds)) : onDb db m = .ok (a, { db with s := ds.s }) := by
  unfold onDb
  rw [h]

/-- The model's database steps as `srvEnvGen` runs them. -/
def gOps {σ : Type} (S : Store σ) : Ops σ where
  lookup := fun db t d =>
    ({ db with s := ((nrm db).lookupByDuid S t d).1.s }, ((nrm db).lookupByDuid S t d).2)
  find := fun db t sugg d perm iters =>
    ({ db with s := ((nrm db).findIP S t sugg d perm iters).1.s }, ((nrm db).findIP S t sugg d perm iters).2)
  update := fun db t ip d ttl =>
    ({ db with s := ((nrm db).updateClient S t ip d ttl).1.s }, ((nrm db).updateClient S t ip d ttl).2)
  inRange := fun db ip => (nrm db).inManagedRange ip

section fields
variable {σ : Type} (S : Store σ) (hS : StoreWf S) (c : SrvCfg) (o : HOracle)
include hS

omit hS in
theorem gen_lookup (duid : Bytes) (st : HState σ) :
    (srvEnvGen S c o).LookupClientByDuid duid st = (gEnv (gOps S) c o feGen).LookupClientByDuid duid st := by
  have h := CodeIpdbOps.LookupClientByDuid_eq S (fun _ => if st.lookups = 0 then o.t0 else o.t1) (fun _ => false)
    (ixToGen st.db) (nrm st.db) duid 0 0 (ix_nrm st.db)
  have h' := onDb_ok st.db _ _ _ h
  simp only [srvEnvGen, h', addrRes_eq _ (lookup_good S _ _ _)]
  rfl

theorem gen_find (mac sugg duid : Bytes) (st : HState σ) :
    (srvEnvGen S c o).FindIP mac sugg duid st = (gEnv (gOps S) c o feGen).FindIP mac sugg duid st := by
  obtain ⟨ds, h, hs⟩ := CodeIpdbOps.FindIP_eq S hS (ixToGen st.db) (nrm st.db) sugg duid o.perm o.iters o.t1 (ix_nrm st.db)
  have h' := onDb_ok st.db _ _ _ h
  simp only [srvEnvGen, h', addrRes_eq _ (find_good S _ _ _ _ _ _), hs]
  rfl

theorem gen_update (ip duid : Bytes) (ttl : Int) (st : HState σ) :
    (srvEnvGen S c o).UpdateClient ip duid ttl st = (gEnv (gOps S) c o feGen).UpdateClient ip duid ttl st := by
  obtain ⟨k', h⟩ := CodeIpdbOps.UpdateClient_eq S hS (fun _ => o.t2) (fun _ => false) (ixToGen st.db) (nrm st.db) ip duid
    ttl 0 0 (ix_nrm st.db)
  have h' := onDb_ok st.db _ _ _ h
  simp only [srvEnvGen, h', unitRes_eq _ (update_good S _ _ _ _ _)]
  rfl

omit hS in
theorem gen_inRange (ip : Bytes) (st : HState σ) :
    (srvEnvGen S c o).InManagedRange ip st = (gEnv (gOps S) c o feGen).InManagedRange ip st := by
  have h := CodeIpdb.InManagedRange_eq (ixToGen st.db) (nrm st.db) ip (ix_nrm st.db).1 (ix_nrm st.db).2.1
  simp only [srvEnvGen, h]
  rfl

/-- `srvEnvGen` is the abstract handler environment over `gOps S`, on every state. -/
theorem srvEnvGen_eq : srvEnvGen S c o = gEnv (gOps S) c o feGen := by
  have e1 : (srvEnvGen S c o).LookupClientByDuid = (gEnv (gOps S) c o feGen).LookupClientByDuid := by
    funext duid st; exact gen_lookup S c o duid st
  have e2 : (srvEnvGen S c o).FindIP = (gEnv (gOps S) c o feGen).FindIP := by
    funext mac sugg duid st; exact gen_find S hS c o mac sugg duid st
  have e3 : (srvEnvGen S c o).UpdateClient = (gEnv (gOps S) c o feGen).UpdateClient := by
    funext ip duid ttl st; exact gen_update S hS c o ip duid ttl st
  have e4 : (srvEnvGen S c o).InManagedRange = (gEnv (gOps S) c o feGen).InManagedRange := by
    funext ip st; exact gen_inRange S c o ip st
  unfold srvEnvGen gEnv at *
  simp only at e1 e2 e3 e4
  simp only [Gen.Env.mk.injEq]
  exact ⟨trivial, trivial, e2, e4, e1, trivial, trivial, e3⟩

end fields

/-! ### on 32-bit range fields `gOps S` is `Ops.of S` -/

/-- Two records of database steps that agree wherever `Inv` holds, the second keeping `Inv`. -/
structure Agree {σ : Type} (Inv : IPDB σ → Prop) (P Q : Ops σ) : Prop where
  lookup : ∀ db t d, Inv db → P.lookup db t d = Q.lookup db t d
  find : ∀ db t sugg d perm iters, Inv db → P.find db t sugg d perm iters = Q.find db t sugg d perm iters
  update : ∀ db t ip d ttl, Inv db → P.update db t ip d ttl = Q.update db t ip d ttl
  inRange : ∀ db ip, Inv db → P.inRange db ip = Q.inRange db ip
  inv_lookup : ∀ db t d, Inv db → Inv (Q.lookup db t d).1
  inv_find : ∀ db t sugg d perm iters, Inv db → Inv (Q.find db t sugg d perm iters).1

section congr
variable {σ : Type} {Inv : IPDB σ → Prop} {P Q : Ops σ} (A : Agree Inv P Q) (c : SrvCfg) (o : HOracle)
include A

theorem aGetDuid_congr (db : IPDB σ) (hdb : Inv db) (t : Int) (hw cid : Bytes) :
    aGetDuid P db t hw cid = aGetDuid Q db t hw cid ∧ Inv (aGetDuid Q db t hw cid).1 := by
  unfold aGetDuid
  simp only [A.lookup db t _ hdb]
  have hi := A.inv_lookup db t (sduid hw) hdb
  refine ⟨trivial, ?_⟩
  split
  · exact hi
  · split <;> exact hi

theorem mDiscover_congr (db : IPDB σ) (hdb : Inv db) (dst : Ip4) (duid : Duid) (m : Msg) (d : DecodedOptions) :
    mDiscover P c o db dst duid m d = mDiscover Q c o db dst duid m d := by
  unfold mDiscover
  have e1 := A.find db o.t1 d.requestedIP duid o.perm o.iters hdb
  have e2 := fun ip ttl => A.update _ o.t2 ip duid ttl (A.inv_find db o.t1 d.requestedIP duid o.perm o.iters hdb)
  simp only [e1, e2]

theorem mReqCont_congr (db : IPDB σ) (hdb : Inv db) (want : Ip4) (duid : Duid) (m : Msg) :
    mReqCont P c o db want duid m = mReqCont Q c o db want duid m := by
  unfold mReqCont
  have e0 := A.inRange db (some want) hdb
  have e1 := A.lookup db o.t1 duid hdb
  have e2 := fun ip ttl => A.update _ o.t2 ip duid ttl (A.inv_lookup db o.t1 duid hdb)
  simp only [e0, e1, e2]

theorem aHandle_congr (db : IPDB σ) (hdb : Inv db) (rx : Rx) :
    aHandle P c db rx o = aHandle Q c db rx o := by
  unfold aHandle mRequest
  obtain ⟨eg, hg⟩ := aGetDuid_congr A db hdb o.t0 rx.msg.chaddr (decodeOptions rx.msg.options).clientIdentifier
  simp only [eg, mDiscover_congr A c o _ hg, mReqCont_congr A c o _ hg]

end congr

theorem gOps_agree {σ : Type} (S : Store σ) : Agree DbBounded (gOps S) (Ops.of S) where
  lookup := by
    intro db t d h
    show (_, _) = db.lookupByDuid S t d
    rw [nrm_bounded db h, (lookup_same S db t d).put]
  find := by
    intro db t sugg d perm iters h
    show (_, _) = db.findIP S t sugg d perm iters
    rw [nrm_bounded db h, (find_same S db t sugg d perm iters).put]
  update := by
    intro db t ip d ttl h
    show (_, _) = db.updateClient S t ip d ttl
    rw [nrm_bounded db h, (update_same S db t ip d ttl).put]
  inRange := by
    intro db ip h
    show (nrm db).inManagedRange ip = db.inManagedRange ip
    rw [nrm_bounded db h]
  inv_lookup := fun db t d h => (lookup_same S db t d).bounded h
  inv_find := fun db t sugg d perm iters h => (find_same S db t sugg d perm iters).bounded h

/-! ### the statement of Props/C01CodeStack.lean -/

/-- The translated `handleMsg` over the translated lease database ends in the database and the frame of the model's
`handle`. -/
theorem stack_handleMsg {σ : Type} (S : Store σ) (hS : StoreWf S) (c : SrvCfg) (sx : Gen.server.server) (db : IPDB σ)
    (rx : Rx) (o : HOracle) (rnd : Int) (hsx : SrvOf sx c) (hm : MsgRanges rx.msg) (hb : LookupsBounded S db rx o)
    (hdb : DbBounded db) :
    ∃ st, (Gen.server.server_handleMsg (srvEnvGen S c o) sx (ipToGen rx.src) (ipToGen rx.dst) (msgToGen rx.msg) rnd).run
              { db := db, lookups := 0, sent := [] } = .ok ((), st)
      ∧ st.db = (handle S c db rx o).1 ∧ st.sent = (handle S c db rx o).2.toList := by
  have A := gOps_agree S
  rw [srvEnvGen_eq S hS, handle_abs, aHandle0_eq, ← aHandle_congr A c o db hdb rx]
  refine ghandleMsg_run (gOps S) c o feGen sx hsx db rx rnd hm ?_
  intro a ha
  unfold LookupsBounded at hb
  rw [getDuid_abs] at hb
  obtain ⟨eg, hg⟩ := aGetDuid_congr A db hdb o.t0 rx.msg.chaddr (decodeOptions rx.msg.options).clientIdentifier
  rw [eg, A.lookup _ _ _ hg] at ha
  exact hb a ha

/-! ### `handle` keeps the range fields (so `DbBounded` holds along a whole history)

Proved over abstract database steps `P` (`aHandle0`), so that nothing in the statement can be unfolded: stated directly
on `handle`, the kernel evaluates `updateClient … (some (Ip4.ofNat a)) …` with `a` a variable while checking the case
splits and runs out of stack. -/

theorem SameRanges.trans {σ : Type} {a b c : IPDB σ} (h1 : SameRanges a b) (h2 : SameRanges b c) : SameRanges a c := by
  obtain ⟨p1, p2, p3, p4⟩ := h1
  obtain ⟨q1, q2, q3, q4⟩ := h2
  exact ⟨q1.trans p1, q2.trans p2, q3.trans p3, q4.trans p4⟩

/-- Database steps that leave the range fields alone. -/
structure KeepRanges {σ : Type} (P : Ops σ) : Prop where
  lookup : ∀ db t d, SameRanges db (P.lookup db t d).1
  find : ∀ db t sugg d perm iters, SameRanges db (P.find db t sugg d perm iters).1
  update : ∀ db t ip d ttl, SameRanges db (P.update db t ip d ttl).1

theorem aGetDuid_same {σ : Type} {P : Ops σ} (K : KeepRanges P) (db : IPDB σ) (t : Int) (hw cid : Bytes) :
    SameRanges db (aGetDuid P db t hw cid).1 := by
  unfold aGetDuid
  simp only
  split
  · exact K.lookup db t _
  · split <;> exact K.lookup db t _

/-- A handler over such steps leaves the range fields alone. -/
theorem aHandle0_same {σ : Type} {P : Ops σ} (K : KeepRanges P) (c : SrvCfg) (db : IPDB σ) (rx : Rx) (o : HOracle) :
    SameRanges db (aHandle0 P c db rx o).1 := by
  have hg := aGetDuid_same K db o.t0 rx.msg.chaddr (decodeOptions rx.msg.options).clientIdentifier
  unfold aHandle0
  simp only
  generalize aGetDuid P db o.t0 rx.msg.chaddr (decodeOptions rx.msg.options).clientIdentifier = g at hg
  generalize aTodo P c g.1 rx = td
  cases td with
  | drop => exact hg
  | discover =>
    have hf := hg.trans (K.find g.1 o.t1 (decodeOptions rx.msg.options).requestedIP g.2 o.perm o.iters)
    simp only
    split
    · exact hf
    · split <;> exact hf.trans (K.update _ _ _ _ _)
  | request want =>
    have hl := hg.trans (K.lookup g.1 o.t1 g.2)
    simp only
    split
    · exact hl
    · split
      · exact hl
      · split
        · exact hl
        · split <;> exact hl.trans (K.update _ _ _ _ _)

theorem of_keep {σ : Type} (S : Store σ) : KeepRanges (Ops.of S) where
  lookup := fun db t d => lookup_same S db t d
  find := fun db t sugg d perm iters => find_same S db t sugg d perm iters
  update := fun db t ip d ttl => update_same S db t ip d ttl

/-- `handle` only ever changes the store of the database. -/
theorem handle_same {σ : Type} (S : Store σ) (c : SrvCfg) (db : IPDB σ) (rx : Rx) (o : HOracle) :
    SameRanges db (handle S c db rx o).1 := by
  rw [handle_abs]
  exact aHandle0_same (of_keep S) c db rx o

theorem handle_bounded {σ : Type} (S : Store σ) (c : SrvCfg) (db : IPDB σ) (rx : Rx) (o : HOracle) (h : DbBounded db) :
    DbBounded (handle S c db rx o).1 := (handle_same S c db rx o).bounded h

/-! ### whole sequential histories (statement fixed in Props/C01CodeStack.lean) -/

/-- The translated stack on a history of received packets ends, without a panic, in the database and the frames of the
model handling the same packets one after the other. -/
theorem stack_sequence {σ : Type} (S : Store σ) (hS : StoreWf S) (c : SrvCfg) (sx : Gen.server.server) (db : IPDB σ)
    (hist : List (Rx × HOracle × Int)) (hsx : SrvOf sx c) (hdb : DbBounded db) (hok : SeqOk S c db hist) :
    stackSeq S c sx db hist = .ok (handleSeq S c db (hist.map fun x => (x.1, x.2.1))) := by
  induction hist generalizing db with
  | nil => rfl
  | cons x rest ih =>
    obtain ⟨rx, o, rnd⟩ := x
    obtain ⟨hm, hb, hrest⟩ := hok
    obtain ⟨st, hrun, hd, hsent⟩ := stack_handleMsg S hS c sx db rx o rnd hsx hm hb hdb
    have ih' := ih (handle S c db rx o).1 (handle_bounded S c db rx o hdb) hrest
    simp only [stackSeq, hrun, hd, ih', hsent, List.map_cons, handleSeq]

end PsaDhcp.Proofs.CodeStack
