import PsaDhcp.Generated.Facts
/-
Hand-written expectations about `Generated/Facts.lean` (regenerated from /repo on every run).
Each theorem is a proof obligation tying the models to what the source says *now*: the constants
the models and the properties fix, and structural facts no input/output test can see.
Naming: `cXX_...` — the property ids the obligation belongs to (used by ./check to attribute a
failure); `all_...` belongs to every property that uses the codecs.
-/
namespace PsaDhcp.Expect
open PsaDhcp.Facts

/-! ### wire constants used by every model (C06 C10 C12 C13 C14 C16) -/
theorem c06_c10_c12_c14_c16_dhcp_constants :
    cOpRequest = 1 ∧ cOpReply = 2 ∧ cHtypeETHER = 1 ∧ cFlagBroadcast = 0x8000 ∧ cDHCPCookie = 0x63825363 ∧
    cMsgTypeDiscover = 1 ∧ cMsgTypeOffer = 2 ∧ cMsgTypeRequest = 3 ∧ cMsgTypeAck = 5 ∧ cMsgTypeNack = 6 ∧
    cDhcpMinLen = 240 := by decide

theorem c06_c07_c10_c12_c14_c16_option_codes :
    cOptPadding = 0 ∧ cOptSubnetMask = 1 ∧ cOptRouter = 3 ∧ cOptDNS = 6 ∧ cOptHostname = 12 ∧ cOptDomainName = 15 ∧
    cOptInterfaceMTU = 26 ∧ cOptBroadcastAddress = 28 ∧ cOptNTP = 42 ∧ cOptRequestedIP = 50 ∧
    cOptIPAddressLeaseDuration = 51 ∧ cOptMessageType = 53 ∧ cOptServerIdentifier = 54 ∧ cOptParametersList = 55 ∧
    cOptMessage = 56 ∧ cOptMaxMessageSize = 57 ∧ cOptRenewalDuration = 58 ∧ cOptRebindDuration = 59 ∧
    cOptClientIdentifier = 61 ∧ cOptEnd = 255 := by decide

theorem c10_c13_layer_constants : cProtoUDP = 17 ∧ cIpv4Hlen = 20 ∧ cUdpHlen = 8 ∧ cARPOpRequest = 1 := by decide

/-! ### server -/
theorem c01_c05_c09_offer_hold : offerHoldNs = 15 * 1000000000 := by decide
theorem c05_c07_lease_is_advertised : ackUsesLeaseDuration = true ∧ optionUsesLeaseDuration = true := by decide
theorem c08_probe_shape : arpVerifyProbes = 3 ∧ arpProbeTimeoutNs = 200 * 1000000 := by decide
theorem c01_c02_c03_internal_identity :
    internalDuidPrefix = [0, 3, 0, 0] ∧ getDuidGuardsInternalNamespace = true := by decide
theorem c06_reply_header : replyTTL = 64 ∧ replyProtocol = 17 ∧ replySrcPort = 67 ∧ replyDstPort = 68 := by decide
theorem c18_min_lease : minLeaseNs = 60 * 1000000000 := by decide

/-- Every exported `*IPDB` method that touches mutable state holds the write lock for its whole
body: each database call of the models is one atomic step. -/
theorem c01_c09_c11_ipdb_lock_discipline :
    ipdbLockedMethods = "AddPermanentClient,DisableDynamic,FindIP,LookupClientByDuid,SetDynamicRange,UpdateClient" ∧
    ipdbUnlockedMethods = "InManagedRange" ∧ ipdbUnlockedReadOnly = true := by decide

/-- The clock of a database call is read while the lock is held: the reservation a grant advertises
starts when the call takes effect, not before it waited for the lock. -/
theorem c01_c05_c07_clock_read_under_lock : ipdbClockReadUnderLock = true := by decide

/-- One goroutine per packet with a by-value message whose option payloads do not alias a buffer
the receive loop reuses. -/
theorem c09_handler_isolation : runHandsMessageByValue = true ∧ runBufferFreshPerPacket = true := by decide

theorem c18_config_errors_checked : newChecksOverrideError = true ∧ newDuplicateKeyConsistent = true := by decide

/-! ### client -/
theorem c15_client_timeouts :
    cliDiscoverTimeoutNs = 600 * 1000000000 ∧ cliSelectTimeoutNs = 60 * 1000000000 ∧
    cliPanicResetNs = 30 * 1000000000 ∧ cliResumeNs = 5 * 1000000000 := by decide
theorem c16_retransmission : cliRetransBaseNs = 700 * 1000000 ∧ cliRetransBarrierNs = 100 * 1000000000 ∧
    cliRetransGrowsOnly = true := by decide
theorem c14_min_lease : cliMinLeaseNs = 60 * 1000000000 := by decide
theorem c15_limiter : cliLimiterRate = 1 ∧ cliLimiterBurst = 10 := by decide

/-- Which socket discipline each socket-opening function follows (`Model/Resources.lean`), and that
the spawned senders receive a context their caller cancels on return. -/
theorem c19_socket_disciplines :
    discCatchARPReply = "closerOnCancel" ∧ discSendARPPing = "deferClose" ∧ discServerRun = "closerOnCancel" ∧
    discSendUnicast = "closeAfterUse" ∧ discSendMessage = "deferClose" ∧ discCatchReply = "closerOnCancel" ∧
    pingCancelsOnReturn = true ∧ advanceStateCancelsOnReturn = true := by decide

/-- The constructors of lib/rsocks: recognised shape (socket(2), its error check, set-up steps), every error return after
the descriptor exists closes it, and the public constructors only delegate. -/
theorem c19_rsocks_constructors :
    ctorSendCloses.all id = true ∧ ctorRecvCloses.all id = true ∧ ctorSendCloses ≠ [] ∧ ctorRecvCloses ≠ [] ∧
    rsocksCtorsDelegate = true := by decide

/-- The client glue that is modelled by hand rather than translated — `mclient.Run`, `monitor`, `filterNetconfig`
(re-stated as `mrun`/`filterGen` in `Code/Bridge8.lean`), `advanceState` and `hackAbsoluteSleep` (environment operations of
the translated automaton: `advRes`, `SleepUntil`) — has the source text those re-statements were written against
(FNV-1a of the normalised bodies). A difference is not a violation by itself; it says the hand-written part must be re-read,
and the `mclient`/`cliauto` streams, which run the real functions, are searched for a failing input. -/
theorem c15_c16_c19_client_glue_pinned :
    hashMclientRun = 8823502185001801136 ∧ hashMclientMonitor = 5931907665491495088 ∧
    hashFilterNetconfig = 6170598302862921982 ∧ hashAdvanceState = 5192006917054959880 ∧
    hashHackAbsoluteSleep = 2015223890260266535 := by decide

/-! ### sanitising, resolv.conf -/
theorem c17_regexes :
    reBadChars = "[^a-zA-Z0-9,\\.-]" ∧ reGoodChars = "^[a-zA-Z0-9\\.-]+$" ∧ reGoodNums = "^[0-9\\.]+$" ∧
    envEntrySanitizes = true := by decide

def expectedUpdateCalls : String :=
  "ioutil.TempFile(\"/etc\", \"resolvconf-*.tmp\"); os.Remove(name); tmpfh.Write(buf); tmpfh.Close(); os.Chmod(name, 0644); os.Rename(name, \"/etc/resolv.conf\")"

/-- `update()`: temp file in /etc, deferred removal, write, close, chmod 0644, rename over the target. -/
theorem c20_update_call_sequence : resolvUpdateCalls = expectedUpdateCalls := rfl

end PsaDhcp.Expect
