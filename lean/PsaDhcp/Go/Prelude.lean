import PsaDhcp.Model.Bytes
import PsaDhcp.Model.Dhcp
import PsaDhcp.Model.Client
import PsaDhcp.Model.Sanitize
/-
Target language of the Go→Lean translator (`/verif/xlate`): the handful of Go primitives that the
translated functions use, with Go's partiality made explicit.

* fixed-width unsigned integers are Lean's `UInt8/16/32/64` (wrap-around arithmetic as in Go);
  `int`, `int64`, `time.Duration` are `Int` (the translated code never approaches 2^63);
* `[]byte`, `[N]byte`, `string`, `net.IP`, `net.HardwareAddr`, `net.IPMask` are `Bytes`
  (`nil` and empty are identified — see DESIGN.md, trusted base);
* an index or slice expression out of range yields `Err.panic`, exactly where Go would panic;
* loops are structural recursion over a fuel argument; running out of fuel is `Err.panic "fuel"`,
  so every theorem that excludes panics also proves termination within the fuel.
-/
namespace PsaDhcp.Go

abbrev GoErr := Option String

/-- Result of a translated loop whose body contains a `return`. -/
inductive LoopOut (σ ρ : Type) where
  | done (s : σ)
  | ret (r : ρ)

def outOfRange (site : String) : Err := .panic site

/-- `b[i]` -/
def idx {α : Type} (b : List α) (i : Int) (site : String) : R α :=
  if i < 0 then throw (outOfRange site) else
  match b[i.toNat]? with
  | some x => pure x
  | none => throw (outOfRange site)

/-- `b[lo:hi]` (both bounds given) -/
def slice {α : Type} (b : List α) (lo hi : Int) (site : String) : R (List α) :=
  if 0 ≤ lo ∧ lo ≤ hi ∧ hi ≤ (b.length : Int) then pure ((b.take hi.toNat).drop lo.toNat)
  else throw (outOfRange site)

/-- `b[lo:]` -/
def sliceFrom {α : Type} (b : List α) (lo : Int) (site : String) : R (List α) :=
  slice b lo b.length site

/-- `b[:hi]` -/
def sliceTo {α : Type} (b : List α) (hi : Int) (site : String) : R (List α) :=
  slice b 0 hi site

/-- `b[i] = v` -/
def setIdx {α : Type} (b : List α) (i : Int) (v : α) (site : String) : R (List α) :=
  if 0 ≤ i ∧ i < (b.length : Int) then pure (b.set i.toNat v) else throw (outOfRange site)

/-- Writes `src` over `b` starting at `off` (lengths already checked by the caller). -/
def overwrite {α : Type} (b : List α) (off : Nat) (src : List α) : List α :=
  b.take off ++ src ++ b.drop (off + src.length)

/-- `copy(b[lo:hi], src)`: at most `hi - lo` elements. -/
def copyAt {α : Type} (b : List α) (lo hi : Int) (src : List α) (site : String) : R (List α) :=
  if 0 ≤ lo ∧ lo ≤ hi ∧ hi ≤ (b.length : Int) then
    pure (overwrite b lo.toNat (src.take (hi - lo).toNat))
  else throw (outOfRange site)

/-- `copy(b[lo:], src)` -/
def copyFrom {α : Type} (b : List α) (lo : Int) (src : List α) (site : String) : R (List α) :=
  copyAt b lo b.length src site

/-- Writes the result of a callee that mutated the sub-slice `b[lo:hi]` back into `b`. -/
def writeBack {α : Type} (b : List α) (lo : Int) (sub : List α) : List α :=
  overwrite b lo.toNat sub

/-- `make([]T, n)` -/
def makeList {α : Type} (zero : α) (n : Int) (site : String) : R (List α) :=
  if n < 0 then throw (outOfRange site) else pure (List.replicate n.toNat zero)

/-- `binary.BigEndian.Uint16(x)` -/
def beU16 (x : Bytes) (site : String) : R UInt16 :=
  match x with
  | h :: l :: _ => pure ((h.toUInt16 <<< 8) ||| l.toUInt16)
  | _ => throw (outOfRange site)

/-- `binary.BigEndian.Uint32(x)` -/
def beU32 (x : Bytes) (site : String) : R UInt32 :=
  match x with
  | a :: b :: c :: d :: _ =>
    pure ((a.toUInt32 <<< 24) ||| (b.toUInt32 <<< 16) ||| (c.toUInt32 <<< 8) ||| d.toUInt32)
  | _ => throw (outOfRange site)

def u16Bytes (v : UInt16) : Bytes := [(v >>> 8).toUInt8, v.toUInt8]

def u32Bytes (v : UInt32) : Bytes :=
  [(v >>> 24).toUInt8, (v >>> 16).toUInt8, (v >>> 8).toUInt8, v.toUInt8]

/-- `binary.BigEndian.PutUint16(b[lo:hi], v)` -/
def putU16 (b : Bytes) (lo hi : Int) (v : UInt16) (site : String) : R Bytes :=
  if 0 ≤ lo ∧ lo ≤ hi ∧ hi ≤ (b.length : Int) ∧ 2 ≤ hi - lo then
    pure (overwrite b lo.toNat (u16Bytes v))
  else throw (outOfRange site)

/-- `binary.BigEndian.PutUint32(b[lo:hi], v)` -/
def putU32 (b : Bytes) (lo hi : Int) (v : UInt32) (site : String) : R Bytes :=
  if 0 ≤ lo ∧ lo ≤ hi ∧ hi ≤ (b.length : Int) ∧ 4 ≤ hi - lo then
    pure (overwrite b lo.toNat (u32Bytes v))
  else throw (outOfRange site)

/-! Integer conversions (Go truncates / wraps). -/
def u8OfInt (i : Int) : UInt8 := UInt8.ofNat (i % 256).toNat
def u16OfInt (i : Int) : UInt16 := UInt16.ofNat (i % 65536).toNat
def u32OfInt (i : Int) : UInt32 := UInt32.ofNat (i % 4294967296).toNat
def u64OfInt (i : Int) : UInt64 := UInt64.ofNat (i % 18446744073709551616).toNat

/-! `net` -/
def v4InV6Prefix : Bytes := [0, 0, 0, 0, 0, 0, 0, 0, 0, 0, 0xff, 0xff]

/-- `net.IPv4(a, b, c, d)`: the 16-byte form. -/
def netIPv4 (a b c d : UInt8) : Bytes := v4InV6Prefix ++ [a, b, c, d]

/-- `net.IPv4Mask(a, b, c, d)` -/
def netIPv4Mask (a b c d : UInt8) : Bytes := [a, b, c, d]

/-- `ip.To4()`; `nil` is `[]`. -/
def to4 (ip : Bytes) : Bytes :=
  if ip.length = 4 then ip
  else if ip.length = 16 ∧ ip.take 12 = v4InV6Prefix then ip.drop 12
  else []

/-- `ip.Equal(x)` -/
def ipEqual (a b : Bytes) : Bool :=
  if a.length = b.length then a == b
  else if a.length = 4 ∧ b.length = 16 then b.take 12 == v4InV6Prefix && a == b.drop 12
  else if a.length = 16 ∧ b.length = 4 then a.take 12 == v4InV6Prefix && a.drop 12 == b
  else false

/-- `bytes.HasPrefix(s, p)` -/
def hasPrefix (s p : Bytes) : Bool := p.isPrefixOf s

/-- `net.Interface`: the fields the translated code reads. -/
structure NetInterface where
  Index : Int
  MTU : Int
  Name : Bytes
  HardwareAddr : Bytes
deriving DecidableEq, Repr

def NetInterface.zero : NetInterface := { Index := 0, MTU := 0, Name := [], HardwareAddr := [] }

/-- `crc32.ChecksumIEEE` (the bitwise model of Model/Dhcp.lean; the standard library is trusted). -/
def crc32IEEE (b : Bytes) : UInt32 := UInt32.ofNat (PsaDhcp.crc32 b)

/-! `map[string]T`: an association list with at most one entry per key (translated code reads with `mapGet?`,
writes with `mapSet`/`mapDel`, and never observes the iteration order). -/
abbrev Map (α : Type) := List (Bytes × α)

def mapGet? {α : Type} (m : Map α) (k : Bytes) : Option α := (m.find? (fun e => e.1 == k)).map (·.2)
def mapDel {α : Type} (m : Map α) (k : Bytes) : Map α := m.filter (fun e => e.1 != k)
def mapSet {α : Type} (m : Map α) (k : Bytes) (v : α) : Map α := (k, v) :: mapDel m k

/-! `fmt.Sprintf` verbs -/
def hexDigit (n : Nat) : UInt8 := if n < 10 then UInt8.ofNat (48 + n) else UInt8.ofNat (87 + n)

/-- `%02x` of a byte -/
def fmtHex02 (b : UInt8) : Bytes := [hexDigit (b.toNat / 16), hexDigit (b.toNat % 16)]

/-- `%x` of an unsigned value: no leading zeros, `0` for zero -/
def fmtHex (n : Nat) : Bytes := (Nat.toDigits 16 n).map (fun ch => UInt8.ofNat ch.toNat)

/-- `%d` -/
def fmtDec (i : Int) : Bytes :=
  (if i < 0 then [45] else []) ++ (Nat.toDigits 10 i.natAbs).map (fun ch => UInt8.ofNat ch.toNat)

/-- `uint32(d.Seconds())` for a `time.Duration` of `d` nanoseconds.  Go computes `float64(sec) + float64(nsec)/1e9`
and truncates; this integer reading agrees for all `d ≥ 0` whose fractional part does not round up to a whole second
in a 53-bit mantissa (every duration below 2^24 s, and every whole-second duration; first failing value found by a prover: 16777216.999999999 s reads 16777217) — trusted, see DESIGN.md §13.3. -/
def durSecondsU32 (d : Int) : UInt32 := u32OfInt (Int.tdiv d 1000000000)

/-- `ip.DefaultMask()`: the class A/B/C mask of an IPv4 address (nil when `ip` has no 4-byte form). -/
def ipDefaultMask (ip : Bytes) : Bytes :=
  match Ip4.ofBytes? (to4 ip) with
  | some i => (defaultMask i).bytes
  | none => []

/-- `m.Size()`: (ones, bits) of a canonical mask, (0, 0) otherwise. -/
def maskSize (m : Bytes) : Int × Int :=
  match Ip4.ofBytes? m with
  | some i => if canonicalMask i then (Int.ofNat (((List.range 33).filter (fun k => i.toNat = 4294967296 - 2 ^ (32 - k))).headD 0), 32) else (0, 0)
  | none => (0, 0)

/-- `time.Duration(float64(d) * k)` for the constant `k = num/den` (0.5, 0.875): the exact product rounded to a
53-bit mantissa, as `Model/Client.lean` computes it (trusted for durations of whole seconds; DESIGN.md §13.3). -/
def durTimesFloat (d : Int) (num den : Nat) : Int := Int.ofNat (round53 (d.toNat * num / den))

/-! Standard-library parsers the configuration code calls: uninterpreted (nothing is known about their values
beyond what a theorem assumes explicitly; the correspondence harness parses with the very same Go functions). -/
structure IPNet where
  IP : Bytes
  Mask : Bytes
deriving DecidableEq, Repr

def IPNet.zero : IPNet := { IP := [], Mask := [] }

opaque parseIP : Bytes → Bytes
opaque parseCIDR : Bytes → Bytes × Option IPNet × GoErr
opaque parseDuration : Bytes → Int × GoErr
opaque parseMAC : Bytes → Bytes × GoErr

/-- `strings.Split(s, sep)` for a non-empty separator. -/
def splitAux (sep : Bytes) : Nat → Bytes → Bytes → List Bytes
  | 0, _, acc => [acc]
  | _ + 1, [], acc => [acc]
  | n + 1, c :: rest, acc =>
    if sep.isPrefixOf (c :: rest) ∧ ¬ sep.isEmpty then acc :: splitAux sep n ((c :: rest).drop sep.length) []
    else splitAux sep n rest (acc ++ [c])

def stringsSplit (s sep : Bytes) : List Bytes := splitAux sep (s.length + 1) s []

/-! `regexp`: the only patterns the code compiles are one character class, either free (`[class]`, used with
`ReplaceAllString`) or anchored and repeated (`^[class]+$`, used with `MatchString`).  Go's engine walks the string rune
by rune (`utf8.DecodeRune`: an invalid byte is U+FFFD of width 1). -/
structure Regex where
  neg : Bool
  ranges : List (Nat × Nat)
  whole : Bool
deriving DecidableEq, Repr

/-- Code point of the rune at the head of `s` (U+FFFD for an invalid encoding) — widths by `runeWidth`. -/
def runeAt (s : Bytes) : Nat :=
  let w := runeWidth s
  if ¬ w.2 then 0xFFFD
  else match w.1, s with
    | 1, b0 :: _ => b0.toNat
    | 2, b0 :: b1 :: _ => (b0.toNat % 32) * 64 + b1.toNat % 64
    | 3, b0 :: b1 :: b2 :: _ => (b0.toNat % 16) * 4096 + (b1.toNat % 64) * 64 + b2.toNat % 64
    | 4, b0 :: b1 :: b2 :: b3 :: _ => (b0.toNat % 8) * 262144 + (b1.toNat % 64) * 4096 + (b2.toNat % 64) * 64 + b3.toNat % 64
    | _, _ => 0xFFFD

def Regex.matchesRune (re : Regex) (cp : Nat) : Bool :=
  let inCls := re.ranges.any fun r => r.1 ≤ cp && cp ≤ r.2
  if re.neg then !inCls else inCls

def reReplaceAux (re : Regex) (repl : Bytes) : Nat → Bytes → Bytes
  | 0, _ => []
  | _, [] => []
  | f + 1, b :: rest =>
    let s := b :: rest
    let w := (runeWidth s).1
    if re.matchesRune (runeAt s) then repl ++ reReplaceAux re repl f (s.drop w)
    else s.take w ++ reReplaceAux re repl f (s.drop w)

/-- `re.ReplaceAllString(s, repl)` for a free single-class pattern: every matching rune becomes `repl`. -/
def reReplaceAll (re : Regex) (s repl : Bytes) : Bytes := reReplaceAux re repl s.length s

def reAllAux (re : Regex) : Nat → Bytes → Bool
  | 0, s => s.isEmpty
  | _, [] => true
  | f + 1, b :: rest =>
    let s := b :: rest
    re.matchesRune (runeAt s) && reAllAux re f (s.drop (runeWidth s).1)

/-- `re.MatchString(s)` for `^[class]+$`: non-empty and every rune in the class. -/
def reMatch (re : Regex) (s : Bytes) : Bool := !s.isEmpty && reAllAux re s.length s

/-- `net.IP.String()`: `<nil>` for nil, dotted decimal for the IPv4 forms; other values (IPv6 text form, `?`+hex) are
not produced by the code paths translated here and are left uninterpreted. -/
opaque ipStringOther : Bytes → Bytes
def ipString (ip : Bytes) : Bytes :=
  if ip.isEmpty then PsaDhcp.ipString none
  else match Ip4.ofBytes? (to4 ip) with
    | some i => PsaDhcp.ipString (some i)
    | none => ipStringOther ip

/-- `net.IPMask.String()`: `<nil>` for the empty mask, else lower-case hex of every byte. -/
def maskString (m : Bytes) : Bytes :=
  if m.isEmpty then PsaDhcp.str "<nil>" else (m.map fun b => [hexNib (b.toNat / 16), hexNib (b.toNat % 16)]).flatten

/-- `strings.Join(l, sep)` -/
def stringsJoin : List Bytes → Bytes → Bytes
  | [], _ => []
  | [x], _ => x
  | x :: rest, sep => x ++ sep ++ stringsJoin rest sep

/-- `strings.SplitN(s, sep, 2)` for a one-byte separator: split at the first occurrence. -/
def stringsSplitN2 (s sep : Bytes) : List Bytes :=
  match sep with
  | [c] => (match s.span (· != c) with
            | (a, []) => [a]
            | (a, _ :: b) => [a, b])
  | _ => [s]

/-- `int(d.Seconds())` (see `durSecondsU32`). -/
def durSecondsInt (d : Int) : Int := Int.tdiv d 1000000000

/-- `a % b` on `int`/`int64` with a divisor that is not a constant: zero is a Go panic. -/
def remInt (a b : Int) (site : String) : R Int := if b = 0 then throw (.panic site) else pure (Int.tmod a b)

/-- A socket handle: what is read from and written to it goes through the environment. -/
abbrev Sock := Unit

/-- `n, _ := s.Read(buf)` for an incoming frame `data`: the first `len(buf)` bytes are stored, `n` of them. -/
def readInto (buf data : Bytes) : Bytes × Int :=
  (overwrite buf 0 (data.take buf.length), Int.ofNat (min data.length buf.length))

/-- `*p` / `p.f` for a `*T` a call returned (nil is a nil-pointer dereference). -/
def derefOpt {α : Type} (p : Option α) (site : String) : R α :=
  match p with | some v => pure v | none => throw (.panic site)

/-! Pointers to records of one type, inside the package that owns them: `nil` or an index into the list of all
records allocated so far (the heap).  A dereference of `nil` is a Go panic. -/
abbrev Ptr := Option Nat

def heapGet {α : Type} (p : Ptr) (site : String) : StateT (List α) R α := fun h =>
  match p with
  | none => .error (.panic site)
  | some i => match h[i]? with
    | some v => .ok (v, h)
    | none => .error (.panic site)

def heapModify {α : Type} (p : Ptr) (f : α → α) (site : String) : StateT (List α) R Unit := fun h =>
  match p with
  | none => .error (.panic site)
  | some i => if i < h.length then .ok ((), h.modify i f) else .error (.panic site)

/-- `&T{...}`: a fresh record -/
def heapAlloc {α : Type} (v : α) : StateT (List α) R Ptr := fun h => .ok (some h.length, h ++ [v])

/-- A `*clients.client` as code outside package `clients` sees it: which record it is (pointer identity) and
the two fields its accessors `Uip()` / `LeasedUntil()` return, read when the pointer was obtained.  (Trusted:
the translated callers use the accessors before their next call into the table — see DESIGN.md §13.) -/
structure ClientRef where
  id : Nat
  ip : UInt32
  leasedUntil : Int
deriving DecidableEq, Repr

/-- `p == q` on `*client` values -/
def refEq : Option ClientRef → Option ClientRef → Bool
  | none, none => true
  | some a, some b => a.id == b.id
  | _, _ => false

/-- `p.Uip()`; a nil receiver is a nil-pointer dereference -/
def refUip (p : Option ClientRef) (site : String) : R UInt32 :=
  match p with | some c => pure c.ip | none => throw (.panic site)

/-- `p.LeasedUntil()` -/
def refLeasedUntil (p : Option ClientRef) (site : String) : R Int :=
  match p with | some c => pure c.leasedUntil | none => throw (.panic site)

end PsaDhcp.Go
