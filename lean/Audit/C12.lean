import PsaDhcp.Props.C12
#print axioms PsaDhcp.Props.C12.decode_assemble
#print axioms PsaDhcp.Props.C12.decode_iff_grammar
#print axioms PsaDhcp.Props.C12.area_unique
#print axioms PsaDhcp.Props.C12.decode_never_panics
#print axioms PsaDhcp.Props.C12.decode_reject_reasons
#print axioms PsaDhcp.Props.C12.typed_exact
#print axioms PsaDhcp.Props.C12.typed_values
#print axioms PsaDhcp.Props.C12.long_hlen
