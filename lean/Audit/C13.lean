import PsaDhcp.Props.C13
#print axioms PsaDhcp.Props.C13.ip_version_ihl_length
#print axioms PsaDhcp.Props.C13.ip_total_length
#print axioms PsaDhcp.Props.C13.udp_length
#print axioms PsaDhcp.Props.C13.no_overflow
#print axioms PsaDhcp.Props.C13.ip_checksum_verifies
#print axioms PsaDhcp.Props.C13.udp_checksum_verifies
#print axioms PsaDhcp.Props.C13.decode_assemble_ip
#print axioms PsaDhcp.Props.C13.decode_assemble_udp
#print axioms PsaDhcp.Props.C13.decode_udp_inside_ip
#print axioms PsaDhcp.Props.C13.decoder_strict_ip
#print axioms PsaDhcp.Props.C13.decoder_strict_udp
#print axioms PsaDhcp.Props.C13.decoders_never_panic
#print axioms PsaDhcp.Props.C13.arp_round_trip
#print axioms PsaDhcp.Props.C13.arp_round_trip_ips
#print axioms PsaDhcp.Props.C13.arp_sender_ip_offset
