import PsaDhcp.Model.Server
import PsaDhcp.Model.Config
import PsaDhcp.Model.Observed
import Driver.Util
import Driver.Codec
/-
Driver commands for the lease-database streams (C11) and the server streams (C01–C10).
The FindIP candidate loop is driven by *observed* probes (`findLoopObs`): the harness cannot see
`rand.Perm`, it sees which addresses were ARP-probed, in which order, with which outcome.
-/
namespace Driver
open PsaDhcp

/-- Driver state: the `Clients` store of the db stream and the running server. -/
structure DState where
  cl : Clients := Clients.empty
  clStack : List Clients := []
  db : IPDB Clients := IPDB.new Clients.empty 0 32
  cfg : Option SrvCfg := none

def resStr : Clients.Res → String
  | .ok => "ok" | .ipExists => "err:ip-exists" | .duidExists => "err:duid-exists"
  | .noIp => "err:no-ip" | .noDuid => "err:no-duid" | .mismatch => "err:mismatch"

def dbErrStr : DbErr → String
  | .notV4 => "err:not-v4" | .notInRange => "err:not-in-range" | .badRange => "err:bad-range"
  | .notFound => "err:not-found" | .disabled => "err:disabled" | .noFreeIp => "err:no-free-ip"
  | .store r => resStr r

def optNat (x : Option Nat) : String := match x with | some n => toString n | none => "-"

def cresStr : CRes → String
  | .found a b s => s!"found ip={optNat a} duid={optNat b} same={if s then 1 else 0}"
  | .res r => resStr r

def parseProbes (s : String) : Option (List ObsProbe) :=
  if s = "-" then some []
  else (s.splitOn ",").mapM fun t =>
    match t.splitOn ":" with
    | [ip, ans, ts, te] => do
      let i ← parseIp ip
      let i ← i
      let a ← if ans = "-" then some none else (unhex ans).map some
      pure { ip := i.toNat, ans := a, ts := ← ts.toInt?, te := ← te.toInt? }
    | _ => none

def parseIps (s : String) : Option (List Ip4) :=
  if s = "-" then some []
  else (s.splitOn ",").mapM fun t => do let i ← parseIp t; i

def parseOverride (s : String) : Option Override :=
  match s.splitOn "/" with
  | [mac, ip, router, dns, ntp, host] => do
    pure { mac := ← unhex mac, ip := ← parseIp ip, router := ← parseIp router, dns := ← parseIps dns, ntp := ← parseIps ntp,
           hostname := ← unhex host }
  | _ => none

def parseOverrides (s : String) : Option (List Override) :=
  if s = "-" then some [] else (s.splitOn ";").mapM parseOverride

/-- `server.New` for an already validated configuration. -/
def cfgCmd (a : Args) : Option (DState × String) := do
  let t ← a.int? "t"
  let base ← a.nat? "base"
  let p ← a.nat? "p"
  let selfIp ← (← a.ip? "selfip")
  let cfg : SrvCfg := { selfIp := selfIp, selfMac := ← a.hex? "selfmac", leaseNs := ← a.int? "lease", mask := ← a.hex? "mask",
                        router := ← a.ip? "router", dns := ← (a.get? "dns").bind parseIps, ntp := ← (a.get? "ntp").bind parseIps,
                        domain := ← a.hex? "domain", overrides := ← (a.get? "clients").bind parseOverrides }
  let db : IPDB Clients := IPDB.new Clients.empty base p
  let df ← a.ip? "dynfrom"
  let dt ← a.ip? "dynto"
  let (db, e1) := match df with
    | some _ => let r := db.setDynamicRange df dt; (r.1, match r.2 with | .ok _ => "" | .error e => dbErrStr e)
    | none => (db, "")
  let db := if (← a.nat? "staticonly") = 1 then db.disableDynamic else db
  let step := fun (acc : IPDB Clients × String) (o : Override) =>
    match o.ip with
    | none => acc
    | some ip =>
      let r := acc.1.addPermanent clientsStore t (some ip) (sduid o.mac)
      (r.1, match r.2 with | .ok _ => acc.2 | .error e => if acc.2.isEmpty then dbErrStr e else acc.2)
  let (db, e2) := cfg.overrides.foldl step (db, e1)
  let r := db.addPermanent clientsStore t (some selfIp) (sduid cfg.selfMac)
  let e3 := match r.2 with | .ok _ => e2 | .error e => if e2.isEmpty then dbErrStr e else e2
  pure ({ db := r.1, cfg := some cfg }, if e3.isEmpty then "ok" else e3)

def frameStr (t : Int) (f : Frame) : String := s!"tx t={t} l2={hex f.l2dst} b={hex f.pkt}"

/-- One received frame through the receive chain and the handler, against observed probes. -/
def rxCmd (st : DState) (a : Args) : Option (DState × String) := do
  let cfg ← st.cfg
  let t ← a.int? "t"
  let b ← a.hex? "b"
  let d ← a.int? "d"
  let tend ← a.int? "tend"
  let obs ← (a.get? "probes").bind parseProbes
  match rxChain b with
  | .error e => pure (st, errStr e)
  | .ok none => pure (st, if obs.isEmpty then "silent" else "BAD-ORACLE probes observed for a dropped frame")
  | .ok (some rx) =>
    let opts := decodeOptions rx.msg.options
    let g := getDuid clientsStore st.db t rx.msg.chaddr opts.clientIdentifier
    let db := g.1
    let duid := g.2
    match todo cfg db rx with
    | .drop => pure ({ st with db := db }, if obs.isEmpty then "silent" else "BAD-ORACLE probes observed for a dropped message")
    | .discover =>
      match findObs db (t + d) opts.requestedIP duid rx.msg.chaddr obs with
      | .error e => pure ({ st with db := db }, (if e.startsWith "AMBIGUOUS" then "" else "BAD-ORACLE ") ++ e)
      | .ok (db, .error _, _) => pure ({ st with db := db }, "silent")
      | .ok (db, .ok addr, tl) =>
        let t2 := if tend > tl then tend else tl
        let u := db.updateClient clientsStore t2 (some (Ip4.ofNat addr)) duid offerHoldNs
        match u.2 with
        | .error _ => pure ({ st with db := u.1 }, "silent")
        | .ok _ => pure ({ st with db := u.1 }, frameStr t2 (leaseFrame cfg .offer rx.msg (Ip4.ofNat addr)))
    | .request want =>
      let l := db.lookupByDuid clientsStore t duid
      match l.2 with
      | .error _ => pure ({ st with db := l.1 }, if obs.isEmpty then frameStr t (nakFrame cfg rx.msg) else "BAD-ORACLE probes before NAK(no lease)")
      | .ok lease =>
        if want.toNat ≠ lease then
          pure ({ st with db := l.1 }, if obs.isEmpty then frameStr t (nakFrame cfg rx.msg) else "BAD-ORACLE probes before NAK(other address)")
        else
          match obs with
          | [o] =>
            if o.ip ≠ lease then pure ({ st with db := l.1 }, s!"BAD-ORACLE probe of {o.ip}, lease is {lease}")
            else
              let free : Bool := match o.ans with | none => true | some mac => decide (mac = rx.msg.chaddr)
              if !free then pure ({ st with db := l.1 }, frameStr o.te (nakFrame cfg rx.msg))
              else
                let u := l.1.updateClient clientsStore o.te (some (Ip4.ofNat lease)) duid cfg.leaseNs
                match u.2 with
                | .error _ => pure ({ st with db := u.1 }, "silent")
                | .ok _ => pure ({ st with db := u.1 }, frameStr o.te (leaseFrame cfg .ack rx.msg (Ip4.ofNat lease)))
          | _ => pure ({ st with db := l.1 }, s!"BAD-ORACLE expected exactly one probe before ACK, observed {obs.length}")

/-- Operations of the `Clients` API with explicit clocks (db stream). -/
def clCmd (st : DState) (cmd : String) (a : Args) : Option (DState × String) := do
  let t ← a.int? "t"
  let op : COp ← match cmd with
    | "cl.lookup" => do pure (COp.lookup (← a.nat? "ip") (← a.hex? "duid"))
    | "cl.inject" => do pure (COp.inject (← a.nat? "ip") (← a.hex? "duid") (← a.int? "exp"))
    | "cl.injectperm" => do pure (COp.injectPermanent (← a.nat? "ip") (← a.hex? "duid"))
    | "cl.setlease" => do pure (COp.setLease (← a.nat? "ip") (← a.hex? "duid") (← a.int? "exp"))
    | "cl.expire" => do pure (COp.expire (← a.nat? "ip") (← a.hex? "duid"))
    | _ => none
  let r := st.cl.step t op
  pure ({ st with cl := r.1 }, cresStr r.2)

def unitStr : Except DbErr Unit → String
  | .ok _ => "ok"
  | .error e => dbErrStr e

/-- Operations of the public `IPDB` API (db stream); `db.find` carries the observed probe order. -/
def dbCmd (st : DState) (cmd : String) (a : Args) : Option (DState × String) := do
  match cmd with
  | "cl.reset" => pure ({ st with cl := Clients.empty, clStack := [] }, "ok")
  | "cl.push" => pure ({ st with clStack := st.cl :: st.clStack }, "ok")
  | "cl.pop" => match st.clStack with
    | c :: r => pure ({ st with cl := c, clStack := r }, "ok")
    | [] => none
  | "db.new" => pure ({ st with db := IPDB.new Clients.empty (← a.nat? "base") (← a.nat? "p") }, "ok")
  | "db.setdyn" =>
    let r := st.db.setDynamicRange (← a.ip? "from") (← a.ip? "to")
    pure ({ st with db := r.1 }, unitStr r.2)
  | "db.disable" => pure ({ st with db := st.db.disableDynamic }, "ok")
  | "db.inrange" => pure (st, if st.db.inManagedRange (← a.ip? "ip") then "true" else "false")
  | "db.lookup" =>
    let r := st.db.lookupByDuid clientsStore (← a.int? "t") (← a.hex? "duid")
    pure ({ st with db := r.1 }, match r.2 with | .ok n => s!"ok {n}" | .error e => dbErrStr e)
  | "db.addperm" =>
    let r := st.db.addPermanent clientsStore (← a.int? "t") (← a.ip? "ip") (← a.hex? "duid")
    pure ({ st with db := r.1 }, unitStr r.2)
  | "db.update" =>
    let r := st.db.updateClient clientsStore (← a.int? "t") (← a.ip? "ip") (← a.hex? "duid") (← a.int? "ttl")
    pure ({ st with db := r.1 }, unitStr r.2)
  | "db.find" =>
    let obs ← (a.get? "probes").bind parseProbes
    -- the db stream's probe callback answers from a table: "free" is encoded as ans = none
    match findObs st.db (← a.int? "t") (← a.ip? "sugg") (← a.hex? "duid") [] obs with
    | .error e => pure (st, (if e.startsWith "AMBIGUOUS" then "" else "BAD-ORACLE ") ++ e)
    | .ok (db, r, _) => pure ({ st with db := db }, match r with | .ok n => s!"ok {n}" | .error e => dbErrStr e)
  | "db.findc" =>
    let obs ← (a.get? "probes").bind parseProbes
    match findObs st.db (← a.int? "t") (← a.ip? "sugg") (← a.hex? "duid") [] obs true with
    | .error e => pure (st, (if e.startsWith "AMBIGUOUS" then "" else "BAD-ORACLE ") ++ e)
    | .ok (db, r, _) => pure ({ st with db := db }, match r with | .ok n => s!"ok {n}" | .error e => dbErrStr e)
  | _ => none

def srvCmd (st : DState) (cmd : String) (a : Args) : Option (DState × String) :=
  match cmd with
  | "cfg" => cfgCmd a
  | "rx" => rxCmd st a
  | _ => if cmd.startsWith "cl." && cmd ≠ "cl.reset" && cmd ≠ "cl.push" && cmd ≠ "cl.pop" then clCmd st cmd a else dbCmd st cmd a

end Driver

namespace Driver
open PsaDhcp

def parseEnt (s : String) : Option Ent :=
  if s = "e" then some .empty else if s = "b" then some .bad
  else match unhex s with | some [a, b, c, d] => some (.ok ⟨a, b, c, d⟩) | _ => none

def parseEnts (s : String) : Option (List Ent) := if s = "-" then some [] else (s.splitOn ",").mapM parseEnt

def parseRawClient (s : String) : Option RawClient :=
  match s.splitOn "/" with
  | [mac, ip, router, dns, ntp, host] => do
    let m ← if mac = "bad" then some none else (unhex mac).map some
    pure { mac := m, ip := ← parseEnt ip, router := ← parseEnt router, dns := ← parseEnts dns, ntp := ← parseEnts ntp, hostname := ← unhex host }
  | _ => none

/-- `server.New` on a raw configuration (C18 stream). On success the driver's server state is set,
so that `rx` operations can follow. -/
def newcfgCmd (a : Args) : Option (DState × String) := do
  let t ← a.int? "t"
  let net ← a.get? "net"
  let network : Option (Nat × Nat) ← if net = "bad" then some none else
    match net.splitOn "/" with | [b, p] => do pure (some (← b.toNat?, ← p.toNat?)) | _ => none
  let lease ← a.get? "lease"
  let leaseV : Option Int ← if lease = "bad" then some none else lease.toInt?.map some
  let dynS ← a.get? "dyn"
  let dyn : RawDyn ← if dynS = "absent" then some .absent else if dynS = "fmt" then some .badFormat else if dynS = "badip" then some .badIp
    else match dynS.splitOn "-" with
      | [x, y] => do
        let xa ← parseIp x
        let ya ← parseIp y
        pure (.range (← xa) (← ya))
      | _ => none
  let clientsS ← a.get? "clients"
  let clients ← if clientsS = "-" then some [] else (clientsS.splitOn ";").mapM parseRawClient
  let r : RawCfg := { selfIp := ← a.ip? "selfip", selfMac := ← a.hex? "selfmac", network := network, lease := leaseV, router := ← (a.get? "router").bind parseEnt,
                      dns := ← (a.get? "dns").bind parseEnts, ntp := ← (a.get? "ntp").bind parseEnts, domain := ← a.hex? "domain", dyn := dyn,
                      staticOnly := (← a.nat? "staticonly") = 1 }
  match newServer clientsStore Clients.empty r clients t with
  | .ok s => pure ({ db := s.db, cfg := some s.cfg }, "ok")
  | .error _ => pure ({}, "err")

end Driver
