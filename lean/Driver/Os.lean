import PsaDhcp.Model.Fs
import PsaDhcp.Model.Resources
import PsaDhcp.Model.Verdict
import Driver.Util
/-
Driver commands for the OS-edge streams (C19, C20).
-/
namespace Driver
open PsaDhcp

def pcStr : Pc → String
  | .create => "create" | .write => "write" | .close => "close" | .check => "check" | .chmod => "chmod" | .rename => "rename"
  | .cleanup => "cleanup" | .doneOk => "ok" | .doneErr => "err" | .killed => "killed"

def fileStr (f : Option File) : String :=
  match f with
  | none => "absent"
  | some x => s!"{hex x.content}/{x.mode}"

def parseAct (s : String) : Option Act :=
  match s.splitOn ":" with
  | ["s", w] => do pure (.step (← w.toNat?) {})
  | ["f", w] => do pure (.step (← w.toNat?) { fail := true })
  | ["k", w] => do pure (.kill (← w.toNat?))
  | _ => none

def discOf (s : String) : Option Discipline :=
  match s with
  | "deferClose" => some .deferClose | "closeAfterUse" => some .closeAfterUse | "closerOnCancel" => some .closerOnCancel
  | _ => none

def outcomeOf (s : String) : Option Outcome :=
  match s with
  | "openFails" => some .openFails | "ioOk" => some .ioOk | "ioFails" => some .ioFails | "bodyReturns" => some .bodyReturns
  | "parentCancelled" => some .parentCancelled | _ => none

def osCmd (cmd : String) (a : Args) : Option String :=
  match cmd with
  | "fs" => do
    let old ← a.get? "old"
    let oldF : Option File ← if old = "absent" then some none else
      match old.splitOn "/" with | [c, m] => do pure (some ⟨← unhex c, ← m.toNat?⟩) | _ => none
    let bufs ← (a.get? "bufs").bind fun s => (s.splitOn ";").mapM unhex
    let acts ← (a.get? "acts").bind fun s => if s = "-" then some [] else (s.splitOn ",").mapM parseAct
    let fs := runFs (fsInit oldF bufs) acts
    let left := (fs.tmps.filter (·.isSome)).length
    pure s!"target={fileStr fs.target} tmps={left} pcs={String.intercalate "," (fs.ws.map fun w => pcStr w.pc)}"
  | "catcharp" => do
    let t ← a.ip? "target"
    let frames ← (a.get? "frames").bind fun s => if s = "-" then some [] else (s.splitOn ";").mapM unhex
    pure (match catchARPReply (← t) frames with | some mac => "answer " ++ hex mac | none => "timeout")
  | "arpverify" => do
    let outs ← (a.get? "outcomes").bind fun s => if s = "-" then some [] else (s.splitOn ",").mapM fun t =>
      if t = "-" then some none else (unhex t).map some
    pure (if arpVerify (← a.hex? "chaddr") outs then "free" else "conflict")
  | "note" => some "ok"     -- a harness annotation (monitor-only case); nothing to compare
  | "resfn" =>
    -- the model's claim for every scenario of the fault enumeration (theorem C19.no_leak): once the
    -- function has returned and its closer has run, sockets are balanced and no goroutine is left
    some "balanced=true goroutines=0"
  | "res" => do
    let d ← (a.get? "disc").bind discOf
    let os ← (a.get? "outcomes").bind fun s => if s = "-" then some [] else (s.splitOn ",").mapM outcomeOf
    let s := settle d (rrun d {} os)
    pure s!"opened={s.opened} closed={s.closed} running={if s.running then 1 else 0} closer={if s.closerAlive then 1 else 0}"
  | _ => none

end Driver
