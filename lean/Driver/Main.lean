import Driver.Util
import Driver.Codec
import Driver.Srv
import Driver.Cli
import Driver.Os
/-
Line-protocol driver: one operation per input line, one model answer per output line.
Unknown or unparsable operations answer `bad-op` (never a default).
-/
open Driver

def dispatch (st : DState) (line : String) : DState × String :=
  match (line.trimAscii.toString.splitOn " ").filter (· ≠ "") with
  | [] => (st, "bad-op")
  | cmd :: rest =>
    let a := parseArgs rest
    match codecCmd cmd a with
    | some s => (st, s)
    | none =>
      match (cliCmd cmd a <|> osCmd cmd a <|> (if cmd = "auto" then autoCmd a else none)) with
      | some s => (st, s)
      | none =>
        match (if cmd = "newcfg" then newcfgCmd a else srvCmd st cmd a) with
        | some r => r
        | none => (st, "bad-op")

partial def loop (h : IO.FS.Stream) (out : IO.FS.Stream) (st : DState) : IO Unit := do
  let line ← h.getLine
  if line.isEmpty then return ()
  let (st', ans) := dispatch st line
  out.putStrLn ans
  loop h out st'

def main : IO Unit := do
  let out ← IO.getStdout
  loop (← IO.getStdin) out {}
  out.flush
