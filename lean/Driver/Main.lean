import Driver.Util
import Driver.Codec
/-
Line-protocol driver: one operation per input line, one model answer per output line.
Unknown or unparsable operations answer `bad-op` (never a default).
-/
open Driver

def dispatch (line : String) : String :=
  match (line.trimAscii.toString.splitOn " ").filter (· ≠ "") with
  | [] => "bad-op"
  | cmd :: rest =>
    let a := parseArgs rest
    match codecCmd cmd a with
    | some s => s
    | none => "bad-op"

partial def loop (h : IO.FS.Stream) (out : IO.FS.Stream) : IO Unit := do
  let line ← h.getLine
  if line.isEmpty then return ()
  out.putStrLn (dispatch line)
  loop h out

def main : IO Unit := do
  let out ← IO.getStdout
  loop (← IO.getStdin) out
  out.flush
