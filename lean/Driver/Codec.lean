import PsaDhcp.Model.Wire
import PsaDhcp.Model.Dhcp
import Driver.Util
/-
Driver commands for the codec streams (C10, C12, C13).
-/
namespace Driver
open PsaDhcp

def optsStr (os : List Opt) : String :=
  if os.isEmpty then "-" else String.intercalate ";" (os.map fun o => s!"{o.code.toNat}:{hex o.data}")

def parseOpts (s : String) : Option (List Opt) :=
  if s = "-" then some []
  else (s.splitOn ";").mapM fun t =>
    match t.splitOn ":" with
    | [c, d] => do
      let code ← c.toNat?
      let data ← unhex d
      pure ⟨UInt8.ofNat code, data⟩
    | _ => none

def showIPv4 (p : IPv4) : String :=
  s!"ok ident={p.ident} flags={p.flags} ttl={p.ttl.toNat} proto={p.proto.toNat} csum={p.csum} src={ipStr p.src} dst={ipStr p.dst} data={hex p.data}"

def showUDP (u : UDP) : String := s!"ok sp={u.srcPort} dp={u.dstPort} data={hex u.data}"

def showARP (a : ARP) : String :=
  s!"ok op={a.opcode.toNat} sm={hex a.senderMAC} sip={ipStr a.senderIP} tm={hex a.targetMAC} tip={ipStr a.targetIP}"

def showMsg (m : Msg) : String :=
  s!"ok op={m.op.toNat} htype={m.htype.toNat} hops={m.hops.toNat} xid={m.xid} secs={m.secs} flags={m.flags} ci={ipStr m.ciaddr} yi={ipStr m.yiaddr} si={ipStr m.siaddr} gi={ipStr m.giaddr} chaddr={hex m.chaddr} sname={hex m.sname} file={hex m.file} cookie={m.cookie} opts={optsStr m.options}"

def showDecoded (d : DecodedOptions) : String :=
  s!"ok mt={d.messageType.toNat} mms={d.maxMessageSize} mtu={d.interfaceMTU} req={ipStr d.requestedIP} sid={ipStr d.serverIdentifier} bc={ipStr d.broadcastAddress} mask={ipStr d.subnetMask} routers={ipsStr d.routers} dns={ipsStr d.dns} lease={d.leaseSecs} t1={d.renewalSecs} t2={d.rebindSecs} domain={hex d.domainName} cid={hex d.clientIdentifier} msg={hex d.message} prl={hex d.parametersList}"

def res {α} (f : α → String) : R α → String
  | .ok a => f a
  | .error e => errStr e

def parseMsg (a : Args) : Option Msg := do
  pure { op := ← a.u8? "op", htype := ← a.u8? "htype", hops := ← a.u8? "hops", xid := ← a.nat? "xid",
         secs := ← a.nat? "secs", flags := ← a.nat? "flags", ciaddr := ← a.ip? "ci", yiaddr := ← a.ip? "yi",
         siaddr := ← a.ip? "si", giaddr := ← a.ip? "gi", chaddr := ← a.hex? "chaddr", sname := ← a.hex? "sname",
         file := ← a.hex? "file", cookie := ← a.nat? "cookie", options := ← (a.get? "opts").bind parseOpts }

def codecCmd (cmd : String) (a : Args) : Option String :=
  match cmd with
  | "decip" => do pure (res showIPv4 (decodeIPv4 (← a.hex? "b")))
  | "decudp" => do pure (res showUDP (decodeUDP (← a.hex? "b")))
  | "decarp" => do pure (res showARP (decodeARP (← a.hex? "b")))
  | "decdhcp" => do pure (res showMsg (decode (← a.hex? "b")))
  | "decopts" => do pure (showDecoded (decodeOptions (← (a.get? "opts").bind parseOpts)))
  | "asmip" => do
    let h : IPv4 := { ident := ← a.nat? "ident", flags := ← a.nat? "flags", ttl := ← a.u8? "ttl",
                      proto := ← a.u8? "proto", src := ← a.ip? "src", dst := ← a.ip? "dst", data := ← a.hex? "data" }
    pure s!"ok {hex h.assemble}"
  | "asmudp" => do
    let u : UDP := { srcPort := ← a.nat? "sp", dstPort := ← a.nat? "dp", data := ← a.hex? "data" }
    pure s!"ok {hex u.assemble}"
  | "asmarp" => do
    let u : ARP := { opcode := ← a.u8? "op", senderMAC := ← a.hex? "sm", senderIP := ← a.ip? "sip",
                     targetMAC := ← a.hex? "tm", targetIP := ← a.ip? "tip" }
    pure s!"ok {hex u.assemble}"
  | "asmdhcp" => do pure s!"ok {hex (← parseMsg a).assemble}"
  | "csum" => do pure s!"ok {ipv4csum (← a.hex? "b") (← a.nat? "acc")}"
  | "cid" => do pure s!"ok {hex (optClientIdentifier (← a.hex? "hw")).data}"
  | _ => none

end Driver
