import PsaDhcp.Model.Client
import PsaDhcp.Model.Sanitize
import PsaDhcp.Model.Automaton
import Driver.Util
import Driver.Codec
/-
Driver commands for the client streams (C14–C17).
-/
namespace Driver
open PsaDhcp

def parseWaiting (s : String) : Option Waiting :=
  match s.splitOn ":" with
  | [k, xid, off, ch] => do
    let x ← xid.toNat?
    let o ← parseIp off
    let c ← parseIp ch
    match k with
    | "offer" => some (.offer x)
    | "selecting" => some (.selectingAck o c x)
    | "renewing" => some (.renewingAck o c x)
    | "rebinding" => some (.rebindingAck o c x)
    | _ => none
  | _ => none

def ifconfigStr (c : Ifconfig) : String :=
  s!"mtu={c.mtu} router={ipStr c.router} ip={ipStr c.ip} mask={ipStr c.netmask} dns={ipsStr c.dns} domain={hex c.domain} lease={c.leaseSecs}"

def parseIfconfig (a : Args) : Option Ifconfig := do
  let dns ← (a.get? "dns").bind fun s => if s = "-" then some [] else (s.splitOn ",").mapM fun t => do let i ← parseIp t; i
  pure { mtu := ← a.nat? "mtu", router := ← a.ip? "router", ip := ← a.ip? "ip", netmask := ← a.ip? "mask", dns := dns,
         domain := ← a.hex? "domain", leaseSecs := ← a.nat? "lease" }

def hexList (l : List Bytes) : String := if l.isEmpty then "-" else String.intercalate ";" (l.map hex)

def parseHexList (s : String) : Option (List Bytes) := if s = "-" then some [] else (s.splitOn ";").mapM unhex

def cliCmd (cmd : String) (a : Args) : Option String :=
  match cmd with
  | "catch" => do
    let r := catchOne (← a.hex? "mac") (← (a.get? "w").bind parseWaiting) (← a.hex? "b")
    pure (match r with
      | .ok .ignored => "ignored"
      | .ok (.passed m o) => s!"passed {showMsg m} | {showDecoded o}"
      | .ok (.nack _ _) => "nack"
      | .error e => errStr e)
  | "tmpl" => do
    let st : ReqState ← match ← a.get? "st" with
      | "discover" => some .discover | "selecting" => some .selecting | "renewing" => some .renewing | "rebinding" => some .rebinding
      | _ => none
    let off ← a.ip? "off"
    let srv ← a.ip? "srv"
    let r := template st (← a.hex? "mac") (← a.nat? "xid") (← a.nat? "ident") (off.getD Ip4.zero) (srv.getD Ip4.zero)
    pure s!"ok {hex r.1} {match r.2 with | some (s, d) => hex s.bytes ++ ">" ++ hex d.bytes | none => "-"}"
  | "delayok" => do
    let p ← a.nat? "prev"
    let n ← a.nat? "next"
    -- next = prev + r % (1 + prev) for some r, or prev when at/over the barrier
    pure (if p < retransBarrier then (if p ≤ n ∧ n ≤ 2 * p then "ok" else "bad") else (if n = p then "ok" else "bad"))
  | "netcfg" => do
    let m ← parseMsg a
    let o := decodeOptions m.options
    let route ← a.nat? "route"
    pure (match buildNetconfig m o with
      | none => "panic:Routers[0]"
      | some c => "ok " ++ ifconfigStr (filterNetconfig (route = 1) c))
  | "deadlines" => do
    let o : DecodedOptions := { leaseSecs := ← a.nat? "lease", renewalSecs := ← a.nat? "t1", rebindSecs := ← a.nat? "t2" }
    let d := boundDeadlines o
    pure s!"ok t1={d.t1} t2={d.t2} tx={d.tx}"
  | "sanitize" => do
    let v ← a.hex? "v"
    pure s!"ok {hex (sanitize v.length v)}"
  | "envconf" => do pure s!"ok {hexList (dumpScriptConf (← parseIfconfig a))}"
  | "resolv" => do
    pure (match resolvRun (← (a.get? "env").bind parseHexList) with
      | none => "untouched"
      | some f => "ok " ++ hex f)
  | _ => none

end Driver

namespace Driver
open PsaDhcp

def ifcCompact (c : Ifconfig) : String :=
  s!"{ipStr c.ip}/{ipStr c.netmask}/{ipStr c.router}/{c.mtu}/{ipsStr c.dns}/{hex c.domain}/{c.leaseSecs}"

def reqStateStr : ReqState → String
  | .discover => "discover" | .selecting => "selecting" | .renewing => "renewing" | .rebinding => "rebinding"

/-- Effects as the harness can observe them: callbacks / frames / probes / deadlines in one log,
the libif operations in a second one (waits are not observable and not rendered). -/
def effStr : Eff → Option String
  | .preNil => some "preNil" | .postNil => some "postNil"
  | .send st off srv => some s!"send:{reqStateStr st}:{ipStr off}:{ipStr srv}"
  | .arpProbe ip => some s!"arp:{ipStr ip}"
  | .pre c => some s!"pre:{ifcCompact c}" | .post c => some s!"post:{ifcCompact c}"
  | .deadlines d => some s!"dl:{d.t1}:{d.t2}:{d.tx}"
  | .resume5s => some "rs:5000000000:5000000000:5000000000"
  | .fatalRoutersEmpty => some "fatal"
  | _ => none

def libifStr : Eff → Option String
  | .unconfigure => some "unconf" | .panicUnconfigure => some "unconf" | .up => some "up"
  | .setIface c => some s!"setiface:{ifcCompact c}"
  | _ => none

def parseCEv (s : String) : Option CEv :=
  match s.splitOn ":" with
  | ["A", h] => do
    let b ← unhex h
    match decode b with
    | .ok m => some (.accepted m (decodeOptions m.options))
    | .error _ => none
  | ["N"] => some .nack
  | ["D"] => some .deadline
  | ["P", "-"] => some (.arp none)
  | ["P", m] => do pure (.arp (some (← unhex m)))
  | ["I", "1"] => some (.ifaceResult true)
  | ["I", "0"] => some (.ifaceResult false)
  | ["T"] => some .t1
  | ["L"] => some .linkUp
  | _ => none

def autoCmd (a : Args) : Option String := do
  let mac ← a.hex? "mac"
  let route ← a.nat? "route"
  let evs ← (a.get? "evs").bind fun s => if s = "-" then some [] else (s.splitOn ";").mapM parseCEv
  let r := crun mac (route = 1) cinit.1 evs
  let all := cinit.2 ++ r.2
  -- view=wire: only what is visible without the callbacks (frames, probes) plus the libif operations
  let wire := (a.get? "view") = some "wire"
  let vis := all.filterMap fun e => match e with
    | .send .. | .arpProbe .. => effStr e
    | _ => if wire then none else effStr e
  pure ("ok " ++ String.intercalate "," vis ++ " | " ++ String.intercalate "," (all.filterMap libifStr))

end Driver
