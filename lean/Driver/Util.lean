import PsaDhcp.Model.Bytes
/-
Line-protocol helpers shared by the driver commands: hex, key=value arguments, rendering.
-/
namespace Driver
open PsaDhcp

def hexDigit (n : Nat) : Char :=
  if n < 10 then Char.ofNat (48 + n) else Char.ofNat (87 + n)

def hexByte (b : UInt8) : String :=
  String.ofList [hexDigit (b.toNat / 16), hexDigit (b.toNat % 16)]

/-- bytes → hex, empty → "-" -/
def hex (b : Bytes) : String :=
  if b.isEmpty then "-" else String.join (b.map hexByte)

def unhexDigit (c : Char) : Option Nat :=
  if '0' ≤ c ∧ c ≤ '9' then some (c.toNat - 48)
  else if 'a' ≤ c ∧ c ≤ 'f' then some (c.toNat - 87)
  else if 'A' ≤ c ∧ c ≤ 'F' then some (c.toNat - 55)
  else none

def unhexList : List Char → Option Bytes
  | [] => some []
  | h :: l :: r => do
    let a ← unhexDigit h
    let b ← unhexDigit l
    let rest ← unhexList r
    pure (UInt8.ofNat (a * 16 + b) :: rest)
  | _ => none

def unhex (s : String) : Option Bytes :=
  if s = "-" then some [] else unhexList s.toList

def ipStr (x : Option Ip4) : String :=
  match x with
  | none => "-"
  | some i => hex i.bytes

def parseIp (s : String) : Option (Option Ip4) :=
  if s = "-" then some none
  else match unhex s with
    | some [a, b, c, d] => some (some ⟨a, b, c, d⟩)
    | _ => none

def ipsStr (l : List Ip4) : String :=
  if l.isEmpty then "-" else String.intercalate "," (l.map (fun i => hex i.bytes))

/-- `k=v` arguments -/
abbrev Args := List (String × String)

def parseArgs (toks : List String) : Args :=
  toks.filterMap fun t =>
    match t.splitOn "=" with
    | [k, v] => some (k, v)
    | k :: v :: rest => some (k, String.intercalate "=" (v :: rest))
    | _ => none

def Args.get? (a : Args) (k : String) : Option String := (a.find? (·.1 = k)).map (·.2)

def Args.nat? (a : Args) (k : String) : Option Nat := (a.get? k).bind String.toNat?
def Args.int? (a : Args) (k : String) : Option Int := (a.get? k).bind String.toInt?
def Args.hex? (a : Args) (k : String) : Option Bytes := (a.get? k).bind unhex
def Args.ip? (a : Args) (k : String) : Option (Option Ip4) := (a.get? k).bind parseIp
def Args.u8? (a : Args) (k : String) : Option UInt8 := (a.nat? k).map UInt8.ofNat

def errStr : Err → String
  | .reject why => s!"reject:{why.replace " " "_"}"
  | .panic site => s!"panic:{site}"

end Driver
