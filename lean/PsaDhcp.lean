-- Root of the `PsaDhcp` library: models, specs, proofs and property theorems.
import PsaDhcp.Model.Bytes
import PsaDhcp.Model.Wire
import PsaDhcp.Model.Dhcp
import PsaDhcp.Model.Clients
import PsaDhcp.Model.Ipdb
import PsaDhcp.Model.Server
import PsaDhcp.Spec.Inet
import PsaDhcp.Spec.Rfc2131
import PsaDhcp.Spec.Table
import PsaDhcp.Props.C11
import PsaDhcp.Props.C12
import PsaDhcp.Props.C13
import PsaDhcp.Props.C14
import PsaDhcp.Props.C16
import PsaDhcp.Props.C17
import PsaDhcp.Expect
