-- Root of the `PsaDhcp` library: models, specs, proofs and property theorems.
import PsaDhcp.Model.Bytes
import PsaDhcp.Model.Wire
import PsaDhcp.Model.Dhcp
