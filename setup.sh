#!/bin/sh
# Builds the whole framework from files on disk only (offline): factgen, the Go->Lean translator, the Lean library with
# all property theorems, the core-only driver executable, and the harness test binary (-tags verif).
# VERIF_HOME / VERIF_REPO select a copy (sweeps beside ongoing work); the registered commands use /verif and /repo.
set -e
V=${VERIF_HOME:-/verif}
REPO=${VERIF_REPO:-/repo}
cd "$V"
export GOFLAGS=-mod=mod GOPROXY=off GOSUMDB=off GOTOOLCHAIN=local CGO_ENABLED=0
mkdir -p .build evidence
(cd factgen && go1.26.8 build -o "$V/.build/factgen" . && "$V/.build/factgen" "$REPO" "$V/lean/PsaDhcp/Generated/Facts.lean")
(cd xlate && go1.26.8 build -o "$V/.build/xlate" . && "$V/.build/xlate" "$REPO" "$V/lean/PsaDhcp/Generated/Code.lean" "$V/xlate/hints.json")
(cd lean && lake build PsaDhcp PsaDhcp.Expect driver)
cp "$REPO/go.sum" harness/go.sum
if [ "$V" != /verif ]; then sed -i "s#^replace git.sr.ht/~adrian-blx/psa-dhcp => .*#replace git.sr.ht/~adrian-blx/psa-dhcp => $REPO#" harness/go.mod; fi
(cd harness && go1.26.8 test -c -tags verif -o "$V/.build/hx.test" .)
(cd "$REPO" && go1.26.8 build -o "$V/.build/psa-dhcpc" cmd/psa-dhcpc.go)
echo setup-ok
