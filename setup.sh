#!/bin/sh
# Builds the whole framework from files on disk only (offline): factgen, the Lean library with all
# property theorems, the core-only driver executable, and the harness test binary (-tags verif).
set -e
cd /verif
export GOFLAGS=-mod=mod GOPROXY=off GOSUMDB=off GOTOOLCHAIN=local CGO_ENABLED=0
mkdir -p .build evidence
(cd factgen && go1.26.8 build -o /verif/.build/factgen . && /verif/.build/factgen /repo /verif/lean/PsaDhcp/Generated/Facts.lean)
(cd xlate && go1.26.8 build -o /verif/.build/xlate . && /verif/.build/xlate /repo /verif/lean/PsaDhcp/Generated/Code.lean /verif/xlate/hints.json)
(cd lean && lake build PsaDhcp PsaDhcp.Expect driver)
cp /repo/go.sum harness/go.sum
(cd harness && go1.26.8 test -c -tags verif -o /verif/.build/hx.test .)
(cd /repo && go1.26.8 build -o /verif/.build/psa-dhcpc cmd/psa-dhcpc.go)
echo setup-ok
