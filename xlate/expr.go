package main

import (
	"fmt"
	"go/ast"
	"go/constant"
	"go/token"
	"go/types"
	"strings"

	"golang.org/x/tools/go/packages"
)

// fctx: translation state of one function.
type fctx struct {
	x        *X
	fi       *FuncInfo
	info     *types.Info
	names    map[*types.Var]string
	used     map[string]int
	loopDefs []string
	nloops   int
	loop     *loopCtx // innermost enclosing loop, nil at function level
	tmp      int
	ptrBacks []*lval // per *T argument of the latest environment call: where the returned record goes (nil: nowhere)
	inDefer  bool
	defers   []*ast.FuncLit // deferred closures of the function being translated (run at every return, last first)
	lastCallRes []string // result projections of the latest callStmt with no left-hand side
	optVars  map[*types.Var]bool // locals holding a *T returned by a call: `Option T`, dereferenced explicitly
}

func (c *fctx) site(p token.Pos) string {
	f, l := posLine(c.x.fset, p)
	return fmt.Sprintf("\"%s:%d\"", f, l)
}

func (c *fctx) fresh(prefix string) string {
	c.tmp++
	return fmt.Sprintf("%s%d", prefix, c.tmp)
}

// varName: unique Lean identifier of a Go variable.
func (c *fctx) varName(v *types.Var) string {
	if n, ok := c.names[v]; ok {
		return n
	}
	base := leanIdent(v.Name())
	if base == "_" {
		base = "blank"
	}
	c.used[base]++
	n := base
	if c.used[base] > 1 {
		n = fmt.Sprintf("%s_%d", base, c.used[base])
	}
	c.names[v] = n
	return n
}

func (c *fctx) typeOf(e ast.Expr) types.Type {
	tv, ok := c.info.Types[e]
	if !ok {
		if id, ok := e.(*ast.Ident); ok {
			if o := c.info.ObjectOf(id); o != nil {
				return o.Type()
			}
		}
		bad("no type for expression at %s", c.site(e.Pos()))
	}
	return tv.Type
}

func (c *fctx) constLit(v constant.Value, t types.Type, pos token.Pos) string {
	switch k := c.x.kindOf(t); k {
	case kBool:
		if constant.BoolVal(v) {
			return "true"
		}
		return "false"
	case kU8, kU16, kU32, kU64:
		return fmt.Sprintf("(%s : %s)", v.ExactString(), uintName(k))
	case kInt:
		return fmt.Sprintf("(%s : Int)", v.ExactString())
	case kBytes:
		if v.Kind() == constant.String {
			s := constant.StringVal(v)
			var parts []string
			for i := 0; i < len(s); i++ {
				parts = append(parts, fmt.Sprintf("%d", s[i]))
			}
			return "([" + strings.Join(parts, ", ") + "] : Bytes)"
		}
	}
	bad("constant of type %s at %s", t.String(), c.site(pos))
	return ""
}

// toInt renders an integer-typed expression as a Lean Int.
func (c *fctx) toInt(e ast.Expr) string {
	s := c.expr(e)
	k := c.x.kindOf(c.typeOf(e))
	if k == kInt {
		return s
	}
	if isUint(k) {
		return "(Int.ofNat " + s + ".toNat)"
	}
	bad("index of type %s", c.typeOf(e).String())
	return ""
}

func (c *fctx) expr(e ast.Expr) string {
	if tv, ok := c.info.Types[e]; ok && tv.Value != nil {
		return c.constLit(tv.Value, tv.Type, e.Pos())
	}
	switch t := e.(type) {
	case *ast.ParenExpr:
		return c.expr(t.X)
	case *ast.Ident:
		if t.Name == "nil" {
			return c.nilOf(c.typeOf(e), e.Pos())
		}
		if t.Name == "true" || t.Name == "false" {
			return t.Name
		}
		if v, ok := c.info.Uses[t].(*types.Var); ok {
			if v.Parent() == v.Pkg().Scope() {
				return c.pkgVar(v, e.Pos())
			}
			return c.varName(v)
		}
		if fn, ok := c.info.Uses[t].(*types.Func); ok {
			if ci := c.x.funcs[fn]; ci != nil {
				return c.funcValue(ci)
			}
		}
		bad("identifier %s at %s", t.Name, c.site(e.Pos()))
	case *ast.SelectorExpr:
		if sel, ok := c.info.Selections[t]; ok && sel.Kind() == types.FieldVal {
			if c.x.fieldKind(sel.Type()) == kOther {
				bad("field %s of unsupported type %s", t.Sel.Name, sel.Type().String())
			}
			if id, ok := t.X.(*ast.Ident); ok && c.isOptVar(id) { // v.f with v a possibly-nil *T
				return fmt.Sprintf("(← Go.derefOpt %s %s).%s", c.expr(id), c.site(e.Pos()), leanIdent(t.Sel.Name))
			}
			if c.x.kindOf(c.typeOf(t.X)) == kHeapPtr { // p.f: read the record p points to
				c.useHeap()
				return fmt.Sprintf("(← Go.heapGet %s %s).%s", c.expr(t.X), c.site(e.Pos()), leanIdent(t.Sel.Name))
			}
			return c.expr(t.X) + "." + leanIdent(t.Sel.Name)
		}
		if v, ok := c.info.Uses[t.Sel].(*types.Var); ok {
			return c.pkgVar(v, e.Pos())
		}
		if fn, ok := c.info.Uses[t.Sel].(*types.Func); ok {
			if ci := c.x.funcs[fn]; ci != nil {
				return c.funcValue(ci)
			}
		}
		bad("selector %s at %s", t.Sel.Name, c.site(e.Pos()))
	case *ast.IndexExpr:
		if c.x.kindOf(c.typeOf(t.X)) == kMap { // m[k]: the zero value when absent
			return fmt.Sprintf("((Go.mapGet? %s %s).getD %s)", c.expr(t.X), c.expr(t.Index), c.x.zero(c.typeOf(e)))
		}
		if c.x.kindOf(c.typeOf(t.X)) != kBytes && c.x.kindOf(c.typeOf(t.X)) != kList {
			bad("index into %s", c.typeOf(t.X).String())
		}
		return fmt.Sprintf("(← Go.idx %s %s %s)", c.expr(t.X), c.toInt(t.Index), c.site(e.Pos()))
	case *ast.SliceExpr:
		return c.sliceExpr(t)
	case *ast.UnaryExpr:
		return c.unary(t)
	case *ast.BinaryExpr:
		return c.binary(t)
	case *ast.CallExpr:
		return c.call(t)
	case *ast.CompositeLit:
		return c.composite(t, c.typeOf(e))
	case *ast.StarExpr:
		if id, ok := t.X.(*ast.Ident); ok && c.isOptVar(id) {
			return fmt.Sprintf("(← Go.derefOpt %s %s)", c.expr(id), c.site(e.Pos()))
		}
		if c.x.kindOf(c.typeOf(t.X)) == kPtrStruct {
			return c.expr(t.X)
		}
	}
	bad("expression %T at %s", e, c.site(e.Pos()))
	return ""
}

// monad of the code being emitted right now (function or innermost loop body).
func (c *fctx) monad() string {
	switch {
	case c.fi.effectful:
		return "StateT σ R"
	case c.fi.heapful:
		return "StateT Heap R"
	}
	return "R"
}

func (c *fctx) isOptVar(id *ast.Ident) bool {
	v, ok := c.info.ObjectOf(id).(*types.Var)
	return ok && c.optVars[v]
}

func (c *fctx) useHeap() {
	c.fi.heapful = true
	c.x.heapUsed = true
}

func (c *fctx) nilOf(t types.Type, pos token.Pos) string {
	switch c.x.kindOf(t) {
	case kBytes:
		return "([] : Bytes)"
	case kList:
		return "([] : " + c.x.leanType(t, false) + ")"
	case kError:
		return "(none : GoErr)"
	case kPtrStruct, kRef:
		return "none"
	case kHeapPtr:
		return "(none : Go.Ptr)"
	}
	bad("nil of type %s at %s", t.String(), c.site(pos))
	return ""
}

// package-level variables with a known meaning
func (c *fctx) pkgVar(v *types.Var, pos token.Pos) string {
	switch v.Pkg().Path() + "." + v.Name() {
	case "net.IPv4bcast":
		return "(Go.netIPv4 255 255 255 255)"
	case "net.IPv4zero":
		return "(Go.netIPv4 0 0 0 0)"
	case "io.ErrShortWrite":
		return "(some \"short write\" : GoErr)"
	}
	if n, ok := c.x.gseen[v]; ok {
		return n
	}
	for _, p := range c.x.pkgs {
		if p.Types != v.Pkg() {
			continue
		}
		for _, f := range p.Syntax {
			for _, d := range f.Decls {
				gd, ok := d.(*ast.GenDecl)
				if !ok || gd.Tok != token.VAR {
					continue
				}
				for _, sp := range gd.Specs {
					vs := sp.(*ast.ValueSpec)
					for i, id := range vs.Names {
						if p.TypesInfo.Defs[id] != v || i >= len(vs.Values) || len(vs.Names) != len(vs.Values) {
							continue
						}
						if c.x.reassigned(p, v) {
							bad("package variable %s is assigned to", v.Name())
						}
						gc := &fctx{x: c.x, fi: &FuncInfo{pkg: p}, info: p.TypesInfo, names: map[*types.Var]string{}, used: map[string]int{}}
						val := gc.expr(vs.Values[i])
						if failing(val) {
							bad("initialiser of %s may panic", v.Name())
						}
						name := p.Name + ".var_" + v.Name()
						c.x.gseen[v] = "Gen." + name
						c.x.globals = append(c.x.globals, fmt.Sprintf("/-- package variable `%s.%s` (never assigned to) -/\ndef %s : %s := %s\n\n",
							p.Name, v.Name(), name, c.x.leanType(v.Type(), false), val))
						return "Gen." + name
					}
				}
			}
		}
	}
	bad("package variable %s.%s at %s", v.Pkg().Path(), v.Name(), c.site(pos))
	return ""
}

// reassigned: is the package-level variable v ever the target of an assignment in its package?
func (x *X) reassigned(p *packages.Package, v *types.Var) bool {
	found := false
	for _, f := range p.Syntax {
		ast.Inspect(f, func(n ast.Node) bool {
			switch n := n.(type) {
			case *ast.AssignStmt:
				for _, l := range n.Lhs {
					if rootVar(p.TypesInfo, l) == v {
						found = true
					}
				}
			case *ast.IncDecStmt:
				if rootVar(p.TypesInfo, n.X) == v {
					found = true
				}
			case *ast.UnaryExpr:
				if n.Op == token.AND && rootVar(p.TypesInfo, n.X) == v {
					found = true
				}
			}
			return true
		})
	}
	return found
}

func (c *fctx) sliceExpr(t *ast.SliceExpr) string {
	if t.Slice3 {
		bad("3-index slice at %s", c.site(t.Pos()))
	}
	k := c.x.kindOf(c.typeOf(t.X))
	if k != kBytes && k != kList {
		bad("slice of %s", c.typeOf(t.X).String())
	}
	xs := c.expr(t.X)
	switch {
	case t.Low == nil && t.High == nil:
		return xs
	case t.High == nil:
		return fmt.Sprintf("(← Go.sliceFrom %s %s %s)", xs, c.toInt(t.Low), c.site(t.Pos()))
	case t.Low == nil:
		return fmt.Sprintf("(← Go.sliceTo %s %s %s)", xs, c.toInt(t.High), c.site(t.Pos()))
	}
	return fmt.Sprintf("(← Go.slice %s %s %s %s)", xs, c.toInt(t.Low), c.toInt(t.High), c.site(t.Pos()))
}

func (c *fctx) unary(t *ast.UnaryExpr) string {
	k := c.x.kindOf(c.typeOf(t))
	switch t.Op {
	case token.NOT:
		return "(!" + c.expr(t.X) + ")"
	case token.SUB:
		if k == kInt {
			return "(-" + c.expr(t.X) + ")"
		}
		if isUint(k) {
			return "(0 - " + c.expr(t.X) + ")"
		}
	case token.XOR:
		if isUint(k) {
			return "(~~~" + c.expr(t.X) + ")"
		}
	case token.AND:
		if _, ok := t.X.(*ast.CompositeLit); ok && c.x.kindOf(c.typeOf(t)) == kPtrStruct {
			return c.expr(t.X)
		}
		if id, ok := t.X.(*ast.Ident); ok && c.x.kindOf(c.typeOf(t)) == kPtrStruct && !c.isOptVar(id) { // &x read by the callee
			return c.expr(id)
		}
		if _, ok := t.X.(*ast.CompositeLit); ok && c.x.kindOf(c.typeOf(t)) == kHeapPtr { // &client{...}: a new record
			c.useHeap()
			return "(← Go.heapAlloc " + c.expr(t.X) + ")"
		}
	}
	bad("unary %s at %s", t.Op, c.site(t.Pos()))
	return ""
}

// failing: does the translation of e contain a partial operation (so that its evaluation must
// not be hoisted past a short-circuit)?
func failing(s string) bool { return strings.Contains(s, "(← ") }

func (c *fctx) binary(t *ast.BinaryExpr) string {
	switch t.Op {
	case token.LAND, token.LOR:
		a, b := c.expr(t.X), c.expr(t.Y)
		if failing(b) { // keep Go's short-circuit: the right operand may panic (or act on the world)
			m := c.monad() + " Bool"
			if t.Op == token.LAND {
				return fmt.Sprintf("(← (do if %s then pure %s else pure false : %s))", a, b, m)
			}
			return fmt.Sprintf("(← (do if %s then pure true else pure %s : %s))", a, b, m)
		}
		if t.Op == token.LAND {
			return "(" + a + " && " + b + ")"
		}
		return "(" + a + " || " + b + ")"
	case token.EQL, token.NEQ:
		if isNil(t.Y) || isNil(t.X) {
			o := t.X
			if isNil(t.X) {
				o = t.Y
			}
			var s string
			switch c.x.kindOf(c.typeOf(o)) {
			case kBytes, kList:
				s = c.expr(o) + ".isEmpty"
			case kError, kRef, kHeapPtr:
				s = c.expr(o) + ".isNone"
			case kPtrStruct:
				id, ok := o.(*ast.Ident)
				if !ok || !c.isOptVar(id) {
					bad("nil comparison of %s at %s", c.typeOf(o).String(), c.site(t.Pos()))
				}
				s = c.expr(o) + ".isNone"
			default:
				bad("nil comparison of %s at %s", c.typeOf(o).String(), c.site(t.Pos()))
			}
			if t.Op == token.NEQ {
				return "(!" + s + ")"
			}
			return "(" + s + ")"
		}
		switch c.x.kindOf(c.typeOf(t.X)) {
		case kBool, kU8, kU16, kU32, kU64, kInt, kBytes, kHeapPtr:
		case kError: // sentinel errors: identity of an error value is the identity of its message (trusted)
		case kRef: // pointer identity
			if t.Op == token.EQL {
				return "(Go.refEq " + c.expr(t.X) + " " + c.expr(t.Y) + ")"
			}
			return "(!(Go.refEq " + c.expr(t.X) + " " + c.expr(t.Y) + "))"
		default:
			bad("comparison of %s at %s", c.typeOf(t.X).String(), c.site(t.Pos()))
		}
		if t.Op == token.EQL {
			return "(" + c.expr(t.X) + " == " + c.expr(t.Y) + ")"
		}
		return "(" + c.expr(t.X) + " != " + c.expr(t.Y) + ")"
	case token.LSS, token.LEQ, token.GTR, token.GEQ:
		k := c.x.kindOf(c.typeOf(t.X))
		if k != kInt && !isUint(k) {
			bad("ordering of %s", c.typeOf(t.X).String())
		}
		op := map[token.Token]string{token.LSS: "<", token.LEQ: "≤", token.GTR: ">", token.GEQ: "≥"}[t.Op]
		return "(decide (" + c.expr(t.X) + " " + op + " " + c.expr(t.Y) + "))"
	case token.SHL, token.SHR:
		k := c.x.kindOf(c.typeOf(t))
		tv := c.info.Types[t.Y]
		if !isUint(k) || tv.Value == nil {
			bad("shift of %s by a non-constant at %s", c.typeOf(t).String(), c.site(t.Pos()))
		}
		n, _ := constant.Int64Val(tv.Value)
		if n < 0 || int(n) >= uintBits(k) {
			return "(0 : " + uintName(k) + ")"
		}
		op := "<<<"
		if t.Op == token.SHR {
			op = ">>>"
		}
		return fmt.Sprintf("(%s %s (%d : %s))", c.expr(t.X), op, n, uintName(k))
	}
	k := c.x.kindOf(c.typeOf(t))
	a, b := c.expr(t.X), c.expr(t.Y)
	if isUint(k) {
		switch t.Op {
		case token.ADD, token.SUB, token.MUL:
			return "(" + a + " " + t.Op.String() + " " + b + ")"
		case token.AND:
			return "(" + a + " &&& " + b + ")"
		case token.OR:
			return "(" + a + " ||| " + b + ")"
		case token.XOR:
			return "(" + a + " ^^^ " + b + ")"
		case token.AND_NOT:
			return "(" + a + " &&& ~~~" + b + ")"
		case token.QUO, token.REM:
			if tv := c.info.Types[t.Y]; tv.Value != nil && constant.Sign(tv.Value) != 0 {
				return "(" + a + " " + t.Op.String() + " " + b + ")"
			}
		}
	}
	if k == kInt {
		switch t.Op {
		case token.ADD, token.SUB, token.MUL:
			return "(" + a + " " + t.Op.String() + " " + b + ")"
		case token.QUO, token.REM:
			if tv := c.info.Types[t.Y]; tv.Value != nil && constant.Sign(tv.Value) != 0 {
				if t.Op == token.QUO {
					return "(Int.tdiv " + a + " " + b + ")"
				}
				return "(Int.tmod " + a + " " + b + ")"
			}
			if t.Op == token.REM { // a non-constant divisor: division by zero is a Go panic
				return fmt.Sprintf("(← Go.remInt %s %s %s)", a, b, c.site(t.Pos()))
			}
		}
	}
	if k == kBytes && t.Op == token.ADD {
		return "(" + a + " ++ " + b + ")"
	}
	bad("binary %s on %s at %s", t.Op, c.typeOf(t).String(), c.site(t.Pos()))
	return ""
}

func fieldByName(t types.Type, name string) *types.Var {
	st, ok := t.Underlying().(*types.Struct)
	if !ok {
		return nil
	}
	for i := 0; i < st.NumFields(); i++ {
		if st.Field(i).Name() == name {
			return st.Field(i)
		}
	}
	return nil
}

func isNil(e ast.Expr) bool {
	id, ok := e.(*ast.Ident)
	return ok && id.Name == "nil"
}

func (c *fctx) composite(t *ast.CompositeLit, ty types.Type) string {
	switch c.x.kindOf(ty) {
	case kBytes, kList:
		var parts []string
		for _, el := range t.Elts {
			if _, ok := el.(*ast.KeyValueExpr); ok {
				bad("keyed slice literal at %s", c.site(t.Pos()))
			}
			parts = append(parts, c.expr(el))
		}
		return "([" + strings.Join(parts, ", ") + "] : " + c.x.leanType(ty, false) + ")"
	case kStruct:
		name := c.x.structName(ty)
		if len(t.Elts) == 0 {
			return name + ".zero"
		}
		var parts []string
		for _, el := range t.Elts {
			kv, ok := el.(*ast.KeyValueExpr)
			if !ok {
				bad("positional struct literal at %s", c.site(t.Pos()))
			}
			if fld := fieldByName(ty, kv.Key.(*ast.Ident).Name); fld != nil && c.x.fieldKind(fld.Type()) == kOther {
				continue // a field the translation does not represent (context, logger, pointer to another layer's state)
			}
			parts = append(parts, leanIdent(kv.Key.(*ast.Ident).Name)+" := "+c.expr(kv.Value))
		}
		return "{ " + name + ".zero with " + strings.Join(parts, ", ") + " }"
	}
	bad("composite literal of %s at %s", ty.String(), c.site(t.Pos()))
	return ""
}
