// xlate — a small Go→Lean translator for the pure codec core of psa-dhcp.
//
//	xlate <repo> <out.lean> [<hints.json>]
//
// It type-checks the packages of <repo> (go/packages, default build tags, i.e. WITHOUT the verif
// hooks), translates the functions listed in `targets` into shallow Lean 4 definitions over the
// primitives of PsaDhcp/Go/Prelude.lean and writes them to <out.lean>.  A function that uses a
// construct outside the supported subset is not emitted; a comment `-- UNSUPPORTED` names the
// reason, and the equivalence theorems that mention it stop compiling (a broken obligation).
package main

import (
	"encoding/json"
	"fmt"
	"go/ast"
	"go/token"
	"go/types"
	"os"
	"sort"
	"strings"

	"golang.org/x/tools/go/packages"
)

const modPath = "git.sr.ht/~adrian-blx/psa-dhcp/"

// target functions, per package (methods as Type.Method). Order is irrelevant: emission is
// topologically sorted by calls.
var targets = map[string][]string{
	"lib/layer":           {"setV4Checksum", "ipv4csum", "udp4csum", "pseudohdrcsum", "UDP.Assemble", "DecodeUDP", "IPv4.Assemble", "DecodeIPv4", "ARP.Assemble", "DecodeARP"},
	"lib/server/ipdb/uip": {"Uip.ToV4", "Uip.Valid", "Uip.String"},
	"lib/server/ipdb": {"New", "fromTo", "IPDB.toUip", "IPDB.InManagedRange", "IPDB.SetDynamicRange", "IPDB.DisableDynamic",
		"IPDB.LookupClientByDuid", "IPDB.AddPermanentClient", "IPDB.UpdateClient", "IPDB.FindIP"},
	"lib/server/replies":  {"assembleUdp", "dstFromFlag", "AssembleOffer", "AssembleACK", "AssembleNACK"},
	"lib/server/ipdb/duid": {"Duid.String"},
	"lib/server/ipdb/clients": {"NewClients", "Clients.Lookup", "Clients.InjectPermanent", "Clients.Inject", "Clients.injectInternal",
		"Clients.SetLease", "Clients.Expire", "client.Uip", "client.LeasedUntil"},
	"lib/arpping":         {"catchARPReply", "Ping", "sendARPPing"},
	"lib/client/callback": {"dumpScriptConf", "envEntry"},
	"lib/resolvconf":      {"Run", "update"},
	"lib/client/dclient": {"catchReply", "sendMessage", "sendSocket", "dclient.Run", "dclient.ResumeClient", "dclient.buildNetconfig", "dclient.runStateDiscovering", "dclient.runStateSelecting",
		"dclient.runStateBound", "dclient.runStateRenewing", "dclient.runStateRebinding", "dclient.runStatePurgeInterface", "dclient.runStateIfconfig",
		"dclient.runStateArpCheck", "dclient.panicReset"},
	"lib/server/leaseopts": {"ParseConfig", "SetClientOverrides", "representable", "ipv4"},
	"lib/server":          {"New", "duidFromHwAddr", "server.dhcpOptions", "server.Run", "server.arpVerify", "server.getDuid", "server.handleMsg", "server.handleDiscover", "server.handleRequest", "server.sendNACK", "server.sendMsg", "server.sendUnicast"},
	"lib/client/verify":   {"verifyCommon", "verifyGenAck", "VerifyOffer", "VerifySelectingAck", "VerifyRenewingAck", "VerifyRebindingAck"},
	"lib/client/msgtmpl":  {"tmpl.request"},
	"lib/dhcpmsg": {"Decode", "Message.Assemble", "setU16Int", "setU32Int", "setIPv4", "OptionType", "OptionHostname", "OptionDomainName",
		"OptionServerIdentifier", "OptionRequestedIP", "OptionRouter", "OptionDNS", "OptionNTP", "optIP", "OptionMaxMessageSize",
		"OptionInterfaceMTU", "OptionClientIdentifier", "OptionParametersList", "OptionSubnetMask", "OptionIPAddressLeaseDuration",
		"DecodeOptions", "toUint8", "toUint16", "toDuration", "toString", "toNetmask", "toV4", "toV4A"},
}

type X struct {
	fset    *token.FileSet
	pkgs    []*packages.Package
	funcs   map[*types.Func]*FuncInfo
	structs map[*types.Named]bool
	order   []*types.Named
	hints   map[string]string
	globals []string
	gseen   map[*types.Var]string
	envOps  []envOp
	heapUsed bool
	curPkg  string // package whose code is being translated (decides how *clients.client is represented)
}

type FuncInfo struct {
	decl      *ast.FuncDecl
	pkg       *packages.Package
	obj       *types.Func
	lean      string // fully qualified Lean name below PsaDhcp.Gen
	mayFail   bool
	mutParams []int // indices (in the Lean parameter list, receiver first) of slice parameters whose elements are written
	calls     []*types.Func
	text      string
	err       string
	// shape of the translated function (differs from decl for closure-returning functions)
	params    []*types.Var  // receiver, parameters, then the parameters of the returned func literal
	fwd       []types.Type  // forwarder (`return g(args)` with g closure-returning): types of the extra parameters passed on
	fwdCall   *ast.CallExpr // the call being forwarded
	results   *types.Tuple  // results of the translated function
	body      []ast.Stmt    // statements of the translated function
	oracles   []oracle      // external nondeterministic values (math/rand) turned into trailing parameters
	closure   bool          // the Go function returns a func value (the translation is its uncurried form)
	effectful bool          // uses the environment `E` (lives in StateT σ R)
	heapful   bool          // dereferences / allocates records of the clients table (lives in StateT Heap R)
}

type oracle struct{ name, typ string }

func main() {
	repo, out := os.Args[1], os.Args[2]
	x := &X{funcs: map[*types.Func]*FuncInfo{}, structs: map[*types.Named]bool{}, hints: map[string]string{}, gseen: map[*types.Var]string{}}
	if len(os.Args) > 3 {
		if b, err := os.ReadFile(os.Args[3]); err == nil {
			if err := json.Unmarshal(b, &x.hints); err != nil {
				fatal("hints: %v", err)
			}
		}
	}
	var pats []string
	for p := range targets {
		pats = append(pats, "./"+p)
	}
	sort.Strings(pats)
	cfg := &packages.Config{Mode: packages.NeedName | packages.NeedFiles | packages.NeedSyntax | packages.NeedTypes | packages.NeedTypesInfo | packages.NeedImports | packages.NeedDeps, Dir: repo}
	pkgs, err := packages.Load(cfg, pats...)
	if err != nil {
		fatal("load: %v", err)
	}
	x.pkgs = pkgs
	for _, p := range pkgs {
		if len(p.Errors) > 0 {
			fatal("package %s: %v", p.PkgPath, p.Errors)
		}
		x.fset = p.Fset
		want := map[string]bool{}
		for _, n := range targets[strings.TrimPrefix(p.PkgPath, modPath)] {
			want[n] = true
		}
		for _, f := range p.Syntax {
			for _, d := range f.Decls {
				fd, ok := d.(*ast.FuncDecl)
				if !ok || fd.Body == nil {
					continue
				}
				name := fd.Name.Name
				if fd.Recv != nil && len(fd.Recv.List) == 1 {
					name = recvTypeName(fd.Recv.List[0].Type) + "." + name
				}
				if !want[name] {
					continue
				}
				delete(want, name)
				obj := p.TypesInfo.Defs[fd.Name].(*types.Func)
				x.funcs[obj] = &FuncInfo{decl: fd, pkg: p, obj: obj, lean: p.Name + "." + strings.ReplaceAll(name, ".", "_")}
			}
		}
		for n := range want {
			fmt.Fprintf(os.Stderr, "xlate: target %s.%s not found\n", p.PkgPath, n)
		}
	}
	for _, fi := range x.funcs {
		x.shape(fi, 0)
	}
	x.analyse()
	var sb strings.Builder
	sb.WriteString("import PsaDhcp.Go.Prelude\n/-\nGENERATED by /verif/xlate from /repo's current working tree on every check — do not edit.\nShallow translation of the Go functions named in xlate/main.go (`targets`).\n-/\nset_option linter.unusedVariables false\nnamespace PsaDhcp.Gen\nopen PsaDhcp PsaDhcp.Go\n\n")
	// translate bodies first (discovers the struct types that are needed)
	fis := x.sorted()
	for _, fi := range fis {
		x.curPkg = fi.pkg.PkgPath
		curPkgForEffects = fi.pkg.PkgPath
		x.translate(fi)
	}
	for _, n := range x.order {
		sb.WriteString(x.structDef(n))
	}
	for _, g := range x.globals {
		sb.WriteString(g)
	}
	if x.heapUsed {
		sb.WriteString("/-- The records of the clients table: a `*client` is nil or an index into this list (allocation appends). -/\nabbrev Heap := List clients.client\n\n")
	}
	sb.WriteString(x.envDef())
	var report []string
	for _, fi := range fis {
		if fi.err != "" {
			sb.WriteString(fmt.Sprintf("-- UNSUPPORTED %s: %s\n\n", fi.lean, fi.err))
			report = append(report, fi.lean+": "+fi.err)
			continue
		}
		sb.WriteString(fi.text)
		sb.WriteString("\n")
	}
	sb.WriteString("end PsaDhcp.Gen\n")
	old, _ := os.ReadFile(out)
	if string(old) != sb.String() {
		if err := os.WriteFile(out, []byte(sb.String()), 0o644); err != nil {
			fatal("%v", err)
		}
	}
	for _, r := range report {
		fmt.Fprintln(os.Stderr, "xlate: unsupported:", r)
	}
	fmt.Printf("xlate: %d functions translated, %d unsupported\n", len(fis)-len(report), len(report))
}

func fatal(f string, a ...any) {
	fmt.Fprintf(os.Stderr, "xlate: "+f+"\n", a...)
	os.Exit(2)
}

func recvTypeName(e ast.Expr) string {
	switch t := e.(type) {
	case *ast.StarExpr:
		return recvTypeName(t.X)
	case *ast.Ident:
		return t.Name
	}
	return "?"
}

// sorted returns the functions so that callees precede callers (ties by name).
func (x *X) sorted() []*FuncInfo {
	var all []*FuncInfo
	for _, fi := range x.funcs {
		all = append(all, fi)
	}
	sort.Slice(all, func(i, j int) bool { return all[i].lean < all[j].lean })
	var out []*FuncInfo
	state := map[*FuncInfo]int{}
	var visit func(fi *FuncInfo)
	visit = func(fi *FuncInfo) {
		if state[fi] != 0 {
			return
		}
		state[fi] = 1
		for _, c := range fi.calls {
			if ci := x.funcs[c]; ci != nil {
				visit(ci)
			}
		}
		state[fi] = 2
		out = append(out, fi)
	}
	for _, fi := range all {
		visit(fi)
	}
	return out
}

// shape determines parameters, results and body of the translated function. A function whose body
// is `return func(p...) R {...}` is translated in uncurried form (outer parameters, then p...);
// `return g(args)` with g such a function forwards the remaining parameters.
func (x *X) shape(fi *FuncInfo, depth int) {
	if fi.results != nil || fi.body != nil || depth > 8 {
		return
	}
	sig := fi.obj.Type().(*types.Signature)
	if sig.Recv() != nil {
		fi.params = append(fi.params, sig.Recv())
	}
	for i := 0; i < sig.Params().Len(); i++ {
		if !dropped(sig.Params().At(i).Type()) {
			fi.params = append(fi.params, sig.Params().At(i))
		}
	}
	fi.results, fi.body = sig.Results(), fi.decl.Body.List
	if sig.Results().Len() != 1 {
		return
	}
	rsig, ok := sig.Results().At(0).Type().Underlying().(*types.Signature)
	if !ok {
		return
	}
	fi.closure = true
	fi.results = rsig.Results()
	fi.body = nil
	if len(fi.decl.Body.List) != 1 {
		fi.err = "closure-returning function with more than a return statement"
		return
	}
	ret, ok := fi.decl.Body.List[0].(*ast.ReturnStmt)
	if !ok || len(ret.Results) != 1 {
		fi.err = "closure-returning function with more than a return statement"
		return
	}
	switch r := ret.Results[0].(type) {
	case *ast.FuncLit:
		for _, f := range r.Type.Params.List {
			for _, id := range f.Names {
				if v := fi.pkg.TypesInfo.Defs[id].(*types.Var); !dropped(v.Type()) {
					fi.params = append(fi.params, v)
				}
			}
		}
		fi.body = r.Body.List
	case *ast.CallExpr:
		g := calleeFunc(fi.pkg.TypesInfo, r)
		gi := x.funcs[g]
		if gi == nil {
			fi.err = "forwards to a function that is not translated"
			return
		}
		x.shape(gi, depth+1)
		for i := 0; i < rsig.Params().Len(); i++ {
			fi.fwd = append(fi.fwd, rsig.Params().At(i).Type())
		}
		fi.fwdCall = r
	default:
		fi.err = "closure-returning function of unsupported shape"
	}
}
