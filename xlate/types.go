package main

import (
	"fmt"
	"go/types"
	"strings"
)

type unsupported struct{ why string }

func bad(f string, a ...any) { panic(unsupported{fmt.Sprintf(f, a...)}) }

// kind of a Go type as the translation sees it.
type kind int

const (
	kBool kind = iota
	kU8
	kU16
	kU32
	kU64
	kInt // int, int64, time.Duration, int32 (unbounded Int)
	kBytes
	kList
	kStruct
	kPtrStruct
	kError
	kIface // net.Interface / *net.Interface (Go.NetInterface of the Prelude)
	kFunc  // a function value (always monadic: its result is `R T`)
	kMap   // map[string]T: an association list (Go.Map T); iteration order is never observed by translated code
	kHeapPtr // *clients.client inside package clients: nil or an index into the heap of records (Go.Ptr)
	kRegex // *regexp.Regexp compiled from a constant character-class pattern (Go.Regex)
	kSock  // *os.File / *rsocks.rssock: a socket handle (Go.Sock; what is read and written goes through the environment)
	kRef   // *clients.client seen from outside its package: an opaque record reference (Go.ClientRef snapshot or nil)
	kOther
)

func (x *X) kindOf(t types.Type) kind {
	if n, ok := t.(*types.Named); ok && n.Obj().Name() == "error" && n.Obj().Pkg() == nil {
		return kError
	}
	if strings.TrimPrefix(t.String(), "*") == "net.Interface" {
		return kIface
	}
	if t.String() == "*os.File" || t.String() == "*"+modPath+"lib/rsocks.rssock" || t.String() == "*"+modPath+"lib/rsocks.rrsock" || t.String() == modPath+"lib/client/dclient.ssock" {
		return kSock
	}
	if t.String() == "*net.IPNet" || t.String() == "net.IPNet" {
		if _, isPtr := t.(*types.Pointer); isPtr {
			return kPtrStruct
		}
		return kStruct
	}
	if t.String() == "*regexp.Regexp" {
		return kRegex
	}
	if t.String() == "time.Time" {
		return kInt // nanoseconds since the Unix epoch (monotonic reading ignored; trusted)
	}
	if t.String() == "*"+modPath+"lib/server/ipdb/clients.client" {
		if x.curPkg == modPath+"lib/server/ipdb/clients" {
			return kHeapPtr
		}
		return kRef
	}
	switch u := t.Underlying().(type) {
	case *types.Signature:
		return kFunc
	case *types.Basic:
		switch u.Kind() {
		case types.Bool, types.UntypedBool:
			return kBool
		case types.Uint8:
			return kU8
		case types.Uint16:
			return kU16
		case types.Uint32:
			return kU32
		case types.Uint64, types.Uint:
			return kU64
		case types.Int, types.Int64, types.Int32, types.UntypedInt, types.UntypedRune:
			return kInt
		case types.String, types.UntypedString:
			return kBytes
		}
	case *types.Slice:
		if b, ok := u.Elem().Underlying().(*types.Basic); ok && b.Kind() == types.Uint8 {
			return kBytes
		}
		return kList
	case *types.Array:
		if b, ok := u.Elem().Underlying().(*types.Basic); ok && b.Kind() == types.Uint8 {
			return kBytes
		}
		if ek := x.kindOf(u.Elem()); ek == kHeapPtr { // [N]*client: a list of that length
			return kList
		}
	case *types.Map:
		if b, ok := u.Key().Underlying().(*types.Basic); ok && b.Kind() == types.String {
			if ek := x.kindOf(u.Elem()); ek != kOther && ek != kPtrStruct && ek != kFunc && ek != kRef {
				return kMap
			}
			// map[string]*T of configuration records (protobuf): the values are never nil (trusted: the text parser)
			if x.kindOf(u.Elem()) == kPtrStruct && strings.Contains(u.Elem().String(), "/lib/server/proto.") {
				return kMap
			}
		}
	case *types.Struct:
		if inModule(t) {
			return kStruct
		}
	case *types.Pointer:
		if _, ok := u.Elem().Underlying().(*types.Struct); ok && inModule(u.Elem()) {
			return kPtrStruct
		}
	case *types.Interface:
		if t.String() == "error" {
			return kError
		}
	}
	return kOther
}

// inModule: a named type declared in the repository (standard-library structs such as sync.RWMutex are not modelled).
func inModule(t types.Type) bool {
	n, ok := t.(*types.Named)
	return ok && n.Obj().Pkg() != nil && strings.HasPrefix(n.Obj().Pkg().Path()+"/", modPath)
}

// fieldKind: like kindOf, but a pointer field is never representable (it would alias).
func (x *X) fieldKind(t types.Type) kind {
	if k := x.kindOf(t); k != kPtrStruct && k != kFunc {
		return k
	}
	return kOther
}

func uintName(k kind) string {
	return map[kind]string{kU8: "UInt8", kU16: "UInt16", kU32: "UInt32", kU64: "UInt64"}[k]
}

func uintBits(k kind) int { return map[kind]int{kU8: 8, kU16: 16, kU32: 32, kU64: 64}[k] }

func isUint(k kind) bool { return k == kU8 || k == kU16 || k == kU32 || k == kU64 }

// leanType: the Lean type of a Go type. `result` selects the representation of *T in result
// position (Option T); elsewhere a pointer to a struct is the struct itself (non-nil locals).
func (x *X) leanType(t types.Type, result bool) string {
	switch k := x.kindOf(t); k {
	case kBool:
		return "Bool"
	case kU8, kU16, kU32, kU64:
		return uintName(k)
	case kInt:
		return "Int"
	case kBytes:
		return "Bytes"
	case kError:
		return "GoErr"
	case kIface:
		return "Go.NetInterface"
	case kRef:
		return "(Option Go.ClientRef)"
	case kSock:
		return "Go.Sock"
	case kRegex:
		return "Go.Regex"
	case kFunc:
		sig := t.Underlying().(*types.Signature)
		var parts []string
		for i := 0; i < sig.Params().Len(); i++ {
			if isContext(sig.Params().At(i).Type()) {
				continue
			}
			parts = append(parts, x.leanType(sig.Params().At(i).Type(), false))
		}
		var rs []string
		for i := 0; i < sig.Results().Len(); i++ {
			rs = append(rs, x.leanType(sig.Results().At(i).Type(), true))
		}
		m := "R "
		if effectfulCallback(t) { // a callback that is handed the context acts on the world (ARP probe)
			m = "StateT σ R "
		}
		return "(" + strings.Join(append(parts, m+tupleType(rs)), " → ") + ")"
	case kList:
		return "(List " + x.leanType(elemOf(t), false) + ")"
	case kHeapPtr:
		return "Go.Ptr"
	case kMap:
		return "(Go.Map " + x.leanType(t.Underlying().(*types.Map).Elem(), false) + ")"
	case kStruct:
		return x.structName(t)
	case kPtrStruct:
		n := x.structName(t.Underlying().(*types.Pointer).Elem())
		if result {
			return "(Option " + n + ")"
		}
		return n
	}
	bad("type %s", t.String())
	return ""
}

// effectfulCallback: a function type one of whose parameters is a context.Context.
func effectfulCallback(t types.Type) bool {
	sig, ok := t.Underlying().(*types.Signature)
	if !ok {
		return false
	}
	for i := 0; i < sig.Params().Len(); i++ {
		if isContext(sig.Params().At(i).Type()) {
			return true
		}
	}
	return false
}

// elemOf: element type of a slice or array.
func elemOf(t types.Type) types.Type {
	switch u := t.Underlying().(type) {
	case *types.Slice:
		return u.Elem()
	case *types.Array:
		return u.Elem()
	}
	return nil
}

func (x *X) structName(t types.Type) string {
	if t.String() == "net.IPNet" {
		return "Go.IPNet"
	}
	n, ok := t.(*types.Named)
	if !ok {
		bad("anonymous struct %s", t.String())
	}
	x.needStruct(n)
	return n.Obj().Pkg().Name() + "." + n.Obj().Name()
}

func (x *X) needStruct(n *types.Named) {
	if x.structs[n] {
		return
	}
	x.structs[n] = true
	save := x.curPkg
	x.curPkg = n.Obj().Pkg().Path()
	defer func() { x.curPkg = save }()
	st := n.Underlying().(*types.Struct)
	for i := 0; i < st.NumFields(); i++ { // dependencies first
		if x.fieldKind(st.Field(i).Type()) != kOther {
			x.leanType(st.Field(i).Type(), false)
		}
	}
	x.order = append(x.order, n)
}

func (x *X) zero(t types.Type) string {
	switch k := x.kindOf(t); k {
	case kBool:
		return "false"
	case kU8, kU16, kU32, kU64:
		return "(0 : " + uintName(k) + ")"
	case kInt:
		return "(0 : Int)"
	case kBytes:
		if a, ok := t.Underlying().(*types.Array); ok {
			return fmt.Sprintf("(List.replicate %d (0 : UInt8))", a.Len())
		}
		return "([] : Bytes)"
	case kError:
		return "(none : GoErr)"
	case kIface:
		return "Go.NetInterface.zero"
	case kRef:
		return "(none : Option Go.ClientRef)"
	case kSock:
		return "()"
	case kList, kMap:
		if a, ok := t.Underlying().(*types.Array); ok {
			return fmt.Sprintf("(List.replicate %d %s)", a.Len(), x.zero(a.Elem()))
		}
		return "([] : " + x.leanType(t, false) + ")"
	case kHeapPtr:
		return "(none : Go.Ptr)"
	case kStruct:
		return x.structName(t) + ".zero"
	case kPtrStruct:
		return x.structName(t.Underlying().(*types.Pointer).Elem()) + ".zero"
	}
	bad("zero value of %s", t.String())
	return ""
}

func (x *X) structDef(n *types.Named) string {
	x.curPkg = n.Obj().Pkg().Path()
	st := n.Underlying().(*types.Struct)
	name := n.Obj().Pkg().Name() + "." + n.Obj().Name()
	var sb strings.Builder
	fmt.Fprintf(&sb, "structure %s where\n", name)
	for i := 0; i < st.NumFields(); i++ {
		f := st.Field(i)
		if x.fieldKind(f.Type()) == kOther { // e.g. sync.RWMutex, *clients.Clients: not representable, never read by translated code
			fmt.Fprintf(&sb, "  -- field %s : %s omitted\n", f.Name(), f.Type().String())
			continue
		}
		fmt.Fprintf(&sb, "  %s : %s\n", leanIdent(f.Name()), x.leanType(f.Type(), false))
	}
	sb.WriteString("deriving DecidableEq, Repr\n\n")
	fmt.Fprintf(&sb, "def %s.zero : %s :=\n  { ", name, name)
	first := true
	for i := 0; i < st.NumFields(); i++ {
		f := st.Field(i)
		if x.fieldKind(f.Type()) == kOther {
			continue
		}
		if !first {
			sb.WriteString(", ")
		}
		first = false
		fmt.Fprintf(&sb, "%s := %s", leanIdent(f.Name()), x.zero(f.Type()))
	}
	sb.WriteString(" }\n\n")
	return sb.String()
}

var leanKeywords = map[string]bool{"end": true, "from": true, "at": true, "open": true, "in": true, "then": true, "do": true, "let": true,
	"fun": true, "match": true, "with": true, "if": true, "else": true, "have": true, "show": true, "this": true, "until": true, "def": true,
	"theorem": true, "where": true, "by": true, "mut": true, "for": true, "return": true, "break": true, "continue": true, "namespace": true,
	"section": true, "structure": true, "instance": true, "class": true, "import": true, "Type": true, "Prop": true, "Sort": true, "type": true,
	"local": true, "private": true, "variable": true, "example": true, "using": true, "calc": true, "nomatch": true, "unless": true, "try": true,
	"catch": true, "finally": true, "exists": true, "forall": true, "some": true, "none": true, "pure": true, "throw": true, "opt": false}

func leanIdent(s string) string {
	if leanKeywords[s] {
		return s + "_"
	}
	return s
}

// dropped: parameters that carry nothing the translated code computes with (logging handles, contexts).
func dropped(t types.Type) bool {
	switch strings.TrimPrefix(t.String(), "*") {
	case "context.Context", "context.CancelFunc", "log.Logger", modPath + "lib/server/ylog.Ylog", "golang.org/x/time/rate.Limiter":
		return true
	}
	if t.String() == "[]interface{}" || t.String() == "[]any" || t.String() == "interface{}" || t.String() == "any" {
		return true // arguments of logging calls
	}
	return false
}
