package main

import (
	"go/ast"
	"go/token"
	"go/types"
	"strings"
)

// analyse computes, to a fixed point over the call graph: which functions may fail (index/slice
// expressions, fuel loops, calls of failing functions) and which slice parameters are written
// through (element assignment, copy/Put targets, being passed to a callee that writes).
func (x *X) analyse() {
	for _, fi := range x.funcs {
		info := fi.pkg.TypesInfo
		curPkgForEffects = fi.pkg.PkgPath
		if strings.HasSuffix(fi.pkg.PkgPath, "/clients") {
			fi.mayFail = true // pointer dereferences
		}
		ast.Inspect(fi.decl.Body, func(n ast.Node) bool {
			switch n := n.(type) {
			case *ast.CallExpr:
				if f := calleeFunc(info, n); f != nil {
					fi.calls = append(fi.calls, f)
					if _, ok := effectOf(f); ok {
						fi.mayFail = true
					}
				}
				if id, ok := n.Fun.(*ast.Ident); ok {
					if v, ok := info.Uses[id].(*types.Var); ok {
						if _, isFn := v.Type().Underlying().(*types.Signature); isFn {
							fi.mayFail = true // call of a function value
						}
					}
					if id.Name == "panic" {
						fi.mayFail = true
					}
				}
				if id, ok := n.Fun.(*ast.Ident); ok && (id.Name == "make" || id.Name == "copy") {
					fi.mayFail = true
				}
				if isPkgCall(info, n, "encoding/binary") {
					fi.mayFail = true
				}
			case *ast.IndexExpr, *ast.SliceExpr:
				fi.mayFail = true
			case *ast.ForStmt, *ast.RangeStmt:
				fi.mayFail = true
			}
			return true
		})
	}
	for changed := true; changed; {
		changed = false
		for _, fi := range x.funcs {
			for _, c := range fi.calls {
				if ci := x.funcs[c]; ci != nil && ci.mayFail && !fi.mayFail {
					fi.mayFail = true
					changed = true
				}
			}
			for i, p := range paramVars(fi) {
				if !isSliceLike(p.Type()) || contains(fi.mutParams, i) {
					continue
				}
				if x.writesThrough(fi, p) {
					fi.mutParams = append(fi.mutParams, i)
					changed = true
				}
			}
		}
	}
}

func contains(s []int, v int) bool {
	for _, e := range s {
		if e == v {
			return true
		}
	}
	return false
}

// paramVars: receiver first, then parameters.
func paramVars(fi *FuncInfo) []*types.Var { return fi.params }

func isSliceLike(t types.Type) bool {
	switch u := t.Underlying().(type) {
	case *types.Slice:
		return true
	case *types.Pointer: // *T with T a struct of the repository: field writes are returned to the caller
		_, ok := u.Elem().Underlying().(*types.Struct)
		return ok && inModule(u.Elem())
	}
	return false
}

// rootVar returns the variable at the root of an l-value like v, v[i], v[a:b], v.f (nil if none).
func rootVar(info *types.Info, e ast.Expr) *types.Var {
	switch t := e.(type) {
	case *ast.Ident:
		if v, ok := info.Uses[t].(*types.Var); ok {
			return v
		}
		if v, ok := info.Defs[t].(*types.Var); ok {
			return v
		}
	case *ast.IndexExpr:
		return rootVar(info, t.X)
	case *ast.SliceExpr:
		return rootVar(info, t.X)
	case *ast.ParenExpr:
		return rootVar(info, t.X)
	case *ast.SelectorExpr:
		if sel, ok := info.Selections[t]; ok && sel.Kind() == types.FieldVal {
			return rootVar(info, t.X)
		}
	}
	return nil
}

func (x *X) writesThrough(fi *FuncInfo, p *types.Var) bool {
	info := fi.pkg.TypesInfo
	curPkgForEffects = fi.pkg.PkgPath
	found := false
	ast.Inspect(fi.decl.Body, func(n ast.Node) bool {
		switch n := n.(type) {
		case *ast.AssignStmt:
			for _, l := range n.Lhs {
				if ix, ok := l.(*ast.IndexExpr); ok && rootVar(info, ix) == p {
					found = true
				}
				if st, ok := l.(*ast.StarExpr); ok && rootVar(info, st.X) == p { // *p = v
					found = true
				}
				if se, ok := l.(*ast.SelectorExpr); ok { // p.f = v
					if sel, ok := info.Selections[se]; ok && sel.Kind() == types.FieldVal && rootVar(info, se.X) == p {
						found = true
					}
				}
			}
		case *ast.IncDecStmt:
			if ix, ok := n.X.(*ast.IndexExpr); ok && rootVar(info, ix) == p {
				found = true
			}
		case *ast.CallExpr:
			if id, ok := n.Fun.(*ast.Ident); ok && id.Name == "copy" && len(n.Args) == 2 && rootVar(info, n.Args[0]) == p {
				found = true
			}
			if id, ok := n.Fun.(*ast.Ident); ok && id.Name == "delete" && len(n.Args) == 2 && rootVar(info, n.Args[0]) == p {
				found = true
			}
			if isPkgCall(info, n, "encoding/binary") && len(n.Args) == 2 && rootVar(info, n.Args[0]) == p {
				found = true
			}
			if f := calleeFunc(info, n); f != nil {
				if _, isEnv := effectOf(f); isEnv {
					return true // a step of the layer below: it does not write through our variables
				}
				if ci := x.funcs[f]; ci != nil {
					off := 0
					if ci.obj.Type().(*types.Signature).Recv() != nil {
						off = 1
					}
					for _, mi := range ci.mutParams {
						ai := mi - off
						if ai >= 0 && ai < len(n.Args) && rootVar(info, n.Args[ai]) == p {
							found = true
						}
						if ai < 0 { // the callee writes through its receiver
							if se, ok := n.Fun.(*ast.SelectorExpr); ok && rootVar(info, se.X) == p {
								found = true
							}
						}
					}
				}
			}
		}
		return true
	})
	return found
}

func calleeFunc(info *types.Info, c *ast.CallExpr) *types.Func {
	switch f := c.Fun.(type) {
	case *ast.Ident:
		if fn, ok := info.Uses[f].(*types.Func); ok {
			return fn
		}
	case *ast.SelectorExpr:
		if fn, ok := info.Uses[f.Sel].(*types.Func); ok {
			return fn
		}
	}
	return nil
}

// isPkgCall: a call of a function or method that lives in package `path`.
func isPkgCall(info *types.Info, c *ast.CallExpr, path string) bool {
	f := calleeFunc(info, c)
	return f != nil && f.Pkg() != nil && f.Pkg().Path() == path
}

func posLine(fset *token.FileSet, p token.Pos) (string, int) {
	ps := fset.Position(p)
	name := ps.Filename
	for i := len(name) - 1; i >= 0; i-- {
		if name[i] == '/' {
			name = name[i+1:]
			break
		}
	}
	return name, ps.Line
}
