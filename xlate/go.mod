module xlate

go 1.26.0

require golang.org/x/tools v0.50.0

require (
	golang.org/x/mod v0.41.0 // indirect
	golang.org/x/sync v0.23.0 // indirect
)
