package main

import (
	"fmt"
	"go/ast"
	"go/token"
	"go/types"
	"sort"
	"strings"
)

type loopCtx struct {
	outer    *loopCtx
	name     string
	state    []*types.Var
	hasRet   bool
	inSwitch int
	next     func(o *out, ind int) // `continue` / end of body: post statement and the recursive call
	done     func() string         // value returned when the loop ends normally
}

// callStmt: a call in statement position, `lhs... := call` or `lhs... = call` (lhs may be nil).
func (c *fctx) callStmt(o *out, ind int, call *ast.CallExpr, lhs []ast.Expr, isDefine bool) {
	if id, ok := call.Fun.(*ast.Ident); ok && lhs == nil {
		if _, isB := c.info.Uses[id].(*types.Builtin); isB && id.Name == "copy" {
			lv, lo, hi := c.target(call.Args[0])
			o.emit(ind, "%s", lv.set(fmt.Sprintf("(← Go.copyAt %s %s %s %s %s)", lv.get, lo, hi, c.expr(call.Args[1]), c.site(call.Pos()))))
			return
		}
	}
	if id, ok := call.Fun.(*ast.Ident); ok && lhs == nil {
		if _, isB := c.info.Uses[id].(*types.Builtin); isB && id.Name == "delete" && c.x.kindOf(c.typeOf(call.Args[0])) == kMap {
			lv := c.lvalue(call.Args[0])
			o.emit(ind, "%s", lv.set(fmt.Sprintf("(Go.mapDel %s %s)", lv.get, c.expr(call.Args[1]))))
			return
		}
	}
	if id, ok := call.Fun.(*ast.Ident); ok && lhs == nil {
		if _, isB := c.info.Uses[id].(*types.Builtin); isB && id.Name == "panic" {
			o.emit(ind, "throw (Err.panic %s)", c.site(call.Pos()))
			return
		}
	}
	if fp := calleeFunc(c.info, call); fp != nil && (fp.FullName() == "(*log.Logger).Panicf" || fp.FullName() == "(*log.Logger).Panic") {
		o.emit(ind, "throw (Err.panic %s)", c.site(call.Pos()))
		return
	}
	if fp := calleeFunc(c.info, call); fp != nil && lhs != nil {
		ext := map[string]string{"net.ParseCIDR": "Go.parseCIDR", "time.ParseDuration": "Go.parseDuration", "net.ParseMAC": "Go.parseMAC"}[fp.FullName()]
		if ext != "" { // uninterpreted standard-library parsers: (value..., error)
			tmp := c.fresh("__x")
			o.emit(ind, "let %s := %s %s", tmp, ext, c.expr(call.Args[0]))
			res := fp.Type().(*types.Signature).Results()
			for i, l := range lhs {
				if id, ok := l.(*ast.Ident); ok && id.Name != "_" && c.x.kindOf(res.At(i).Type()) == kPtrStruct {
					if v, ok := c.info.ObjectOf(id).(*types.Var); ok {
						c.optVars[v] = true
					}
				}
				c.define(o, ind, l, proj(tmp, i, res.Len()), isDefine)
			}
			return
		}
	}
	if fp := calleeFunc(c.info, call); fp != nil && fp.FullName() == "(net.IPMask).Size" && len(lhs) == 2 {
		tmp := c.fresh("__s")
		o.emit(ind, "let %s := Go.maskSize %s", tmp, c.expr(call.Fun.(*ast.SelectorExpr).X))
		c.define(o, ind, lhs[0], tmp+".1", isDefine)
		c.define(o, ind, lhs[1], tmp+".2", isDefine)
		return
	}
	f := calleeFunc(c.info, call)
	if isIgnorable(f) {
		return
	}
	if se, ok := call.Fun.(*ast.SelectorExpr); ok && c.x.kindOf(c.typeOf(se.X)) == kSock {
		c.sockCall(o, ind, se, call, lhs, isDefine)
		return
	}
	if op, ok := effectOf(f); ok && op != "ArpVerify" {
		s, res := c.effectCall(op, f, call)
		backs := c.ptrBacks
		c.ptrBacks = nil
		total := res.Len() + len(backs)
		if lhs == nil && len(backs) == 0 { // result (if any) ignored
			o.emit(ind, "discard (%s)", strings.TrimSuffix(strings.TrimPrefix(s, "(← "), ")"))
			return
		}
		tmp := c.fresh("__e")
		o.emit(ind, "let %s := %s", tmp, s)
		for i, b := range backs {
			if b != nil {
				o.emit(ind, "%s", b.set(fmt.Sprintf("(%s.getD %s)", proj(tmp, res.Len()+i, total), b.get)))
			}
		}
		if lhs != nil {
			if len(lhs) != res.Len() {
				bad("assignment arity at %s", c.site(call.Pos()))
			}
			for i, l := range lhs {
				if id, ok := l.(*ast.Ident); ok && id.Name != "_" && c.x.kindOf(res.At(i).Type()) == kPtrStruct {
					if v, ok := c.info.ObjectOf(id).(*types.Var); ok {
						c.optVars[v] = true
					}
				}
				c.define(o, ind, l, proj(tmp, i, total), isDefine)
			}
		}
		return
	}
	if id, ok := call.Fun.(*ast.Ident); ok && f == nil && lhs != nil { // x, y := fv(args) with fv a function value
		if v, ok := c.info.Uses[id].(*types.Var); ok && c.x.kindOf(v.Type()) == kFunc {
			sig := v.Type().Underlying().(*types.Signature)
			cs := c.call(call)
			tmp := c.fresh("__f")
			o.emit(ind, "let %s := %s", tmp, cs)
			for i, l := range lhs {
				c.define(o, ind, l, proj(tmp, i, sig.Results().Len()), isDefine)
			}
			return
		}
	}
	if f == nil && lhs == nil { // a call of a function value or of sx.arpVerify(..)(..) as a statement
		cs := c.call(call)
		o.emit(ind, "discard (%s)", strings.TrimSuffix(strings.TrimPrefix(cs, "(← "), ")"))
		return
	}
	if f != nil && lhs == nil {
		switch f.FullName() {
		case "(encoding/binary.bigEndian).PutUint16", "(encoding/binary.bigEndian).PutUint32":
			fn := "Go.putU16"
			if strings.HasSuffix(f.FullName(), "32") {
				fn = "Go.putU32"
			}
			lv, lo, hi := c.target(call.Args[0])
			o.emit(ind, "%s", lv.set(fmt.Sprintf("(← %s %s %s %s %s %s)", fn, lv.get, lo, hi, c.expr(call.Args[1]), c.site(call.Pos()))))
			return
		}
	}
	ci := c.x.funcs[f]
	if f == nil || ci == nil {
		if lhs == nil {
			bad("call statement of %v at %s", f, c.site(call.Pos()))
		}
		bad("multi-value call of %v at %s", f, c.site(call.Pos()))
	}
	sig := ci.obj.Type().(*types.Signature)
	off := 0
	if sig.Recv() != nil {
		off = 1
	}
	args := c.userArgs(ci, call)
	type wb struct {
		lv    lval
		lo    string
		whole bool
	}
	var wbs []wb
	for _, mi := range ci.mutParams {
		ai := mi - off
		var ae ast.Expr
		if ai < 0 {
			ae = call.Fun.(*ast.SelectorExpr).X
		} else {
			ae = call.Args[ai]
		}
		if u, ok := ae.(*ast.UnaryExpr); ok && u.Op == token.AND { // f(&x): the callee writes *x
			ae = u.X
		}
		if c.x.kindOf(c.typeOf(ae)) == kPtrStruct || c.x.kindOf(c.typeOf(ae)) == kStruct { // the callee returns the updated struct
			lv := c.lvalue(ae)
			if id, ok := ae.(*ast.Ident); ok && c.isOptVar(id) { // a possibly-nil local: dereference, store back as non-nil
				inner := lv
				site := c.site(call.Pos())
				lv = lval{fmt.Sprintf("(← Go.derefOpt %s %s)", inner.get, site), func(nv string) string { return inner.set("(some " + nv + ")") }}
			}
			args[mi] = lv.get
			wbs = append(wbs, wb{lv: lv, whole: true})
			continue
		}
		if ai < 0 {
			bad("receiver written through at %s", c.site(call.Pos()))
		}
		lv, lo, hi := c.target(ae)
		args[mi] = fmt.Sprintf("(← Go.slice %s %s %s %s)", lv.get, lo, hi, c.site(call.Pos()))
		wbs = append(wbs, wb{lv: lv, lo: lo})
	}
	nres := ci.results.Len()
	total := nres + len(wbs)
	s := "Gen." + ci.lean + " " + strings.Join(args, " ")
	if ci.effectful {
		s = "Gen." + ci.lean + " E " + strings.Join(args, " ")
		c.fi.effectful = true
	}
	if ci.heapful {
		c.useHeap()
	}
	for _, or := range ci.oracles {
		s += " " + c.oracle(or.typ)
	}
	if total == 0 {
		if ci.mayFail {
			o.emit(ind, "%s", strings.TrimSpace(s))
		}
		return
	}
	tmp := c.fresh("__r")
	if ci.mayFail {
		o.emit(ind, "let %s ← %s", tmp, s)
	} else {
		o.emit(ind, "let %s := %s", tmp, s)
	}
	for i, w := range wbs {
		if w.whole {
			o.emit(ind, "%s", w.lv.set(proj(tmp, nres+i, total)))
			continue
		}
		o.emit(ind, "%s", w.lv.set(fmt.Sprintf("(Go.writeBack %s %s %s)", w.lv.get, w.lo, proj(tmp, nres+i, total))))
	}
	if lhs == nil {
		for i := 0; i < nres; i++ {
			c.lastCallRes = append(c.lastCallRes, proj(tmp, i, total))
		}
	}
	if lhs != nil {
		if len(lhs) != nres {
			bad("assignment arity at %s", c.site(call.Pos()))
		}
		for i, l := range lhs {
			if c.x.kindOf(ci.results.At(i).Type()) == kPtrStruct {
				id, ok := l.(*ast.Ident)
				if !ok {
					bad("pointer result bound to a non-variable at %s", c.site(call.Pos()))
				}
				if id.Name != "_" {
					v, ok := c.info.ObjectOf(id).(*types.Var)
					if !ok {
						bad("pointer result bound to a non-variable at %s", c.site(call.Pos()))
					}
					c.optVars[v] = true // nil until proven otherwise: dereferences are checked
				}
			}
			c.define(o, ind, l, proj(tmp, i, total), isDefine)
		}
	}
}

// envHole marks where the environment argument of a loop function goes; whether the loop needs one
// (its body acts on the world) is known only after the body is translated.
const envHole = "«E?»"

func fillEnv(b *out, eff bool) {
	for i, l := range b.lines {
		b.lines[i] = fillHole(l, eff)
	}
}

func fillHole(s string, eff bool) string {
	if eff {
		return strings.ReplaceAll(s, " "+envHole, " E")
	}
	return strings.ReplaceAll(s, " "+envHole, "")
}

// loopVars: state (assigned, declared before the body) and captured (only read) variables.
func (c *fctx) loopVars(body ast.Node, extra []ast.Node, bodyPos token.Pos, bound map[*types.Var]bool) (state, captured []*types.Var) {
	isState := map[*types.Var]bool{}
	nodes := append([]ast.Node{body}, extra...)
	for _, n := range nodes {
		if n == nil {
			continue
		}
		ast.Inspect(n, func(n ast.Node) bool {
			for _, v := range c.writtenRoots(n) {
				if v.Pos() < bodyPos && !bound[v] && v.Parent() != v.Pkg().Scope() {
					isState[v] = true
				}
			}
			return true
		})
	}
	isCap := map[*types.Var]bool{}
	for _, n := range nodes {
		if n == nil {
			continue
		}
		ast.Inspect(n, func(n ast.Node) bool {
			if id, ok := n.(*ast.Ident); ok {
				if v, ok := c.info.Uses[id].(*types.Var); ok && !v.IsField() && v.Pos() < bodyPos && !bound[v] && !isState[v] && v.Parent() != v.Pkg().Scope() {
					isCap[v] = true
				}
			}
			return true
		})
	}
	for v := range isState {
		state = append(state, v)
	}
	for v := range isCap {
		if dropped(v.Type()) { // contexts, loggers: carry nothing the translation computes with
			continue
		}
		captured = append(captured, v)
	}
	sort.Slice(state, func(i, j int) bool { return state[i].Pos() < state[j].Pos() })
	sort.Slice(captured, func(i, j int) bool { return captured[i].Pos() < captured[j].Pos() })
	return
}

func hasReturn(n ast.Node) bool {
	found := false
	ast.Inspect(n, func(n ast.Node) bool {
		if _, ok := n.(*ast.ReturnStmt); ok {
			found = true
		}
		if _, ok := n.(*ast.FuncLit); ok {
			return false
		}
		return true
	})
	return found
}

func (c *fctx) names2(vs []*types.Var) (names, typs []string) {
	for _, v := range vs {
		names = append(names, c.varName(v))
		typs = append(typs, c.x.leanType(v.Type(), c.optVars[v]))
	}
	return
}

// afterLoop: bind the loop's result back to the state variables at the call site.
func (c *fctx) afterLoop(o *out, ind int, callExpr string, lc *loopCtx) {
	snames, _ := c.names2(lc.state)
	tmp := c.fresh("__l")
	if lc.hasRet {
		o.emit(ind, "match (← %s) with", callExpr)
		if c.loop != nil {
			o.emit(ind, "| LoopOut.ret %s => return (LoopOut.ret %s)", tmp, tmp)
		} else {
			o.emit(ind, "| LoopOut.ret %s => return %s", tmp, tmp)
		}
		o.emit(ind, "| LoopOut.done %s =>", tmp)
		ind++
	} else {
		o.emit(ind, "let %s ← %s", tmp, callExpr)
	}
	for i, n := range snames {
		o.emit(ind, "%s := %s", n, proj(tmp, i, len(snames)))
	}
	if len(snames) == 0 {
		o.emit(ind, "pure ()")
	}
}

func (c *fctx) forStmt(o *out, ind int, t *ast.ForStmt) {
	if t.Init != nil {
		c.stmt(o, ind, t.Init)
	}
	c.nloops++
	name := fmt.Sprintf("%s.loop%d", c.fi.lean, c.nloops)
	var extra []ast.Node
	if t.Cond != nil {
		extra = append(extra, t.Cond)
	}
	if t.Post != nil {
		extra = append(extra, t.Post)
	}
	state, captured := c.loopVars(t.Body, extra, t.Body.Pos(), nil)
	lc := &loopCtx{outer: c.loop, name: name, state: state, hasRet: hasReturn(t.Body)}
	snames, stypes := c.names2(state)
	cnames, ctypes := c.names2(captured)
	sigma, rho := tupleType(stypes), c.retType()
	outT := sigma
	if lc.hasRet {
		outT = fmt.Sprintf("(LoopOut %s %s)", sigma, rho)
	}
	lc.done = func() string {
		if lc.hasRet {
			return "(LoopOut.done " + tuple(snames) + ")"
		}
		return tuple(snames)
	}
	rec := "Gen." + name + " " + envHole + " " + strings.Join(cnames, " ")
	lc.next = func(o *out, ind int) {
		if t.Post != nil {
			c.stmt(o, ind, t.Post)
		}
		o.emit(ind, "return (← %s fuel %s)", strings.TrimSpace(rec), tuple(snames))
	}
	b := &out{}
	prev := c.loop
	c.loop = lc
	wasEff, wasHeap := c.fi.effectful, c.fi.heapful
	c.fi.effectful, c.fi.heapful = false, false
	for _, n := range snames {
		b.emit(2, "let mut %s := %s", n, n)
	}
	if t.Cond != nil {
		b.emit(2, "if !%s then", c.expr(t.Cond))
		b.emit(3, "return %s", lc.done())
	}
	c.block(b, 2, t.Body.List)
	lc.next(b, 2)
	c.loop = prev
	bodyEff, bodyHeap := c.fi.effectful, c.fi.heapful
	c.fi.effectful, c.fi.heapful = wasEff || bodyEff, wasHeap || bodyHeap
	envPar, monad := "", "R"
	if bodyEff {
		envPar, monad = fmt.Sprintf(" {σ : Type} (E : %s σ)", c.envName()), "StateT σ R"
	} else if bodyHeap {
		monad = "StateT Heap R"
	}
	rec = fillHole(rec, bodyEff)
	fillEnv(b, bodyEff)
	var sb strings.Builder
	fmt.Fprintf(&sb, "def %s%s", name, envPar)
	for i := range cnames {
		fmt.Fprintf(&sb, " (%s : %s)", cnames[i], ctypes[i])
	}
	fmt.Fprintf(&sb, " : Nat → %s → %s %s\n", sigma, monad, outT)
	fmt.Fprintf(&sb, "  | 0, _ => throw (Err.panic \"fuel:%s\")\n", name)
	fmt.Fprintf(&sb, "  | fuel + 1, %s => do\n", tuple(snames))
	if len(snames) == 0 {
		sb.Reset()
		fmt.Fprintf(&sb, "def %s%s", name, envPar)
		for i := range cnames {
			fmt.Fprintf(&sb, " (%s : %s)", cnames[i], ctypes[i])
		}
		fmt.Fprintf(&sb, " : Nat → Unit → %s %s\n", monad, outT)
		fmt.Fprintf(&sb, "  | 0, _ => throw (Err.panic \"fuel:%s\")\n", name)
		fmt.Fprintf(&sb, "  | fuel + 1, _ => do\n")
	}
	for _, l := range b.lines {
		sb.WriteString(l + "\n")
	}
	c.loopDefs = append(c.loopDefs, sb.String())
	// call site
	fuel := c.x.hints[name]
	if fuel == "param" { // an unbounded `for {}`: the number of iterations is a parameter of the translated function
		fuel = c.oracle("Nat")
	}
	if fuel == "" {
		var lens []string
		for _, v := range append(append([]*types.Var{}, state...), captured...) {
			k := c.x.kindOf(v.Type())
			if k == kBytes || k == kList {
				lens = append(lens, c.varName(v)+".length")
			}
		}
		fuel = "(" + strings.Join(append(lens, "1"), " + ") + ")"
	}
	c.afterLoop(o, ind, fmt.Sprintf("%s %s %s", strings.TrimSpace(rec), fuel, tuple(snames)), lc)
}

func (c *fctx) rangeStmt(o *out, ind int, t *ast.RangeStmt) {
	k := c.x.kindOf(c.typeOf(t.X))
	isMap := k == kMap // the entries in the order the association list holds them: any order (Go's is unspecified)
	if k != kBytes && k != kList && !isMap {
		bad("range over %s at %s", c.typeOf(t.X).String(), c.site(t.Pos()))
	}
	if t.Tok != token.DEFINE && (t.Key != nil || t.Value != nil) {
		bad("range with assignment at %s", c.site(t.Pos()))
	}
	c.nloops++
	name := fmt.Sprintf("%s.loop%d", c.fi.lean, c.nloops)
	bound := map[*types.Var]bool{}
	keyName, valName := "_", "_"
	bind := func(e ast.Expr) string {
		id, ok := e.(*ast.Ident)
		if !ok {
			bad("range variable at %s", c.site(t.Pos()))
		}
		if id.Name == "_" {
			return "_"
		}
		v := c.info.Defs[id].(*types.Var)
		bound[v] = true
		return c.varName(v)
	}
	if t.Key != nil {
		keyName = bind(t.Key)
	}
	if t.Value != nil {
		valName = bind(t.Value)
	}
	var elemT string
	if k == kBytes {
		elemT = "UInt8"
	} else if isMap {
		elemT = "(Bytes × " + c.x.leanType(c.typeOf(t.X).Underlying().(*types.Map).Elem(), false) + ")"
	} else {
		elemT = c.x.leanType(elemOf(c.typeOf(t.X)), false)
	}
	state, captured := c.loopVars(t.Body, nil, t.Body.Pos(), bound)
	lc := &loopCtx{outer: c.loop, name: name, state: state, hasRet: hasReturn(t.Body)}
	snames, stypes := c.names2(state)
	cnames, ctypes := c.names2(captured)
	sigma, rho := tupleType(stypes), c.retType()
	outT := sigma
	if lc.hasRet {
		outT = fmt.Sprintf("(LoopOut %s %s)", sigma, rho)
	}
	lc.done = func() string {
		if lc.hasRet {
			return "(LoopOut.done " + tuple(snames) + ")"
		}
		return tuple(snames)
	}
	rec := strings.TrimSpace("Gen." + name + " " + envHole + " " + strings.Join(cnames, " "))
	lc.next = func(o *out, ind int) {
		o.emit(ind, "return (← %s __rest (__i + 1) %s)", rec, tuple(snames))
	}
	b := &out{}
	prev := c.loop
	c.loop = lc
	wasEff, wasHeap := c.fi.effectful, c.fi.heapful
	c.fi.effectful, c.fi.heapful = false, false
	for _, n := range snames {
		b.emit(2, "let mut %s := %s", n, n)
	}
	if keyName != "_" && !isMap {
		b.emit(2, "let %s : Int := __i", keyName)
	}
	c.block(b, 2, t.Body.List)
	lc.next(b, 2)
	c.loop = prev
	bodyEff, bodyHeap := c.fi.effectful, c.fi.heapful
	c.fi.effectful, c.fi.heapful = wasEff || bodyEff, wasHeap || bodyHeap
	envPar, monad := "", "R"
	if bodyEff {
		envPar, monad = fmt.Sprintf(" {σ : Type} (E : %s σ)", c.envName()), "StateT σ R"
	} else if bodyHeap {
		monad = "StateT Heap R"
	}
	rec = fillHole(rec, bodyEff)
	fillEnv(b, bodyEff)
	var sb strings.Builder
	fmt.Fprintf(&sb, "def %s%s", name, envPar)
	for i := range cnames {
		fmt.Fprintf(&sb, " (%s : %s)", cnames[i], ctypes[i])
	}
	pat := tuple(snames)
	if len(snames) == 0 {
		pat = "_"
	}
	fmt.Fprintf(&sb, " : List %s → Int → %s → %s %s\n", elemT, sigma, monad, outT)
	fmt.Fprintf(&sb, "  | [], _, %s => pure %s\n", pat, lc.done())
	if isMap {
		fmt.Fprintf(&sb, "  | (%s, %s) :: __rest, __i, %s => do\n", keyName, valName, pat)
	} else {
		fmt.Fprintf(&sb, "  | %s :: __rest, __i, %s => do\n", valName, pat)
	}
	for _, l := range b.lines {
		sb.WriteString(l + "\n")
	}
	c.loopDefs = append(c.loopDefs, sb.String())
	c.afterLoop(o, ind, fmt.Sprintf("%s %s (0 : Int) %s", rec, c.expr(t.X), tuple(snames)), lc)
}

// sockCall: Read / Write / Close on a socket handle go through the environment.  `n, err := s.Read(buf)` asks the
// environment for the next frame, at most len(buf) bytes of which are stored into buf.
func (c *fctx) sockCall(o *out, ind int, se *ast.SelectorExpr, call *ast.CallExpr, lhs []ast.Expr, isDefine bool) {
	c.fi.effectful = true
	if c.envName() == "FsEnv" { // a regular file: the count a write returns and the error a close returns matter (C20)
		switch se.Sel.Name {
		case "Write":
			name := c.x.envUse(c.envName(), "FileWrite", []string{"Bytes"}, "(Int × GoErr)")
			tmp := c.fresh("__w")
			o.emit(ind, "let %s := (← %s %s)", tmp, name, c.expr(call.Args[0]))
			if len(lhs) == 2 {
				c.define(o, ind, lhs[0], tmp+".1", isDefine)
				c.define(o, ind, lhs[1], tmp+".2", isDefine)
			} else if lhs != nil {
				bad("file Write at %s", c.site(call.Pos()))
			}
			return
		case "Close":
			name := c.x.envUse(c.envName(), "FileClose", nil, "GoErr")
			tmp := c.fresh("__c")
			o.emit(ind, "let %s := (← %s)", tmp, name)
			if len(lhs) == 1 {
				c.define(o, ind, lhs[0], tmp, isDefine)
			} else if lhs != nil {
				bad("file Close at %s", c.site(call.Pos()))
			}
			return
		}
	}
	switch se.Sel.Name {
	case "Read":
		if len(lhs) != 2 {
			bad("socket Read at %s", c.site(call.Pos()))
		}
		lv := c.lvalue(call.Args[0])
		name := c.x.envUse(c.envName(), "SockRead", []string{"Int"}, "(Bytes × GoErr)")
		tmp := c.fresh("__e")
		o.emit(ind, "let %s := (← %s (Int.ofNat %s.length))", tmp, name, lv.get)
		o.emit(ind, "%s", lv.set(fmt.Sprintf("(Go.readInto %s %s.1).1", lv.get, tmp)))
		c.define(o, ind, lhs[0], fmt.Sprintf("(Go.readInto %s %s.1).2", lv.get, tmp), isDefine)
		c.define(o, ind, lhs[1], tmp+".2", isDefine)
	case "Write":
		name := c.x.envUse(c.envName(), "SockWrite", []string{"Bytes"}, "GoErr")
		if len(lhs) == 2 { // n, err := s.Write(b): the count is the length on success (trusted)
			tmp := c.fresh("__w")
			o.emit(ind, "let %s := (← %s %s)", tmp, name, c.expr(call.Args[0]))
			c.define(o, ind, lhs[0], "(Int.ofNat "+c.expr(call.Args[0])+".length)", isDefine)
			c.define(o, ind, lhs[1], tmp, isDefine)
			return
		}
		if lhs != nil {
			bad("socket Write with results at %s", c.site(call.Pos()))
		}
		o.emit(ind, "discard (%s %s)", name, c.expr(call.Args[0]))
	case "Close":
		name := c.x.envUse(c.envName(), "SockClose", nil, "GoErr")
		if lhs != nil {
			bad("socket Close with results at %s", c.site(call.Pos()))
		}
		o.emit(ind, "discard (%s)", name)
	default:
		bad("socket method %s at %s", se.Sel.Name, c.site(call.Pos()))
	}
}
