package main

import (
	"fmt"
	"go/ast"
	"go/constant"
	"go/token"
	"go/types"
	"strconv"
	"strings"
)

func (c *fctx) call(t *ast.CallExpr) string {
	// conversion T(x)
	if tv, ok := c.info.Types[t.Fun]; ok && tv.IsType() {
		return c.convert(t.Args[0], tv.Type, t)
	}
	if id, ok := t.Fun.(*ast.Ident); ok {
		if _, isBuiltin := c.info.Uses[id].(*types.Builtin); isBuiltin {
			return c.builtin(id.Name, t)
		}
	}
	if inner, ok := t.Fun.(*ast.CallExpr); ok { // sx.arpVerify(mac)(ctx, ip)
		if op, ok := effectOf(calleeFunc(c.info, inner)); ok && op == "ArpVerify" {
			return c.arpVerifyCall(t, inner)
		}
	}
	if id, ok := t.Fun.(*ast.Ident); ok { // call of a function value held in a variable
		if v, ok := c.info.Uses[id].(*types.Var); ok && c.x.kindOf(v.Type()) == kFunc {
			s := c.varName(v)
			for _, a := range t.Args {
				if isContext(c.typeOf(a)) {
					continue
				}
				s += " " + c.expr(a)
			}
			if effectfulCallback(v.Type()) {
				c.fi.effectful = true
			}
			return "(← " + s + ")"
		}
	}
	f := calleeFunc(c.info, t)
	if f == nil {
		bad("call of a non-function at %s", c.site(t.Pos()))
	}
	if op, ok := effectOf(f); ok {
		if op == "ArpVerify" {
			bad("arpVerify closure outside a call position at %s", c.site(t.Pos()))
		}
		s, res := c.effectCall(op, f, t)
		if len(c.ptrBacks) > 0 {
			bad("environment operation %s with a pointer argument in expression position at %s", op, c.site(t.Pos()))
		}
		if res.Len() != 1 {
			bad("environment operation %s with %d results in expression position at %s", op, res.Len(), c.site(t.Pos()))
		}
		return s
	}
	if se, ok := t.Fun.(*ast.SelectorExpr); ok && c.x.kindOf(c.typeOf(se.X)) == kRef { // accessor of a record seen from outside
		switch f.Name() {
		case "Uip":
			return fmt.Sprintf("(← Go.refUip %s %s)", c.expr(se.X), c.site(t.Pos()))
		case "LeasedUntil":
			return fmt.Sprintf("(← Go.refLeasedUntil %s %s)", c.expr(se.X), c.site(t.Pos()))
		}
		bad("method %s of an external record at %s", f.Name(), c.site(t.Pos()))
	}
	if ci := c.x.funcs[f]; ci != nil {
		if len(ci.mutParams) > 0 {
			bad("call of %s (writes through a parameter) in expression position at %s", ci.lean, c.site(t.Pos()))
		}
		return c.userCall(ci, t, c.userArgs(ci, t))
	}
	full := f.FullName()
	if f.Pkg() != nil && strings.HasSuffix(f.Pkg().Path(), "/lib/server/proto") && strings.HasPrefix(f.Name(), "Get") && len(t.Args) == 0 {
		// protobuf getter: the field (the nil-receiver default is the zero value; configurations are never nil)
		return c.expr(t.Fun.(*ast.SelectorExpr).X) + "." + leanIdent(strings.TrimPrefix(f.Name(), "Get"))
	}
	arg := func(i int) string { return c.expr(t.Args[i]) }
	recv := func() string { return c.expr(t.Fun.(*ast.SelectorExpr).X) }
	switch full {
	case "(encoding/binary.bigEndian).Uint16":
		return fmt.Sprintf("(← Go.beU16 %s %s)", arg(0), c.site(t.Pos()))
	case "(encoding/binary.bigEndian).Uint32":
		return fmt.Sprintf("(← Go.beU32 %s %s)", arg(0), c.site(t.Pos()))
	case "net.IPv4":
		return fmt.Sprintf("(Go.netIPv4 %s %s %s %s)", arg(0), arg(1), arg(2), arg(3))
	case "net.IPv4Mask":
		return fmt.Sprintf("(Go.netIPv4Mask %s %s %s %s)", arg(0), arg(1), arg(2), arg(3))
	case "(net.IP).To4":
		return "(Go.to4 " + recv() + ")"
	case "(net.IP).Equal":
		return "(Go.ipEqual " + recv() + " " + arg(0) + ")"
	case "bytes.Equal":
		return "(" + arg(0) + " == " + arg(1) + ")"
	case "bytes.HasPrefix":
		return "(Go.hasPrefix " + arg(0) + " " + arg(1) + ")"
	case "fmt.Sprintf":
		return c.sprintf(t)
	case "(time.Duration).Seconds":
		bad("time.Duration.Seconds outside uint32(d.Seconds()) at %s", c.site(t.Pos()))
	case "regexp.MustCompile":
		return c.regexLit(t)
	case "(*regexp.Regexp).ReplaceAllString":
		return "(Go.reReplaceAll " + recv() + " " + arg(0) + " " + arg(1) + ")"
	case "(*regexp.Regexp).MatchString":
		return "(Go.reMatch " + recv() + " " + arg(0) + ")"
	case "(net.IP).String":
		return "(Go.ipString " + recv() + ")"
	case "(net.IPMask).String":
		return "(Go.maskString " + recv() + ")"
	case "strings.Join":
		return "(Go.stringsJoin " + arg(0) + " " + arg(1) + ")"
	case "strings.SplitN":
		if tv := c.info.Types[t.Args[2]]; tv.Value != nil && tv.Value.ExactString() == "2" {
			return "(Go.stringsSplitN2 " + arg(0) + " " + arg(1) + ")"
		}
	case "net.ParseIP": // uninterpreted: the standard library's parser (trusted; the harness parses with the same function)
		return "(Go.parseIP " + arg(0) + ")"
	case "strings.Split":
		return "(Go.stringsSplit " + arg(0) + " " + arg(1) + ")"
	case "(time.Duration).Nanoseconds":
		return recv()
	case "(net.IP).DefaultMask":
		return "(Go.ipDefaultMask " + recv() + ")"
	case "math/rand.Perm":
		return c.oracle("(List Int)") // trusted: a permutation of 0..n-1 (a hypothesis of the theorems that need it)
	case "(time.Time).Add":
		return "(" + recv() + " + " + arg(0) + ")"
	case "(time.Time).After":
		return "(decide (" + recv() + " > " + arg(0) + "))"
	case "(time.Time).Before":
		return "(decide (" + recv() + " < " + arg(0) + "))"
	case "time.Unix":
		return "(" + arg(0) + " * (1000000000 : Int) + " + arg(1) + ")"
	case "(*" + modPath + "lib/server/ipdb/clients.client).Uip":
		return fmt.Sprintf("(← Go.refUip %s %s)", recv(), c.site(t.Pos()))
	case "(*" + modPath + "lib/server/ipdb/clients.client).LeasedUntil":
		return fmt.Sprintf("(← Go.refLeasedUntil %s %s)", recv(), c.site(t.Pos()))
	case "math/rand.Uint32":
		return c.oracle("UInt32")
	case "math/rand.Int63n":
		return c.oracle("Int") // trusted: 0 <= value < n

	case "hash/crc32.ChecksumIEEE":
		return "(Go.crc32IEEE " + arg(0) + ")"
	case "fmt.Errorf", "errors.New":
		if tv := c.info.Types[t.Args[0]]; tv.Value != nil && tv.Value.Kind() == constant.String {
			// an error value is its message template up to the first formatting verb
			msg := constant.StringVal(tv.Value)
			if i := strings.Index(msg, "%"); i >= 0 {
				msg = strings.TrimRight(msg[:i], ": ")
			}
			return "(some " + strconv.Quote(msg) + " : GoErr)"
		}
	}
	bad("call of %s at %s", full, c.site(t.Pos()))
	return ""
}

func (c *fctx) userArgs(ci *FuncInfo, t *ast.CallExpr) []string {
	var args []string
	sig := ci.obj.Type().(*types.Signature)
	if sig.Recv() != nil {
		args = append(args, c.expr(t.Fun.(*ast.SelectorExpr).X))
	}
	np := sig.Params().Len()
	for i := 0; i < np; i++ {
		if dropped(sig.Params().At(i).Type()) {
			continue
		}
		if sig.Variadic() && i == np-1 {
			if t.Ellipsis.IsValid() {
				args = append(args, c.expr(t.Args[i]))
			} else {
				var parts []string
				for _, a := range t.Args[i:] {
					parts = append(parts, c.expr(a))
				}
				args = append(args, "["+strings.Join(parts, ", ")+"]")
			}
			break
		}
		if dropped(sig.Params().At(i).Type()) {
			continue
		}
		args = append(args, c.expr(t.Args[i]))
	}
	return args
}

func (c *fctx) userCall(ci *FuncInfo, t *ast.CallExpr, args []string) string {
	s := "Gen." + ci.lean
	if ci.effectful {
		s += " E"
		c.fi.effectful = true
	}
	if ci.heapful {
		c.useHeap()
	}
	for _, a := range args {
		s += " " + a
	}
	for _, or := range ci.oracles { // the callee's external values become ours
		s += " " + c.oracle(or.typ)
	}
	if ci.mayFail {
		return "(← " + s + ")"
	}
	return "(" + s + ")"
}

func (c *fctx) convert(arg ast.Expr, to types.Type, whole *ast.CallExpr) string {
	if call, ok := arg.(*ast.CallExpr); ok && c.x.kindOf(to) == kInt {
		if f := calleeFunc(c.info, call); f != nil && f.FullName() == "(time.Duration).Seconds" {
			return "(Go.durSecondsInt " + c.expr(call.Fun.(*ast.SelectorExpr).X) + ")" // int(d.Seconds()), integer reading (trusted as durSecondsU32)
		}
	}
	if call, ok := arg.(*ast.CallExpr); ok && c.x.kindOf(to) == kU32 {
		if f := calleeFunc(c.info, call); f != nil && f.FullName() == "(time.Duration).Seconds" {
			// uint32(d.Seconds()): float64 seconds truncated; the Prelude's integer reading is trusted (DESIGN §13.3)
			return "(Go.durSecondsU32 " + c.expr(call.Fun.(*ast.SelectorExpr).X) + ")"
		}
	}
	if be, ok := arg.(*ast.BinaryExpr); ok && be.Op == token.MUL && c.x.kindOf(to) == kInt {
		// time.Duration(float64(d) * k) with a constant k: exact product rounded to 53 bits (Prelude, trusted)
		if conv, ok := be.X.(*ast.CallExpr); ok && len(conv.Args) == 1 {
			if tvc, ok := c.info.Types[conv.Fun]; ok && tvc.IsType() && tvc.Type.String() == "float64" {
				if kv := c.info.Types[be.Y]; kv.Value != nil {
					r := constant.ToFloat(kv.Value)
					num, den := constant.Num(r), constant.Denom(r)
					return fmt.Sprintf("(Go.durTimesFloat %s %s %s)", c.expr(conv.Args[0]), num.ExactString(), den.ExactString())
				}
			}
		}
	}
	from := c.typeOf(arg)
	fk, tk := c.x.kindOf(from), c.x.kindOf(to)
	s := c.expr(arg)
	switch {
	case fk == tk && (isUint(fk) || fk == kInt || fk == kBytes || fk == kBool):
		return s
	case isUint(fk) && isUint(tk):
		return "(" + s + ".to" + uintName(tk) + ")"
	case isUint(fk) && tk == kInt:
		return "(Int.ofNat " + s + ".toNat)"
	case fk == kInt && isUint(tk):
		return fmt.Sprintf("(Go.u%dOfInt %s)", uintBits(tk), s)
	}
	bad("conversion %s -> %s at %s", from.String(), to.String(), c.site(whole.Pos()))
	return ""
}

func (c *fctx) builtin(name string, t *ast.CallExpr) string {
	switch name {
	case "len":
		switch c.x.kindOf(c.typeOf(t.Args[0])) {
		case kBytes, kList:
			return "(Int.ofNat " + c.expr(t.Args[0]) + ".length)"
		}
	case "append":
		k := c.x.kindOf(c.typeOf(t.Args[0]))
		if k != kBytes && k != kList {
			break
		}
		base := c.expr(t.Args[0])
		if t.Ellipsis.IsValid() {
			return "(" + base + " ++ " + c.expr(t.Args[1]) + ")"
		}
		var parts []string
		for _, a := range t.Args[1:] {
			parts = append(parts, c.expr(a))
		}
		return "(" + base + " ++ [" + strings.Join(parts, ", ") + "])"
	case "make":
		ty := c.typeOf(t)
		if len(t.Args) == 3 { // make([]T, 0, cap): capacity is invisible under value semantics
			if tv := c.info.Types[t.Args[1]]; tv.Value != nil && tv.Value.ExactString() == "0" {
				return "([] : " + c.x.leanType(ty, false) + ")"
			}
		}
		if _, isMap := ty.Underlying().(*types.Map); isMap && c.x.kindOf(ty) == kMap {
			return "([] : " + c.x.leanType(ty, false) + ")"
		}
		if len(t.Args) != 2 {
			break
		}
		var elem types.Type
		if sl, ok := ty.Underlying().(*types.Slice); ok {
			elem = sl.Elem()
		} else {
			break
		}
		return fmt.Sprintf("(← Go.makeList %s %s %s)", c.x.zero(elem), c.toInt(t.Args[1]), c.site(t.Pos()))
	}
	bad("builtin %s at %s", name, c.site(t.Pos()))
	return ""
}

// oracle: a value the code obtains from outside (math/rand) becomes a trailing parameter.
func (c *fctx) oracle(typ string) string {
	n := fmt.Sprintf("rnd%d", len(c.fi.oracles)+1)
	c.fi.oracles = append(c.fi.oracles, oracle{n, typ})
	return n
}

// funcValue: a translated function used as a value (argument of a function-typed parameter).
func (c *fctx) funcValue(ci *FuncInfo) string {
	if len(ci.mutParams) > 0 || len(ci.oracles) > 0 || ci.effectful {
		bad("function value %s with side channels", ci.lean)
	}
	if ci.mayFail {
		return "Gen." + ci.lean
	}
	n := len(ci.params)
	var ps []string
	for i := 0; i < n; i++ {
		ps = append(ps, fmt.Sprintf("p%d", i))
	}
	return "(fun " + strings.Join(ps, " ") + " => pure (Gen." + ci.lean + " " + strings.Join(ps, " ") + "))"
}

// sprintf: fmt.Sprintf with a constant format of literal text and the verbs %s (string/[]byte), %d, %x, %02x.
func (c *fctx) sprintf(t *ast.CallExpr) string {
	tv := c.info.Types[t.Args[0]]
	if tv.Value == nil || tv.Value.Kind() != constant.String {
		bad("Sprintf with a non-constant format at %s", c.site(t.Pos()))
	}
	f := constant.StringVal(tv.Value)
	lit := func(s string) string {
		var parts []string
		for i := 0; i < len(s); i++ {
			parts = append(parts, fmt.Sprintf("%d", s[i]))
		}
		return "([" + strings.Join(parts, ", ") + "] : Bytes)"
	}
	var parts []string
	ai := 1
	cur := ""
	flush := func() {
		if cur != "" {
			parts = append(parts, lit(cur))
			cur = ""
		}
	}
	for i := 0; i < len(f); i++ {
		if f[i] != '%' {
			cur += string(f[i])
			continue
		}
		rest := f[i+1:]
		verb := ""
		switch {
		case strings.HasPrefix(rest, "%"):
			cur += "%"
			i++
			continue
		case strings.HasPrefix(rest, "02x"):
			verb = "02x"
		case strings.HasPrefix(rest, "s"), strings.HasPrefix(rest, "d"), strings.HasPrefix(rest, "x"):
			verb = rest[:1]
		default:
			bad("Sprintf verb at %s", c.site(t.Pos()))
		}
		i += len(verb)
		if ai >= len(t.Args) {
			bad("Sprintf arity at %s", c.site(t.Pos()))
		}
		a := t.Args[ai]
		ai++
		k := c.x.kindOf(c.typeOf(a))
		flush()
		switch {
		case verb == "s" && k == kBytes:
			parts = append(parts, c.expr(a))
		case verb == "02x" && k == kU8:
			parts = append(parts, "(Go.fmtHex02 "+c.expr(a)+")")
		case verb == "x" && isUint(k):
			parts = append(parts, "(Go.fmtHex "+c.expr(a)+".toNat)")
		case verb == "d" && k == kInt:
			parts = append(parts, "(Go.fmtDec "+c.expr(a)+")")
		case verb == "d" && isUint(k):
			parts = append(parts, "(Go.fmtDec (Int.ofNat "+c.expr(a)+".toNat))")
		default:
			bad("Sprintf %%%s of %s at %s", verb, c.typeOf(a).String(), c.site(t.Pos()))
		}
	}
	flush()
	if ai != len(t.Args) {
		bad("Sprintf arity at %s", c.site(t.Pos()))
	}
	if len(parts) == 0 {
		return "([] : Bytes)"
	}
	return "(" + strings.Join(parts, " ++ ") + ")"
}

// regexLit: regexp.MustCompile of a constant pattern of the form `[class]` or `^[class]+$` (class: literals, a-z ranges,
// backslash escapes, leading ^ for negation).  Anything else is refused.
func (c *fctx) regexLit(t *ast.CallExpr) string {
	tv := c.info.Types[t.Args[0]]
	if tv.Value == nil || tv.Value.Kind() != constant.String {
		bad("regexp.MustCompile of a non-constant at %s", c.site(t.Pos()))
	}
	pat := constant.StringVal(tv.Value)
	whole := false
	if strings.HasPrefix(pat, "^[") && strings.HasSuffix(pat, "]+$") {
		whole = true
		pat = pat[1 : len(pat)-2]
	}
	if !strings.HasPrefix(pat, "[") || !strings.HasSuffix(pat, "]") || len(pat) < 3 {
		bad("regular expression %q at %s", constant.StringVal(tv.Value), c.site(t.Pos()))
	}
	body := pat[1 : len(pat)-1]
	neg := false
	if strings.HasPrefix(body, "^") {
		neg = true
		body = body[1:]
	}
	var items []int // code points; -1 marks "range operator"
	for i := 0; i < len(body); i++ {
		ch := body[i]
		switch {
		case ch >= 0x80 || ch == '[' || ch == ']':
			bad("regular expression %q at %s", constant.StringVal(tv.Value), c.site(t.Pos()))
		case ch == '\\':
			if i+1 >= len(body) || strings.IndexByte(".-\\]^[,_", body[i+1]) < 0 {
				bad("regular expression escape in %q at %s", constant.StringVal(tv.Value), c.site(t.Pos()))
			}
			i++
			items = append(items, int(body[i]))
		case ch == '-' && len(items) > 0 && items[len(items)-1] >= 0 && i+1 < len(body):
			items = append(items, -1)
		default:
			items = append(items, int(ch))
		}
	}
	var ranges []string
	for i := 0; i < len(items); i++ {
		if i+2 < len(items) && items[i+1] == -1 {
			hi := items[i+2]
			if hi < items[i] {
				bad("regular expression range in %q at %s", constant.StringVal(tv.Value), c.site(t.Pos()))
			}
			ranges = append(ranges, fmt.Sprintf("(%d, %d)", items[i], hi))
			i += 2
			continue
		}
		if items[i] == -1 {
			bad("regular expression %q at %s", constant.StringVal(tv.Value), c.site(t.Pos()))
		}
		ranges = append(ranges, fmt.Sprintf("(%d, %d)", items[i], items[i]))
	}
	return fmt.Sprintf("({ neg := %t, ranges := [%s], whole := %t } : Go.Regex)", neg, strings.Join(ranges, ", "), whole)
}
