package main

import (
	"fmt"
	"go/ast"
	"go/types"
	"sort"
	"strings"
)

// Effects. Calls that reach outside the translated code — the lease database (whose model is
// Model/Ipdb.lean), the ARP prober, the socket, the clock — become operations of an explicit
// environment `E : Env σ` and the function lives in `StateT σ R` instead of `R`.  The theorems
// instantiate `E` with the model's database steps and quantify over the oracle values.
var effectOps = map[string]string{
	"(*" + modPath + "lib/server/ipdb.IPDB).FindIP":             "FindIP",
	"(*" + modPath + "lib/server/ipdb.IPDB).UpdateClient":       "UpdateClient",
	"(*" + modPath + "lib/server/ipdb.IPDB).LookupClientByDuid": "LookupClientByDuid",
	"(*" + modPath + "lib/server/ipdb.IPDB).InManagedRange":     "InManagedRange",
	"(*" + modPath + "lib/server.server).sendUnicast":           "SendUnicast",
	"(*" + modPath + "lib/server.server).dhcpOptions":           "DhcpOptions",
	"(*" + modPath + "lib/server.server).arpVerify":             "ArpVerify", // closure maker: see arpVerifyCall
	"time.Sleep": "Sleep",
	// the layer below lib/server/ipdb: the clients table, the clock, the caller's context
	"(*" + modPath + "lib/server/ipdb/clients.Clients).Lookup":          "ClientsLookup",
	"(*" + modPath + "lib/server/ipdb/clients.Clients).SetLease":        "ClientsSetLease",
	"(*" + modPath + "lib/server/ipdb/clients.Clients).Inject":          "ClientsInject",
	"(*" + modPath + "lib/server/ipdb/clients.Clients).InjectPermanent": "ClientsInjectPermanent",
	"time.Now":              "Now",
	"(context.Context).Err": "CtxErr",
}

// envOfPkg: every layer has its own environment structure (so that adding a layer never changes the
// environment of another one). Functions of lib/server/ipdb see `DbEnv`, everything else `Env`.
func envOfPkg(path string) string {
	if strings.HasSuffix(path, "lib/server/ipdb") {
		return "DbEnv"
	}
	return "Env"
}

// calls without observable effect on what the properties talk about (logging)
var ignorable = map[string]bool{
	"(*" + modPath + "lib/server/ylog.Ylog).Printf": true,
	modPath + "lib/server/ylog.New":                 true,
	"(*log.Logger).Printf":                          true,
	"(*log.Logger).Println":                         true,
	// locking: the discipline (write lock held for the whole body of every exported *IPDB method) is a
	// regenerated fact pinned by Expect.lean; the translation is of the body as one atomic step
	"(*sync.RWMutex).Lock":    true,
	"(*sync.RWMutex).Unlock":  true,
	"(*sync.RWMutex).RLock":   true,
	"(*sync.RWMutex).RUnlock": true,
	"(*sync.Mutex).Lock":      true,
	"(*sync.Mutex).Unlock":    true,
}

// curPkgForEffects: a call inside the package that defines the callee is an ordinary call, not a step of the
// layer below (clients.Inject calling clients.Lookup).
var curPkgForEffects string

func effectOf(f *types.Func) (string, bool) {
	if f == nil {
		return "", false
	}
	if f.Pkg() != nil && f.Pkg().Path() == curPkgForEffects && strings.HasSuffix(curPkgForEffects, "/clients") {
		return "", false
	}
	op, ok := effectOps[f.FullName()]
	return op, ok
}

func isIgnorable(f *types.Func) bool { return f != nil && ignorable[f.FullName()] }

type envOp struct {
	env  string // "Env" (server handlers) or "DbEnv" (lease database)
	name string
	typ  string // Lean type of the field, e.g. "Bytes → Bytes → StateT σ R (Bytes × GoErr)"
}

// envUse registers an environment operation (first use fixes its type) and returns `E.name`.
func (x *X) envUse(env, name string, argTypes []string, res string) string {
	t := strings.Join(append(append([]string{}, argTypes...), "StateT σ R "+res), " → ")
	for _, o := range x.envOps {
		if o.name == name && o.env == env {
			if o.typ != t {
				bad("environment operation %s used at two types: %s / %s", name, o.typ, t)
			}
			return "E." + name
		}
	}
	x.envOps = append(x.envOps, envOp{env, name, t})
	return "E." + name
}

func (x *X) envDef() string {
	if len(x.envOps) == 0 {
		return ""
	}
	ops := append([]envOp{}, x.envOps...)
	sort.Slice(ops, func(i, j int) bool { return ops[i].name < ops[j].name })
	var sb strings.Builder
	doc := map[string]string{
		"Env":   "The world outside the translated server handlers: lease database, ARP prober, socket, clock.",
		"DbEnv": "The world outside the translated lease database (lib/server/ipdb): the clients table, the clock, the caller's context.",
	}
	for _, env := range []string{"Env", "DbEnv"} {
		n := 0
		for _, o := range ops {
			if o.env == env {
				n++
			}
		}
		if n == 0 {
			continue
		}
		fmt.Fprintf(&sb, "/-- %s\nEach field stands for one Go call (receiver dropped, `context.Context` arguments dropped). -/\nstructure %s (σ : Type) where\n", doc[env], env)
		for _, o := range ops {
			if o.env == env {
				fmt.Fprintf(&sb, "  %s : %s\n", o.name, o.typ)
			}
		}
		sb.WriteString("\n")
	}
	return sb.String()
}

// envName: the environment structure of the function being translated.
func (c *fctx) envName() string { return envOfPkg(c.fi.pkg.PkgPath) }

func isContext(t types.Type) bool { return t.String() == "context.Context" }

// effectCall translates a call of an environment operation. Returns the Lean expression (already
// bound with ←) and the Go result types.
func (c *fctx) effectCall(op string, f *types.Func, t *ast.CallExpr) (string, *types.Tuple) {
	sig := f.Type().(*types.Signature)
	var args, atys []string
	for i, a := range t.Args {
		pt := sig.Params().At(i).Type()
		if isContext(pt) {
			continue
		}
		if _, isFn := pt.Underlying().(*types.Signature); isFn {
			// a callback argument must be `sx.arpVerify(x)`: it is represented by x
			inner, ok := a.(*ast.CallExpr)
			if !ok {
				bad("function-valued argument of %s at %s", op, c.site(t.Pos()))
			}
			if g, ok2 := effectOf(calleeFunc(c.info, inner)); !ok2 || g != "ArpVerify" {
				bad("function-valued argument of %s at %s", op, c.site(t.Pos()))
			}
			for _, ia := range inner.Args {
				args = append(args, c.expr(ia))
				atys = append(atys, c.x.leanType(c.typeOf(ia), false))
			}
			continue
		}
		if isNil(a) {
			args = append(args, c.nilOf(pt, a.Pos()))
		} else {
			args = append(args, c.expr(a))
		}
		atys = append(atys, c.x.leanType(pt, false))
	}
	var rtys []string
	for i := 0; i < sig.Results().Len(); i++ {
		rtys = append(rtys, c.x.leanType(sig.Results().At(i).Type(), true))
	}
	name := c.x.envUse(c.envName(), op, atys, tupleType(rtys))
	c.fi.effectful = true
	return "(← " + strings.TrimSpace(name+" "+strings.Join(args, " ")) + ")", sig.Results()
}

// arpVerifyCall: `sx.arpVerify(mac)(ctx, ip)` — the prober's verdict for (mac, ip).
func (c *fctx) arpVerifyCall(outer *ast.CallExpr, inner *ast.CallExpr) string {
	var args, atys []string
	for _, a := range inner.Args {
		args = append(args, c.expr(a))
		atys = append(atys, c.x.leanType(c.typeOf(a), false))
	}
	for _, a := range outer.Args {
		if isContext(c.typeOf(a)) {
			continue
		}
		args = append(args, c.expr(a))
		atys = append(atys, c.x.leanType(c.typeOf(a), false))
	}
	name := c.x.envUse(c.envName(), "ArpVerifyRun", atys, "Bool")
	c.fi.effectful = true
	return "(← " + name + " " + strings.Join(args, " ") + ")"
}
