package main

import (
	"fmt"
	"go/ast"
	"go/types"
	"sort"
	"strings"
)

// Effects. Calls that reach outside the translated code — the lease database (whose model is
// Model/Ipdb.lean), the ARP prober, the socket, the clock — become operations of an explicit
// environment `E : Env σ` and the function lives in `StateT σ R` instead of `R`.  The theorems
// instantiate `E` with the model's database steps and quantify over the oracle values.
var effectOps = map[string]string{
	"(*" + modPath + "lib/server/ipdb.IPDB).FindIP":             "FindIP",
	"(*" + modPath + "lib/server/ipdb.IPDB).UpdateClient":       "UpdateClient",
	"(*" + modPath + "lib/server/ipdb.IPDB).LookupClientByDuid": "LookupClientByDuid",
	"(*" + modPath + "lib/server/ipdb.IPDB).InManagedRange":     "InManagedRange",
	"(*" + modPath + "lib/server.server).sendUnicast":           "SendUnicast",
	"(*" + modPath + "lib/server.server).dhcpOptions":           "DhcpOptions",
	"(*" + modPath + "lib/server.server).arpVerify":             "ArpVerify", // closure maker: see arpVerifyCall
	"time.Sleep": "Sleep",
	// the layer below lib/server/ipdb: the clients table, the clock, the caller's context
	"(*" + modPath + "lib/server/ipdb/clients.Clients).Lookup":          "ClientsLookup",
	"(*" + modPath + "lib/server/ipdb/clients.Clients).SetLease":        "ClientsSetLease",
	"(*" + modPath + "lib/server/ipdb/clients.Clients).Inject":          "ClientsInject",
	"(*" + modPath + "lib/server/ipdb/clients.Clients).InjectPermanent": "ClientsInjectPermanent",
	"time.Now":              "Now",
	// the client automaton's world (lib/client/dclient)
	modPath + "lib/client/msgtmpl.Discover":         "TmplDiscover",
	modPath + "lib/client/msgtmpl.RequestSelecting": "TmplRequestSelecting",
	modPath + "lib/client/msgtmpl.RequestRenewing":  "TmplRequestRenewing",
	modPath + "lib/client/msgtmpl.RequestRebinding": "TmplRequestRebinding",
	"(*" + modPath + "lib/client/dclient.dclient).advanceState":    "AdvanceState",
	"(*" + modPath + "lib/client/dclient.dclient).runPreCallback":  "PreCallback",
	"(*" + modPath + "lib/client/dclient.dclient).runPostCallback": "PostCallback",
	modPath + "lib/client/dclient.hackAbsoluteSleep":               "SleepUntil",
	modPath + "lib/libif.Unconfigure":                              "Unconfigure",
	modPath + "lib/libif.Up":                                       "Up",
	modPath + "lib/libif.SetIface":                                 "SetIface",
	"(*golang.org/x/time/rate.Limiter).Allow":                      "LimiterAllow",
	// server.New: building the lease database (the database itself is lib/server/ipdb, translated separately)
	modPath + "lib/server/ipdb.New":                                   "IpdbNew",
	"(*" + modPath + "lib/server/ipdb.IPDB).SetDynamicRange":          "SetDynamicRange",
	"(*" + modPath + "lib/server/ipdb.IPDB).DisableDynamic":           "DisableDynamic",
	"(*" + modPath + "lib/server/ipdb.IPDB).AddPermanentClient":       "AddPermanentClient",
	modPath + "lib/libif.InterfaceAddr":                                "InterfaceAddr",
	// resolvconf: the process environment and the file update
	"os.Environ":                      "Environ",
	"io/ioutil.TempFile":              "TempFile",
	"os.CreateTemp":                   "TempFile",
	"(*os.File).Name":                 "FileName",
	"os.Chmod":                        "Chmod",
	"os.Rename":                       "Rename",
	"os.Remove":                       "Remove",
	modPath + "lib/resolvconf.update": "Update",
	// sockets and the ARP prober (lib/rsocks, lib/arpping seen from lib/server)
	modPath + "lib/rsocks.GetIPRecvSock":  "OpenIPRecvSock",
	modPath + "lib/rsocks.GetUnicastSendSock": "OpenUnicastSendSock",
	modPath + "lib/rsocks.GetIPSendSock":      "OpenIPSendSock",
	"math/rand.Int63":                         "RandInt63",
	modPath + "lib/rsocks.GetARPRecvSock": "OpenARPRecvSock",
	modPath + "lib/rsocks.GetARPSendSock": "OpenARPSendSock",
	modPath + "lib/arpping.Ping":          "Ping",
	"(context.Context).Err": "CtxErr",
}

// envOfPkg: every layer has its own environment structure (so that adding a layer never changes the
// environment of another one). Functions of lib/server/ipdb see `DbEnv`, everything else `Env`.
func envOfPkg(path string) string {
	if strings.HasSuffix(path, "lib/server/ipdb") {
		return "DbEnv"
	}
	if strings.HasSuffix(path, "lib/arpping") {
		return "ArpEnv"
	}
	if strings.HasSuffix(path, "lib/client/dclient") {
		return "CliEnv"
	}
	if strings.HasSuffix(path, "lib/resolvconf") {
		return "ResEnv"
	}
	return "Env"
}

// calls without observable effect on what the properties talk about (logging)
var ignorable = map[string]bool{
	"(*" + modPath + "lib/server/ylog.Ylog).Printf": true,
	modPath + "lib/server/ylog.New":                 true,
	"(*log.Logger).Printf":                          true,
	"(*log.Logger).Println":                         true,
	// locking: the discipline (write lock held for the whole body of every exported *IPDB method) is a
	// regenerated fact pinned by Expect.lean; the translation is of the body as one atomic step
	"context.WithCancel":      true,
	"context.WithTimeout":     true,
	"context.WithDeadline":    true,
	"(*sync.RWMutex).Lock":    true,
	"(*sync.RWMutex).Unlock":  true,
	"(*sync.RWMutex).RLock":   true,
	"(*sync.RWMutex).RUnlock": true,
	"(*sync.Mutex).Lock":      true,
	"(*sync.Mutex).Unlock":    true,
}

// curPkgForEffects: a call inside the package that defines the callee is an ordinary call, not a step of the
// layer below (clients.Inject calling clients.Lookup).
var curPkgForEffects string

func effectOf(f *types.Func) (string, bool) {
	if f == nil {
		return "", false
	}
	if f.Pkg() != nil && f.Pkg().Path() == curPkgForEffects && (strings.HasSuffix(curPkgForEffects, "/clients") || strings.HasSuffix(curPkgForEffects, "/arpping") || strings.HasSuffix(curPkgForEffects, "/ipdb")) {
		return "", false
	}
	op, ok := effectOps[f.FullName()]
	return op, ok
}

func isIgnorable(f *types.Func) bool { return f != nil && ignorable[f.FullName()] }

type envOp struct {
	env  string // "Env" (server handlers) or "DbEnv" (lease database)
	name string
	typ  string // Lean type of the field, e.g. "Bytes → Bytes → StateT σ R (Bytes × GoErr)"
}

// envUse registers an environment operation (first use fixes its type) and returns `E.name`.
func (x *X) envUse(env, name string, argTypes []string, res string) string {
	t := strings.Join(append(append([]string{}, argTypes...), "StateT σ R "+res), " → ")
	for _, o := range x.envOps {
		if o.name == name && o.env == env {
			if o.typ != t {
				bad("environment operation %s used at two types: %s / %s", name, o.typ, t)
			}
			return "E." + name
		}
	}
	x.envOps = append(x.envOps, envOp{env, name, t})
	return "E." + name
}

func (x *X) envDef() string {
	if len(x.envOps) == 0 {
		return ""
	}
	ops := append([]envOp{}, x.envOps...)
	sort.Slice(ops, func(i, j int) bool { return ops[i].name < ops[j].name })
	var sb strings.Builder
	doc := map[string]string{
		"Env":   "The world outside the translated server handlers: lease database, ARP prober, socket, clock.",
		"DbEnv": "The world outside the translated lease database (lib/server/ipdb): the clients table, the clock, the caller's context.",
	}
	doc["ArpEnv"] = "The world outside the translated ARP prober (lib/arpping): the receive socket and the sender goroutine."
	doc["CliEnv"] = "The world outside the translated client automaton (lib/client/dclient): sockets, the exchange primitive, libif, the prober, callbacks, clock, rate limiter."
	doc["NewEnv"] = "The world outside the translated constructor server.New: the interface's address and the lease database being configured."
	doc["ResEnv"] = "The world outside the translated resolvconf.Run: the process environment and the atomic file update (C20)."
	doc["SendEnv"] = "The world outside the translated sender goroutine of the client (sendMessage/sendSocket): sockets, the prober, the random source, the timer-or-cancel wait."
	doc["FsEnv"] = "The file system as resolvconf.update sees it: one call per field, each of which may fail (C20)."
	doc["RunEnv"] = "The world outside the translated receive loop and prober wrapper of lib/server: the receive socket, the handler goroutines it starts, the ARP prober."
	doc["SockEnv"] = "The world outside the two one-shot senders (server.sendUnicast, arpping.sendARPPing): a send socket that can be opened, written and closed, the timer-or-cancel wait."
	for _, env := range []string{"Env", "DbEnv", "ArpEnv", "RunEnv", "CliEnv", "NewEnv", "ResEnv", "SendEnv", "FsEnv", "SockEnv"} {
		n := 0
		for _, o := range ops {
			if o.env == env {
				n++
			}
		}
		if n == 0 {
			continue
		}
		fmt.Fprintf(&sb, "/-- %s\nEach field stands for one Go call (receiver dropped, `context.Context` arguments dropped). -/\nstructure %s (σ : Type) where\n", doc[env], env)
		for _, o := range ops {
			if o.env == env {
				fmt.Fprintf(&sb, "  %s : %s\n", o.name, o.typ)
			}
		}
		sb.WriteString("\n")
	}
	return sb.String()
}

// envName: the environment structure of the function being translated.
func (c *fctx) envName() string {
	// the receive loop and the prober wrapper of lib/server talk to sockets, not to the lease database:
	// their own environment keeps the handlers' `Env` unchanged
	if strings.HasSuffix(c.fi.pkg.PkgPath, "lib/server") && (c.fi.obj.Name() == "Run" || c.fi.obj.Name() == "arpVerify") {
		return "RunEnv"
	}
	if strings.HasSuffix(c.fi.pkg.PkgPath, "lib/server") && c.fi.obj.Name() == "New" {
		return "NewEnv"
	}
	if strings.HasSuffix(c.fi.pkg.PkgPath, "lib/client/dclient") && (c.fi.obj.Name() == "sendMessage" || c.fi.obj.Name() == "sendSocket") {
		return "SendEnv"
	}
	// the two one-shot senders: open a send socket, write, close (C19's deferClose / closeAfterUse disciplines)
	if (strings.HasSuffix(c.fi.pkg.PkgPath, "lib/server") && c.fi.obj.Name() == "sendUnicast") || (strings.HasSuffix(c.fi.pkg.PkgPath, "lib/arpping") && c.fi.obj.Name() == "sendARPPing") {
		return "SockEnv"
	}
	if strings.HasSuffix(c.fi.pkg.PkgPath, "lib/resolvconf") && c.fi.obj.Name() == "update" {
		return "FsEnv"
	}
	return envOfPkg(c.fi.pkg.PkgPath)
}

func isContext(t types.Type) bool { return t.String() == "context.Context" }

// effectCall translates a call of an environment operation. Returns the Lean expression (already
// bound with ←) and the Go result types.
func (c *fctx) effectCall(op string, f *types.Func, t *ast.CallExpr) (string, *types.Tuple) {
	sig := f.Type().(*types.Signature)
	var args, atys []string
	c.ptrBacks = nil
	var ptrTys []string
	for i, a := range t.Args {
		pt := sig.Params().At(i).Type()
		if isContext(pt) {
			continue
		}
		if _, isFn := pt.Underlying().(*types.Signature); isFn {
			inner, ok := a.(*ast.CallExpr)
			if ok {
				if g, ok2 := effectOf(calleeFunc(c.info, inner)); ok2 && g == "ArpVerify" {
					// the callback `sx.arpVerify(x)` is represented by x
					for _, ia := range inner.Args {
						args = append(args, c.expr(ia))
						atys = append(atys, c.x.leanType(c.typeOf(ia), false))
					}
					continue
				}
			}
			args = append(args, c.funcArg(a))
			atys = append(atys, c.x.leanType(pt, false))
			continue
		}
		if c.x.kindOf(pt) == kPtrStruct { // a *T argument may be nil
			switch {
			case isNil(a):
				args = append(args, "none")
			default:
				if u, ok := a.(*ast.UnaryExpr); ok && u.Op.String() == "&" {
					args = append(args, "(some "+c.expr(u.X)+")")
				} else {
					args = append(args, "(some "+c.expr(a)+")")
				}
			}
			atys = append(atys, c.x.leanType(pt, true))
			// the callee may write through the pointer: the environment returns the record as it left it
			ptrTys = append(ptrTys, c.x.leanType(pt, true))
			if u, ok := a.(*ast.UnaryExpr); ok && u.Op.String() == "&" {
				lv := c.lvalue(u.X)
				c.ptrBacks = append(c.ptrBacks, &lv)
			} else {
				c.ptrBacks = append(c.ptrBacks, nil)
			}
			continue
		}
		if isNil(a) {
			args = append(args, c.nilOf(pt, a.Pos()))
		} else {
			args = append(args, c.expr(a))
		}
		atys = append(atys, c.x.leanType(pt, false))
	}
	var rtys []string
	for i := 0; i < sig.Results().Len(); i++ {
		rtys = append(rtys, c.x.leanType(sig.Results().At(i).Type(), true))
	}
	name := c.x.envUse(c.envName(), op, atys, tupleType(append(rtys, ptrTys...)))
	c.fi.effectful = true
	return "(← " + strings.TrimSpace(name+" "+strings.Join(args, " ")) + ")", sig.Results()
}

// arpVerifyCall: `sx.arpVerify(mac)(ctx, ip)` — the prober's verdict for (mac, ip).
func (c *fctx) arpVerifyCall(outer *ast.CallExpr, inner *ast.CallExpr) string {
	var args, atys []string
	for _, a := range inner.Args {
		args = append(args, c.expr(a))
		atys = append(atys, c.x.leanType(c.typeOf(a), false))
	}
	for _, a := range outer.Args {
		if isContext(c.typeOf(a)) {
			continue
		}
		args = append(args, c.expr(a))
		atys = append(atys, c.x.leanType(c.typeOf(a), false))
	}
	name := c.x.envUse(c.envName(), "ArpVerifyRun", atys, "Bool")
	c.fi.effectful = true
	return "(← " + name + " " + strings.Join(args, " ") + ")"
}

// funcArg: a function value passed to the environment — a variable holding one, or the partial application
// `f(x...)` of a translated function that returns a closure.
func (c *fctx) funcArg(a ast.Expr) string {
	if id, ok := a.(*ast.Ident); ok {
		if v, ok := c.info.Uses[id].(*types.Var); ok && c.x.kindOf(v.Type()) == kFunc {
			return c.varName(v)
		}
	}
	call, ok := a.(*ast.CallExpr)
	if !ok {
		bad("function-valued argument at %s", c.site(a.Pos()))
	}
	ci := c.x.funcs[calleeFunc(c.info, call)]
	if ci == nil || !ci.closure || ci.effectful || len(ci.oracles) > 0 || len(ci.mutParams) > 0 {
		bad("function-valued argument at %s", c.site(a.Pos()))
	}
	outer := c.userArgs(ci, call)
	n := len(ci.params) - len(outer)
	if ci.fwdCall != nil {
		n = len(ci.fwd)
	}
	var ps []string
	for i := 0; i < n; i++ {
		ps = append(ps, fmt.Sprintf("q%d", i+1))
	}
	body := "Gen." + ci.lean + " " + strings.Join(append(append([]string{}, outer...), ps...), " ")
	if !ci.mayFail {
		body = "pure (" + body + ")"
	}
	return "(fun " + strings.Join(ps, " ") + " => " + body + ")"
}
