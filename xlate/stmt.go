package main

import (
	"fmt"
	"go/ast"
	"go/token"
	"go/types"
	"sort"
	"strings"
)

type out struct{ lines []string }

func (o *out) emit(ind int, f string, a ...any) {
	o.lines = append(o.lines, strings.Repeat("  ", ind)+fmt.Sprintf(f, a...))
}

type lval struct {
	get string
	set func(nv string) string
}

func (c *fctx) lvalue(e ast.Expr) lval {
	switch t := e.(type) {
	case *ast.ParenExpr:
		return c.lvalue(t.X)
	case *ast.StarExpr: // *p = v with p a (non-nil) pointer parameter: the updated record is returned to the caller
		if id, ok := t.X.(*ast.Ident); ok && c.x.kindOf(c.typeOf(id)) == kPtrStruct && !c.isOptVar(id) {
			return c.lvalue(id)
		}
	case *ast.Ident:
		v, ok := c.info.ObjectOf(t).(*types.Var)
		if !ok || v.Parent() == v.Pkg().Scope() {
			bad("assignment to %s at %s", t.Name, c.site(e.Pos()))
		}
		n := c.varName(v)
		return lval{n, func(nv string) string { return n + " := " + nv }}
	case *ast.SelectorExpr:
		if sel, ok := c.info.Selections[t]; ok && sel.Kind() == types.FieldVal {
			if c.x.kindOf(c.typeOf(t.X)) == kHeapPtr { // p.f = v: update the record p points to
				c.useHeap()
				ptr, f, site := c.expr(t.X), leanIdent(t.Sel.Name), c.site(e.Pos())
				return lval{fmt.Sprintf("(← Go.heapGet %s %s).%s", ptr, site, f), func(nv string) string {
					return fmt.Sprintf("Go.heapModify %s (fun __c => { __c with %s := %s }) %s", ptr, f, nv, site)
				}}
			}
			if inner, ok := t.X.(*ast.SelectorExpr); ok { // x.f.g = v
				if isel, ok := c.info.Selections[inner]; ok && isel.Kind() == types.FieldVal && c.x.kindOf(c.typeOf(inner)) == kStruct {
					base := c.lvalue(inner)
					f := leanIdent(t.Sel.Name)
					return lval{base.get + "." + f, func(nv string) string { return base.set("{ " + base.get + " with " + f + " := " + nv + " }") }}
				}
			}
			if id, ok := t.X.(*ast.Ident); ok {
				base := c.lvalue(id)
				f := leanIdent(t.Sel.Name)
				return lval{base.get + "." + f, func(nv string) string { return base.set("{ " + base.get + " with " + f + " := " + nv + " }") }}
			}
		}
	}
	bad("unsupported assignment target at %s", c.site(e.Pos()))
	return lval{}
}

// target: a copy/Put destination `X`, `X[lo:]`, `X[lo:hi]`, `X[:]`.
func (c *fctx) target(e ast.Expr) (lval, string, string) {
	if se, ok := e.(*ast.SliceExpr); ok && !se.Slice3 {
		lv := c.lvalue(se.X)
		lo, hi := "(0 : Int)", "(Int.ofNat "+lv.get+".length)"
		if se.Low != nil {
			lo = c.toInt(se.Low)
		}
		if se.High != nil {
			hi = c.toInt(se.High)
		}
		return lv, lo, hi
	}
	lv := c.lvalue(e)
	return lv, "(0 : Int)", "(Int.ofNat " + lv.get + ".length)"
}

func proj(t string, i, total int) string {
	if total == 1 {
		return t
	}
	s := t + strings.Repeat(".2", i)
	if i < total-1 {
		s += ".1"
	}
	return s
}

func tuple(parts []string) string {
	switch len(parts) {
	case 0:
		return "()"
	case 1:
		return parts[0]
	}
	return "(" + strings.Join(parts, ", ") + ")"
}

func tupleType(parts []string) string {
	switch len(parts) {
	case 0:
		return "Unit"
	case 1:
		return parts[0]
	}
	return "(" + strings.Join(parts, " × ") + ")"
}

// ---------------------------------------------------------------- function level

func (x *X) translate(fi *FuncInfo) {
	defer func() {
		if r := recover(); r != nil {
			if u, ok := r.(unsupported); ok {
				fi.err = u.why
				return
			}
			panic(r)
		}
	}()
	c := &fctx{x: x, fi: fi, info: fi.pkg.TypesInfo, names: map[*types.Var]string{}, used: map[string]int{}, optVars: map[*types.Var]bool{}}
	if fi.err != "" {
		return
	}
	params := paramVars(fi)
	for _, p := range params {
		if effectfulCallback(p.Type()) {
			fi.effectful = true
		}
	}
	var header []string
	for _, p := range params {
		header = append(header, fmt.Sprintf("(%s : %s)", c.varName(p), x.leanType(p.Type(), false)))
	}
	o := &out{}
	// parameters that are assigned or written through become mutable locals
	for _, p := range params {
		if c.assignedIn(fi.decl.Body, p) {
			o.emit(1, "let mut %s := %s", c.varName(p), c.varName(p))
		}
	}
	for i := 0; i < fi.results.Len(); i++ { // named results
		r := fi.results.At(i)
		if r.Name() != "" && r.Name() != "_" {
			o.emit(1, "let mut %s : %s := %s", c.varName(r), x.leanType(r.Type(), true), c.zeroResult(r.Type()))
		}
	}
	if fi.fwdCall != nil { // `return g(args)` where g returns a closure: pass the remaining parameters on
		gi := x.funcs[calleeFunc(c.info, fi.fwdCall)]
		args := c.userArgs(gi, fi.fwdCall)
		for i, t := range fi.fwd {
			n := fmt.Sprintf("a%d", i+1)
			header = append(header, fmt.Sprintf("(%s : %s)", n, x.leanType(t, false)))
			args = append(args, n)
		}
		o.emit(1, "return %s", c.userCall(gi, fi.fwdCall, args))
	} else {
		c.funcBody(o, 1, fi.body, nil)
	}
	for _, or := range c.fi.oracles {
		header = append(header, fmt.Sprintf("(%s : %s)", or.name, or.typ))
	}
	rt := c.retType()
	var sb strings.Builder
	for _, d := range c.loopDefs {
		sb.WriteString(d)
		sb.WriteString("\n")
	}
	name, line := posLine(x.fset, fi.decl.Pos())
	fmt.Fprintf(&sb, "/-- %s:%d `%s` -/\n", name, line, fi.obj.FullName())
	if fi.effectful && fi.heapful {
		bad("function uses both an environment and the record heap")
	}
	if fi.heapful {
		fmt.Fprintf(&sb, "def %s %s : StateT Heap R %s := do\n", fi.lean, strings.Join(header, " "), rt)
	} else if fi.effectful {
		fmt.Fprintf(&sb, "def %s {σ : Type} (E : %s σ) %s : StateT σ R %s := do\n", fi.lean, c.envName(), strings.Join(header, " "), rt)
	} else if fi.mayFail {
		fmt.Fprintf(&sb, "def %s %s : R %s := do\n", fi.lean, strings.Join(header, " "), rt)
	} else {
		fmt.Fprintf(&sb, "def %s %s : %s := Id.run do\n", fi.lean, strings.Join(header, " "), rt)
	}
	for _, l := range o.lines {
		if !fi.mayFail && failing(l) {
			bad("internal: partial operation in a function classified as total: %s", l)
		}
		sb.WriteString(l + "\n")
	}
	fi.text = sb.String()
}

func isReturn(s ast.Stmt) bool { _, ok := s.(*ast.ReturnStmt); return ok }

type mutScope struct{ ind, start int }

// funcBody emits the statements of a function body (or the rest of one). A statement that registers the closing of a socket
// for the time the function returns — `defer s.Close()`, or the closer idiom `ctx, cancel := context.WithCancel(..); defer
// cancel(); go func() { <-ctx.Done(); s.Close() }()` — turns the REST of the body into an inner block; when that block is
// left, by whichever `return`, the socket is closed (environment operation SockClose) and the block's value is returned.
func (c *fctx) funcBody(o *out, ind int, body []ast.Stmt, scopes []mutScope) {
	fi := c.fi
	for i, st := range body {
		if c.registersSockClose(st) {
			if c.loop != nil {
				bad("socket close registered inside a loop at %s", c.site(st.Pos()))
			}
			closeOp := c.x.envUse(c.envName(), "SockClose", nil, "GoErr")
			fi.effectful = true
			r := c.fresh("__r")
			o.emit(ind, "let %s ← (do", r)
			// mutable locals in scope are re-declared: the inner block may assign them, nothing after it reads them
			seen := map[string]bool{}
			for _, sc := range append(append([]mutScope{}, scopes...), mutScope{ind, 0}) {
				for k := sc.start; k < len(o.lines); k++ {
					l := o.lines[k]
					t := strings.TrimLeft(l, " ")
					if len(l)-len(t) == 2*sc.ind && strings.HasPrefix(t, "let mut ") {
						n := strings.Fields(t[len("let mut "):])[0]
						if !seen[n] {
							seen[n] = true
						}
					}
				}
			}
			var names []string
			for n := range seen {
				names = append(names, n)
			}
			sort.Strings(names)
			for _, n := range names {
				o.emit(ind+2, "let mut %s := %s", n, n)
			}
			start := len(o.lines)
			c.funcBody(o, ind+2, body[i+1:], append(append([]mutScope{}, scopes...), mutScope{ind, 0}, mutScope{ind + 2, start}))
			o.emit(ind+1, ")")
			o.emit(ind, "let _ ← %s", closeOp)
			o.emit(ind, "return %s", r)
			return
		}
		c.stmt(o, ind, st)
	}
	if n := len(body); n == 0 || !isReturn(body[n-1]) {
		if fi.results.Len() == 0 {
			o.emit(ind, "return %s", c.retTuple(nil))
		} else if n > 0 {
			if fs, ok := body[n-1].(*ast.ForStmt); ok && fs.Cond == nil {
				o.emit(ind, "throw (Err.panic \"unreachable:%s\")", fi.lean) // Go: a `for {}` without break is a terminating statement
			}
		}
	}
}

// registersSockClose: `defer s.Close()` on a socket, or the closer goroutine `go func() { <-ctx.Done(); s.Close() }()` whose
// context is cancelled by a deferred cancel() of this function (so the close happens when the function returns at the latest).
func (c *fctx) registersSockClose(st ast.Stmt) bool {
	switch t := st.(type) {
	case *ast.DeferStmt:
		if se, ok := t.Call.Fun.(*ast.SelectorExpr); ok && se.Sel.Name == "Close" && c.x.kindOf(c.typeOf(se.X)) == kSock {
			return true
		}
	case *ast.GoStmt:
		fl, ok := t.Call.Fun.(*ast.FuncLit)
		if !ok || len(fl.Body.List) != 2 {
			return false
		}
		// first statement: <-X.Done()
		es, ok := fl.Body.List[0].(*ast.ExprStmt)
		if !ok {
			return false
		}
		u, ok := es.X.(*ast.UnaryExpr)
		if !ok || u.Op != token.ARROW {
			return false
		}
		dc, ok := u.X.(*ast.CallExpr)
		if !ok {
			return false
		}
		f := calleeFunc(c.info, dc)
		dse, ok2 := dc.Fun.(*ast.SelectorExpr)
		if f == nil || f.FullName() != "(context.Context).Done" || !ok2 {
			return false
		}
		ctxID, ok := dse.X.(*ast.Ident)
		if !ok {
			return false
		}
		// second statement: s.Close() on a socket
		cs, ok := fl.Body.List[1].(*ast.ExprStmt)
		if !ok {
			return false
		}
		cc, ok := cs.X.(*ast.CallExpr)
		if !ok {
			return false
		}
		se, ok := cc.Fun.(*ast.SelectorExpr)
		if !ok || se.Sel.Name != "Close" || c.x.kindOf(c.typeOf(se.X)) != kSock {
			return false
		}
		// the awaited context is a local derived by context.WithCancel/WithTimeout/WithDeadline whose cancel function is deferred
		if !c.cancelledOnReturn(ctxID) {
			bad("closer goroutine at %s waits for a context this function does not cancel on return", c.site(st.Pos()))
		}
		return true
	}
	return false
}

// cancelledOnReturn: `id, cancel := context.WithX(...)` and `defer cancel()` both occur at the top level of this function.
func (c *fctx) cancelledOnReturn(id *ast.Ident) bool {
	ctxVar := c.info.ObjectOf(id)
	var cancelVar types.Object
	for _, st := range c.fi.decl.Body.List {
		if as, ok := st.(*ast.AssignStmt); ok && len(as.Lhs) == 2 && len(as.Rhs) == 1 {
			if l0, ok := as.Lhs[0].(*ast.Ident); ok && c.info.ObjectOf(l0) == ctxVar {
				if call, ok := as.Rhs[0].(*ast.CallExpr); ok {
					if f := calleeFunc(c.info, call); f != nil && (f.FullName() == "context.WithCancel" || f.FullName() == "context.WithTimeout" || f.FullName() == "context.WithDeadline") {
						if l1, ok := as.Lhs[1].(*ast.Ident); ok {
							cancelVar = c.info.ObjectOf(l1)
						}
					}
				}
			}
		}
		if ds, ok := st.(*ast.DeferStmt); ok && cancelVar != nil {
			if fid, ok := ds.Call.Fun.(*ast.Ident); ok && c.info.ObjectOf(fid) == cancelVar && len(ds.Call.Args) == 0 {
				return true
			}
		}
	}
	return false
}

func (c *fctx) zeroResult(t types.Type) string {
	if c.x.kindOf(t) == kPtrStruct {
		return "none"
	}
	return c.x.zero(t)
}

// retType: results followed by the written-through parameters.
func (c *fctx) retType() string {
	var parts []string
	for i := 0; i < c.fi.results.Len(); i++ {
		parts = append(parts, c.x.leanType(c.fi.results.At(i).Type(), true))
	}
	ps := paramVars(c.fi)
	for _, mi := range c.fi.mutParams {
		parts = append(parts, c.x.leanType(ps[mi].Type(), false))
	}
	return tupleType(parts)
}

func (c *fctx) retTuple(vals []string) string {
	ps := paramVars(c.fi)
	parts := append([]string{}, vals...)
	for _, mi := range c.fi.mutParams {
		parts = append(parts, c.varName(ps[mi]))
	}
	return tuple(parts)
}

// assignedIn: is variable v (re)assigned or written through anywhere in n?
func (c *fctx) assignedIn(n ast.Node, v *types.Var) bool {
	found := false
	ast.Inspect(n, func(n ast.Node) bool {
		for _, r := range c.writtenRoots(n) {
			if r == v {
				found = true
			}
		}
		return true
	})
	return found
}

// writtenRoots: the variables a single statement/call node writes (not descending).
func (c *fctx) writtenRoots(n ast.Node) []*types.Var {
	var out []*types.Var
	root := func(e ast.Expr) {
		for {
			switch t := e.(type) {
			case *ast.SelectorExpr:
				if sel, ok := c.info.Selections[t]; ok && sel.Kind() == types.FieldVal {
					e = t.X
					continue
				}
			case *ast.IndexExpr:
				e = t.X
				continue
			case *ast.SliceExpr:
				e = t.X
				continue
			case *ast.ParenExpr:
				e = t.X
				continue
			case *ast.StarExpr:
				e = t.X
				continue
			}
			break
		}
		if id, ok := e.(*ast.Ident); ok {
			if v, ok := c.info.ObjectOf(id).(*types.Var); ok {
				out = append(out, v)
			}
		}
	}
	switch n := n.(type) {
	case *ast.AssignStmt:
		if n.Tok != token.DEFINE {
			for _, l := range n.Lhs {
				root(l)
			}
		} else { // := may re-assign existing variables
			for _, l := range n.Lhs {
				if id, ok := l.(*ast.Ident); ok && c.info.Defs[id] == nil {
					root(l)
				}
			}
		}
	case *ast.IncDecStmt:
		root(n.X)
	case *ast.CallExpr:
		if id, ok := n.Fun.(*ast.Ident); ok && (id.Name == "copy" || id.Name == "delete") && len(n.Args) == 2 {
			root(n.Args[0])
		}
		if se, ok := n.Fun.(*ast.SelectorExpr); ok && se.Sel.Name == "Read" && len(n.Args) == 1 && c.x.kindOf(c.typeOf(se.X)) == kSock {
			root(n.Args[0]) // s.Read(buf) fills buf
		}
		if isPkgCall(c.info, n, "encoding/binary") && len(n.Args) == 2 {
			root(n.Args[0])
		}
		if f := calleeFunc(c.info, n); f != nil {
			if _, isEnv := effectOf(f); isEnv {
				return out
			}
			if ci := c.x.funcs[f]; ci != nil {
				off := 0
				if ci.obj.Type().(*types.Signature).Recv() != nil {
					off = 1
				}
				for _, mi := range ci.mutParams {
					if ai := mi - off; ai >= 0 && ai < len(n.Args) {
						root(n.Args[ai])
					} else if ai < 0 {
						if se, ok := n.Fun.(*ast.SelectorExpr); ok {
							root(se.X)
						}
					}
				}
			}
		}
	}
	return out
}

// ---------------------------------------------------------------- statements

func (c *fctx) block(o *out, ind int, stmts []ast.Stmt) {
	for _, s := range stmts {
		c.stmt(o, ind, s)
	}
}

func (c *fctx) branch(o *out, ind int, stmts []ast.Stmt) {
	n := len(o.lines)
	c.block(o, ind, stmts)
	if len(o.lines) == n {
		o.emit(ind, "pure ()")
	}
}

func (c *fctx) stmt(o *out, ind int, s ast.Stmt) {
	switch t := s.(type) {
	case *ast.BlockStmt:
		c.block(o, ind, t.List)
	case *ast.EmptyStmt:
	case *ast.DeferStmt:
		if id, ok := t.Call.Fun.(*ast.Ident); ok { // defer cancel()
			if v, ok := c.info.Uses[id].(*types.Var); ok && dropped(v.Type()) {
				return
			}
		}
		if fl, ok := t.Call.Fun.(*ast.FuncLit); ok && len(t.Call.Args) == 0 && len(fl.Type.Params.List) == 0 && c.loop == nil {
			// defer func() { ... }(): runs at every return of this function, after the results are set
			for i := 0; i < c.fi.results.Len(); i++ {
				if n := c.fi.results.At(i).Name(); n == "" || n == "_" {
					bad("deferred closure in a function without named results at %s", c.site(s.Pos()))
				}
			}
			c.defers = append(c.defers, fl)
			return
		}
		if se, ok := t.Call.Fun.(*ast.SelectorExpr); ok && se.Sel.Name == "Close" && c.x.kindOf(c.typeOf(se.X)) == kSock {
			bad("defer of a socket Close below the top level of a function at %s", c.site(s.Pos())) // top level: funcBody
		}
		if !isIgnorable(calleeFunc(c.info, t.Call)) {
			bad("defer at %s", c.site(s.Pos()))
		}
	case *ast.SelectStmt:
		c.selectStmt(o, ind, t)
	case *ast.GoStmt:
		c.goStmt(o, ind, t)
	case *ast.ExprStmt:
		if u, ok := t.X.(*ast.UnaryExpr); ok && u.Op == token.ARROW { // <-ctx.Done(): wait until that context ends
			if dc, ok := u.X.(*ast.CallExpr); ok {
				if f := calleeFunc(c.info, dc); f != nil && f.FullName() == "(context.Context).Done" {
					name := c.x.envUse(c.envName(), "AwaitDone", nil, "Unit")
					c.fi.effectful = true
					o.emit(ind, "%s", name)
					return
				}
			}
		}
		call, ok := t.X.(*ast.CallExpr)
		if !ok {
			bad("expression statement at %s", c.site(s.Pos()))
		}
		c.callStmt(o, ind, call, nil, false)
	case *ast.IncDecStmt:
		op := "+"
		if t.Tok == token.DEC {
			op = "-"
		}
		c.assignTo(o, ind, t.X, fmt.Sprintf("(%s %s %s)", c.expr(t.X), op, c.one(c.typeOf(t.X))))
	case *ast.DeclStmt:
		gd := t.Decl.(*ast.GenDecl)
		if gd.Tok == token.CONST {
			return // constants are folded where they are used
		}
		if gd.Tok != token.VAR {
			bad("declaration at %s", c.site(s.Pos()))
		}
		for _, sp := range gd.Specs {
			vs := sp.(*ast.ValueSpec)
			for i, id := range vs.Names {
				v := c.info.Defs[id].(*types.Var)
				val := c.x.zero(v.Type())
				if i < len(vs.Values) {
					val = c.expr(vs.Values[i])
				}
				o.emit(ind, "let mut %s : %s := %s", c.varName(v), c.x.leanType(v.Type(), false), val)
			}
		}
	case *ast.AssignStmt:
		c.assign(o, ind, t)
	case *ast.ReturnStmt:
		c.ret(o, ind, t)
	case *ast.IfStmt:
		if t.Init != nil {
			c.stmt(o, ind, t.Init)
		}
		o.emit(ind, "if %s then", c.expr(t.Cond))
		c.branch(o, ind+1, t.Body.List)
		if t.Else != nil {
			o.emit(ind, "else")
			c.branch(o, ind+1, []ast.Stmt{t.Else})
		}
	case *ast.SwitchStmt:
		c.switchStmt(o, ind, t)
	case *ast.ForStmt:
		c.forStmt(o, ind, t)
	case *ast.RangeStmt:
		c.rangeStmt(o, ind, t)
	case *ast.BranchStmt:
		if t.Label != nil || c.loop == nil {
			bad("branch statement at %s", c.site(s.Pos()))
		}
		switch t.Tok {
		case token.CONTINUE:
			c.loop.next(o, ind)
		case token.BREAK:
			if c.loop.inSwitch > 0 {
				bad("break inside switch at %s", c.site(s.Pos()))
			}
			o.emit(ind, "return %s", c.loop.done())
		default:
			bad("branch statement at %s", c.site(s.Pos()))
		}
	default:
		bad("statement %T at %s", s, c.site(s.Pos()))
	}
}

func (c *fctx) one(t types.Type) string {
	k := c.x.kindOf(t)
	if isUint(k) {
		return "(1 : " + uintName(k) + ")"
	}
	return "(1 : Int)"
}

// assignTo: `lhs = val` for every supported left-hand side.
func (c *fctx) assignTo(o *out, ind int, lhs ast.Expr, val string) {
	if id, ok := lhs.(*ast.Ident); ok && id.Name == "_" {
		return
	}
	if ix, ok := lhs.(*ast.IndexExpr); ok && c.x.kindOf(c.typeOf(ix.X)) == kMap {
		lv := c.lvalue(ix.X)
		o.emit(ind, "%s", lv.set(fmt.Sprintf("(Go.mapSet %s %s %s)", lv.get, c.expr(ix.Index), val)))
		return
	}
	if ix, ok := lhs.(*ast.IndexExpr); ok {
		lv := c.lvalue(ix.X)
		o.emit(ind, "%s", lv.set(fmt.Sprintf("(← Go.setIdx %s %s %s %s)", lv.get, c.toInt(ix.Index), val, c.site(lhs.Pos()))))
		return
	}
	lv := c.lvalue(lhs)
	o.emit(ind, "%s", lv.set(val))
}

func (c *fctx) assign(o *out, ind int, t *ast.AssignStmt) {
	// v, ok := m[k]
	if len(t.Rhs) == 1 && len(t.Lhs) == 2 {
		if ix, ok := t.Rhs[0].(*ast.IndexExpr); ok && c.x.kindOf(c.typeOf(ix.X)) == kMap {
			tmp := c.fresh("__m")
			o.emit(ind, "let %s := Go.mapGet? %s %s", tmp, c.expr(ix.X), c.expr(ix.Index))
			elem := c.typeOf(ix.X).Underlying().(*types.Map).Elem()
			c.define(o, ind, t.Lhs[0], fmt.Sprintf("(%s.getD %s)", tmp, c.x.zero(elem)), t.Tok == token.DEFINE)
			c.define(o, ind, t.Lhs[1], tmp+".isSome", t.Tok == token.DEFINE)
			return
		}
	}
	// x, y := f(...)
	if len(t.Rhs) == 1 && len(t.Lhs) > 1 {
		call, ok := t.Rhs[0].(*ast.CallExpr)
		if !ok {
			bad("multi-value assignment at %s", c.site(t.Pos()))
		}
		c.callStmt(o, ind, call, t.Lhs, t.Tok == token.DEFINE)
		return
	}
	if len(t.Lhs) != len(t.Rhs) {
		bad("assignment arity at %s", c.site(t.Pos()))
	}
	if len(t.Lhs) == 1 {
		if call, ok := t.Rhs[0].(*ast.CallExpr); ok {
			if se, ok := call.Fun.(*ast.SelectorExpr); ok && c.x.kindOf(c.typeOf(se.X)) == kSock && (se.Sel.Name == "Close" || se.Sel.Name == "Write") {
				c.callStmt(o, ind, call, t.Lhs, t.Tok == token.DEFINE)
				return
			}
			if f := calleeFunc(c.info, call); f != nil {
				if ci := c.x.funcs[f]; ci != nil && len(ci.mutParams) > 0 {
					c.callStmt(o, ind, call, t.Lhs, t.Tok == token.DEFINE)
					return
				}
			}
		}
	}
	if len(t.Lhs) > 1 { // parallel assignment: evaluate all right-hand sides first
		var tmps []string
		for _, r := range t.Rhs {
			n := c.fresh("__p")
			o.emit(ind, "let %s := %s", n, c.expr(r))
			tmps = append(tmps, n)
		}
		for i, l := range t.Lhs {
			c.define(o, ind, l, tmps[i], t.Tok == token.DEFINE)
		}
		return
	}
	lhs, rhs := t.Lhs[0], t.Rhs[0]
	if call, ok := rhs.(*ast.CallExpr); ok && isIgnorable(calleeFunc(c.info, call)) {
		return // logging handle: never used by translated code
	}
	if dropped(c.typeOf(lhs)) { // dx.ctx = ctx: contexts carry nothing the translation computes with
		return
	}
	switch t.Tok {
	case token.DEFINE, token.ASSIGN:
		c.define(o, ind, lhs, c.expr(rhs), t.Tok == token.DEFINE)
	default: // op=
		op := map[token.Token]token.Token{token.ADD_ASSIGN: token.ADD, token.SUB_ASSIGN: token.SUB, token.MUL_ASSIGN: token.MUL, token.QUO_ASSIGN: token.QUO,
			token.REM_ASSIGN: token.REM, token.AND_ASSIGN: token.AND, token.OR_ASSIGN: token.OR, token.XOR_ASSIGN: token.XOR,
			token.SHL_ASSIGN: token.SHL, token.SHR_ASSIGN: token.SHR, token.AND_NOT_ASSIGN: token.AND_NOT}[t.Tok]
		be := &ast.BinaryExpr{X: lhs, Op: op, Y: rhs, OpPos: t.TokPos}
		c.info.Types[be] = types.TypeAndValue{Type: c.typeOf(lhs)}
		c.assignTo(o, ind, lhs, c.binary(be))
	}
}

// define: `lhs := val` (new variable) or `lhs = val`.
func (c *fctx) define(o *out, ind int, lhs ast.Expr, val string, isDefine bool) {
	if id, ok := lhs.(*ast.Ident); ok {
		if id.Name == "_" {
			return
		}
		if v, ok := c.info.Defs[id].(*types.Var); ok && isDefine {
			if dropped(v.Type()) {
				return
			}
			o.emit(ind, "let mut %s : %s := %s", c.varName(v), c.x.leanType(v.Type(), c.optVars[v]), val)
			return
		}
	}
	c.assignTo(o, ind, lhs, val)
}

func (c *fctx) ret(o *out, ind int, t *ast.ReturnStmt) {
	res := c.fi.results
	if len(c.defers) > 0 && !c.inDefer {
		if c.loop != nil {
			bad("return inside a loop of a function with deferred closures at %s", c.site(t.Pos()))
		}
		// set the named results, run the deferred closures (last first), return the named results
		if len(t.Results) == res.Len() {
			for i, r := range t.Results {
				var val string
				if isNil(r) {
					val = c.nilOf(res.At(i).Type(), r.Pos())
				} else {
					val = c.expr(r)
				}
				o.emit(ind, "%s := %s", c.varName(res.At(i)), val)
			}
		} else if len(t.Results) != 0 {
			bad("return shape in a function with deferred closures at %s", c.site(t.Pos()))
		}
		c.inDefer = true
		for i := len(c.defers) - 1; i >= 0; i-- {
			c.block(o, ind, c.defers[i].Body.List)
		}
		c.inDefer = false
		var nv []string
		for i := 0; i < res.Len(); i++ {
			nv = append(nv, c.varName(res.At(i)))
		}
		o.emit(ind, "return %s", c.retTuple(nv))
		return
	}
	if c.inDefer {
		bad("return inside a deferred closure at %s", c.site(t.Pos()))
	}
	var vals []string
	if len(t.Results) == 0 {
		for i := 0; i < res.Len(); i++ {
			vals = append(vals, c.varName(res.At(i)))
		}
	} else if call, ok := t.Results[0].(*ast.CallExpr); ok && len(t.Results) == 1 && res.Len() > 1 && c.envMulti(call) {
		op, _ := effectOf(calleeFunc(c.info, call))
		s, r := c.effectCall(op, calleeFunc(c.info, call), call)
		tmp := c.fresh("__e")
		o.emit(ind, "let %s := %s", tmp, s)
		for i := 0; i < r.Len(); i++ {
			vals = append(vals, proj(tmp, i, r.Len()))
		}
	} else if call, ok := t.Results[0].(*ast.CallExpr); ok && len(t.Results) == 1 && (c.mutCall(call) || c.multiCall(call)) {
		c.lastCallRes = nil
		c.callStmt(o, ind, call, nil, false)
		vals = c.lastCallRes
		if len(vals) != res.Len() {
			bad("return of a call with %d results at %s", len(vals), c.site(t.Pos()))
		}
	} else if len(t.Results) == res.Len() {
		for i, r := range t.Results {
			rt := res.At(i).Type()
			if c.x.kindOf(rt) == kPtrStruct {
				if isNil(r) {
					vals = append(vals, "none")
				} else if id, ok := r.(*ast.Ident); ok && c.isOptVar(id) {
					vals = append(vals, c.expr(r))
				} else {
					vals = append(vals, "(some "+c.expr(r)+")")
				}
				continue
			}
			if isNil(r) {
				vals = append(vals, c.nilOf(rt, r.Pos()))
				continue
			}
			vals = append(vals, c.expr(r))
		}
	} else {
		bad("return of a multi-value call at %s", c.site(t.Pos()))
	}
	v := c.retTuple(vals)
	if c.loop != nil {
		o.emit(ind, "return (LoopOut.ret %s)", v)
		return
	}
	o.emit(ind, "return %s", v)
}

// mutCall: a call of a translated function that writes through a parameter or its receiver.
func (c *fctx) mutCall(call *ast.CallExpr) bool {
	f := calleeFunc(c.info, call)
	if f == nil {
		return false
	}
	if _, ok := effectOf(f); ok {
		return false
	}
	ci := c.x.funcs[f]
	return ci != nil && len(ci.mutParams) > 0
}

// envMulti: a call of an environment operation with several results.
func (c *fctx) envMulti(call *ast.CallExpr) bool {
	f := calleeFunc(c.info, call)
	if f == nil {
		return false
	}
	if _, ok := effectOf(f); !ok {
		return false
	}
	return f.Type().(*types.Signature).Results().Len() > 1
}

// selectStmt: the one shape the code uses — wait for a timer or for the context, whichever comes first:
//
//	select { case <-time.After(d): A...; case <-ctx.Done(): B... }
//
// The environment says which one fired (`SelectAfter d` = true: the timer).
func (c *fctx) selectStmt(o *out, ind int, t *ast.SelectStmt) {
	var timer, done *ast.CommClause
	var delay ast.Expr
	for _, cl := range t.Body.List {
		cc := cl.(*ast.CommClause)
		es, ok := cc.Comm.(*ast.ExprStmt)
		if !ok {
			bad("select at %s", c.site(t.Pos()))
		}
		u, ok := es.X.(*ast.UnaryExpr)
		if !ok || u.Op != token.ARROW {
			bad("select at %s", c.site(t.Pos()))
		}
		call, ok := u.X.(*ast.CallExpr)
		if !ok {
			bad("select at %s", c.site(t.Pos()))
		}
		f := calleeFunc(c.info, call)
		switch {
		case f != nil && f.FullName() == "time.After":
			timer, delay = cc, call.Args[0]
		case f != nil && f.FullName() == "(context.Context).Done":
			done = cc
		default:
			bad("select at %s", c.site(t.Pos()))
		}
	}
	if timer == nil || done == nil || len(t.Body.List) != 2 {
		bad("select at %s", c.site(t.Pos()))
	}
	name := c.x.envUse(c.envName(), "SelectAfter", []string{"Int"}, "Bool")
	c.fi.effectful = true
	o.emit(ind, "if (← %s %s) then", name, c.expr(delay))
	c.branch(o, ind+1, timer.Body)
	o.emit(ind, "else")
	c.branch(o, ind+1, done.Body)
}

// multiCall: a call of a translated function with several results (`return f(x)` forwarding them).
func (c *fctx) multiCall(call *ast.CallExpr) bool {
	f := calleeFunc(c.info, call)
	if f == nil {
		return false
	}
	if _, ok := effectOf(f); ok {
		return false
	}
	ci := c.x.funcs[f]
	return ci != nil && ci.results.Len() > 1
}

func (c *fctx) switchStmt(o *out, ind int, t *ast.SwitchStmt) {
	if t.Init != nil {
		c.stmt(o, ind, t.Init)
	}
	tag := ""
	if t.Tag != nil {
		tag = c.fresh("__tag")
		o.emit(ind, "let %s := %s", tag, c.expr(t.Tag))
	}
	if c.loop != nil {
		c.loop.inSwitch++
		defer func() { c.loop.inSwitch-- }()
	}
	var def *ast.CaseClause
	first := true
	for _, cl := range t.Body.List {
		cc := cl.(*ast.CaseClause)
		if cc.List == nil {
			def = cc
			continue
		}
		var conds []string
		for _, e := range cc.List {
			if tag != "" {
				conds = append(conds, "("+tag+" == "+c.expr(e)+")")
			} else {
				conds = append(conds, c.expr(e))
			}
		}
		for _, s := range cc.Body {
			if b, ok := s.(*ast.BranchStmt); ok && b.Tok == token.FALLTHROUGH {
				bad("fallthrough at %s", c.site(s.Pos()))
			}
		}
		for _, cd := range conds {
			if failing(cd) && !first {
				bad("partial operation in a later switch case at %s", c.site(cc.Pos()))
			}
		}
		kw := "if"
		if !first {
			kw = "else if"
		}
		o.emit(ind, "%s %s then", kw, strings.Join(conds, " || "))
		c.branch(o, ind+1, cc.Body)
		first = false
	}
	if def != nil {
		if first {
			c.block(o, ind, def.Body)
		} else {
			o.emit(ind, "else")
			c.branch(o, ind+1, def.Body)
		}
	}
}

// goStmt: `go f(args)` hands the call to the environment (the goroutine's own behaviour is another theorem's
// subject); a closer goroutine `go func() { <-ctx.Done(); sock.Close() }()` is resource discipline only (C19,
// pinned by the regenerated facts) and is dropped.
func (c *fctx) goStmt(o *out, ind int, t *ast.GoStmt) {
	if fl, ok := t.Call.Fun.(*ast.FuncLit); ok {
		for _, st := range fl.Body.List {
			es, ok := st.(*ast.ExprStmt)
			if !ok {
				bad("goroutine body at %s", c.site(t.Pos()))
			}
			switch x := es.X.(type) {
			case *ast.UnaryExpr:
				if x.Op != token.ARROW {
					bad("goroutine body at %s", c.site(t.Pos()))
				}
			case *ast.CallExpr:
				se, ok := x.Fun.(*ast.SelectorExpr)
				if !ok || se.Sel.Name != "Close" || c.x.kindOf(c.typeOf(se.X)) != kSock {
					bad("goroutine body at %s", c.site(t.Pos()))
				}
			default:
				bad("goroutine body at %s", c.site(t.Pos()))
			}
		}
		return
	}
	f := calleeFunc(c.info, t.Call)
	if f == nil || f.Pkg() == nil || !strings.HasPrefix(f.Pkg().Path()+"/", modPath) {
		bad("go statement at %s", c.site(t.Pos()))
	}
	var args, atys []string
	if se, ok := t.Call.Fun.(*ast.SelectorExpr); ok {
		if _, isMethod := c.info.Selections[se]; isMethod {
			if k := c.x.kindOf(c.typeOf(se.X)); k == kPtrStruct || k == kStruct {
				args = append(args, c.expr(se.X))
				atys = append(atys, c.x.leanType(c.typeOf(se.X), false))
			}
		}
	}
	for _, a := range t.Call.Args {
		if isContext(c.typeOf(a)) {
			continue
		}
		args = append(args, c.expr(a))
		atys = append(atys, c.x.leanType(c.typeOf(a), false))
	}
	name := c.x.envUse(c.envName(), "Go_"+f.Name(), atys, "Unit")
	c.fi.effectful = true
	o.emit(ind, "%s", strings.TrimSpace(name+" "+strings.Join(args, " ")))
}
