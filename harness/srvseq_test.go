package hx

import (
	"fmt"
	"net"
	"strings"
	"testing"
	"testing/synctest"
	"time"

	"git.sr.ht/~adrian-blx/psa-dhcp/lib/dhcpmsg"
)

var srvMAC = net.HardwareAddr{2, 0, 0, 0, 0, 1}

// GenSrvConf draws a valid configuration with a small pool so that exhaustion and reuse dominate.
func GenSrvConf(r *Rng) *SrvConf {
	plen := Pick(r, 24, 24, 24, 28, 29, 30)
	c := &SrvConf{Plen: plen, SelfMAC: srvMAC, Lease: Pick(r, time.Minute, 5*time.Minute, time.Hour, 90*time.Second)}
	c.Base = uint32(10)<<24 | uint32(r.Intn(3))<<8 | uint32(r.Intn(4))*64
	if r.Chance(15) {
		c.Base = uint32(10)<<24 | uint32(1)<<8 | 248 // last /29 of a /24: the pool touches .254/.255
		if plen < 29 {
			c.Plen = 29
		}
	}
	from, to := c.NetFromTo()
	n := to - from + 1
	c.SelfIP = U32IP(from + uint32(r.Intn(int(n))))
	if r.Chance(75) && n > 2 { // restrict the dynamic range: start / middle / end / single address
		lo := from + uint32(r.Intn(int(n)))
		hi := lo + uint32(r.Intn(int(min(n-(lo-from), 8))))
		c.DynFrom, c.DynTo = U32IP(lo), U32IP(hi)
	}
	c.StaticOnly = r.Chance(10)
	if r.Chance(70) {
		c.Router = U32IP(from)
	}
	if r.Chance(60) {
		for i := 0; i < 1+r.Intn(2); i++ {
			c.DNS = append(c.DNS, net.IPv4(8, 8, byte(r.Intn(3)), 8))
		}
	}
	if r.Chance(30) {
		c.NTP = append(c.NTP, net.IPv4(192, 168, 1, byte(1+r.Intn(4))))
	}
	if r.Chance(50) {
		c.Domain = Pick(r, "lan", "example.org")
	}
	// static entries: inside and outside the dynamic range
	used := map[uint32]bool{IPU32(c.SelfIP): true}
	for i := 0; i < r.Intn(3); i++ {
		mac := net.HardwareAddr{2, 0, 0, 0, 0xaa, byte(i)}
		cl := ClientConf{Key: mac.String(), MAC: mac}
		if r.Chance(80) {
			a := from + uint32(r.Intn(int(n)))
			if !used[a] {
				used[a] = true
				cl.IP = U32IP(a)
			}
		}
		if r.Chance(40) {
			cl.Router = U32IP(to)
		}
		if r.Chance(30) {
			cl.DNS = []net.IP{net.IPv4(1, 1, 1, byte(1+i))}
		}
		if r.Chance(20) {
			cl.Hostname = fmt.Sprintf("host%d", i)
		}
		c.Clients = append(c.Clients, cl)
	}
	return c
}

type host struct {
	mac      net.HardwareAddr
	cid      []byte
	flags    uint16
	lastOff  net.IP // last address offered or acknowledged to it
	lastAck  net.IP
	staticIP net.IP
}

func genHosts(r *Rng, c *SrvConf) []*host {
	var hs []*host
	for i := 0; i < 1+r.Intn(5); i++ {
		h := &host{mac: net.HardwareAddr{2, 0, 0, 0, 0xbb, byte(i)}, flags: Pick(r, uint16(0), 0, 0x8000)}
		switch r.Intn(8) {
		case 0, 1, 2:
			h.cid = dhcpmsg.OptionClientIdentifier(h.mac).Data
		case 3:
			h.cid = []byte{byte(i), 1, 2} // too short: ignored
		case 4:
			h.cid = []byte{9, 9, 9, byte(i), 7}
		case 5: // long identifiers that differ only after the 16th byte (RFC 4361 DUID-UUID style)
			h.cid = append([]byte{0xff, 1, 2, 3, 4, 0, 4, 0xaa, 0xbb, 0xcc, 0xdd, 0xee, 0xff, 0x10, 0x11, 0x12, 0x13, 0x14, 0x15, 0x16, 0x17, 0x18}, byte(i))
		case 6: // RFC 4361 shape (ff, IAID, DUID) at the boundary lengths: type byte + 3/4/5/6 bytes
			h.cid = append([]byte{0xff}, r.Bytes(Pick(r, 3, 3, 4, 5, 6))...)
		}
		hs = append(hs, h)
	}
	if len(hs) >= 2 && r.Chance(15) { // two hardware addresses sending one and the same client identifier
		hs[1].cid = hs[0].cid
	}
	if len(hs) >= 2 && r.Chance(15) { // RFC 4361 identifiers with one and the same DUID but different IAIDs: two clients by their identifiers
		duid := []byte{0, 3, 0, 1, 2, 0, 0, 0, 0xdd, byte(r.Intn(4))}
		hs[0].cid = append([]byte{0xff, 0, 0, 0, 1}, duid...)
		hs[1].cid = append([]byte{0xff, 0, 0, 0, 2}, duid...)
	}
	if len(hs) >= 2 && r.Chance(20) { // a pair of long identifiers that differ only in their last byte
		long := []byte{0xff, 1, 2, 3, 4, 0, 4, 0xaa, 0xbb, 0xcc, 0xdd, 0xee, 0xff, 0x10, 0x11, 0x12, 0x13, 0x14, 0x15, 0x16, 0x17, 0x18}
		// … at every size a client identifier option can have: 23 bytes (DUID-UUID), 40, 64, 131 (RFC 8415 maximum + type and IAID), 255
		for n := Pick(r, 22, 22, 39, 63, 130, 254); len(long) < n; {
			long = append(long, byte(0x20+len(long)))
		}
		hs[0].cid = append(append([]byte(nil), long...), 1)
		hs[1].cid = append(append([]byte(nil), long...), 2)
	}
	for _, cl := range c.Clients { // reserved hosts take part too
		if r.Chance(70) {
			h := &host{mac: cl.MAC, staticIP: cl.IP, flags: Pick(r, uint16(0), 0x8000)}
			if r.Chance(40) {
				h.cid = []byte{7, 7, 7, 7, cl.MAC[5]}
			}
			if len(hs) > 0 && r.Chance(25) { // a reserved host sending the client identifier another host uses
				h.cid = hs[r.Intn(len(hs))].cid
			}
			hs = append(hs, h)
		}
	}
	return hs
}

// someAddr draws addresses of every kind relative to the configuration.
func someAddr(r *Rng, c *SrvConf, h *host) net.IP {
	from, to := c.NetFromTo()
	df, dt := c.DynRange()
	switch r.Intn(12) {
	case 0:
		return U32IP(c.Start()) // network address
	case 1:
		return U32IP(c.Start() + c.Size() - 1) // broadcast address
	case 2:
		return c.SelfIP
	case 3:
		return U32IP(to + 3) // other network
	case 4:
		return net.IPv4zero
	case 5:
		if len(c.Clients) > 0 {
			if ip := c.Clients[r.Intn(len(c.Clients))].IP; ip != nil {
				return ip
			}
		}
		return U32IP(from)
	case 6:
		if h.lastOff != nil {
			return h.lastOff
		}
		return U32IP(from)
	case 7, 8:
		if dt >= df && dt != 0 {
			return U32IP(df + uint32(r.Intn(int(dt-df+1))))
		}
		return U32IP(from)
	default:
		return U32IP(from + uint32(r.Intn(int(to-from+1))))
	}
}

func genMsg(r *Rng, c *SrvConf, h *host, xid uint32) (MsgSpec, string) {
	return genMsgKind(r, c, h, xid, "")
}

// genMsgKind: as genMsg, with the kind of message fixed when forced != "".
// forcedVictim: when set, forged identifiers name this host (directed motif).
var forcedVictim *host

// otherHosts: the hosts of the running script (so that forged identifiers can name a host that holds a dynamic lease).
var otherHosts []*host

func genMsgKind(r *Rng, c *SrvConf, h *host, xid uint32, forced string) (MsgSpec, string) {
	m := MsgSpec{MAC: h.mac, Xid: xid, Flags: h.flags, Cid: h.cid}
	if r.Chance(5) {
		m.Flags = uint16(r.U64())
	}
	if r.Chance(5) {
		m.Pads = 1 + r.Intn(3)
	}
	if r.Chance(5) {
		m.Trailer = r.Bytes(1 + r.Intn(6))
	}
	kind := Pick(r, "discover", "discover", "discover-req", "selecting", "selecting", "selecting", "selecting-other", "init-reboot",
		"renewing", "rebinding", "wrong-server", "unicast-elsewhere", "own-mac", "req-self", "unknown-type", "forged-cid", "short-mac", "discover-sid", "discover-unicast")
	own := h.lastOff
	if own == nil || (r.Chance(15) && forced == "") {
		own = someAddr(r, c, h)
	}
	if forced != "" {
		kind = forced
	}
	if r.Chance(10) { // a client asking for a lease time of its own (option 51 in a client message)
		m.Extra = append(m.Extra, dhcpmsg.OptionIPAddressLeaseDuration(Pick(r, time.Second, 10*time.Second, 30*time.Second, time.Minute, 3*c.Lease)))
	}
	if r.Chance(8) { // an option sent twice with the same value (legal: the instances are to be read as one value, RFC 3396; here they are identical)
		m.Dup = []uint8{Pick(r, uint8(54), 54, 50, 53, 61)}
	}
	switch kind {
	case "discover":
		m.Type = 1
	case "discover-req":
		m.Type = 1
		m.ReqIP = someAddr(r, c, h)
	case "selecting":
		m.Type, m.ReqIP, m.SrvID = 3, own, c.SelfIP
	case "selecting-other":
		m.Type, m.ReqIP, m.SrvID = 3, someAddr(r, c, h), c.SelfIP
	case "init-reboot":
		m.Type, m.ReqIP = 3, own
	case "renewing":
		m.Type, m.Src, m.Dst, m.Ciaddr = 3, own, c.SelfIP, own
	case "rebinding":
		m.Type, m.Src, m.Ciaddr = 3, own, own
	case "wrong-server":
		m.Type, m.ReqIP, m.SrvID = 3, own, U32IP(IPU32(c.SelfIP)^1)
	case "unicast-elsewhere":
		m.Type, m.Src, m.Dst, m.Ciaddr = 3, own, U32IP(IPU32(c.SelfIP)^2), own
	case "own-mac":
		m.Type, m.MAC = Pick(r, uint8(1), 3), c.SelfMAC
	case "req-self":
		m.Type, m.ReqIP = Pick(r, uint8(1), 3), c.SelfIP
	case "unknown-type":
		m.Type = Pick(r, uint8(0), 2, 4, 5, 7, 8, 200)
	case "forged-cid":
		m.Type = Pick(r, uint8(1), 3)
		victim := c.SelfMAC
		var vip net.IP
		if forcedVictim != nil && forcedVictim != h {
			victim, vip = forcedVictim.mac, forcedVictim.lastOff
		} else if len(c.Clients) > 0 && r.Bool() {
			cl := c.Clients[r.Intn(len(c.Clients))]
			victim, vip = cl.MAC, cl.IP
		} else if len(otherHosts) > 1 && r.Chance(60) { // another host of this script, possibly holding a dynamic lease right now
			o := otherHosts[r.Intn(len(otherHosts))]
			if o != h {
				victim, vip = o.mac, o.lastOff
			}
		}
		// identities somebody might derive from another host's hardware address: the server's internal
		// namespace, RFC 2132 "type 1" (01 + address), the bare address, other hardware types
		switch r.Intn(10) {
		case 8, 9: // an identifier that is the four bytes of an address somebody holds (the server's, a reservation, an earlier offer)
			tgt := c.SelfIP
			if vip != nil && r.Bool() {
				tgt = vip
			} else if h.lastOff != nil && r.Bool() {
				tgt = h.lastOff
			}
			m.Cid = append([]byte(nil), tgt.To4()...)
		case 6: // the internal namespace wrapped into an RFC 4361 identifier (type ff, some IAID)
			m.Cid = append(append([]byte{0xff}, r.Bytes(4)...), append([]byte{0, 3, 0, 0}, victim...)...)
		case 7: // ... or behind other short headers
			m.Cid = append(r.Bytes(Pick(r, 1, 2, 4, 5)), append([]byte{0, 3, 0, 0}, victim...)...)
		case 0, 1:
			m.Cid = append([]byte{0, 3, 0, 0}, victim...)
		case 2, 3:
			m.Cid = append([]byte{1}, victim...)
		case 4:
			m.Cid = append([]byte(nil), victim...)
		default:
			m.Cid = append([]byte{Pick(r, uint8(0), 6, 0xff)}, victim...)
		}
		if m.Type == 3 {
			m.ReqIP, m.SrvID = own, c.SelfIP
			if vip != nil && r.Bool() {
				m.ReqIP = vip
			}
			if r.Chance(30) { // INIT-REBOOT shape
				m.SrvID = nil
			}
		} else if vip != nil && r.Bool() {
			m.ReqIP = vip
		}
	case "short-mac":
		m.Type, m.MAC = 1, net.HardwareAddr(r.Bytes(Pick(r, 0, 1, 2, 3, 16)))
	case "discover-sid":
		m.Type, m.SrvID = 1, c.SelfIP
	case "discover-unicast":
		m.Type, m.Dst = 1, c.SelfIP
	}
	return m, kind
}

// TestSrvSeq: sequential server scripts under the virtual clock (C01–C08, C10 through Run).
func TestSrvSeq(t *testing.T) {
	r := NewRng(Seed(), "srvseq")
	s := NewStream("srvseq")
	defer s.Close()
	n := EnvInt("HX_N", 1200)
	if Thorough() {
		n = EnvInt("HX_N", 40000)
	}
	runCorpus(t, s) // minimised past failures first
	for i := 0; i < n; i++ {
		c := GenSrvConf(r)
		synctest.Test(t, func(t *testing.T) { srvScript(t, r, s, c, nil) })
	}
	shrinkSrvFindings(t, s, 6, 80) // minimise the histories of (the first few) findings before they become replays
}

type scriptStep struct {
	Gap   time.Duration
	Msg   MsgSpec
	Kind  string
	Host  int
	Raw   []byte // junk frame instead of a message
	Resps string // responder table change (for replay)
}

// srvScript runs one script against a fresh real server; steps == nil generates one.
func srvScript(t *testing.T, r *Rng, s *Stream, c *SrvConf, replaySteps []scriptStep) {
	env, err := StartServer(c)
	t0 := time.Now().UnixNano()
	cfgLine := c.Line(t0)
	if err != nil {
		s.Op(cfgLine, "err:"+strings.ReplaceAll(err.Error(), " ", "_"), false)
		return
	}
	s.Op(cfgLine, "ok", false)
	synctest.Wait()
	hosts := genHosts(r, c)
	otherHosts = hosts
	forcedVictim = nil
	mon := NewSrvMonitor(c, s, cfgLine)
	mon.respTable = env.Resp
	// ARP responders: foreign hosts sitting on some pool addresses
	df, dt := c.DynRange()
	if dt != 0 && r.Chance(50) {
		for k := 0; k < 1+r.Intn(3); k++ {
			a := df + uint32(r.Intn(int(dt-df+1)))
			rp := &Responder{MAC: net.HardwareAddr{6, 6, 6, 0, 0, byte(k)}, Delay: Pick(r, time.Millisecond, 30*time.Millisecond, 150*time.Millisecond)} // < 200 ms: an answer later than one ping window coincides with a later window boundary (race under any clock)
			if r.Chance(15) {
				rp.MAC = hosts[r.Intn(len(hosts))].mac // the client itself answers
			}
			if r.Chance(10) {
				rp.SenderIP = U32IP(a ^ 1) // noise: wrong sender address
			}
			env.Resp[a] = rp
			s.Count("responder")
		}
	}
	steps := 5 + r.Intn(40)
	// directed motifs (20% of the scripts): histories that need a particular order and spacing
	type planStep struct {
		gap  time.Duration
		host int
		kind string
	}
	var plan []planStep
	if len(hosts) >= 2 && r.Chance(20) {
		a, b := 0, 1
		near := offerHold - 2*time.Second
		switch r.Intn(9) {
		case 8: // a host known by its hardware address holds a lease; another host then claims identities derived from that address
			for i, hh := range hosts {
				if len(hh.cid) < 4 && hh.staticIP == nil && i != b {
					a = i
					break
				}
			}
			if a == b {
				b = (a + 1) % len(hosts)
			}
			forcedVictim = hosts[a]
			plan = []planStep{{0, a, "discover"}, {time.Second, a, "selecting"}, {2 * time.Second, b, "forged-cid"}, {time.Second, b, "forged-cid"}, {time.Second, b, "forged-cid"},
				{time.Second, b, "forged-cid"}, {time.Second, a, "renewing"}}
		case 7: // a foreign host starts answering ARP for the offered address after the OFFER: the REQUEST must be refused
			plan = []planStep{{0, a, "discover"}, {time.Second, a, "+conflict"}, {0, a, "selecting"}, {time.Second, a, "discover"}, {time.Second, b, "discover"}}
		case 5: // the REQUEST arrives just inside the hold time: looked up before, confirmed after the hold has run out (the ARP probe lies in between)
			plan = []planStep{{0, a, "discover"}, {offerHold + Pick(r, 100*time.Millisecond, 300*time.Millisecond, 500*time.Millisecond), a, "selecting"}, {time.Second, b, "discover"}, {time.Second, a, "renewing"}}
		case 6: // a renewal arriving just inside the lease time, then a competitor
			plan = []planStep{{0, a, "discover"}, {time.Second, a, "selecting"}, {c.Lease + Pick(r, -200*time.Millisecond, 200*time.Millisecond, 500*time.Millisecond), a, Pick(r, "renewing", "rebinding")}, {time.Second, b, "discover-req"}, {time.Second, a, "renewing"}}
		case 4: // a bound client sends something spurious (another server's id, elsewhere, unknown type), then a competitor tries
			sp := Pick(r, "wrong-server", "wrong-server", "unicast-elsewhere", "unknown-type", "selecting-other", "discover-sid")
			plan = []planStep{{0, a, "discover"}, {time.Second, a, "selecting"}, {5 * time.Second, a, sp}, {time.Second, b, "discover"}, {time.Second, b, "selecting"},
				{time.Second, a, "renewing"}, {offerHold + 2*time.Second, b, "discover"}, {time.Second, b, "selecting"}}
		case 0: // re-DISCOVER shortly before the hold runs out, then a competitor, then the first host's REQUEST
			plan = []planStep{{0, a, "discover"}, {near, a, "discover"}, {3 * time.Second, b, "discover"}, {time.Second, b, "selecting"}, {time.Second, a, "selecting"}}
		case 1: // re-DISCOVER shortly before the lease runs out
			plan = []planStep{{0, a, "discover"}, {time.Second, a, "selecting"}, {c.Lease - 3*time.Second, a, "discover"}, {5 * time.Second, b, "discover"},
				{time.Second, b, "selecting"}, {time.Second, a, "selecting"}, {time.Second, a, "renewing"}}
		case 2: // a lease, then the competitor after hold time but long before the lease ends, then a renewal
			plan = []planStep{{0, a, "discover"}, {time.Second, a, "selecting"}, {offerHold + 2*time.Second, b, "discover-req"}, {time.Second, b, "selecting"},
				{c.Lease / 2, a, "renewing"}, {time.Second, b, "discover"}}
		default: // retransmitted DISCOVERs and REQUESTs of two hosts interleaved
			plan = []planStep{{0, a, "discover"}, {0, b, "discover"}, {time.Second, a, "discover"}, {time.Second, b, "selecting"}, {0, a, "selecting"},
				{0, a, "selecting"}, {offerHold + 2*time.Second, b, "selecting"}, {time.Second, a, "rebinding"}}
		}
		s.Count("motif-script")
	}
	xid := uint32(r.U64())
	pool := int64(dt-df) + 2
	if dt == 0 {
		pool = 1
	}
	settle := time.Duration(60+pool*650) * time.Millisecond
	for k := 0; k < steps; k++ {
		gap := Pick(r, time.Duration(0), time.Second, 5*time.Second, offerHold-2*time.Second, offerHold+2*time.Second, c.Lease/2, c.Lease-3*time.Second,
			c.Lease+3*time.Second, 3*c.Lease)
		forced := ""
		hi := r.Intn(len(hosts))
		if k < len(plan) {
			gap, hi, forced = plan[k].gap, plan[k].host, plan[k].kind
			if gap > settle {
				gap -= settle // the spacing of a motif counts from message to message
			}
		}
		time.Sleep(gap)
		h := hosts[hi]
		if forced == "+conflict" { // not a message: from now on a foreign host answers ARP for what this host was offered
			if h.lastOff != nil && h.staticIP == nil {
				env.Resp[IPU32(h.lastOff)] = &Responder{MAC: net.HardwareAddr{6, 6, 8, 0, 0, 1}, Delay: 20 * time.Millisecond}
				s.Count("responder-appears")
				line := fmt.Sprintf("note resp t=%d ip=%s mac=%s delay=%d", time.Now().UnixNano(), IPStr(h.lastOff), Hex(net.HardwareAddr{6, 6, 8, 0, 0, 1}), int64(20*time.Millisecond))
				s.Op(line, "ok", false)
				mon.hist = append(mon.hist, line) // part of the history: replays and shrinking reinstall the responder at this instant
			}
			continue
		}
		xid++
		var frame []byte
		kind := ""
		var m MsgSpec
		if forced != "" {
			m, kind = genMsgKind(r, c, h, xid, forced)
			frame = m.Frame()
		} else if r.Chance(8) {
			frame, kind = MutateFrame(r, ValidRequestFrame(r))
			kind = "junk-" + kind
		} else {
			m, kind = genMsg(r, c, h, xid)
			frame = m.Frame()
		}
		trx := time.Now().UnixNano()
		env.Take()
		s.Pending(append(append([]string{cfgLine}, mon.hist...), fmt.Sprintf("rx t=%d b=%s d=0 tend=%d probes=-", trx, Hex(frame), trx)))
		env.Seg.Inject(0x0800, frame)
		time.Sleep(settle)
		synctest.Wait()
		sent, inj := env.Take()
		obs := Observe(trx, sent, inj)
		op := fmt.Sprintf("rx t=%d b=%s d=%d tend=%d probes=%s", trx, Hex(frame), obs.D, obs.Tend, obs.ProbesStr())
		ans := obs.Answer()
		s.Op(op, ans, ans != "silent")
		s.Count("msg/" + kind + "/" + strings.SplitN(ans, " ", 2)[0])
		s.Count(fmt.Sprintf("probes=%d", min(len(obs.Probes), 4)))
		mon.Step(trx, frame, obs, op)
		// the host remembers what it was given
		for _, f := range obs.Tx {
			if rp := ParseReply(f); rp != nil && rp.Type != 6 && rp.Chaddr.String() == h.mac.String() {
				h.lastOff = rp.Yiaddr
			}
		}
	}
	env.Stop()
	synctest.Wait()
}

const offerHold = 15 * time.Second
