package hx

import (
	"context"
	"fmt"
	"io"
	"log"
	"net"
	"strings"
	"sync"
	"testing"
	"testing/synctest"
	"time"

	"git.sr.ht/~adrian-blx/psa-dhcp/lib/client"
	"git.sr.ht/~adrian-blx/psa-dhcp/lib/dhcpmsg"
	"git.sr.ht/~adrian-blx/psa-dhcp/lib/ifmon"
	"git.sr.ht/~adrian-blx/psa-dhcp/lib/layer"
	"git.sr.ht/~adrian-blx/psa-dhcp/lib/libif"
	"git.sr.ht/~adrian-blx/psa-dhcp/lib/rsocks"
)

// TestMclient: C15 — the real client.New(...).Run with its link monitor (ifmon hook feeds link-up
// events): every link-up while the lease is held must force an early re-validation, also the
// second and third one.
func TestMclient(t *testing.T) {
	r := NewRng(Seed(), "mclient")
	s := NewStream("mclient")
	defer s.Close()
	n := EnvInt("HX_N", 25)
	if Thorough() {
		n = 1500
	}
	for i := 0; i < n; i++ {
		synctest.Test(t, func(t *testing.T) { mclientScript(t, r, s) })
	}
}

func mclientScript(t *testing.T, r *Rng, s *Stream) {
	mac := net.HardwareAddr{2, 0, 0, 0, 0, 0x30}
	iface := &net.Interface{Index: 81, Name: "c81", HardwareAddr: mac, MTU: 1500}
	rsocks.ResetSeg(iface)
	ifmon.ResetFeed(iface)
	libif.TakeOps(iface)
	libif.PlanSetIface(iface)
	seg := rsocks.Seg(iface)
	feed := ifmon.Feed(iface)
	route := r.Intn(2)
	srvIP, srvMAC := net.IPv4(10, 0, 0, 1), net.HardwareAddr{2, 0, 0, 0, 0, 1}
	offered := net.IPv4(10, 0, 0, byte(20+r.Intn(100)))
	lease := Pick(r, int64(600), 3600, 86400)
	var mu sync.Mutex
	var effs, evs, hist []string
	seen := map[uint32]bool{}
	note := func(kind, x string) {
		mu.Lock()
		defer mu.Unlock()
		if kind == "eff" {
			effs = append(effs, x)
		} else {
			evs = append(evs, x)
		}
		d := x
		if len(d) > 48 {
			d = d[:48] + "…"
		}
		hist = append(hist, fmt.Sprintf("t=%s %s %s", time.Now().Format("15:04:05.000"), kind, d))
	}
	pendingT := false
	reply := func(mt uint8, xid uint32) []byte {
		opts := []dhcpmsg.DHCPOpt{dhcpmsg.OptionType(mt), dhcpmsg.OptionServerIdentifier(srvIP), dhcpmsg.OptionIPAddressLeaseDuration(time.Duration(lease) * time.Second),
			dhcpmsg.OptionRouter(srvIP), dhcpmsg.OptionSubnetMask(net.IPv4Mask(255, 255, 255, 0))}
		return dhcpmsg.Message{Op: 2, Htype: 1, Xid: xid, YourIP: offered, ClientMAC: mac, Cookie: dhcpmsg.DHCPCookie, Options: opts}.Assemble()
	}
	seg.OnSend = func(f rsocks.Frame) {
		switch f.Proto {
		case 0x0806:
			if len(f.Payload) != 28 {
				return
			}
			if net.IP(f.Payload[14:18]).Equal(net.IPv4zero) {
				note("eff", "arp:"+Hex(f.Payload[24:28]))
				note("ev", "P:-")
				note("ev", "I:1")
				mu.Lock()
				pendingT = true
				mu.Unlock()
			} else {
				go func() {
					time.Sleep(5 * time.Millisecond)
					seg.Inject(0x0806, layer.ARP{Opcode: 2, SenderMAC: srvMAC, SenderIP: net.IP(f.Payload[24:28]), TargetMAC: f.Payload[8:14], TargetIP: net.IP(f.Payload[14:18])}.Assemble())
				}()
			}
		case 0x0800:
			q := ParseReq(f.Payload)
			if !q.OK || seen[q.M.Xid] {
				return
			}
			seen[q.M.Xid] = true
			mt := uint8(5)
			switch {
			case q.Type == 1:
				note("eff", "send:discover:-:-")
				mt = 2
			case q.HasReq:
				note("eff", fmt.Sprintf("send:selecting:%s:%s", IPStr(q.ReqIP), IPStr(q.SrvID)))
			case q.Dst.Equal(net.IPv4bcast):
				note("eff", fmt.Sprintf("send:rebinding:%s:-", IPStr(q.Src)))
			default:
				mu.Lock()
				pt := pendingT
				pendingT = false
				mu.Unlock()
				if pt {
					note("ev", "T")
				}
				note("eff", fmt.Sprintf("send:renewing:%s:%s", IPStr(q.Src), IPStr(q.Dst)))
			}
			p := reply(mt, q.M.Xid)
			go func() {
				time.Sleep(1200 * time.Millisecond)
				note("ev", "A:"+Hex(p))
				seg.Inject(0x0800, layer.IPv4{TTL: 64, Protocol: 0x11, Source: srvIP, Destination: net.IPv4bcast,
					Data: layer.UDP{SrcPort: 67, DstPort: 68, Data: p}.Assemble()}.Assemble())
			}()
		}
	}
	ctx, cancel := context.WithCancel(context.Background())
	done := make(chan error, 1)
	go func() { done <- client.New(log.New(io.Discard, "", 0), iface, "", route == 1).Run(ctx) }()
	time.Sleep(10 * time.Second) // bound by now
	links := 1 + r.Intn(3)
	for k := 0; k < links; k++ {
		time.Sleep(time.Duration(5+r.Intn(60)) * time.Second)
		mu.Lock()
		pendingT = false // the link event comes before T1
		mu.Unlock()
		note("ev", "L")
		feed <- true
		time.Sleep(8 * time.Second) // re-validation: rebinding REQUEST, ACK, probe, configure
	}
	cancel()
	<-done
	time.Sleep(time.Second)
	synctest.Wait()
	mu.Lock()
	defer mu.Unlock()
	var lops []string
	for _, o := range libif.TakeOps(iface) {
		switch o.Name {
		case "unconfigure":
			lops = append(lops, "unconf")
		case "up":
			lops = append(lops, "up")
		case "setiface":
			lops = append(lops, "setiface:"+ifcCompact(o.Conf))
		}
	}
	op := fmt.Sprintf("auto mac=%s route=%d view=wire evs=%s", Hex(mac), route, strings.Join(evs, ";"))
	s.Op(op, "ok "+strings.Join(effs, ",")+" | "+strings.Join(lops, ","), true)
	s.Count(fmt.Sprintf("links=%d", links))
	// monitor: after every link-up a rebinding REQUEST follows
	for i, h := range hist {
		if strings.HasSuffix(h, " ev L") {
			ok := false
			for j := i + 1; j < len(hist) && j < i+4; j++ {
				if strings.Contains(hist[j], " eff send:rebinding") {
					ok = true
				}
			}
			if !ok {
				s.Find(Finding{Property: "C15", Signature: "linkup-no-revalidation", Stream: "mclient", What: "a link-up event while the lease is held did not force an early re-validation (no rebinding REQUEST followed)",
					Ops: append(append([]string(nil), hist...), op), Observed: h})
			}
		}
	}
}
