package hx

import (
	"context"
	"fmt"
	"io"
	"log"
	"net"
	"strings"
	"sync"
	"testing"
	"testing/synctest"
	"time"

	"git.sr.ht/~adrian-blx/psa-dhcp/lib/client"
	"git.sr.ht/~adrian-blx/psa-dhcp/lib/client/dclient"
	"git.sr.ht/~adrian-blx/psa-dhcp/lib/dhcpmsg"
	"git.sr.ht/~adrian-blx/psa-dhcp/lib/layer"
	"git.sr.ht/~adrian-blx/psa-dhcp/lib/libif"
	"git.sr.ht/~adrian-blx/psa-dhcp/lib/rsocks"
)

func ifcCompact(c *libif.Ifconfig) string {
	mask := "-"
	if len(c.Netmask) == 4 {
		mask = Hex(c.Netmask)
	}
	return fmt.Sprintf("%s/%s/%s/%d/%s/%s/%d", IPStr(c.IP), mask, IPStr(c.Router), c.MTU, IPsStr(c.DNS), Hex([]byte(c.DomainName)), int64(c.LeaseDuration/time.Second))
}

// autoRun drives the real dclient automaton against a scripted server on the virtual segment.
type autoRun struct {
	mu       sync.Mutex
	effs     []string // observed effects, in causal order
	evs      []string // abstract events, in the order the client consumed them
	hist     []string // human-readable timeline for replays
	seenXid  map[uint32]bool
	pendingT bool
	endAt    map[uint32]time.Time // when the reply that ends a transaction's exchange was delivered
	lateTx   string               // first transmission of a transaction observed after that
}

func (a *autoRun) eff(s string) {
	a.mu.Lock()
	a.effs = append(a.effs, s)
	a.hist = append(a.hist, fmt.Sprintf("t=%v eff %s", time.Now().Format("15:04:05.000"), s))
	a.mu.Unlock()
}
// ended: a reply that ends the exchange of this transaction (an acceptable OFFER/ACK, a NAK) is being delivered now.
func (a *autoRun) ended(xid uint32) {
	a.mu.Lock()
	if a.endAt == nil {
		a.endAt = map[uint32]time.Time{}
	}
	a.endAt[xid] = time.Now()
	a.mu.Unlock()
}

func (a *autoRun) ev(s string) {
	a.mu.Lock()
	a.evs = append(a.evs, s)
	d := s
	if len(d) > 40 {
		d = d[:40] + "…"
	}
	a.hist = append(a.hist, fmt.Sprintf("t=%v ev  %s", time.Now().Format("15:04:05.000"), d))
	a.mu.Unlock()
}

// TestCliAuto: C15 — the whole client automaton under the virtual clock.
func TestCliAuto(t *testing.T) {
	r := NewRng(Seed(), "cliauto")
	s := NewStream("cliauto")
	defer s.Close()
	n := EnvInt("HX_N", 150)
	if Thorough() {
		n = 6000
	}
	for i := 0; i < n; i++ {
		synctest.Test(t, func(t *testing.T) { cliAutoScript(t, r, s) })
	}
}

func cliAutoScript(t *testing.T, r *Rng, s *Stream) {
	mac := net.HardwareAddr{2, 0, 0, 0, 0, 0x20}
	iface := &net.Interface{Index: 80, Name: "c80", HardwareAddr: mac, MTU: 1500}
	rsocks.ResetSeg(iface)
	libif.TakeOps(iface)
	seg := rsocks.Seg(iface)
	route := r.Intn(2)
	a := &autoRun{seenXid: map[uint32]bool{}}
	srvIP := net.IPv4(10, 0, 0, 1)
	srvMAC := net.HardwareAddr{2, 0, 0, 0, 0, 1}
	steps := 0
	maxSteps := 6 + r.Intn(14)
	finished := make(chan struct{})
	var once sync.Once
	finish := func() { once.Do(func() { close(finished) }) }
	var dx *dclient.Dclient
	var cancelClient context.CancelFunc
	linkUp := make(chan struct{}, 4)

	mkReply := func(mt uint8, xid uint32, yi net.IP, lease, t1, t2 int64, variant string) []byte {
		opts := []dhcpmsg.DHCPOpt{dhcpmsg.OptionType(mt), dhcpmsg.OptionServerIdentifier(srvIP)}
		if mt != 6 {
			if variant == "lease59" {
				lease = 59
			}
			opts = append(opts, dhcpmsg.OptionIPAddressLeaseDuration(time.Duration(lease)*time.Second))
			switch variant {
			case "norouter":
			case "badrouter": // a router option whose length is not a multiple of four decodes to an empty list
				opts = append(opts, dhcpmsg.DHCPOpt{Option: 3, Data: []byte{10, 0, 0, 1, 9}})
			default:
				opts = append(opts, dhcpmsg.OptionRouter(net.IPv4(10, 0, 0, byte(1+r.Intn(3)))))
			}
			if variant != "nomask" {
				opts = append(opts, dhcpmsg.DHCPOpt{Option: 1, Data: Pick(r, []byte{255, 255, 255, 0}, []byte{255, 255, 0, 0}, []byte{255, 0, 255, 0})})
			}
			if t1 > 0 {
				opts = append(opts, dhcpmsg.DHCPOpt{Option: 58, Data: []byte{byte(t1 >> 24), byte(t1 >> 16), byte(t1 >> 8), byte(t1)}},
					dhcpmsg.DHCPOpt{Option: 59, Data: []byte{byte(t2 >> 24), byte(t2 >> 16), byte(t2 >> 8), byte(t2)}})
			}
			if r.Chance(50) {
				opts = append(opts, dhcpmsg.OptionDNS(net.IPv4(8, 8, 8, 8), net.IPv4(1, 1, 1, 1)), dhcpmsg.OptionDomainName(string(genDomain(r))))
			}
			if r.Chance(30) {
				opts = append(opts, dhcpmsg.OptionInterfaceMTU(uint16(Pick(r, 1500, 576, 9000))))
			}
		}
		return dhcpmsg.Message{Op: 2, Htype: 1, Xid: xid, YourIP: yi, ClientMAC: mac, Cookie: dhcpmsg.DHCPCookie, Options: opts}.Assemble()
	}
	wrap := func(payload []byte) []byte {
		return layer.IPv4{TTL: 64, Protocol: 0x11, Source: srvIP, Destination: net.IPv4bcast,
			Data: layer.UDP{SrcPort: 67, DstPort: 68, Data: payload}.Assemble()}.Assemble()
	}
	offered := net.IPv4(10, 0, Pick(r, byte(0), 200), byte(10+r.Intn(200)))
	if r.Chance(20) {
		offered = net.IPv4(Pick(r, byte(10), 172, 192), 1, 2, 3)
	}
	lease := Pick(r, int64(120), 600, 3600, 86400, 4294967295, 61)
	t1o, t2o := int64(0), int64(0)
	switch r.Intn(8) {
	case 0:
		t1o, t2o = lease/3, lease*2/3 // consistent (if > 60 s)
	case 1:
		t1o, t2o = lease, lease/2 // T1 = lease, T2 < T1
	case 2:
		t1o, t2o = lease/4, lease*2 // T1 < lease < T2
	case 3:
		t1o, t2o = lease/2, lease // T2 = lease
	case 4:
		t1o, t2o = 60, lease/2 // T1 not above one minute
	case 5:
		t1o, t2o = lease/2, lease/2 // T1 = T2
	}

	decide := func(f rsocks.Frame) {
		// runs in its own goroutine per observed exchange start / probe
		if steps >= maxSteps {
			finish()
			return
		}
		steps++
		if f.Proto == 0x0806 {
			// ARP probe of the acknowledged address (sender address 0.0.0.0)
			choice := Pick(r, "none", "none", "none", "own", "foreign")
			// decide the SetIface result now (it is consumed right after a free probe)
			ifaceOK := !r.Chance(15)
			if !ifaceOK {
				libif.PlanSetIface(iface, fmt.Errorf("injected"))
			} else {
				libif.PlanSetIface(iface)
			}
			switch choice {
			case "none":
				a.ev("P:-")
			case "own", "foreign":
				who := mac
				if choice == "foreign" {
					who = net.HardwareAddr{6, 6, 6, 6, 6, 6}
				}
				a.ev("P:" + Hex(who))
				reply := layer.ARP{Opcode: 2, SenderMAC: who, SenderIP: net.IP(f.Payload[24:28]), TargetMAC: f.Payload[8:14], TargetIP: net.IP(f.Payload[14:18])}.Assemble()
				if r.Bool() { // on a real segment the 28 bytes arrive padded to the Ethernet minimum (46 bytes of payload)
					reply = append(reply, make([]byte, 18)...)
				}
				time.Sleep(10 * time.Millisecond)
				seg.Inject(0x0806, reply)
			}
			if choice != "foreign" {
				if ifaceOK {
					a.ev("I:1")
					// once bound: either wait for T1 or a link event before it
					if r.Chance(25) || lease > 1000000 { // (a 136-year lease is never waited out: hackAbsoluteSleep polls every 17 s)
						time.Sleep(time.Duration(1+r.Intn(20)) * time.Second)
						a.ev("L")
						linkUp <- struct{}{}
					} else {
						a.mu.Lock()
						a.pendingT = true // logged when the renewing exchange is actually observed
						a.mu.Unlock()
					}
				} else {
					a.ev("I:0")
				}
			}
			return
		}
		q := ParseReq(f.Payload)
		if !q.OK {
			return
		}
		state := "discover"
		switch {
		case q.Type == 1:
		case q.HasReq:
			state = "selecting"
		case q.Dst.Equal(net.IPv4bcast):
			state = "rebinding"
		default:
			state = "renewing"
		}
		time.Sleep(time.Duration(1000+r.Intn(1500)) * time.Millisecond) // keeps the client's rate limiter happy
		choices := []string{"accept", "accept", "accept", "silent", "invalid"}
		if state != "discover" {
			choices = append(choices, "nack", "nack")
		}
		if state == "renewing" || state == "rebinding" {
			choices = append(choices, "link")
		}
		switch Pick(r, choices...) {
		case "accept":
			mt := uint8(5)
			if state == "discover" {
				mt = 2
			}
			p := mkReply(mt, q.M.Xid, offered, lease, t1o, t2o, Pick(r, "", "nomask"))
			a.ev("A:" + Hex(p))
			a.ended(q.M.Xid)
			seg.Inject(0x0800, wrap(p))
		case "nack":
			a.ev("N")
			a.ended(q.M.Xid)
			seg.Inject(0x0800, wrap(mkReply(6, q.M.Xid, net.IPv4zero, 0, 0, 0, "")))
		case "invalid": // replies the client must ignore, then silence until its deadline
			bad := mkReply(5, q.M.Xid^1, offered, lease, 0, 0, "")
			seg.Inject(0x0800, wrap(bad))
			seg.Inject(0x0800, wrap(mkReply(2, q.M.Xid, net.IPv4zero, lease, 0, 0, "")))
			seg.Inject(0x0800, []byte{0x45, 0, 0})
			// the awaited type with the right transaction id and address, but unusable: no (usable) router, lease below a minute
			mtv := uint8(5)
			if state == "discover" {
				mtv = 2
			}
			seg.Inject(0x0800, wrap(mkReply(mtv, q.M.Xid, offered, lease, 0, 0, Pick(r, "norouter", "badrouter", "lease59"))))
			a.ev("D")
		case "silent":
			a.ev("D")
		case "link":
			a.ev("L")
			linkUp <- struct{}{}
		}
	}
	seg.OnSend = func(f rsocks.Frame) {
		switch f.Proto {
		case 0x0806:
			if len(f.Payload) == 28 && net.IP(f.Payload[14:18]).Equal(net.IPv4zero) {
				a.eff("arp:" + Hex(f.Payload[24:28]))
				go decide(f)
			} else if len(f.Payload) == 28 { // the renewing client looks up the server's hardware address: answer it
				go func() {
					time.Sleep(5 * time.Millisecond)
					rep := layer.ARP{Opcode: 2, SenderMAC: srvMAC, SenderIP: net.IP(f.Payload[24:28]), TargetMAC: f.Payload[8:14], TargetIP: net.IP(f.Payload[14:18])}.Assemble()
					if len(f.Payload) > 27 && f.Payload[27]%2 == 1 { // padded to the Ethernet minimum for half of the addresses
						rep = append(rep, make([]byte, 18)...)
					}
					seg.Inject(0x0806, rep)
				}()
			}
		case 0x0800:
			q := ParseReq(f.Payload)
			if q.OK {
				a.mu.Lock()
				if te, over := a.endAt[q.M.Xid]; over && time.Since(te) > 200*time.Millisecond && a.lateTx == "" {
					a.lateTx = fmt.Sprintf("xid %d transmitted again %v after the reply that ended its exchange", q.M.Xid, time.Since(te))
				}
				a.mu.Unlock()
			}
			if !q.OK || a.seenXid[q.M.Xid] {
				return
			}
			a.seenXid[q.M.Xid] = true
			a.mu.Lock()
			pt := a.pendingT
			a.pendingT = false
			a.mu.Unlock()
			if pt {
				a.ev("T")
			}
			switch {
			case q.Type == 1:
				a.eff("send:discover:-:-")
			case q.HasReq:
				a.eff(fmt.Sprintf("send:selecting:%s:%s", IPStr(q.ReqIP), IPStr(q.SrvID)))
			case q.Dst.Equal(net.IPv4bcast):
				a.eff(fmt.Sprintf("send:rebinding:%s:-", IPStr(q.Src)))
			default:
				a.eff(fmt.Sprintf("send:renewing:%s:%s", IPStr(q.Src), IPStr(q.Dst)))
			}
			go decide(f)
		}
	}
	pre := func(_ context.Context, c *libif.Ifconfig) {
		client.VerifFilterNetconfig(route == 1, c)
		if c == nil {
			a.eff("preNil")
		} else {
			a.eff("pre:" + ifcCompact(c))
		}
	}
	var boundAt time.Time
	post := func(_ context.Context, c *libif.Ifconfig) {
		if c == nil {
			a.eff("postNil")
			return
		}
		a.eff("post:" + ifcCompact(c))
		boundAt = time.Now()
		go func() { // runStateBound computes the deadlines right after this callback returns
			time.Sleep(time.Millisecond)
			t1, t2, tx := dx.VerifDeadlines()
			a.eff(fmt.Sprintf("dl:%d:%d:%d", int64(t1.Sub(boundAt)), int64(t2.Sub(boundAt)), int64(tx.Sub(boundAt))))
		}()
	}
	ctx, cancelAll := context.WithCancel(context.Background())
	dctx, dcancel := context.WithCancel(ctx)
	cancelClient = dcancel
	dx = dclient.New(dctx, iface, log.New(io.Discard, "", 0), pre, post)
	runDone := make(chan string, 1)
	go func() { // mclient.Run's loop
		defer func() {
			if p := recover(); p != nil {
				runDone <- fmt.Sprintf("fatal:%v", p)
			}
		}()
		for {
			dx.Run()
			if ctx.Err() != nil {
				runDone <- "stopped"
				return
			}
			var nctx context.Context
			nctx, cancelClient = context.WithCancel(ctx)
			dx.ResumeClient(nctx)
			if dx.VerifState() == dclient.VerifStateRebinding { // a held lease is re-validated: which deadlines are in force now?
				now := time.Now() // virtual clock: no time has passed since ResumeClient read it
				t1, t2, tx := dx.VerifDeadlines()
				a.eff(fmt.Sprintf("rs:%d:%d:%d", int64(t1.Sub(now)), int64(t2.Sub(now)), int64(tx.Sub(now))))
			}
		}
	}()
	go func() { // mclient.monitor
		for {
			select {
			case <-linkUp:
				cancelClient()
			case <-ctx.Done():
				return
			}
		}
	}()
	select {
	case <-finished:
	case <-time.After(400 * 24 * time.Hour):
	}
	time.Sleep(time.Millisecond)
	cancelAll()
	res := <-runDone
	synctest.Wait()
	// merge the libif operations into the effect log by time order is not needed: they were recorded
	// synchronously below
	ops := libif.TakeOps(iface)
	_ = ops
	a.mu.Lock()
	effs, evs, hist := append([]string(nil), a.effs...), append([]string(nil), a.evs...), append([]string(nil), a.hist...)
	a.mu.Unlock()
	// interleave libif ops: reconstruct from their timestamps relative to the effect log is fragile; instead
	// compare the two logs separately (the model renders libif effects inline, the harness filters them out)
	var obs []string
	for _, e := range effs {
		obs = append(obs, e)
	}
	var lops []string
	for _, o := range ops {
		switch o.Name {
		case "unconfigure":
			lops = append(lops, "unconf")
		case "up":
			lops = append(lops, "up")
		case "setiface":
			lops = append(lops, "setiface:"+ifcCompact(o.Conf))
		}
	}
	el := "-"
	if len(evs) > 0 {
		el = strings.Join(evs, ";")
	}
	op := fmt.Sprintf("auto mac=%s route=%d evs=%s", Hex(mac), route, el)
	s.Op(op, "ok "+strings.Join(obs, ",")+" | "+strings.Join(lops, ","), len(evs) > 2)
	s.Count("end/" + strings.SplitN(res, ":", 2)[0])
	s.Count(fmt.Sprintf("events=%d", min(len(evs)/4*4, 20)))
	for _, e := range evs {
		s.Count("ev/" + e[:1])
	}
	// ---- monitor: C15 clauses on the observed timeline ----
	fail := func(sig, what, obsd string) {
		s.Find(Finding{Property: "C15", Signature: sig, Stream: "cliauto", What: what, Ops: append(hist, op), Observed: obsd})
	}
	a.mu.Lock()
	late := a.lateTx
	a.mu.Unlock()
	if late != "" {
		for _, p := range []string{"C16", "C19"} {
			s.Find(Finding{Property: p, Signature: "retrans-after-end", Stream: "cliauto", What: "transmissions continue after the exchange ended (the sender of an exchange is still running after the reply that ended it)",
				Ops: append(hist, op), Observed: late})
		}
	}
	if strings.HasPrefix(res, "fatal") {
		fail("fatal", "the client died: "+res, res)
		s.Find(Finding{Property: "C10", Signature: "client-fatal", Stream: "cliauto", What: "a reply made the client crash: " + res, Ops: append(hist, op), Observed: res})
		s.Find(Finding{Property: "C14", Signature: "client-fatal", Stream: "cliauto", What: "the client accepted a reply it cannot use and crashed: " + res, Ops: append(hist, op), Observed: res})
	}
	// a NAK while renewing / rebinding must be followed by the removal of the configuration
	for i, h := range hist {
		if strings.HasSuffix(h, " ev  N") {
			st := ""
			for j := i - 1; j >= 0; j-- {
				if k := strings.Index(hist[j], " eff send:"); k >= 0 {
					st = strings.SplitN(hist[j][k+10:], ":", 2)[0]
					break
				}
			}
			next := ""
			for j := i + 1; j < len(hist); j++ {
				if k := strings.Index(hist[j], " eff "); k >= 0 {
					next = hist[j][k+5:]
					break
				}
			}
			if (st == "renewing" || st == "rebinding") && next != "" && next != "preNil" {
				fail("nak-ignored", "a NAK arrived while "+st+" but the client did not remove its address and restart discovery", h+" -> "+next)
			}
			if st == "selecting" && next != "" && !strings.HasPrefix(next, "send:discover") {
				fail("nak-ignored-selecting", "a NAK arrived while selecting but the client did not restart discovery", h+" -> "+next)
			}
		}
	}
	lastAck := ""
	probedSince := false
	foreignAnswer := ""
	for _, h := range hist {
		switch {
		case strings.Contains(h, " ev  A:"):
			lastAck = h
			probedSince = false
			foreignAnswer = ""
		case strings.Contains(h, " eff arp:"):
			probedSince = true
		case strings.Contains(h, " ev  P:"):
			foreignAnswer = ""
			if who := h[strings.Index(h, " ev  P:")+7:]; who != "-" && who != Hex(mac) {
				foreignAnswer = h // another station answered the probe: the address has an owner
			}
		case strings.Contains(h, " eff pre:"):
			if lastAck == "" || !probedSince {
				fail("setiface-without-probe", "the interface was configured without a preceding ARP probe of the acknowledged address", h)
			}
			if foreignAnswer != "" {
				fail("setiface-despite-conflict", "the interface was configured although another station answered the ARP probe of the acknowledged address", foreignAnswer+" -> "+h)
			}
		}
	}
	for _, o := range ops {
		if o.Name == "setiface" {
			if route == 0 && o.Conf.Router != nil {
				fail("router-not-withheld", "default-route configuration is disabled but SetIface received a router", ifcCompact(o.Conf))
			}
			if !o.Conf.IP.Equal(offered) {
				fail("setiface-other-address", "SetIface received an address that was not acknowledged", ifcCompact(o.Conf))
			}
			if int64(o.Conf.LeaseDuration/time.Second) != lease {
				fail("setiface-other-lease", "SetIface received a lease time that was not acknowledged", ifcCompact(o.Conf))
			}
		}
	}
	for _, e := range effs {
		if strings.HasPrefix(e, "rs:") { // link-up with a held lease: early re-validation = a short window for all three deadlines
			var t1, t2, tx int64
			fmt.Sscanf(e, "rs:%d:%d:%d", &t1, &t2, &tx)
			if tx > 5e9 || t1 > tx || t2 > tx {
				fail("linkup-no-early-revalidation", "a link-up event did not force early re-validation of the held lease (the old deadlines stay in force)", e)
			}
		}
		if strings.HasPrefix(e, "dl:") {
			var t1, t2, tx int64
			fmt.Sscanf(e, "dl:%d:%d:%d", &t1, &t2, &tx)
			if !(t1 <= t2 && t2 <= tx) || tx != lease*1e9 {
				fail("deadlines", "T1 <= T2 <= expiry violated (or expiry is not the acknowledged lease)", e)
			}
		}
	}
}
