module hx

go 1.26

require git.sr.ht/~adrian-blx/psa-dhcp v0.0.0

require (
	github.com/golang/protobuf v1.5.2 // indirect
	golang.org/x/time v0.0.0-20211116232009-f0f3c7e86c11 // indirect
	google.golang.org/protobuf v1.26.0 // indirect
)

replace git.sr.ht/~adrian-blx/psa-dhcp => /repo
