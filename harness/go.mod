module hx

go 1.26

require git.sr.ht/~adrian-blx/psa-dhcp v0.0.0

require (
	github.com/golang/protobuf v1.5.2 // indirect
	google.golang.org/protobuf v1.26.0 // indirect
)

replace git.sr.ht/~adrian-blx/psa-dhcp => /repo
