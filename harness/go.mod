module hx

go 1.26

require git.sr.ht/~adrian-blx/psa-dhcp v0.0.0

replace git.sr.ht/~adrian-blx/psa-dhcp => /repo
