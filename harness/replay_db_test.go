package hx

import (
	"context"
	"fmt"
	"net"
	"strconv"
	"strings"
	"testing"
	"testing/synctest"
	"time"

	"git.sr.ht/~adrian-blx/psa-dhcp/lib/server/ipdb"
	"git.sr.ht/~adrian-blx/psa-dhcp/lib/server/ipdb/clients"
)

func atoi64(s string) int64 { v, _ := strconv.ParseInt(s, 10, 64); return v }

func init() {
	// Clients API with explicit clocks: a whole history is replayed on a fresh store.
	scriptReplayers["clients"] = func(t *testing.T, s *Stream, rp *Replay) {
		c := clients.NewClients()
		for _, op := range rp.Ops {
			kw, a := argsOf(op)
			if kw == "cl.reset" {
				c = clients.NewClients()
				s.Op(op, "ok", false)
				continue
			}
			if !strings.HasPrefix(kw, "cl.") || kw == "cl.push" || kw == "cl.pop" {
				continue
			}
			tt := atoi64(a["t"])
			o := clOp{kind: strings.TrimPrefix(kw, "cl."), ip: uint32(atoi64(a["ip"])), duid: unhex(a["duid"])}
			if a["exp"] != "" {
				o.life = atoi64(a["exp"]) - tt
			}
			ans := safely(func() string { return applyCl(c, o, tt) })
			s.Op(op, ans, true)
			t.Logf("impl: %s => %s", op, ans)
		}
	}
	// public IPDB API under the virtual clock: operations are replayed at their recorded clocks.
	scriptReplayers["ipdb"] = func(t *testing.T, s *Stream, rp *Replay) {
		synctest.Test(t, func(t *testing.T) {
			var db *ipdb.IPDB
			for _, op := range rp.Ops {
				kw, a := argsOf(op)
				if at := atoi64(a["t"]); at > 0 {
					if d := at - time.Now().UnixNano(); d > 0 {
						time.Sleep(time.Duration(d))
					}
				}
				ans := "?"
				ip := func(k string) net.IP { return parseIPField(a[k]) }
				switch kw {
				case "db.new":
					db, _ = ipdb.New(U32IP(uint32(atoi64(a["base"]))), net.CIDRMask(int(atoi64(a["p"])), 32))
					ans = "ok"
				case "db.setdyn":
					ans = errClass(db.SetDynamicRange(ip("from"), ip("to")))
				case "db.disable":
					db.DisableDynamic()
					ans = "ok"
				case "db.inrange":
					ans = fmt.Sprint(db.InManagedRange(ip("ip")))
				case "db.lookup":
					if x, err := db.LookupClientByDuid(unhex(a["duid"])); err != nil {
						ans = errClass(err)
					} else {
						ans = fmt.Sprintf("ok %d", IPU32(x))
					}
				case "db.addperm":
					ans = errClass(db.AddPermanentClient(ip("ip"), unhex(a["duid"])))
				case "db.update":
					ans = errClass(db.UpdateClient(ip("ip"), unhex(a["duid"]), time.Duration(atoi64(a["ttl"]))))
				case "db.find", "db.findc":
					// probe answers as recorded: an address with a recorded answer is in conflict
					conflict := map[uint32]bool{}
					for _, p := range strings.Split(a["probes"], ",") {
						f := strings.Split(p, ":")
						if len(f) == 4 && f[1] != "-" {
							conflict[IPU32(parseIPField(f[0]))] = true
						}
					}
					x, err := db.FindIP(context.Background(), func(_ context.Context, c net.IP) bool { return !conflict[IPU32(c)] }, ip("sugg"), unhex(a["duid"]))
					if err != nil {
						ans = errClass(err)
					} else {
						ans = fmt.Sprintf("ok %d", IPU32(x))
					}
				default:
					continue
				}
				t.Logf("impl: %s => %s", op[:min(len(op), 140)], ans)
			}
		})
	}
}
