package hx

import (
	"bytes"
	"context"
	"fmt"
	"net"
	"sort"
	"strings"
	"sync"
	"testing"
	"time"

	"git.sr.ht/~adrian-blx/psa-dhcp/lib/dhcpmsg"
	"git.sr.ht/~adrian-blx/psa-dhcp/lib/server/ipdb"
)

// concHost is one client of a burst scenario.
type concHost struct {
	mac     net.HardwareAddr
	cid     []byte
	offered net.IP
	acked   net.IP
	naks    int
}

// TestSrvConc: C09 — bursts of overlapping packets into the real Run loop, in REAL time (handlers
// waiting for the IPDB mutex are not "durably blocked", so overlapping handlers cannot run under
// the virtual clock). Many independent servers run side by side; only verdicts are asserted.
func TestSrvConc(t *testing.T) {
	r := NewRng(Seed(), "srvconc")
	s := NewStream("srvconc")
	defer s.Close()
	n := EnvInt("HX_N", 48)
	if Thorough() {
		n = EnvInt("HX_N", 600)
	}
	type job struct {
		seed uint64
		idx  int
	}
	jobs := make(chan job, n)
	for i := 0; i < n; i++ {
		jobs <- job{r.U64(), i}
	}
	close(jobs)
	var wg sync.WaitGroup
	par := 48
	for w := 0; w < par; w++ {
		wg.Add(1)
		go func() {
			defer wg.Done()
			for j := range jobs {
				concScenario(s, &Rng{s: j.seed}, j.idx)
			}
		}()
	}
	wg.Wait()
}

func concScenario(s *Stream, r *Rng, idx int) {
	k := 2 + r.Intn(4) // hosts
	pool := k + r.Intn(3)
	c := &SrvConf{Base: uint32(10)<<24 | uint32(idx%200)<<8, Plen: 24, SelfMAC: srvMAC, Lease: time.Hour, Router: nil}
	c.SelfIP = U32IP(c.Base + 1)
	c.DynFrom, c.DynTo = U32IP(c.Base+100), U32IP(c.Base+100+uint32(pool)-1)
	c.Router, c.DNS = U32IP(c.Base+1), []net.IP{net.IPv4(8, 8, 8, 8)}
	// two hosts have per-client overrides: concurrent handlers must not mix up each other's options
	for i := 0; i < 2 && i < k; i++ {
		mac := net.HardwareAddr{2, 0, byte(idx), 0, 0xc0, byte(i)}
		c.Clients = append(c.Clients, ClientConf{Key: mac.String(), MAC: mac, Router: U32IP(c.Base + 2 + uint32(i)), DNS: []net.IP{net.IPv4(1, 1, 1, byte(1+i))}, Hostname: fmt.Sprintf("h%d", i)})
	}
	optMon := NewSrvMonitor(c, s, c.Line(0))
	optMon.optProp = "C09"
	envMu.Lock()
	env, err := StartServer(c)
	envMu.Unlock()
	if err != nil {
		return
	}
	defer env.Stop()
	time.Sleep(20 * time.Millisecond)
	hosts := make([]*concHost, k)
	for i := range hosts {
		hosts[i] = &concHost{mac: net.HardwareAddr{2, 0, byte(idx), 0, 0xc0, byte(i)}, cid: bytes.Repeat([]byte{byte(0x10 + i)}, 7)}
	}
	var hist []string
	var hmu sync.Mutex
	logf := func(f string, a ...interface{}) {
		hmu.Lock()
		hist = append(hist, fmt.Sprintf("%6dms ", time.Now().UnixMilli()%1000000)+fmt.Sprintf(f, a...))
		hmu.Unlock()
	}
	// collector: attributes replies to hosts
	stop := make(chan struct{})
	var cwg sync.WaitGroup
	cwg.Add(1)
	var grants []string
	go func() {
		defer cwg.Done()
		tick := time.NewTicker(5 * time.Millisecond)
		defer tick.Stop()
		for {
			select {
			case <-stop:
				return
			case <-tick.C:
			}
			sent, _ := env.Take()
			for _, f := range sent {
				if f.Proto != 0x0800 {
					continue
				}
				rp := ParseReply(f)
				if rp == nil {
					continue
				}
				if rp.Type == 2 || rp.Type == 5 {
					optMon.checkOptions(rp, Req{Chaddr: rp.Chaddr, HasCid: false})
				}
				for _, h := range hosts {
					if bytes.Equal(h.mac, rp.Chaddr) {
						hmu.Lock()
						switch rp.Type {
						case 2:
							h.offered = rp.Yiaddr
						case 5:
							h.acked = rp.Yiaddr
							grants = append(grants, fmt.Sprintf("%s->%s", rp.Yiaddr, h.mac))
						case 6:
							h.naks++
						}
						hmu.Unlock()
						logf("reply type=%d yiaddr=%v to %s", rp.Type, rp.Yiaddr, h.mac)
					}
				}
			}
		}
	}()
	// transaction ids are chosen by the clients, independently of each other: in a quarter of the scenarios every host
	// happens to use one and the same id for all its messages (retransmissions reuse the id of their exchange anyway)
	sameXid := r.Chance(25)
	xid := uint32(idx) << 16
	send := func(h *concHost, m MsgSpec) {
		if !sameXid {
			xid++
		}
		m.MAC, m.Cid, m.Xid = h.mac, h.cid, xid
		logf("send type=%d from %s req=%v", m.Type, h.mac, m.ReqIP)
		env.Seg.Inject(0x0800, m.Frame())
	}
	// phase 1: overlapping DISCOVERs (each lands while an earlier handler sleeps, probes and holds the lock)
	for _, h := range hosts {
		send(h, MsgSpec{Type: 1})
		if sameXid {
			time.Sleep(time.Duration(r.Intn(25)) * time.Millisecond) // back to back: the next one lands while this one's handler is busy
		} else {
			time.Sleep(time.Duration(r.Intn(400)) * time.Millisecond)
		}
	}
	// every host retries its DISCOVER until it has an offer (a lost race costs one packet, never more)
	deadline := time.Now().Add(time.Duration(6+pool) * time.Second)
	for time.Now().Before(deadline) {
		time.Sleep(900 * time.Millisecond)
		missing := 0
		for _, h := range hosts {
			hmu.Lock()
			o := h.offered
			hmu.Unlock()
			if o == nil {
				missing++
				send(h, MsgSpec{Type: 1})
			} else if sameXid {
				send(h, MsgSpec{Type: 1}) // a client that has not seen its offer yet retransmits too: same id, same order, back to back
				time.Sleep(time.Duration(r.Intn(10)) * time.Millisecond)
			}
		}
		if missing == 0 {
			break
		}
	}
	// phase 2: every host requests its offer, again overlapping, with other hosts' DISCOVERs in between
	for i, h := range hosts {
		hmu.Lock()
		o := h.offered
		hmu.Unlock()
		if o != nil {
			send(h, MsgSpec{Type: 3, ReqIP: o, SrvID: c.SelfIP})
		}
		if r.Chance(50) {
			send(hosts[(i+1)%k], MsgSpec{Type: 1})
		}
		time.Sleep(time.Duration(r.Intn(150)) * time.Millisecond)
	}
	time.Sleep(1500 * time.Millisecond)
	close(stop)
	cwg.Wait()
	// ---- verdicts ----
	hmu.Lock()
	defer hmu.Unlock()
	op := fmt.Sprintf("conc hosts=%d pool=%d samexid=%v", k, pool, sameXid)
	fail := func(sig, what string) {
		s.Find(Finding{Property: "C09", Signature: sig, Stream: "srvconc", What: what, Ops: append([]string{op}, hist...), Config: c.Line(0)})
	}
	seen := map[string]string{}
	for _, h := range hosts {
		if h.offered == nil {
			fail("never-offered", "a client was never offered an address although the pool is large enough (lost more than single packets to races)")
			continue
		}
		if h.naks > 0 {
			fail("derailed-nak", "a client's REQUEST for the address it was offered (within the hold time) was refused while other clients' packets were in flight")
		}
		if h.acked == nil {
			fail("derailed-silent", "a client's DISCOVER/REQUEST exchange did not complete although nothing but other clients' packets interfered")
			continue
		}
		if !h.acked.Equal(h.offered) {
			fail("ack-other-address", "a client was acknowledged an address other than the one it was offered")
		}
		if other, dup := seen[h.acked.String()]; dup {
			s.Find(Finding{Property: "C01", Signature: "conc-double-lease", Stream: "srvconc", What: "one address acknowledged to two clients under concurrent handling",
				Ops: append([]string{op}, hist...), Observed: h.acked.String() + " to " + other + " and " + h.mac.String(), Config: c.Line(0)})
			fail("conc-double-lease", "one address acknowledged to two clients under concurrent handling")
		}
		seen[h.acked.String()] = h.mac.String()
		a := IPU32(h.acked)
		if a < IPU32(c.DynFrom) || a > IPU32(c.DynTo) {
			s.Find(Finding{Property: "C02", Signature: "conc-outside-range", Stream: "srvconc", What: "an address outside the dynamic range was acknowledged under concurrent handling", Ops: append([]string{op}, hist...)})
		}
	}
	sort.Strings(grants)
	s.Op("note "+op+" grants="+strings.Join(grants, ","), "ok", true)
	s.Count(fmt.Sprintf("hosts=%d", k))
	s.Count(fmt.Sprintf("samexid=%v", sameXid))
}

var envMu sync.Mutex // StartServer touches a package-level counter

// ---- concurrent calls on one IPDB: the results must equal those of SOME sequential order ----

type dbCall struct {
	kind string // update | lookup | find
	ip   uint32
	duid []byte
	ttl  time.Duration
	res  string
}

func (c dbCall) String() string {
	return fmt.Sprintf("%s(ip=%s duid=%s ttl=%v)=%s", c.kind, U32IP(c.ip), Hex(c.duid), c.ttl, c.res)
}

// seqModel: the monitor's own sequential reference (one live binding per address and per client;
// lifetimes long enough that nothing expires during a group).
type seqModel struct {
	byIP   map[uint32]string
	byDuid map[string]uint32
}

func (m *seqModel) clone() *seqModel {
	n := &seqModel{map[uint32]string{}, map[string]uint32{}}
	for k, v := range m.byIP {
		n.byIP[k] = v
	}
	for k, v := range m.byDuid {
		n.byDuid[k] = v
	}
	return n
}

func (m *seqModel) apply(c dbCall, lo, hi uint32) string {
	d := string(c.duid)
	switch c.kind {
	case "lookup":
		if a, ok := m.byDuid[d]; ok {
			return fmt.Sprint(a)
		}
		return "err"
	case "update":
		if c.ip < lo || c.ip > hi {
			return "err"
		}
		oi, okI := m.byIP[c.ip]
		od, okD := m.byDuid[d]
		switch {
		case okI && okD && oi == d && od == c.ip:
			return "ok"
		case !okI && !okD:
			m.byIP[c.ip], m.byDuid[d] = d, c.ip
			return "ok"
		}
		return "err"
	case "find":
		if a, ok := m.byDuid[d]; ok {
			return fmt.Sprint(a)
		}
		// the suggestion first if it is free (the group's candidates all end in valid octets)
		if c.ip >= lo && c.ip <= hi {
			if _, taken := m.byIP[c.ip]; !taken {
				return fmt.Sprint(c.ip)
			}
		}
		return "any-free"
	}
	return "?"
}

func permute(n int, f func([]int) bool) bool {
	p := make([]int, n)
	for i := range p {
		p[i] = i
	}
	var rec func(k int) bool
	rec = func(k int) bool {
		if k == n {
			return f(p)
		}
		for i := k; i < n; i++ {
			p[k], p[i] = p[i], p[k]
			if rec(k + 1) {
				return true
			}
			p[k], p[i] = p[i], p[k]
		}
		return false
	}
	return rec(0)
}

// TestDbConc: C09 — groups of 2..6 concurrent calls on one real IPDB.
func TestDbConc(t *testing.T) {
	r := NewRng(Seed(), "dbconc")
	s := NewStream("dbconc")
	defer s.Close()
	n := EnvInt("HX_N", 1500)
	if Thorough() {
		n = 40000
	}
	base := uint32(10<<24 | 9<<8)
	lo, hi := base+1, base+254
	for i := 0; i < n; i++ {
		db, _ := ipdb.New(U32IP(base), net.CIDRMask(24, 32))
		db.SetDynamicRange(U32IP(base+10), U32IP(base+13))
		ref := &seqModel{map[uint32]string{}, map[string]uint32{}}
		var hist []string
		for round := 0; round < 3; round++ {
			g := 2 + r.Intn(5)
			calls := make([]dbCall, g)
			for j := range calls {
				calls[j] = dbCall{kind: Pick(r, "update", "update", "update", "lookup", "find"), ip: base + 10 + uint32(r.Intn(4)),
					duid: []byte{1, 1, 1, byte(r.Intn(3))}, ttl: time.Hour}
			}
			var wg sync.WaitGroup
			start := make(chan struct{})
			for j := range calls {
				wg.Add(1)
				go func(c *dbCall) {
					defer wg.Done()
					<-start
					switch c.kind {
					case "update":
						if db.UpdateClient(U32IP(c.ip), c.duid, c.ttl) == nil {
							c.res = "ok"
						} else {
							c.res = "err"
						}
					case "lookup":
						if ip, err := db.LookupClientByDuid(c.duid); err == nil {
							c.res = fmt.Sprint(IPU32(ip))
						} else {
							c.res = "err"
						}
					case "find":
						ip, err := db.FindIP(context.Background(), func(context.Context, net.IP) bool { return true }, U32IP(c.ip), c.duid)
						if err == nil {
							c.res = fmt.Sprint(IPU32(ip))
						} else {
							c.res = "err"
						}
					}
				}(&calls[j])
			}
			close(start)
			wg.Wait()
			var line []string
			for _, c := range calls {
				line = append(line, c.String())
			}
			hist = append(hist, "group: "+strings.Join(line, " || "))
			// some permutation of the group must explain every result
			var after *seqModel
			ok := permute(g, func(p []int) bool {
				m := ref.clone()
				for _, j := range p {
					want := m.apply(calls[j], lo, hi)
					got := calls[j].res
					if want == "any-free" {
						a := uint32(0)
						fmt.Sscan(got, &a)
						if _, taken := m.byIP[a]; got == "err" || taken || a < base+10 || a > base+13 {
							return false
						}
						continue
					}
					if want != got {
						return false
					}
				}
				after = m
				return true
			})
			if !ok {
				s.Find(Finding{Property: "C09", Signature: "dbconc-not-serializable", Stream: "dbconc", What: "the results of concurrent lease-database calls equal those of no sequential order", Ops: hist})
				break
			}
			ref = after
		}
		s.Op(fmt.Sprintf("note dbconc case=%d", i), "ok", true)
	}
	// ---- directed groups: the two ways a weakened lock shows
	m := EnvInt("HX_T", 400)
	if Thorough() {
		m = 20000
	}
	for i := 0; i < m; i++ {
		db, _ := ipdb.New(U32IP(base), net.CIDRMask(24, 32))
		db.SetDynamicRange(U32IP(base+10), U32IP(base+13))
		// (1) one address, several clients, released at the same instant: exactly one update may succeed
		k := 3 + r.Intn(4)
		okc := make([]bool, k)
		var wg sync.WaitGroup
		start := make(chan struct{})
		for j := 0; j < k; j++ {
			wg.Add(1)
			go func(j int) {
				defer wg.Done()
				<-start
				okc[j] = db.UpdateClient(U32IP(base+10), []byte{2, 2, 2, byte(j)}, time.Hour) == nil
			}(j)
		}
		close(start)
		wg.Wait()
		won := 0
		for _, b := range okc {
			if b {
				won++
			}
		}
		s.Count(fmt.Sprintf("directed/same-address/winners=%d", won))
		if won != 1 {
			s.Find(Finding{Property: "C09", Signature: "dbconc-double-grant", Stream: "dbconc",
				What: "concurrent updates of one address by different clients did not behave as if executed one at a time (several succeeded)",
				Ops:  []string{fmt.Sprintf("%d concurrent UpdateClient(%s, duid_j, 1h) on an empty database", k, U32IP(base+10))}, Observed: fmt.Sprintf("%d succeeded", won)})
			s.Find(Finding{Property: "C01", Signature: "dbconc-double-grant", Stream: "dbconc",
				What: "an address was granted to two clients at the same time (concurrent handlers)",
				Ops:  []string{fmt.Sprintf("%d concurrent UpdateClient(%s, duid_j, 1h) on an empty database", k, U32IP(base+10))}, Observed: fmt.Sprintf("%d succeeded", won)})
		}
		// (2) expired bindings looked up concurrently (a lookup removes what it finds expired: a write)
		for j := 0; j < 3; j++ {
			db.UpdateClient(U32IP(base+11+uint32(j)), []byte{3, 3, 3, byte(j)}, time.Nanosecond)
		}
		time.Sleep(50 * time.Microsecond)
		start2 := make(chan struct{})
		for j := 0; j < 6; j++ {
			wg.Add(1)
			go func(j int) {
				defer wg.Done()
				<-start2
				db.LookupClientByDuid([]byte{3, 3, 3, byte(j % 3)})
				db.UpdateClient(U32IP(base+11+uint32(j%3)), []byte{4, 4, 4, byte(j)}, time.Nanosecond)
			}(j)
		}
		close(start2)
		wg.Wait()
		s.Count("directed/expired-lookups")
	}
	_ = dhcpmsg.OpReply
}
