package hx

import (
	"bytes"
	"fmt"
	"net"
	"time"
)

// ---------- independent view of a server reply ----------

type Reply struct {
	At       int64
	L2       net.HardwareAddr
	IPSrc    net.IP
	IPDst    net.IP
	Sp, Dp   int
	Op       byte
	Xid      uint32
	Flags    uint16
	Yiaddr   net.IP
	Chaddr   net.HardwareAddr
	Hlen     byte
	Type     byte
	SrvID    net.IP
	LeaseSec int64
	Opts     []RefOpt
	CsumOK   bool
}

// ParseReply decodes a tapped frame with the reference parsers (not the repo's).
func ParseReply(f TapFrame) *Reply {
	ip, err := RefParseIPv4(f.B)
	if err != nil {
		return nil
	}
	u, err := RefParseUDP(ip)
	if err != nil {
		return nil
	}
	m, err := RefParseDHCP(u.Payload)
	if err != nil {
		return nil
	}
	r := &Reply{At: f.At, L2: f.L2, IPSrc: net.IP(ip.Src[:]), IPDst: net.IP(ip.Dst[:]), Sp: u.Sp, Dp: u.Dp, Op: m.Op, Xid: m.Xid, Flags: m.Flags,
		Yiaddr: net.IP(m.Yiaddr[:]), Hlen: m.Hlen, Opts: m.Opts, CsumOK: ip.HdrOK && u.CsumOK, LeaseSec: -1}
	hl := int(m.Hlen)
	if hl > 16 {
		hl = 16
	}
	r.Chaddr = net.HardwareAddr(m.Chaddr[:hl])
	for _, o := range m.Opts {
		switch {
		case o.Code == 53 && len(o.Data) == 1:
			r.Type = o.Data[0]
		case o.Code == 54 && len(o.Data) == 4:
			r.SrvID = net.IP(o.Data)
		case o.Code == 51 && len(o.Data) == 4:
			r.LeaseSec = int64(o.Data[0])<<24 | int64(o.Data[1])<<16 | int64(o.Data[2])<<8 | int64(o.Data[3])
		}
	}
	return r
}

// Req is the monitor's own reading of an injected client frame.
type Req struct {
	OK                bool // parses as IPv4/UDP/DHCP BOOTREQUEST
	Src, Dst          net.IP
	M                 *RefDHCP
	Chaddr            net.HardwareAddr
	Type              byte
	Cid               []byte
	HasCid            bool
	ReqIP, SrvID      net.IP
	HasReq, HasSid    bool
	ReqOptLen, SidLen int
}

func ParseReq(b []byte) Req {
	var q Req
	ip, err := RefParseIPv4(b)
	if err != nil {
		return q
	}
	u, err := RefParseUDP(ip)
	if err != nil {
		return q
	}
	m, err := RefParseDHCP(u.Payload)
	if err != nil || m.Op != 1 {
		return q
	}
	q.OK, q.M, q.Src, q.Dst = true, m, net.IP(ip.Src[:]), net.IP(ip.Dst[:])
	hl := int(m.Hlen)
	ch := make([]byte, hl)
	copy(ch, u.Payload[28:])
	q.Chaddr = ch
	for _, o := range m.Opts { // last occurrence wins, typed values only from exact lengths
		switch o.Code {
		case 53:
			q.Type = 0
			if len(o.Data) == 1 {
				q.Type = o.Data[0]
			}
		case 61:
			q.Cid, q.HasCid = o.Data, true
		case 50:
			q.HasReq, q.ReqIP, q.ReqOptLen = len(o.Data) == 4, nil, len(o.Data)
			if len(o.Data) == 4 {
				q.ReqIP = net.IP(o.Data)
			}
		case 54:
			q.HasSid, q.SrvID, q.SidLen = len(o.Data) == 4, nil, len(o.Data)
			if len(o.Data) == 4 {
				q.SrvID = net.IP(o.Data)
			}
		}
	}
	return q
}

// Identity is the property's gloss: client identifier, or hardware address when none is sent.
func (q Req) Identity() string {
	if q.HasCid && len(q.Cid) > 0 {
		return "cid:" + Hex(q.Cid)
	}
	return "hw:" + Hex(q.Chaddr)
}

// ---------- monitor ----------

type grant struct {
	addr  uint32
	id    string
	sent  int64 // when the client sent the message that was answered
	at    int64 // when the server answered
	ttl   int64
	ack   bool
	chadr string
}

type SrvMonitor struct {
	c         *SrvConf
	s         *Stream
	cfgLine   string
	hist      []string
	grants    []grant
	lastRep   map[string]*Reply // last OFFER/ACK per identity
	lastAt    map[string]int64
	bad       map[string]bool // identities that broke the consistency hypothesis (several ids per hardware address)
	idOfMac   map[string]string
	macOfID   map[string]string
	optProp   string // additionally report option mismatches under this property (C09 in the burst stream)
	Name      string // stream name recorded in findings (default "srvseq")
	respTable map[uint32]*Responder
}

func NewSrvMonitor(c *SrvConf, s *Stream, cfgLine string) *SrvMonitor {
	return &SrvMonitor{c: c, s: s, cfgLine: cfgLine, lastRep: map[string]*Reply{}, lastAt: map[string]int64{}, bad: map[string]bool{}, idOfMac: map[string]string{}, macOfID: map[string]string{}}
}

func (m *SrvMonitor) fail(prop, sig, what, observed string) {
	m.s.Find(Finding{Property: prop, Signature: sig, Stream: m.streamName(), What: what, Config: m.cfgLine, Ops: append([]string(nil), m.hist...), Observed: observed})
}

func (m *SrvMonitor) streamName() string {
	if m.Name != "" {
		return m.Name
	}
	return "srvseq"
}

func (m *SrvMonitor) staticOf(mac net.HardwareAddr) net.IP {
	for _, cl := range m.c.Clients {
		if bytes.Equal(cl.MAC, mac) {
			return cl.IP
		}
	}
	return nil
}

func (m *SrvMonitor) isStaticAddr(a uint32) (net.HardwareAddr, bool) {
	for _, cl := range m.c.Clients {
		if cl.IP != nil && IPU32(cl.IP) == a {
			return cl.MAC, true
		}
	}
	return nil, false
}

const margin = int64(2 * time.Second)

// liveGrants returns the grants of addr that may still be running at time t (by the property's
// clock: from when the client sent its message).
func (m *SrvMonitor) holder(addr uint32, t int64) []grant {
	var out []grant
	for _, g := range m.grants {
		if g.addr == addr && t <= g.sent+g.ttl {
			out = append(out, g)
		}
	}
	return out
}

// boundTo: does identity id hold a (possibly still valid by the server's clock) grant for addr at t?
func (m *SrvMonitor) grantOf(id string, t int64) (sure *grant, maybe *grant) {
	// all grants of the identity count (an OFFER after an ACK does not end the lease); among the
	// running ones the most recent decides which address the client holds
	for i := len(m.grants) - 1; i >= 0; i-- {
		g := &m.grants[i]
		if g.id != id {
			continue
		}
		if t <= g.sent+g.ttl {
			if sure == nil {
				sure = g
			}
			if maybe == nil {
				maybe = g
			}
		} else if t <= g.at+g.ttl+margin && maybe == nil {
			maybe = g
		}
	}
	return
}

func inRange(a, lo, hi uint32) bool { return a >= lo && a <= hi }

// Step checks one injected frame and what the server did with it.
func (m *SrvMonitor) Step(trx int64, frame []byte, obs Obs, op string) {
	m.hist = append(m.hist, op)
	c := m.c
	q := ParseReq(frame)
	self := IPU32(c.SelfIP)
	nf, nt := c.NetFromTo()
	df, dt := c.DynRange()
	var reps []*Reply
	for _, f := range obs.Tx {
		rp := ParseReply(f)
		if rp == nil {
			m.fail("C06", "unparsable-reply", "the server sent a frame that does not parse as IPv4/UDP/DHCP with consistent lengths", Hex(f.B))
			m.fail("C13", "unparsable-reply", "the server sent a frame that does not parse as IPv4/UDP/DHCP with consistent lengths", Hex(f.B))
			continue
		}
		reps = append(reps, rp)
	}
	// ---- C10 / C06: junk or non-requests cause no reply; at most one reply per message
	if !q.OK && len(obs.Tx) > 0 {
		m.fail("C10", "reply-to-junk", "a frame that is not an IPv4/UDP BOOTREQUEST was answered", obs.Answer())
	}
	if len(obs.Tx) > 1 {
		m.fail("C06", "two-replies", "one client message caused more than one reply", obs.Answer())
	}
	if !q.OK {
		return
	}
	id := q.Identity()
	macs := Hex(q.Chaddr)
	if m.staticOf(q.Chaddr) != nil {
		// a reservation is made for a hardware address (C03): a reserved host is that hardware address, whatever
		// client identifier it sends (and whoever else sends the same identifier)
		id = "hw:" + macs
	}
	if prev, ok := m.idOfMac[macs]; ok && prev != id {
		m.bad[prev], m.bad[id] = true, true // this hardware address does not use one identity consistently
	}
	m.idOfMac[macs] = id
	// a client identifier the server does not key on (shorter than four bytes, or in its internal namespace)
	// sent by several hardware addresses: by the gloss one client, for the server several — outside the hypothesis
	if q.HasCid && (len(q.Cid) < 4 || bytes.HasPrefix(q.Cid, []byte{0, 3, 0, 0})) {
		if prev, ok := m.macOfID[id]; ok && prev != macs {
			m.bad[id] = true
		}
		m.macOfID[id] = macs
	}
	consistent := !m.bad[id]
	isSelfMac := bytes.Equal(q.Chaddr, c.SelfMAC)
	dstB := q.Dst.Equal(net.IPv4bcast)
	dstSelf := q.Dst.Equal(c.SelfIP)
	foreign := func(a uint32) bool { // a correct foreign ARP responder sits on a
		rp := m.envResp(a)
		return rp != nil && rp.SenderIP == nil && !bytes.Equal(rp.MAC, q.Chaddr)
	}
	for _, rp := range reps {
		// ---- C06: correlation and addressing
		bad6 := func(sig, what string) { m.fail("C06", sig, what, fmt.Sprintf("%+v", *rp)) }
		if rp.Op != 2 {
			bad6("op", "reply is not a BOOTREPLY")
		}
		if rp.Xid != q.M.Xid {
			bad6("xid", "reply does not echo the transaction id")
		}
		want := make([]byte, 16)
		copy(want, q.Chaddr)
		got := make([]byte, 16)
		copy(got, rp.Chaddr)
		if !bytes.Equal(want, got) || rp.Hlen != q.M.Hlen {
			bad6("chaddr", "reply does not echo the client hardware address")
		}
		if !rp.SrvID.Equal(c.SelfIP) {
			bad6("srvid", "server identifier is not the server's own address")
		}
		if rp.Sp != 67 || rp.Dp != 68 {
			bad6("ports", "reply does not travel from port 67 to port 68")
		}
		if !rp.IPSrc.Equal(c.SelfIP) {
			bad6("ipsrc", "IP source is not the server's address")
		}
		if !rp.CsumOK {
			m.fail("C13", "reply-checksum", "a reply carries an IPv4 or UDP checksum that does not verify", Hex(obs.Tx[0].B))
		}
		if rp.Type != 2 && rp.Type != 5 && rp.Type != 6 {
			bad6("type", "reply is neither OFFER, ACK nor NAK")
		}
		bc := q.M.Flags&0x8000 != 0
		switch rp.Type {
		case 2, 5:
			if rp.Flags != q.M.Flags {
				bad6("flags", "OFFER/ACK does not echo the flags")
			}
			if bc {
				if !rp.IPDst.Equal(net.IPv4bcast) || !bytes.Equal(rp.L2, net.HardwareAddr{255, 255, 255, 255, 255, 255}) {
					bad6("bcast-dst", "broadcast flag set but OFFER/ACK not sent to the IP and link-layer broadcast address")
				}
			} else if !rp.IPDst.Equal(rp.Yiaddr) || !bytes.Equal(rp.L2, q.Chaddr) {
				bad6("ucast-dst", "OFFER/ACK not sent to the assigned address at the client's hardware address")
			}
		case 6:
			if !rp.IPDst.Equal(net.IPv4bcast) {
				bad6("nak-dst", "NAK not sent to the IP broadcast address")
			}
		}
		if rp.Type == 2 || rp.Type == 5 {
			a := IPU32(rp.Yiaddr)
			st := m.staticOf(q.Chaddr)
			// ---- C02
			bad2 := func(sig, what string) {
				m.fail("C02", sig, what, fmt.Sprintf("yiaddr=%s chaddr=%s", rp.Yiaddr, q.Chaddr))
			}
			if !inRange(a, nf, nt) {
				bad2("outside-net", "an address outside the configured network (or its network/broadcast address) was handed out")
			}
			if a == self {
				bad2("self", "the server's own address was handed out")
			}
			isSt := st != nil && IPU32(st) == a
			if !isSt && (dt == 0 || !inRange(a, df, dt)) {
				bad2("outside-dyn", "a non-static address outside the dynamic range was handed out")
			}
			if c.StaticOnly && !isSt {
				bad2("static-only", "static_only is set but a client without static entry was offered/acknowledged an address")
			}
			// ---- C03
			if st != nil && !isSt {
				m.fail("C03", "static-other", "a client with a static address was offered/acknowledged another address", fmt.Sprintf("yiaddr=%s static=%s", rp.Yiaddr, st))
			}
			if owner, ok := m.isStaticAddr(a); ok && !bytes.Equal(owner, q.Chaddr) {
				m.fail("C03", "static-stolen", "a statically reserved address was offered/acknowledged to another client", fmt.Sprintf("yiaddr=%s chaddr=%s owner=%s", rp.Yiaddr, q.Chaddr, owner))
			}
			// ---- C07: options reflect the configuration
			m.checkOptions(rp, q)
			// ---- C07: the advertised lease time is the time the address stays reserved — nobody else is
			// offered or acknowledged it before the time announced in the holder's latest ACK has run out
			if consistent {
				for _, g := range m.holder(a, rp.At) {
					if g.ack && g.id != id && !m.bad[g.id] {
						m.fail("C07", "reserved-shorter-than-advertised", "an address was offered/acknowledged to another client before the lease time advertised to its holder had elapsed",
							fmt.Sprintf("%s to %s at %d; %s was acknowledged it at %d for %ds", rp.Yiaddr, id, rp.At, g.id, g.sent, g.ttl/1e9))
						m.fail("C18", "not-in-effect:lease_duration", "a configured value is not in effect: lease_duration (the address of a client was given to another one before the configured lease time, which its ACK announced, had elapsed)",
							fmt.Sprintf("%s to %s at %d; %s was acknowledged it at %d for %ds", rp.Yiaddr, id, rp.At, g.id, g.sent, g.ttl/1e9))
					}
				}
			}
			// ---- C01
			if rp.Type == 5 {
				for _, g := range m.holder(a, rp.At) {
					// two clients by the gloss — and certainly two holders for the server — when both the identity and the
					// hardware address differ (a hardware-address identity is injective, a client identifier in the
					// internal namespace is never keyed on); with one hardware address the consistency hypothesis decides
					if g.id != id && ((consistent && !m.bad[g.id]) || g.chadr != macs) {
						kind := "pending offer"
						if g.ack {
							kind = "acknowledged lease"
						}
						m.fail("C01", "double-lease:"+kind, "an address was acknowledged while another client holds an unexpired "+kind+" for it",
							fmt.Sprintf("ACK %s to %s at %d; %s holds it since %d for %ds", rp.Yiaddr, id, rp.At, g.id, g.sent, g.ttl/1e9))
						if g.ack { // C05's clause "the address stays that client's until the advertised lease time has elapsed" fails on the same history
							m.fail("C05", "lease-given-away", "an acknowledged address was acknowledged to another client before the advertised lease time had elapsed",
								fmt.Sprintf("ACK %s to %s at %d; %s holds it since %d for %ds", rp.Yiaddr, id, rp.At, g.id, g.sent, g.ttl/1e9))
						}
					}
				}
			}
			// ---- C05: same address while the lease runs
			if consistent {
				if sure, _ := m.grantOf(id, trx); sure != nil && sure.ack && sure.addr != a && sure.chadr == macs {
					m.fail("C05", "address-changed", "a client with a running lease was offered/acknowledged a different address",
						fmt.Sprintf("holds %s, now given %s", U32IP(sure.addr), rp.Yiaddr))
				}
			}
			// ---- C08: never pick an address a foreign host answers ARP for, for a client with no binding
			if foreign(a) && !isSt {
				// a hardware address that has used several identities (outside the reading's hypothesis "one client, one identity"):
				// the server keys it on its hardware identity while that one holds a binding (getDuid), so a grant of this very
				// address made to this hardware address under another of its identities is the binding the client already holds
				heldUnderOtherID := false
				if !consistent {
					for i := range m.grants {
						if g := &m.grants[i]; g.chadr == macs && g.addr == a && trx <= g.at+g.ttl+margin {
							heldUnderOtherID = true
						}
					}
				}
				if sure, maybe := m.grantOf(id, trx); sure == nil && maybe == nil && !heldUnderOtherID {
					m.fail("C08", "conflict-handed-out", "an address for which a foreign host answers ARP was offered/acknowledged to a client without binding",
						fmt.Sprintf("yiaddr=%s", rp.Yiaddr))
				}
			}
			ttl := int64(offerHold)
			if rp.Type == 5 {
				ttl = rp.LeaseSec * 1e9
			}
			m.grants = append(m.grants, grant{addr: a, id: id, sent: trx, at: rp.At, ttl: ttl, ack: rp.Type == 5, chadr: macs})
			m.lastRep[id] = rp
		}
	}
	var rep *Reply
	if len(reps) > 0 {
		rep = reps[0]
	}
	reqSelf := q.HasReq && q.ReqIP.Equal(c.SelfIP)
	// ---- DISCOVER clauses
	if q.Type == 1 {
		wellFormed := dstB && !q.HasSid && q.SidLen == 0 && !isSelfMac && !reqSelf
		st := m.staticOf(q.Chaddr)
		if wellFormed && st != nil {
			if rep == nil || rep.Type != 2 || !rep.Yiaddr.Equal(st) {
				m.fail("C03", "static-not-offered", "a well-formed broadcast DISCOVER of a client with a static address was not answered with an OFFER of that address", obs.Answer())
			}
		}
		if rep != nil && rep.Type != 2 {
			m.fail("C04", "discover-wrong-reply", "a DISCOVER was answered with something other than an OFFER", obs.Answer())
		}
		if !wellFormed && rep != nil {
			m.fail("C10", "misaddressed-discover-answered", "a DISCOVER that is not a broadcast without server identifier from a foreign hardware address was answered", obs.Answer())
		}
		if wellFormed && st == nil && consistent && !c.StaticOnly && dt != 0 {
			sure, maybe := m.grantOf(id, trx)
			// silence only when no eligible address is left
			if rep == nil && sure == nil && maybe == nil {
				for a := df; a <= dt; a++ {
					if m.definitelyFree(a, trx, obs.Tend) && !m.anyResponder(a) {
						m.fail("C05", "silent-with-free-address", "the server stayed silent on a DISCOVER although an eligible address of the pool was free",
							fmt.Sprintf("free=%s", U32IP(a)))
						break
					}
				}
			}
			if rep == nil && sure != nil && sure.chadr == macs && !foreign(sure.addr) {
				m.fail("C05", "silent-to-bound-client", "a DISCOVER of a client holding a running lease/offer was not answered", fmt.Sprintf("holds %s", U32IP(sure.addr)))
			}
			// a specific free address of the pool is honoured
			if q.HasReq && rep != nil && sure == nil && maybe == nil {
				s := IPU32(q.ReqIP)
				if inRange(s, df, dt) && s&0xff != 0 && s&0xff != 0xff && m.definitelyFree(s, trx, obs.Tend) && !m.anyResponder(s) && !rep.Yiaddr.Equal(q.ReqIP) {
					m.fail("C05", "suggestion-ignored", "a client asked for a specific free address of the pool and was offered another one",
						fmt.Sprintf("asked %s got %s", q.ReqIP, rep.Yiaddr))
				}
			}
		}
	}
	// ---- REQUEST clauses (C04, C05, C08)
	if q.Type == 3 {
		// the monitor's own RFC 2131 table 4 reading
		var want net.IP
		class := "bogus"
		switch {
		case dstB && !q.HasSid && q.HasReq:
			class, want = "init-reboot", q.ReqIP
		case dstB && q.HasSid && q.SrvID.Equal(c.SelfIP) && q.HasReq:
			class, want = "selecting", q.ReqIP
		case dstSelf && !q.HasSid && !q.HasReq:
			class, want = "renewing", q.Src
		case dstB && !q.HasSid && !q.HasReq:
			class, want = "rebinding", q.Src
		}
		namesOther := q.HasSid && !q.SrvID.Equal(c.SelfIP)
		outside := want != nil && !inRange(IPU32(want), nf, nt)
		elsewhere := !dstB && !dstSelf
		if (namesOther || outside || elsewhere || isSelfMac) && rep != nil {
			m.fail("C04", "should-be-silent", "a REQUEST naming another server / outside the network / unicast elsewhere / with the server's hardware address was answered", obs.Answer())
		}
		if rep != nil && rep.Type == 2 {
			m.fail("C04", "request-offer", "a REQUEST was answered with an OFFER", obs.Answer())
		}
		if rep != nil && rep.Type == 5 {
			if want == nil || !rep.Yiaddr.Equal(want) {
				m.fail("C04", "ack-other-address", "an ACK carries an address other than the one the REQUEST designates", fmt.Sprintf("class=%s want=%v yiaddr=%s", class, want, rep.Yiaddr))
			}
			if consistent {
				_, maybe := m.grantOfBefore(id, trx, len(m.grants)-1)
				if maybe == nil || (want != nil && maybe.addr != IPU32(want)) {
					if m.staticOf(q.Chaddr) == nil || (want != nil && !m.staticOf(q.Chaddr).Equal(want)) {
						m.fail("C04", "ack-without-binding", "a REQUEST was acknowledged although the sender holds no binding for the designated address", fmt.Sprintf("class=%s want=%v", class, want))
					}
				}
			}
			if want != nil && foreign(IPU32(want)) {
				m.fail("C08", "ack-despite-conflict", "a REQUEST was acknowledged although a foreign host answers ARP for the address", fmt.Sprintf("addr=%s", want))
			}
		}
		wellFormed := !isSelfMac && !reqSelf && !namesOther && !outside && !elsewhere && want != nil
		if wellFormed && (class == "selecting" || class == "renewing") && consistent {
			sure, maybe := m.grantOfBefore(id, trx, len(m.grants))
			if rep != nil && rep.Type == 5 {
				sure, maybe = m.grantOfBefore(id, trx, len(m.grants)-1)
			}
			st := m.staticOf(q.Chaddr)
			boundSure := (sure != nil && sure.addr == IPU32(want) && sure.chadr == macs) || (st != nil && st.Equal(want))
			boundMaybe := boundSure || (maybe != nil && maybe.addr == IPU32(want))
			if rep == nil {
				m.fail("C04", "request-unanswered", "a well-formed REQUEST selecting this server / renewing by unicast for an in-network address got no answer", fmt.Sprintf("class=%s want=%s", class, want))
				if boundSure && !foreign(IPU32(want)) && trx <= sureEnd(sure, st, trx) { // it ARRIVED while the grant was running
					what := "a REQUEST for the address the client holds (running lease) got no answer"
					if sure != nil && !sure.ack {
						what = "a REQUEST for an address offered within the hold time got no answer"
					}
					m.fail("C05", "request-dropped-while-bound", what, fmt.Sprintf("class=%s want=%s", class, want))
				}
			} else if !boundMaybe && rep.Type != 6 {
				m.fail("C04", "nak-missing", "a well-formed REQUEST for an in-network address the sender is not bound to was not answered with NAK", obs.Answer())
			} else if boundSure && rep.Type == 6 && !foreign(IPU32(want)) && obs.Tend <= sureEnd(sure, st, trx) {
				sig := "nak-while-bound"
				prop := "C05"
				what := "a REQUEST for the address the client holds (running lease) was refused"
				if sure != nil && !sure.ack {
					sig, what = "offer-not-held", "a REQUEST for an address offered within the hold time was refused"
				}
				m.fail(prop, sig, what, fmt.Sprintf("class=%s want=%s", class, want))
				if sure != nil && sure.ack {
					m.fail("C07", "advertised-lease-not-honoured", "a REQUEST for the leased address was refused before the advertised lease time had elapsed", fmt.Sprintf("class=%s want=%s acked at %d for %ds", class, want, sure.sent, sure.ttl/1e9))
				}
			}
		}
	}
}

func sureEnd(g *grant, st net.IP, trx int64) int64 {
	if g == nil {
		return trx + int64(time.Hour) // static binding: never expires
	}
	return g.sent + g.ttl
}

// grantOfBefore is grantOf restricted to the first n grants (the state before the current reply).
func (m *SrvMonitor) grantOfBefore(id string, t int64, n int) (sure *grant, maybe *grant) {
	saved := m.grants
	if n < 0 {
		n = 0
	}
	m.grants = m.grants[:n]
	sure, maybe = m.grantOf(id, t)
	m.grants = saved
	return
}

func (m *SrvMonitor) envResp(a uint32) *Responder {
	if m.respTable == nil {
		return nil
	}
	return m.respTable[a]
}

func (m *SrvMonitor) anyResponder(a uint32) bool { return m.envResp(a) != nil }

// definitelyFree: no grant of a can still be running by the server's clock anywhere in [t0, t1],
// it is neither the server's address nor a reservation, and it does not end in .0/.255.
func (m *SrvMonitor) definitelyFree(a uint32, t0, t1 int64) bool {
	if a == IPU32(m.c.SelfIP) || a&0xff == 0 || a&0xff == 0xff {
		return false
	}
	if _, ok := m.isStaticAddr(a); ok {
		return false
	}
	for _, g := range m.grants {
		if g.addr == a && t0 <= g.at+g.ttl+margin {
			return false
		}
	}
	return true
}

// checkOptions: C07 — options after type and server id are exactly what the configuration says.
func (m *SrvMonitor) checkOptions(rp *Reply, q Req) {
	c := m.c
	var cl *ClientConf
	for i := range c.Clients {
		if bytes.Equal(c.Clients[i].MAC, q.Chaddr) {
			cl = &c.Clients[i]
		}
	}
	cat := func(ips []net.IP) []byte {
		var b []byte
		for _, x := range ips {
			b = append(b, x.To4()...)
		}
		return b
	}
	secs := uint32(int64(c.Lease) / 1e9)
	want := []RefOpt{{51, []byte{byte(secs >> 24), byte(secs >> 16), byte(secs >> 8), byte(secs)}}, {1, net.CIDRMask(c.Plen, 32)}}
	router := c.Router
	if cl != nil && cl.Router != nil {
		router = cl.Router
	}
	if router != nil {
		want = append(want, RefOpt{3, router.To4()})
	}
	dns := c.DNS
	if cl != nil && len(cl.DNS) > 0 {
		dns = cl.DNS
	}
	if len(dns) > 0 {
		want = append(want, RefOpt{6, cat(dns)})
	}
	ntp := c.NTP
	if cl != nil && len(cl.NTP) > 0 {
		ntp = cl.NTP
	}
	if len(ntp) > 0 {
		want = append(want, RefOpt{42, cat(ntp)})
	}
	if c.Domain != "" {
		want = append(want, RefOpt{15, []byte(c.Domain)})
	}
	if cl != nil && cl.Hostname != "" {
		want = append(want, RefOpt{12, []byte(cl.Hostname)})
	}
	got := rp.Opts
	if len(got) >= 2 {
		got = got[2:]
	}
	ok := len(got) == len(want)
	if ok {
		for i := range want {
			if got[i].Code != want[i].Code || !bytes.Equal(got[i].Data, want[i].Data) {
				ok = false
			}
		}
	}
	if !ok && m.optProp != "" {
		m.fail(m.optProp, "options-of-another-packet", "a reply carries parameters that are not the ones configured for its client (another packet in flight leaked into it)",
			fmt.Sprintf("got=%v want=%v", got, want))
	}
	if !ok {
		m.fail("C07", "options", "OFFER/ACK options differ from the configured lease duration, netmask, router, DNS, NTP, domain (with per-client overrides)",
			fmt.Sprintf("got=%v want=%v", got, want))
	}
	if prev := m.lastRep[q.Identity()]; prev != nil && prev.Type != rp.Type && bytes.Equal(prev.Chaddr, rp.Chaddr) {
		same := len(prev.Opts) == len(rp.Opts)
		if same {
			for i := 1; i < len(rp.Opts); i++ {
				if prev.Opts[i].Code != rp.Opts[i].Code || !bytes.Equal(prev.Opts[i].Data, rp.Opts[i].Data) {
					same = false
				}
			}
		}
		if !same {
			m.fail("C07", "offer-ack-disagree", "OFFER and ACK to the same client carry different parameters", fmt.Sprintf("prev=%v now=%v", prev.Opts, rp.Opts))
		}
	}
}
