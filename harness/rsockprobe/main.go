//go:build !verif

// rsockprobe exercises the REAL socket constructors of lib/rsocks (the files the verif build replaces by the virtual
// network) on the loopback interface and on an interface index that does not exist, and prints, per scenario, how many
// file descriptors the process held before and after. Garbage collection is off, so an *os.File finalizer cannot hide a
// descriptor the code forgot. One line per scenario: "<name> <before> <after> <ok|err>".
package main

import (
	"fmt"
	"io"
	"net"
	"os"
	"runtime/debug"
	"time"

	"git.sr.ht/~adrian-blx/psa-dhcp/lib/rsocks"
)

func nfd() int {
	d, err := os.Open("/proc/self/fd")
	if err != nil {
		return -1
	}
	names, _ := d.Readdirnames(-1)
	d.Close()
	return len(names) - 1 // minus the directory handle itself
}

type closer interface{ Close() error }

func scenario(name string, open func() (closer, error), reps int) {
	before := nfd()
	res := "ok"
	for i := 0; i < reps; i++ {
		func() {
			defer func() {
				if r := recover(); r != nil {
					res = "panic"
				}
			}()
			c, err := open()
			if err != nil {
				res = "err"
				return
			}
			c.Close()
		}()
	}
	fmt.Printf("%s %d %d %s\n", name, before, nfd(), res)
}

// closeWakes: a goroutine blocked in Read on a receive socket must come back once the socket is closed — that is how every
// receive loop of the repository ends (ARP probe time-out, server and client shutdown).
func closeWakes(name string, open func() (io.ReadCloser, error)) {
	before := nfd()
	s, err := open()
	if err != nil {
		fmt.Printf("%s %d %d err\n", name, before, nfd())
		return
	}
	done := make(chan struct{})
	go func() {
		buf := make([]byte, 4096)
		for {
			if _, err := s.Read(buf); err != nil {
				close(done)
				return
			}
		}
	}()
	time.Sleep(150 * time.Millisecond)
	s.Close()
	res := "ok"
	select {
	case <-done:
	case <-time.After(2 * time.Second):
		res = "blocked"
	}
	fmt.Printf("%s %d %d %s\n", name, before, nfd(), res)
}

func main() {
	debug.SetGCPercent(-1)
	lo, err := net.InterfaceByName("lo")
	if err != nil {
		fmt.Println("skip no-lo 0 0 skip")
		return
	}
	closeWakes("closewakes-arprecv/lo", func() (io.ReadCloser, error) { s, e := rsocks.GetARPRecvSock(lo); if e != nil { return nil, e }; return s, nil })
	closeWakes("closewakes-iprecv/lo", func() (io.ReadCloser, error) { s, e := rsocks.GetIPRecvSock(lo); if e != nil { return nil, e }; return s, nil })
	ghost := &net.Interface{Index: 0x7ffffff0, Name: "ghost0"}
	const reps = 8
	for _, ifc := range []*net.Interface{lo, ghost} {
		ifc := ifc
		n := ifc.Name
		scenario("ipsend/"+n, func() (closer, error) { s, e := rsocks.GetIPSendSock(ifc); if e != nil { return nil, e }; return s, nil }, reps)
		scenario("arpsend/"+n, func() (closer, error) { s, e := rsocks.GetARPSendSock(ifc); if e != nil { return nil, e }; return s, nil }, reps)
		scenario("iprecv/"+n, func() (closer, error) { s, e := rsocks.GetIPRecvSock(ifc); if e != nil { return nil, e }; return s, nil }, reps)
		scenario("arprecv/"+n, func() (closer, error) { s, e := rsocks.GetARPRecvSock(ifc); if e != nil { return nil, e }; return s, nil }, reps)
		for _, hl := range []int{0, 1, 6, 7, 8, 9, 16, 20, 255} {
			hw := make(net.HardwareAddr, hl)
			for i := range hw {
				hw[i] = byte(2 + i)
			}
			scenario(fmt.Sprintf("unisend/%s/hlen=%d", n, hl), func() (closer, error) { s, e := rsocks.GetUnicastSendSock(ifc, hw); if e != nil { return nil, e }; return s, nil }, reps)
		}
	}
}
