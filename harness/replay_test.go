package hx

import (
	"encoding/hex"
	"encoding/json"
	"os"
	"strings"
	"testing"
)

// Replay is the on-disk replay format written by ./check (see DESIGN.md §2.3).
type Replay struct {
	Property string   `json:"property"`
	Kind     string   `json:"kind"`
	Stream   string   `json:"stream"`
	Config   string   `json:"config"`
	Ops      []string `json:"ops"`
	Note     string   `json:"note"`
}

func argsOf(op string) (string, map[string]string) {
	f := strings.Fields(op)
	m := map[string]string{}
	for _, t := range f[1:] {
		if i := strings.IndexByte(t, '='); i > 0 {
			m[t[:i]] = t[i+1:]
		}
	}
	return f[0], m
}

func unhex(s string) []byte {
	if s == "-" || s == "" {
		return nil
	}
	b, _ := hex.DecodeString(s)
	return b
}

// replayers maps an operation keyword to a function re-executing it on the real code.
var replayers = map[string]func(s *Stream, op string, a map[string]string){
	"decip": func(s *Stream, op string, a map[string]string) {
		ans := implDecIP(unhex(a["b"]))
		s.Op(op, ans, true)
		panicFind(s, op, ans, "C13", "C10")
	},
	"decudp": func(s *Stream, op string, a map[string]string) {
		ans := implDecUDP(unhex(a["b"]))
		s.Op(op, ans, true)
		panicFind(s, op, ans, "C13", "C10")
	},
	"decarp": func(s *Stream, op string, a map[string]string) {
		ans := implDecARP(unhex(a["b"]))
		s.Op(op, ans, true)
		panicFind(s, op, ans, "C13", "C10")
	},
	"decdhcp": func(s *Stream, op string, a map[string]string) {
		ans := implDecDHCP(unhex(a["b"]))
		s.Op(op, ans, true)
		panicFind(s, op, ans, "C12", "C10")
	},
}

// TestReplay re-executes the operations of a replay file against the real code; the driver then
// answers the same lines and ./check prints both.
func TestReplay(t *testing.T) {
	path := os.Getenv("HX_REPLAY")
	if path == "" {
		t.Skip("no HX_REPLAY")
	}
	raw, err := os.ReadFile(path)
	if err != nil {
		t.Fatal(err)
	}
	var rp Replay
	if err := json.Unmarshal(raw, &rp); err != nil {
		t.Fatal(err)
	}
	s := NewStream("replay")
	defer s.Close()
	if f, ok := scriptReplayers[rp.Stream]; ok {
		f(t, s, &rp)
		return
	}
	for _, op := range rp.Ops {
		kw, a := argsOf(op)
		if f, ok := replayers[kw]; ok {
			f(s, op, a)
		} else {
			t.Logf("no replayer for %q", kw)
		}
	}
	for _, l := range s.Samp {
		t.Logf("impl: %s", l)
	}
}

// scriptReplayers re-execute whole histories (server/client scripts); registered by the streams.
var scriptReplayers = map[string]func(t *testing.T, s *Stream, rp *Replay){}
