package hx

import (
	"bytes"
	"fmt"
	"os"
	"os/exec"
	"path/filepath"
	"regexp"
	"strings"
	"sync"
	"syscall"
	"testing"
	"time"
)

type fsRoot struct {
	dir string
}

func newFsRoot(name string) *fsRoot {
	bin := os.Getenv("HX_DHCPC")
	if bin == "" {
		bin = BuildDir() + "/psa-dhcpc"
	}
	d := filepath.Join(OutDir(), name)
	os.RemoveAll(d)
	os.MkdirAll(filepath.Join(d, "etc"), 0o755)
	b, err := os.ReadFile(bin)
	if err != nil {
		panic(err)
	}
	os.WriteFile(filepath.Join(d, "psa-dhcpc"), b, 0o755)
	return &fsRoot{d}
}

func (r *fsRoot) reset(old []byte) {
	ents, _ := os.ReadDir(filepath.Join(r.dir, "etc"))
	for _, e := range ents {
		os.Remove(filepath.Join(r.dir, "etc", e.Name()))
	}
	if old != nil {
		os.WriteFile(filepath.Join(r.dir, "etc", "resolv.conf"), old, 0o600)
		os.Chmod(filepath.Join(r.dir, "etc", "resolv.conf"), 0o600)
	}
}

func (r *fsRoot) state() (target string, tmps int) {
	p := filepath.Join(r.dir, "etc", "resolv.conf")
	b, err := os.ReadFile(p)
	target = "absent"
	if err == nil {
		fi, _ := os.Stat(p)
		target = fmt.Sprintf("%s/%d", Hex(b), fi.Mode().Perm())
	}
	ents, _ := os.ReadDir(filepath.Join(r.dir, "etc"))
	for _, e := range ents {
		if strings.HasPrefix(e.Name(), "resolvconf-") {
			tmps++
		}
	}
	return
}

func dnsEnv(list string) []string { return []string{"PSA_DHCPC_DNS_LIST=" + list} }

func expectedFile(list string) []byte {
	b := []byte("# written by psa-dhcpc\n")
	for _, ns := range strings.Split(list, ",") {
		b = append(b, []byte("nameserver "+ns+"\n")...)
	}
	return b
}

var reSys = regexp.MustCompile(`^(\d+ +)?([a-z0-9_]+)\(`)

// TestFsAtomic: C20 — the real `psa-dhcpc -syshook` in a chroot: a failure injected at every
// file-system step (strace fault injection), a kill at every step, and concurrent writers with a
// polling reader.
func TestFsAtomic(t *testing.T) {
	r := NewRng(Seed(), "fsatomic")
	s := NewStream("fsatomic")
	defer s.Close()
	root := newFsRoot("fsroot")
	old := []byte("# previous\nnameserver 9.9.9.9\n")
	oldS := fmt.Sprintf("%s/%d", Hex(old), 0o600)
	run := func(list string, straceArgs ...string) (exit string, trace string) {
		tf := filepath.Join(OutDir(), "strace.out")
		args := append([]string{"-f", "-o", tf, "-e", "trace=openat,write,close,fchmodat,chmod,renameat,renameat2,rename,unlinkat,unlink"}, straceArgs...)
		args = append(args, "/usr/sbin/chroot", root.dir, "/psa-dhcpc", "-syshook", "-log_time=false")
		cmd := exec.Command("/usr/bin/strace", args...)
		cmd.Env = dnsEnv(list)
		out, err := cmd.CombinedOutput()
		tb, _ := os.ReadFile(tf)
		exit = "ok"
		if err != nil {
			exit = "err"
			if ee, ok := err.(*exec.ExitError); ok {
				if ws, ok := ee.Sys().(syscall.WaitStatus); ok && ws.Signaled() {
					exit = "killed"
				}
			}
			if strings.Contains(string(out), "killed by SIGKILL") || strings.Contains(string(tb), "+++ killed by SIGKILL +++") {
				exit = "killed"
			}
		}
		return exit, string(tb)
	}
	// dry run: find, for each step of update(), which occurrence of its system call it is
	list := "1.1.1.1,8.8.8.8"
	root.reset(old)
	exit, trace := run(list)
	if exit != "ok" {
		t.Fatalf("dry run failed: %s\n%s", exit, trace)
	}
	count := map[string]int{}
	idx := map[string]int{} // step -> occurrence index of its syscall
	name := map[string]string{}
	tmpfd := ""
	for _, ln := range strings.Split(trace, "\n") {
		m := reSys.FindStringSubmatch(ln)
		if m == nil {
			continue
		}
		sc := m[2]
		count[sc]++
		switch {
		case sc == "openat" && strings.Contains(ln, "resolvconf-") && strings.Contains(ln, "O_EXCL"):
			idx["create"], name["create"] = count[sc], sc
			if k := strings.LastIndex(ln, "= "); k >= 0 {
				tmpfd = strings.TrimSpace(ln[k+2:])
			}
		case sc == "write" && tmpfd != "" && strings.Contains(ln, "write("+tmpfd+",") && idx["write"] == 0:
			idx["write"], name["write"] = count[sc], sc
		case sc == "close" && tmpfd != "" && strings.Contains(ln, "close("+tmpfd+")") && idx["write"] != 0 && idx["close"] == 0:
			idx["close"], name["close"] = count[sc], sc
		case (sc == "fchmodat" || sc == "chmod") && idx["create"] != 0 && idx["chmod"] == 0:
			idx["chmod"], name["chmod"] = count[sc], sc
		case (sc == "renameat" || sc == "renameat2" || sc == "rename") && idx["create"] != 0 && idx["rename"] == 0:
			idx["rename"], name["rename"] = count[sc], sc
		}
	}
	var steps []string
	for _, st := range []string{"create", "write", "close", "chmod", "rename"} {
		if idx[st] == 0 {
			t.Logf("step %s not found in the dry-run trace (its cases are skipped):\n%s", st, trace)
			s.Count("step-not-found/" + st)
			continue
		}
		steps = append(steps, st)
	}
	if tg, tm := root.state(); tg != fmt.Sprintf("%s/%d", Hex(expectedFile(list)), 0o644) || tm != 0 {
		s.Find(Finding{Property: "C20", Signature: "plain-update", Stream: "fsatomic", What: "an undisturbed update does not install the complete new file with mode 0644", Ops: []string{"fs undisturbed"}, Observed: tg})
	}
	// model action lists: steps are create, write, close, check, chmod, rename (+ cleanup)
	acts := func(failAt, killAt string) string {
		order := []string{"create", "write", "close", "check", "chmod", "rename"}
		var a []string
		failed := false
		for _, st := range order {
			if st == killAt {
				a = append(a, "k:0")
				return strings.Join(a, ",")
			}
			if failed && (st == "chmod" || st == "rename") {
				break
			}
			if st == failAt {
				a = append(a, "f:0")
				failed = true
				if st == "create" {
					return strings.Join(a, ",")
				}
				if st == "chmod" || st == "rename" {
					a = append(a, "s:0") // cleanup
					return strings.Join(a, ",")
				}
				continue
			}
			a = append(a, "s:0")
			if st == "check" && failed {
				a = append(a, "s:0") // cleanup
				return strings.Join(a, ",")
			}
		}
		return strings.Join(a, ",")
	}
	rounds := EnvInt("HX_N", 2)
	if Thorough() {
		rounds = 12
	}
	for round := 0; round < rounds; round++ {
		list := Pick(r, "1.1.1.1,8.8.8.8", "4.4.4.4", "10.0.0.1,10.0.0.2,10.0.0.3")
		buf := expectedFile(list)
		for _, withOld := range []bool{true, false} {
			oldArg, oldBytes := oldS, old
			if !withOld {
				oldArg, oldBytes = "absent", nil
			}
			for _, st := range steps {
				for _, mode := range []string{"fail", "kill"} {
					root.reset(oldBytes)
					errno := Pick(r, map[string][]string{"create": {"EACCES", "ENOSPC"}, "write": {"ENOSPC", "EIO"}, "close": {"EIO"}, "chmod": {"EPERM", "EIO"},
						"rename": {"EXDEV", "EBUSY", "EACCES"}}[st]...)
					if round == 0 && st == "rename" {
						errno = map[bool]string{true: "EBUSY", false: "EXDEV"}[withOld]
					}
					var inj, al string
					if mode == "fail" {
						inj = fmt.Sprintf("inject=%s:error=%s:when=%d", name[st], errno, idx[st])
						al = acts(st, "")
					} else {
						inj = fmt.Sprintf("inject=%s:signal=KILL:when=%d", name[st], idx[st])
						al = acts("", st)
					}
					exit, tr := run(list, "-e", inj)
					tg, tm := root.state()
					op := fmt.Sprintf("fs old=%s bufs=%s acts=%s", oldArg, Hex(buf), al)
					ans := fmt.Sprintf("target=%s tmps=%d pcs=%s", tg, tm, exit)
					s.Op(op, ans, true)
					s.Count(mode + "/" + st + "/" + exit)
					// monitor: the property's clauses
					okTarget := tg == oldArg || tg == fmt.Sprintf("%s/%d", Hex(buf), 0o644)
					if !okTarget {
						s.Find(Finding{Property: "C20", Signature: mode + ":" + st + ":partial", Stream: "fsatomic", What: "resolv.conf is neither the complete previous nor the complete new content (mode 0644)",
							Ops: []string{op, inj}, Observed: ans + "\n" + tr})
					}
					if mode == "fail" && (tg != oldArg || tm != 0 || exit != "err") {
						s.Find(Finding{Property: "C20", Signature: "fail:" + st + ":cleanup", Stream: "fsatomic", What: "a failing update did not leave the previous file in place, remove its temporary file and report the error",
							Ops: []string{op, inj}, Observed: ans})
					}
				}
			}
		}
	}
	// concurrent writers with a polling reader; some writers are killed at random points
	nw := 4 + r.Intn(5)
	cr := EnvInt("HX_M", 12)
	if Thorough() {
		cr = 200
	}
	for round := 0; round < cr; round++ {
		root.reset(old)
		allowed := map[string]bool{string(old): true}
		var lists []string
		for w := 0; w < nw; w++ {
			l := fmt.Sprintf("10.%d.%d.1,10.%d.%d.2", round%250, w, round%250, w)
			lists = append(lists, l)
			allowed[string(expectedFile(l))] = true
		}
		stop := make(chan struct{})
		var bad []string
		var reads int
		var wg sync.WaitGroup
		wg.Add(1)
		go func() {
			defer wg.Done()
			p := filepath.Join(root.dir, "etc", "resolv.conf")
			for {
				select {
				case <-stop:
					return
				default:
				}
				if b, err := os.ReadFile(p); err == nil {
					reads++
					if !allowed[string(b)] && len(bad) < 3 {
						bad = append(bad, string(b))
					}
				} else if !os.IsNotExist(err) && len(bad) < 3 {
					bad = append(bad, "read error: "+err.Error())
				} else if os.IsNotExist(err) && len(bad) < 3 {
					bad = append(bad, "target vanished")
				}
			}
		}()
		var ww sync.WaitGroup
		killed := 0
		for w := 0; w < nw; w++ {
			ww.Add(1)
			kill := r.Chance(25)
			delay := time.Duration(r.Intn(4000)) * time.Microsecond
			if kill {
				killed++
			}
			go func(l string) {
				defer ww.Done()
				cmd := exec.Command("/usr/sbin/chroot", root.dir, "/psa-dhcpc", "-syshook", "-log_time=false")
				cmd.Env = dnsEnv(l)
				if err := cmd.Start(); err != nil {
					return
				}
				if kill {
					time.Sleep(delay)
					cmd.Process.Kill()
				}
				cmd.Wait()
			}(lists[w])
		}
		ww.Wait()
		close(stop)
		wg.Wait()
		tg, tm := root.state()
		fin, _ := os.ReadFile(filepath.Join(root.dir, "etc", "resolv.conf"))
		op := fmt.Sprintf("conc writers=%d killed=%d reads=%d", nw, killed, reads)
		s.Count(fmt.Sprintf("conc/killed=%d", min(killed, 3)))
		s.Dist["conc_reads"] += reads
		if len(bad) > 0 || !allowed[string(fin)] {
			s.Find(Finding{Property: "C20", Signature: "conc:partial", Stream: "fsatomic", What: "a reader saw a partial, mixed or missing resolv.conf while writers were running",
				Ops: []string{op}, Observed: fmt.Sprintf("%q final=%q", bad, fin)})
		}
		if !bytes.Equal(fin, old) && !strings.HasSuffix(tg, "/420") {
			s.Find(Finding{Property: "C20", Signature: "conc:mode", Stream: "fsatomic", What: "resolv.conf does not end up world-readable (0644)", Ops: []string{op}, Observed: tg})
		}
		if killed == 0 && tm != 0 {
			s.Find(Finding{Property: "C20", Signature: "conc:tmp-left", Stream: "fsatomic", What: "temporary files left behind although no writer was killed", Ops: []string{op}, Observed: fmt.Sprint(tm)})
		}
	}
}
