package hx

import (
	"bytes"
	"context"
	"fmt"
	"io"
	"log"
	"net"
	"os"
	"os/exec"
	"path/filepath"
	"strconv"
	"strings"
	"testing"
	"testing/synctest"
	"time"

	"git.sr.ht/~adrian-blx/psa-dhcp/lib/client"
	"git.sr.ht/~adrian-blx/psa-dhcp/lib/client/callback"
	"git.sr.ht/~adrian-blx/psa-dhcp/lib/client/dclient"
	"git.sr.ht/~adrian-blx/psa-dhcp/lib/client/msgtmpl"
	vy "git.sr.ht/~adrian-blx/psa-dhcp/lib/client/verify"
	"git.sr.ht/~adrian-blx/psa-dhcp/lib/dhcpmsg"
	"git.sr.ht/~adrian-blx/psa-dhcp/lib/layer"
	"git.sr.ht/~adrian-blx/psa-dhcp/lib/libif"
	"git.sr.ht/~adrian-blx/psa-dhcp/lib/rsocks"
)

var cliMAC = net.HardwareAddr{2, 0, 0, 0, 0, 0x10}

// replySpec describes a server reply by the conjuncts of C14 it satisfies.
type replySpec struct {
	proto   byte
	dport   int
	chaddr  net.HardwareAddr
	xid     uint32
	mtype   int // -1: no option
	yiaddr  net.IP
	sid     []byte // raw option payload, nil: absent
	routers []byte // raw option payload, nil: absent
	lease   []byte // raw option payload, nil: absent
	extra   []dhcpmsg.DHCPOpt
	op      byte
	ipopts  []byte // IPv4 options (a multiple of 4 bytes) put between the fixed header and the UDP header
}

func (s replySpec) frame() []byte {
	var opts []dhcpmsg.DHCPOpt
	if s.mtype >= 0 {
		opts = append(opts, dhcpmsg.OptionType(uint8(s.mtype)))
	}
	if s.sid != nil {
		opts = append(opts, dhcpmsg.DHCPOpt{Option: 54, Data: s.sid})
	}
	if s.lease != nil {
		opts = append(opts, dhcpmsg.DHCPOpt{Option: 51, Data: s.lease})
	}
	if s.routers != nil {
		opts = append(opts, dhcpmsg.DHCPOpt{Option: 3, Data: s.routers})
	}
	opts = append(opts, s.extra...)
	if len(opts) == 0 {
		opts = append(opts, dhcpmsg.DHCPOpt{Option: 12, Data: []byte("x")})
	}
	m := dhcpmsg.Message{Op: s.op, Htype: 1, Xid: s.xid, YourIP: s.yiaddr, ClientMAC: s.chaddr, Cookie: dhcpmsg.DHCPCookie, Options: opts}
	b := layer.IPv4{TTL: 64, Protocol: s.proto, Source: net.IPv4(10, 0, 0, 1), Destination: net.IPv4bcast,
		Data: layer.UDP{SrcPort: 67, DstPort: uint16(s.dport), Data: m.Assemble()}.Assemble()}.Assemble()
	if n := len(s.ipopts); n > 0 && n%4 == 0 && n <= 40 {
		// the same datagram with IPv4 options: header length and total length grow, the header checksum is recomputed
		nb := append(append(append([]byte(nil), b[:20]...), s.ipopts...), b[20:]...)
		nb[0] = 0x40 | byte(5+n/4)
		tl := len(nb)
		nb[2], nb[3] = byte(tl>>8), byte(tl)
		nb[10], nb[11] = 0, 0
		c := ^RefSum16(nb[:20+n])
		nb[10], nb[11] = byte(c>>8), byte(c)
		b = nb
	}
	return b
}

type waitSpec struct {
	kind    string
	xid     uint32
	offered net.IP
	chosen  net.IP
}

func (w waitSpec) line() string {
	return fmt.Sprintf("%s:%d:%s:%s", w.kind, w.xid, IPStr(w.offered), IPStr(w.chosen))
}

func (w waitSpec) verifier() func(dhcpmsg.Message, dhcpmsg.DecodedOptions) vy.State {
	lm := dhcpmsg.Message{YourIP: w.offered}
	lo := dhcpmsg.DecodedOptions{ServerIdentifier: w.chosen}
	switch w.kind {
	case "offer":
		return vy.VerifyOffer(w.xid)
	case "selecting":
		return vy.VerifySelectingAck(lm, lo, w.xid)
	case "renewing":
		return vy.VerifyRenewingAck(lm, lo, w.xid)
	default:
		return vy.VerifyRebindingAck(lm, lo, w.xid)
	}
}

// realCatch runs the real catchReply on a fresh virtual interface, injects `frame`, and if the loop
// did not return injects a sentinel that passes. Must run inside a synctest bubble.
func realCatch(iface *net.Interface, w waitSpec, frame, sentinel []byte) string {
	ctx, cancel := context.WithCancel(context.Background())
	defer cancel()
	type res struct {
		m   dhcpmsg.Message
		o   dhcpmsg.DecodedOptions
		err error
		pan interface{}
	}
	ch := make(chan res, 1)
	go func() {
		defer func() {
			if p := recover(); p != nil {
				ch <- res{pan: p}
			}
		}()
		m, o, err := dclient.VerifCatchReply(ctx, iface, w.verifier())
		ch <- res{m: m, o: o, err: err}
	}()
	synctest.Wait()
	seg := rsocks.Seg(iface)
	seg.Inject(0x0800, frame)
	synctest.Wait()
	render := func(r res) string {
		switch {
		case r.pan != nil:
			return fmt.Sprintf("panic:%v", r.pan)
		case r.err == dclient.ErrWasNack:
			return "nack"
		case r.err != nil:
			return "err:" + r.err.Error()
		}
		return "passed " + ShowMsg(&r.m) + " | " + ShowDecoded(r.o)
	}
	select {
	case r := <-ch:
		return render(r)
	default:
	}
	seg.Inject(0x0800, sentinel)
	synctest.Wait()
	select {
	case r := <-ch:
		if r.pan != nil {
			return render(r)
		}
		if r.err == nil && r.m.Secs == 0x5e17 {
			return "ignored"
		}
		return "UNEXPECTED after sentinel: " + render(r)
	default:
		return "HANG"
	}
}

// TestCliCatch: C14 (+ client half of C10) — every combination of the conjuncts through the real
// catchReply and the real verifiers.
func TestCliCatch(t *testing.T) {
	r := NewRng(Seed(), "clicatch")
	s := NewStream("clicatch")
	defer s.Close()
	iface := &net.Interface{Index: 60, Name: "c60", HardwareAddr: cliMAC, MTU: 1500}
	offered, chosen := net.IPv4(10, 0, 0, 77), net.IPv4(10, 0, 0, 1)
	const xid = 0xabcdef01
	waits := []waitSpec{{"offer", xid, nil, nil}, {"selecting", xid, offered, chosen}, {"renewing", xid, offered, chosen}, {"rebinding", xid, offered, chosen}}
	sentinelFor := func(w waitSpec) []byte {
		sp := replySpec{proto: 0x11, dport: 68, chaddr: cliMAC, xid: w.xid, mtype: 5, yiaddr: offered, sid: chosen.To4(), routers: []byte{10, 0, 0, 1}, lease: []byte{0, 0, 1, 0}, op: 2}
		if w.kind == "offer" {
			sp.mtype = 2
		}
		b := sp.frame()
		// mark the sentinel: secs field (offset 20+8+8) = 0x5e17; UDP checksum is not verified by the client
		b[36], b[37] = 0x5e, 0x17
		return b
	}
	run := func(w waitSpec, sp replySpec, tag string) {
		frame := sp.frame()
		var ans string
		synctest.Test(t, func(t *testing.T) {
			rsocks.ResetSeg(iface)
			ans = realCatch(iface, w, frame, sentinelFor(w))
		})
		op := fmt.Sprintf("catch mac=%s w=%s b=%s", Hex(cliMAC), w.line(), Hex(frame))
		s.Op(op, ans, ans != "ignored")
		s.Count(w.kind + "/" + tag + "/" + strings.SplitN(ans, " ", 2)[0])
		if strings.HasPrefix(ans, "panic") || ans == "HANG" {
			for _, p := range []string{"C14", "C10"} {
				s.Find(Finding{Property: p, Signature: "catch-" + strings.SplitN(ans, ":", 2)[0], Stream: "clicatch", What: "the client's receive path panics or hangs on this frame", Ops: []string{op}, Observed: ans})
			}
		}
		// ---- monitor (independent reading of the property) ----
		wantType := 5
		if w.kind == "offer" {
			wantType = 2
		}
		isIP := func(b []byte, ip net.IP) bool { return len(b) == 4 && net.IP(b).Equal(ip) }
		okSid := len(sp.sid) == 4 && !isIP(sp.sid, net.IPv4zero) && !isIP(sp.sid, net.IPv4bcast)
		okY := sp.yiaddr != nil && !sp.yiaddr.Equal(net.IPv4zero) && !sp.yiaddr.Equal(net.IPv4bcast)
		okR := len(sp.routers) >= 4 && len(sp.routers)%4 == 0
		okL := len(sp.lease) == 4 && (uint32(sp.lease[0])<<24|uint32(sp.lease[1])<<16|uint32(sp.lease[2])<<8|uint32(sp.lease[3])) >= 60
		forMe := sp.proto == 0x11 && sp.dport == 68 && bytes.Equal(sp.chaddr, cliMAC)
		genuine := forMe && sp.xid == w.xid && sp.mtype == wantType && okSid && okY && okR && okL
		if w.kind != "offer" {
			genuine = genuine && sp.yiaddr.Equal(w.offered)
			if w.kind != "rebinding" {
				genuine = genuine && isIP(sp.sid, w.chosen)
			}
		}
		isNak := forMe && sp.mtype == 6 && w.kind != "offer"
		want := "ignored"
		if isNak {
			want = "nack"
		} else if genuine {
			want = "passed"
		}
		if got := strings.SplitN(ans, " ", 2)[0]; got != want {
			s.Find(Finding{Property: "C14", Signature: fmt.Sprintf("%s:%s!=%s:%s", w.kind, want, got, tag), Stream: "clicatch",
				What: "the client " + map[string]string{"passed": "accepted a reply that is not genuinely for its transaction", "ignored": "ignored a genuine reply (or a NAK)", "nack": "aborted on a packet that is not a NAK for it"}[got],
				Ops:  []string{op}, Expected: want, Observed: ans})
		}
	}
	base := func(w waitSpec) replySpec {
		sp := replySpec{proto: 0x11, dport: 68, chaddr: cliMAC, xid: w.xid, mtype: 5, yiaddr: offered, sid: chosen.To4(), routers: []byte{10, 0, 0, 1}, lease: []byte{0, 0, 0, 120}, op: 2}
		if w.kind == "offer" {
			sp.mtype = 2
		}
		return sp
	}
	// all 2^11 combinations of violated conjuncts, each violation drawn from its variants
	for _, w := range waits {
		for mask := 0; mask < 1<<11; mask++ {
			sp := base(w)
			if mask&1 != 0 {
				sp.proto = Pick(r, byte(6), 1, 0x12)
			}
			if mask&2 != 0 {
				sp.dport = Pick(r, 67, 69, 0)
			}
			if mask&4 != 0 {
				sp.chaddr = Pick(r, net.HardwareAddr{2, 0, 0, 0, 0, 0x11}, net.HardwareAddr{2, 0, 0, 0, 0}, net.HardwareAddr{2, 0, 0, 0, 0, 0x10, 0}, net.HardwareAddr{})
			}
			if mask&8 != 0 {
				sp.xid = Pick(r, w.xid+1, w.xid^0x80000000, 0)
			}
			if mask&16 != 0 {
				sp.mtype = Pick(r, 7-sp.mtype, 6, 1, 3, 0, 8, -1) // 7-x swaps offer<->ack
			}
			if mask&32 != 0 {
				sp.yiaddr = Pick(r, net.IPv4zero, net.IPv4bcast, nil)
			}
			if mask&64 != 0 {
				sp.sid = Pick(r, nil, []byte{0, 0, 0, 0}, []byte{255, 255, 255, 255}, []byte{10, 0, 0}, []byte{10, 0, 0, 1, 2})
			}
			if mask&128 != 0 {
				sp.routers = Pick(r, nil, []byte{}, []byte{10, 0, 0}, []byte{10, 0, 0, 1, 9})
			}
			if mask&256 != 0 {
				sp.lease = Pick(r, nil, []byte{0, 0, 0, 59}, []byte{0, 0, 0, 0}, []byte{0, 0, 60}, []byte{0, 0, 0, 0, 60})
			}
			if mask&512 != 0 {
				sp.yiaddr = net.IPv4(10, 0, 0, 78)
			}
			if mask&1024 != 0 {
				sp.sid = []byte{10, 0, 0, 2}
			}
			if !Thorough() && bitsSet(mask) > 2 && r.Intn(8) != 0 {
				continue // quick tier: all singles and pairs, one eighth of the higher-order combinations
			}
			run(w, sp, fmt.Sprintf("v%d", bitsSet(mask)))
		}
	}
	// boundary values and junk through the same path
	for _, w := range waits {
		for _, l := range [][]byte{{0, 0, 0, 60}, {0, 0, 0, 61}, {255, 255, 255, 255}, {0, 0, 1, 0}} {
			sp := base(w)
			sp.lease = l
			run(w, sp, "lease-boundary")
		}
		sp := base(w)
		sp.op = 1 // a BOOTREQUEST carrying everything else: the client does not look at op
		run(w, sp, "op1")
		// a genuine reply that travelled with IPv4 options (record route, padding …): the UDP header starts at IHL x 4; options
		// whose bytes look like a UDP header "67 -> 68" must not be taken for one
		for _, o := range [][]byte{{1, 1, 1, 0}, {7, 7, 4, 0, 0, 0, 0, 0}, {0, 67, 0, 68, 0, 8, 0, 0}, bytes.Repeat([]byte{1}, 40)} {
			sp = base(w)
			sp.ipopts = o
			run(w, sp, "ip-options")
			sp.dport = 1536 // … and one that is NOT for the DHCP client port, behind options that claim it is
			run(w, sp, "ip-options-other-port")
		}
		sp = base(w)
		sp.mtype = 6
		run(w, sp, "nak")
		sp.chaddr = net.HardwareAddr{2, 0, 0, 0, 0, 0x11}
		run(w, sp, "nak-other-host")
		n := EnvInt("HX_N", 300)
		if Thorough() {
			n = 5000
		}
		for i := 0; i < n; i++ {
			f, kind := MutateFrame(r, base(w).frame())
			var ans string
			synctest.Test(t, func(t *testing.T) {
				rsocks.ResetSeg(iface)
				ans = realCatch(iface, w, f, sentinelFor(w))
			})
			op := fmt.Sprintf("catch mac=%s w=%s b=%s", Hex(cliMAC), w.line(), Hex(f))
			s.Op(op, ans, ans != "ignored")
			s.Count(w.kind + "/mut-" + kind + "/" + strings.SplitN(ans, " ", 2)[0])
			if strings.HasPrefix(ans, "panic") || ans == "HANG" {
				for _, p := range []string{"C14", "C10"} {
					s.Find(Finding{Property: p, Signature: "catch-" + strings.SplitN(ans, ":", 2)[0], Stream: "clicatch", What: "the client's receive path panics or hangs on this frame", Ops: []string{op}, Observed: ans})
				}
			}
		}
	}
}

func bitsSet(x int) int {
	n := 0
	for ; x != 0; x &= x - 1 {
		n++
	}
	return n
}

// TestCliTmpl: C16 — the four message templates and the retransmission schedule.
func TestCliTmpl(t *testing.T) {
	r := NewRng(Seed(), "clitmpl")
	s := NewStream("clitmpl")
	defer s.Close()
	n := EnvInt("HX_N", 25000) // checksum corner cases (double carry) hit about one packet in 10^4
	if Thorough() {
		n = 400000
	}
	for i := 0; i < n; i++ {
		mac := net.HardwareAddr(r.Bytes(Pick(r, 6, 6, 6, 1, 8, 16)))
		iface := &net.Interface{Index: 61, Name: "c61", HardwareAddr: mac}
		off := Pick(r, net.IPv4(10, 0, 0, byte(r.Intn(256))), net.IPv4(192, 168, byte(r.Intn(256)), byte(r.Intn(256))), net.IPv4zero, net.IPv4bcast)
		srv := Pick(r, net.IPv4(10, 0, 0, 1), net.IPv4(byte(r.U64()), byte(r.U64()), byte(r.U64()), byte(r.U64())))
		st := Pick(r, "discover", "selecting", "renewing", "rebinding")
		f, xid := tmplFor(st, iface, off, srv)
		for k := 0; k < 2; k++ { // two transmissions of one exchange
			b, src, dst := f()
			checkTmplTx(s, st, mac, off, srv, xid, b, src, dst)
		}
	}
	// retransmission schedule of the real sendMessage under the virtual clock
	m := EnvInt("HX_M", 40)
	if Thorough() {
		m = 600
	}
	for i := 0; i < m; i++ {
		synctest.Test(t, func(t *testing.T) {
			iface := &net.Interface{Index: 62, Name: "c62", HardwareAddr: cliMAC}
			rsocks.ResetSeg(iface)
			seg := rsocks.Seg(iface)
			var times []int64
			var xids []uint32
			var wire, built [][]byte
			// in a third of the runs one write blocks for a while (a full device queue, a paused process): the sender's pacing
			// starts when the write returns; what is on the wire must still be at least 700 ms apart
			stallAt, stallFor := 0, time.Duration(0)
			if r.Chance(33) {
				stallAt, stallFor = 1+r.Intn(3), Pick(r, 1500*time.Millisecond, 4500*time.Millisecond, 30*time.Second)
			}
			var rets []int64
			seg.OnSend = func(f rsocks.Frame) {
				if f.Proto == 0x0800 {
					defer func() { rets = append(rets, time.Now().UnixNano()) }()
					if len(times)+1 == stallAt {
						defer time.Sleep(stallFor)
					}
					wire = append(wire, append([]byte(nil), f.Payload...))
					times = append(times, time.Now().UnixNano())
					xids = append(xids, uint32(f.Payload[32])<<24|uint32(f.Payload[33])<<16|uint32(f.Payload[34])<<8|uint32(f.Payload[35]))
				}
			}
			// every requesting state; each call the sender makes of the template is checked like a first transmission
			// (retransmissions happen seconds to minutes later on the virtual clock)
			st := Pick(r, "discover", "discover", "selecting", "renewing", "rebinding")
			off := net.IPv4(10, 0, 0, byte(1+r.Intn(250)))
			srv := net.IPv4(10, 0, 0, 254)
			f0, xid := tmplFor(st, iface, off, srv)
			t00 := time.Now()
			ncall := 0
			f := func() ([]byte, net.IP, net.IP) {
				b, src, dst := f0()
				ncall++
				built = append(built, append([]byte(nil), b...))
				checkTmplTx(s, st, cliMAC, off, srv, xid, append([]byte(nil), b...), src, dst,
					fmt.Sprintf("call %d of the template by sendMessage, %v after the first", ncall, time.Since(t00)))
				return b, src, dst
			}
			dur := Pick(r, 10*time.Second, time.Minute, 10*time.Minute, 45*time.Minute)
			tStart := time.Now().UnixNano()
			ctx, cancel := context.WithTimeout(context.Background(), dur)
			defer cancel()
			done := make(chan error, 1)
			go func() { done <- dclient.VerifSendMessage(ctx, iface, f) }()
			<-done
			after := len(times)
			for _, tt := range times { // the exchange ended when its context did: nothing may be sent after that instant
				if tt > tStart+int64(dur) {
					after = -1
				}
			}
			time.Sleep(5 * time.Minute)
			synctest.Wait()
			prev := int64(700 * time.Millisecond)
			hist := []string{fmt.Sprintf("sendMessage (%s) for %v: %d transmissions", st, dur, len(times))}
			if stallAt > 0 {
				hist = append(hist, fmt.Sprintf("write %d blocks for %v", stallAt, stallFor))
			}
			for k := range wire { // the sender may build a message it does not send (to learn the addresses); what it sends must be one it built
				found := false
				for _, bb := range built {
					found = found || bytes.Equal(wire[k], bb)
				}
				if !found {
					s.Find(Finding{Property: "C16", Signature: "wire-differs-from-template", Stream: "clitmpl", What: "the bytes handed to the socket are not a message the template built",
						Ops: append(hist, fmt.Sprintf("transmission %d", k+1)), Observed: Hex(wire[k])})
					break
				}
			}
			for k := 1; k < len(times) && k-1 < len(rets); k++ {
				gap := times[k] - rets[k-1] // the sender's pacing: from the return of one write to the next write
				op := fmt.Sprintf("delayok prev=%d next=%d", prev, gap)
				s.Op(op, "ok", true)
				hist = append(hist, op)
				if times[k]-times[k-1] < int64(700*time.Millisecond) {
					s.Find(Finding{Property: "C16", Signature: "retrans-too-fast", Stream: "clitmpl", What: "two transmissions of one exchange less than 700 ms apart", Ops: hist, Observed: fmt.Sprint(times[k] - times[k-1])})
				}
				if gap < prev {
					s.Find(Finding{Property: "C16", Signature: "retrans-shrinks", Stream: "clitmpl", What: "retransmission spacing decreased", Ops: hist, Observed: fmt.Sprintf("%d after %d", gap, prev)})
				}
				if xids[k] != xids[0] {
					s.Find(Finding{Property: "C16", Signature: "retrans-xid", Stream: "clitmpl", What: "retransmission with a different transaction id", Ops: hist})
				}
				prev = gap
			}
			if len(times) != after {
				s.Find(Finding{Property: "C16", Signature: "retrans-after-end", Stream: "clitmpl", What: "transmissions continue after the exchange ended", Ops: hist})
			}
			s.Count(fmt.Sprintf("retrans/n=%d", min(len(times)/5*5, 30)))
			s.Count(fmt.Sprintf("retrans/stalled-write=%v", stallAt > 0 && stallAt <= len(times)))
		})
	}
}

// tmplFor returns the message template of a requesting state and its transaction id.
func tmplFor(st string, iface *net.Interface, off, srv net.IP) (func() ([]byte, net.IP, net.IP), uint32) {
	switch st {
	case "discover":
		return msgtmpl.Discover(iface)
	case "selecting":
		return msgtmpl.RequestSelecting(iface, off, srv)
	case "renewing":
		return msgtmpl.RequestRenewing(iface, off, srv)
	}
	return msgtmpl.RequestRebinding(iface, off)
}

// checkTmplTx records one (re)transmission of a template for the model (which rebuilds the bytes from the state, the
// addresses, the transaction id and the IP identification) and applies C16's pattern with the reference parsers.
func checkTmplTx(s *Stream, st string, mac net.HardwareAddr, off, srv net.IP, xid uint32, b []byte, src, dst net.IP, note ...string) {
	if len(b) < 6 {
		s.Find(Finding{Property: "C16", Signature: "tmpl:" + st + ":short", Stream: "clitmpl", What: "client message is not a BOOTREQUEST in a valid IPv4/UDP datagram", Ops: []string{"tmpl st=" + st}, Observed: Hex(b)})
		return
	}
	ident := int(b[4])<<8 | int(b[5])
	pair := "-"
	if src != nil && dst != nil {
		pair = IPStr(src) + ">" + IPStr(dst)
	}
	op := fmt.Sprintf("tmpl st=%s mac=%s xid=%d ident=%d off=%s srv=%s", st, Hex(mac), xid, ident, IPStr(off), IPStr(srv))
	s.Op(op, "ok "+Hex(b)+" "+pair, true)
	s.Count("tmpl/" + st)
	// ---- monitor: the property's pattern, with the reference parsers ----
	fail := func(what string) {
		s.Find(Finding{Property: "C16", Signature: "tmpl:" + st + ":" + what, Stream: "clitmpl", What: what, Ops: append([]string{op}, note...), Observed: Hex(b)})
	}
	// validity of the datagram as such is C13's claim about every packet the stack assembles as well
	failWire := func(what string) {
		fail(what)
		s.Find(Finding{Property: "C13", Signature: "tmpl:" + st + ":" + what, Stream: "clitmpl", What: "a packet the client assembled: " + what, Ops: append([]string{op}, note...), Observed: Hex(b)})
	}
	q := ParseReq(b)
	ip, _ := RefParseIPv4(b)
	if ip == nil || !ip.HdrOK {
		failWire("client message is not a valid IPv4 datagram (version, header length, total length, header checksum)")
		return
	}
	if !q.OK {
		fail("client message is not a BOOTREQUEST in a valid IPv4/UDP datagram")
		return
	}
	ud, _ := RefParseUDP(ip)
	if ud == nil || !ud.CsumOK {
		failWire("client message does not carry a UDP datagram whose length matches and whose checksum verifies")
	} else if ud.Sp != 68 || ud.Dp != 67 {
		fail("client message does not go from port 68 to 67")
	}
	if !bytes.Equal(q.Chaddr, mac[:min(len(mac), 16)]) && len(mac) <= 16 {
		fail("client message does not carry the interface's hardware address")
	}
	wantCid := dhcpmsg.OptionClientIdentifier(mac).Data
	if !bytes.Equal(q.Cid, wantCid) || len(q.Cid) != 15 || q.Cid[0] != 0xff {
		fail("client identifier is not derived from the hardware address")
	}
	has := func(code byte) bool {
		for _, o := range q.M.Opts {
			if o.Code == code {
				return true
			}
		}
		return false
	}
	if !has(57) || !has(55) || !has(53) {
		fail("message type / maximum message size / parameter request list missing")
	}
	zero := func(x net.IP) bool { return x.Equal(net.IPv4zero) }
	ci := net.IP(q.M.Ciaddr[:])
	switch st {
	case "discover":
		if q.Type != 1 || !zero(q.Src) || !q.Dst.Equal(net.IPv4bcast) || !zero(ci) || has(50) || has(54) {
			fail("DISCOVER is not a broadcast from 0.0.0.0 with zero ciaddr and neither option")
		}
	case "selecting":
		if q.Type != 3 || !zero(q.Src) || !q.Dst.Equal(net.IPv4bcast) || !zero(ci) || !q.ReqIP.Equal(off) || !q.SrvID.Equal(srv) {
			fail("selecting REQUEST does not name the offered address and the chosen server in a broadcast from 0.0.0.0")
		}
	case "renewing":
		if q.Type != 3 || !q.Src.Equal(off) || !q.Dst.Equal(srv) || !ci.Equal(off) || has(50) || has(54) {
			fail("renewing REQUEST is not sent from the leased address to the server with ciaddr set and neither option")
		}
		if pair == "-" {
			fail("renewing REQUEST does not ask for a unicast socket")
		} else if !src.Equal(off) || !dst.Equal(srv) {
			fail("renewing REQUEST is not handed to the link layer as a unicast from the leased address to the server (source/destination of the send differ from the packet's)")
		}
	case "rebinding":
		if q.Type != 3 || !q.Src.Equal(off) || !q.Dst.Equal(net.IPv4bcast) || !ci.Equal(off) || has(50) || has(54) {
			fail("rebinding REQUEST is not a broadcast from the leased address with ciaddr set and neither option")
		}
		if pair != "-" {
			fail("rebinding REQUEST is not handed to the link layer as a broadcast")
		}
	}
	if q.M.Xid != xid {
		fail("retransmission does not reuse the transaction id of its exchange")
	}
}

func genIfconfig(r *Rng) libif.Ifconfig {
	c := libif.Ifconfig{MTU: Pick(r, 0, 1500, 576, 65535, r.Intn(70000)), LeaseDuration: time.Duration(Pick(r, 0, 60, 3600, 4294967295, r.Intn(1<<31))) * time.Second}
	c.Router = Pick(r, nil, net.IPv4(10, 0, 0, 1), net.IPv4(byte(r.U64()), byte(r.U64()), byte(r.U64()), byte(r.U64())))
	c.IP = Pick(r, net.IPv4(10, 0, 0, 77), net.IPv4(byte(r.U64()), byte(r.U64()), byte(r.U64()), byte(r.U64())))
	c.Netmask = Pick(r, nil, net.IPv4Mask(255, 255, 255, 0), net.IPv4Mask(byte(r.U64()), byte(r.U64()), byte(r.U64()), byte(r.U64())))
	for i := 0; i < Pick(r, 0, 1, 2, 3, 63); i++ {
		c.DNS = append(c.DNS, net.IPv4(byte(r.U64()), byte(r.U64()), byte(r.U64()), byte(r.U64())))
	}
	c.DomainName = string(genDomain(r))
	return c
}

func genDomain(r *Rng) []byte {
	switch r.Intn(10) {
	case 0:
		return nil
	case 1, 2:
		return []byte(Pick(r, "example.org", "lan", "a-b.c", "x"))
	case 3:
		return []byte(Pick(r, "evil.org\nnameserver 6.6.6.6", "a b", "x=y", "$(reboot)", "`id`", "a;b", "a\x00b", "a\tb", "ä.de", "\xff\xfe", "a\r\nb", "'q'", "\"q\""))
	case 4:
		return r.Bytes(255)
	case 5: // every byte value at start / middle / end
		b := byte(r.U64())
		return Pick(r, []byte{b, 'a', 'b'}, []byte{'a', b, 'b'}, []byte{'a', 'b', b})
	case 6: // UTF-8 edge cases
		return Pick(r, []byte{0xc3, 0xa4}, []byte{0xc3}, []byte{0xe2, 0x82, 0xac}, []byte{0xe2, 0x82}, []byte{0xf0, 0x9f, 0x98, 0x80}, []byte{0xed, 0xa0, 0x80},
			[]byte{0xc0, 0xaf}, []byte{0xf4, 0x90, 0x80, 0x80}, []byte{0xe0, 0x80, 0x80}, []byte{'a', 0xc3, 'b'}, []byte{0xef, 0xbf, 0xbd})
	default:
		return r.Bytes(r.Intn(30))
	}
}

func ifconfigLine(c libif.Ifconfig) string {
	mask := "-"
	if len(c.Netmask) == 4 {
		mask = Hex(c.Netmask)
	}
	return fmt.Sprintf("mtu=%d router=%s ip=%s mask=%s dns=%s domain=%s lease=%d", c.MTU, IPStr(c.Router), IPStr(c.IP), mask, IPsStr(c.DNS),
		Hex([]byte(c.DomainName)), int64(c.LeaseDuration/time.Second))
}

func safeByte(b byte) bool {
	return b >= 'a' && b <= 'z' || b >= 'A' && b <= 'Z' || b >= '0' && b <= '9' || b == ',' || b == '.' || b == '-' || b == '_'
}

// TestCliSan: C17 — hook environment and resolv.conf (function level, a real child process through
// Cbhandler, and the real `psa-dhcpc -syshook` binary in a chroot).
func TestCliSan(t *testing.T) {
	r := NewRng(Seed(), "clisan")
	s := NewStream("clisan")
	defer s.Close()
	n := EnvInt("HX_N", 4000)
	if Thorough() {
		n = 100000
	}
	checkEntries := func(op string, entries []string) {
		for _, e := range entries {
			i := strings.IndexByte(e, '=')
			if i < 0 || !strings.HasPrefix(e, "PSA_DHCPC_") {
				s.Find(Finding{Property: "C17", Signature: "env-shape", Stream: "clisan", What: "hook environment entry is not PSA_DHCPC_<KEY>=<value>", Ops: []string{op}, Observed: e})
				continue
			}
			for _, b := range []byte(e[i+1:]) {
				if !safeByte(b) {
					s.Find(Finding{Property: "C17", Signature: "env-unsafe", Stream: "clisan", What: "a PSA_DHCPC_* variable contains a character other than letters, digits, comma, dot, hyphen, underscore",
						Ops: []string{op}, Observed: strconv.Quote(e)})
					break
				}
			}
		}
	}
	for i := 0; i < n; i++ {
		v := genDomain(r)
		e := callback.VerifEnvEntry("X", string(v))
		op := "sanitize v=" + Hex(v)
		s.Op(op, "ok "+Hex([]byte(strings.TrimPrefix(e, "PSA_DHCPC_X="))), len(v) > 0)
		checkEntries(op, []string{e})
	}
	for i := 0; i < n/4; i++ {
		c := genIfconfig(r)
		ents := callback.VerifDumpScriptConf(&c)
		var hx []string
		for _, e := range ents {
			hx = append(hx, Hex([]byte(e)))
		}
		op := "envconf " + ifconfigLine(c)
		s.Op(op, "ok "+strings.Join(hx, ";"), true)
		checkEntries(op, ents)
	}
	// a real child process started through Cbhandler
	np := EnvInt("HX_P", 30)
	if Thorough() {
		np = 1000
	}
	iface := &net.Interface{Index: 63, Name: "c63", HardwareAddr: cliMAC}
	// one handler for the whole sequence, as in the daemon (mclient builds it once): calls for a lease are
	// interleaved with calls for a purge (nil configuration), whose environment must carry no lease parameters
	var buf bytes.Buffer
	cb := callback.Cbhandler("/usr/bin/env -0", iface, log.New(&buf, "", 0))
	runHook := func(c *libif.Ifconfig) (ents, hx []string) {
		buf.Reset()
		cb(context.Background(), c)
		out := buf.String()
		j := strings.Index(out, "-> Command exited with output ")
		if j < 0 {
			t.Fatalf("no child output: %q", out)
		}
		q, err := strconv.Unquote(strings.TrimSpace(out[j+len("-> Command exited with output "):]))
		if err != nil {
			t.Fatalf("unquote: %v", err)
		}
		for _, e := range strings.Split(q, "\x00") {
			if strings.HasPrefix(e, "PSA_DHCPC_") && !strings.HasPrefix(e, "PSA_DHCPC_INTERFACE=") {
				ents = append(ents, e)
				hx = append(hx, Hex([]byte(e)))
			}
		}
		return
	}
	var hist []string
	for i := 0; i < np; i++ {
		if i == 0 || r.Chance(35) {
			ents, _ := runHook(nil)
			hist = append(hist, "hook purge")
			s.Count("child-process-purge")
			if len(ents) > 0 {
				s.Find(Finding{Property: "C15", Signature: "purge-env", Stream: "clisan",
					What: "the hook started for a purge (no lease) still receives lease parameters: the client has not dropped what an earlier ACK gave it",
					Ops:  append([]string{}, hist...), Observed: strings.Join(ents, " ")})
			}
		}
		c := genIfconfig(r)
		ents, hx := runHook(&c)
		hist = append(hist, "hook "+ifconfigLine(c))
		if len(hist) > 12 {
			hist = hist[len(hist)-12:]
		}
		op := "envconf " + ifconfigLine(c)
		s.Op(op, "ok "+strings.Join(hx, ";"), true)
		s.Count("child-process")
		checkEntries(op, ents)
	}
	// the real binary in a chroot
	bin := os.Getenv("HX_DHCPC")
	if bin == "" {
		bin = BuildDir() + "/psa-dhcpc"
	}
	if _, err := os.Stat(bin); err != nil {
		t.Fatalf("static psa-dhcpc binary missing: %v", err)
	}
	nr := EnvInt("HX_R", 60)
	if Thorough() {
		nr = 1500
	}
	root := filepath.Join(OutDir(), "chroot")
	os.MkdirAll(filepath.Join(root, "etc"), 0o755)
	exec.Command("cp", bin, filepath.Join(root, "psa-dhcpc")).Run()
	const oldShort = "# previous\nnameserver 9.9.9.9\n"
	// a previous file longer than anything the hook writes, ending in lines the hook never produces: whatever survives of it shows
	oldLong := "# previous\n" + strings.Repeat("nameserver 9.9.9.9\nnameserver 149.112.112.112\n", 12) + "search old.example old2.example\noptions rotate timeout:1 attempts:5\n"
	for i := 0; i < nr; i++ {
		old := Pick(r, oldShort, oldShort, oldLong, oldLong, "")
		var env []string
		switch r.Intn(4) {
		case 0: // what the client itself would hand over
			c := genIfconfig(r)
			env = callback.VerifDumpScriptConf(&c)
		default: // arbitrary environment (a hostile parent): raw values
			dom := genDomain(r)
			var ns []string
			for k := 0; k < r.Intn(4); k++ {
				ns = append(ns, Pick(r, "8.8.8.8", "1.1.1.1", "", "x", "8.8.8.8 evil", "8.8.8.8\nsearch x", "..", "1", "999.1.2.3", string(genDomain(r))))
			}
			if !bytes.ContainsRune(dom, 0) {
				env = append(env, "PSA_DHCPC_DOMAIN_NAME="+string(dom))
			}
			l := strings.Join(ns, ",")
			if !strings.ContainsRune(l, 0) {
				env = append(env, "PSA_DHCPC_DNS_LIST="+l)
			}
			if r.Chance(20) {
				env = append(env, "UNRELATED=1", "NOEQUALS", "PSA_DHCPC_OTHER=x=y") // no duplicate keys: os/exec keeps only the last one
			}
		}
		os.Remove(filepath.Join(root, "etc", "resolv.conf"))
		os.MkdirAll(filepath.Join(root, "run"), 0o755)
		os.Remove(filepath.Join(root, "run", "resolv.conf"))
		// on many systems /etc/resolv.conf is a symbolic link into /run; in a fifth of the runs it is one here
		link := old != "" && r.Chance(20)
		if link {
			os.WriteFile(filepath.Join(root, "run", "resolv.conf"), []byte(old), 0o644)
			os.Symlink("../run/resolv.conf", filepath.Join(root, "etc", "resolv.conf"))
		} else if old != "" {
			os.WriteFile(filepath.Join(root, "etc", "resolv.conf"), []byte(old), 0o600)
		}
		// … and in a sixth of the runs the hook may write no more than a few dozen bytes to any file (RLIMIT_FSIZE): the
		// update fails half way, or the hook is killed; what a reader of /etc/resolv.conf then finds is the complete previous
		// file or a complete new one (monitor-only case: the model is not told about the limit)
		limit := 0
		if old != "" && r.Chance(16) {
			limit = Pick(r, 10, 30, 50)
		}
		cmd := exec.Command("/usr/sbin/chroot", root, "/psa-dhcpc", "-syshook")
		if limit > 0 {
			cmd = exec.Command("/usr/bin/prlimit", fmt.Sprintf("--fsize=%d", limit), "/usr/sbin/chroot", root, "/psa-dhcpc", "-syshook")
		}
		cmd.Env = env
		outb, err := cmd.CombinedOutput()
		got, rerr := os.ReadFile(filepath.Join(root, "etc", "resolv.conf"))
		if limit > 0 {
			var hx []string
			for _, e := range env {
				hx = append(hx, Hex([]byte(e)))
			}
			op := fmt.Sprintf("note resolv-limited fsize=%d symlink=%v previous=%d-bytes env=%s", limit, link, len(old), strings.Join(hx, ";"))
			s.Op(op, "ok", true)
			s.Count(fmt.Sprintf("chroot-limited/symlink=%v", link))
			lines := strings.Split(string(got), "\n")
			whole := rerr == nil && (string(got) == old || (len(lines) >= 3 && lines[0] == "# written by psa-dhcpc" && lines[len(lines)-1] == "" && len(got) <= limit))
			if !whole {
				for _, p := range []string{"C17", "C20"} {
					s.Find(Finding{Property: p, Signature: "resolv-torn-after-failed-write", Stream: "clisan",
						What:     "after an update that could not write its file completely, /etc/resolv.conf is neither the complete previous content nor a complete new file (generated resolv.conf is not header + at most one search line + nameserver lines)",
						Ops:      []string{op}, Expected: strconv.Quote(old), Observed: strconv.Quote(string(got))})
				}
			}
			continue
		}
		var hx []string
		for _, e := range env {
			hx = append(hx, Hex([]byte(e)))
		}
		hl := "-"
		if len(hx) > 0 {
			hl = strings.Join(hx, ";")
		}
		op := "resolv env=" + hl
		ans := "ok " + Hex(got)
		if (rerr == nil && old != "" && string(got) == old) || (rerr != nil && old == "") {
			ans = "untouched"
		}
		if err != nil {
			ans = "err:" + strings.ReplaceAll(string(outb), " ", "_")
		}
		s.Op(op, ans, ans != "untouched")
		s.Count("chroot/" + strings.SplitN(ans, " ", 2)[0])
		s.Count(fmt.Sprintf("chroot/previous-file=%d-bytes", len(old)))
		// monitor: the grammar of the property
		if ans != "untouched" && err == nil {
			lines := strings.Split(string(got), "\n")
			ok := len(lines) >= 3 && lines[0] == "# written by psa-dhcpc" && lines[len(lines)-1] == ""
			nns, nsearch := 0, 0
			for _, ln := range lines[1:max(len(lines)-1, 1)] {
				switch {
				case strings.HasPrefix(ln, "nameserver "):
					tok := ln[len("nameserver "):]
					nns++
					if tok == "" || strings.Trim(tok, "0123456789.") != "" {
						ok = false
					}
				case strings.HasPrefix(ln, "search "):
					tok := ln[len("search "):]
					nsearch++
					if tok == "" || strings.Trim(tok, "abcdefghijklmnopqrstuvwxyzABCDEFGHIJKLMNOPQRSTUVWXYZ0123456789.-") != "" || nns > 0 {
						ok = false
					}
				default:
					ok = false
				}
			}
			if !ok || nns == 0 || nsearch > 1 {
				s.Find(Finding{Property: "C17", Signature: "resolv-grammar", Stream: "clisan", What: "generated resolv.conf is not header + at most one search line + nameserver lines of dotted-numeric tokens",
					Ops: []string{op}, Observed: strconv.Quote(string(got))})
			}
			if fi, e2 := os.Stat(filepath.Join(root, "etc", "resolv.conf")); e2 == nil && fi.Mode().Perm() != 0o644 {
				s.Find(Finding{Property: "C20", Signature: "mode", Stream: "clisan", What: "resolv.conf does not end up with mode 0644", Ops: []string{op}, Observed: fi.Mode().String()})
			}
		}
	}
	// buildNetconfig + filterNetconfig (C15: only acknowledged parameters, default mask, router withheld)
	for i := 0; i < n/4; i++ {
		m := GenMsg(r)
		m.Op = 2
		m.YourIP = Pick(r, net.IPv4(10, 0, 0, 77), net.IPv4(172, 16, 0, 9), net.IPv4(192, 168, 1, 2), net.IPv4(byte(r.U64()), 1, 2, 3))
		m.Options = append(GenOpts(r, 0), dhcpmsg.DHCPOpt{Option: 3, Data: r.Bytes(4 * (1 + r.Intn(2)))})
		if r.Chance(60) {
			m.Options = append(m.Options, dhcpmsg.DHCPOpt{Option: 1, Data: Pick(r, []byte{255, 255, 255, 0}, []byte{255, 0, 255, 0}, []byte{0, 0, 0, 0}, []byte{255, 255}, r.Bytes(4))})
		}
		if r.Chance(10) {
			m.Options = GenOpts(r, 1) // possibly no router at all
		}
		o := dhcpmsg.DecodeOptions(m.Options)
		route := r.Intn(2)
		ans := safely(func() string {
			c := dclient.VerifBuildNetconfig(&net.Interface{Index: 64, Name: "c64", HardwareAddr: cliMAC}, m, o)
			client.VerifFilterNetconfig(route == 1, &c)
			return "ok " + ifconfigLine(c)
		})
		if strings.HasPrefix(ans, "panic") {
			ans = "panic:Routers[0]"
		}
		s.Op(fmt.Sprintf("netcfg route=%d %s", route, MsgFields(&m)), ans, true)
		s.Count("netcfg/" + strings.SplitN(ans, " ", 2)[0])
	}
	_ = io.Discard
}
