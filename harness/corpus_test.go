package hx

import (
	"net"
	"testing"
	"testing/synctest"
	"time"
)

// Corpus: minimised histories of past disagreements / defects; they run first in TestSrvSeq.
// D1: suggestion outside the dynamic range; D2: a bound client's new DISCOVER must not shorten its
// lease (a second client must not get the address 17 s later); D3: client identifiers in the
// server's internal namespace (a reserved host's, the server's own).
func corpusScripts() []struct {
	name  string
	conf  *SrvConf
	steps []scriptStep
} {
	base := uint32(10) << 24
	self := U32IP(base + 1)
	mk := func() *SrvConf {
		return &SrvConf{Base: base, Plen: 24, SelfIP: self, SelfMAC: srvMAC, Lease: time.Hour, Router: self,
			DynFrom: U32IP(base + 100), DynTo: U32IP(base + 103),
			Clients: []ClientConf{{Key: "02:00:00:00:00:aa", MAC: net.HardwareAddr{2, 0, 0, 0, 0, 0xaa}, IP: U32IP(base + 50)}}}
	}
	macB := net.HardwareAddr{2, 0, 0, 0, 0, 0xbb}
	macC := net.HardwareAddr{2, 0, 0, 0, 0, 0xcc}
	macE := net.HardwareAddr{2, 0, 0, 0, 0, 0xee}
	st := func(gap time.Duration, kind string, m MsgSpec) scriptStep {
		return scriptStep{Gap: gap, Msg: m, Kind: kind}
	}
	d2 := mk()
	d2.DynFrom, d2.DynTo = U32IP(base+100), U32IP(base+100) // one address: the second client can only get the first one's
	return []struct {
		name  string
		conf  *SrvConf
		steps []scriptStep
	}{
		{"D1-suggestion-outside-range", mk(), []scriptStep{
			st(time.Second, "discover-req", MsgSpec{MAC: macB, Type: 1, Xid: 1, ReqIP: U32IP(base + 5)}),
			st(time.Second, "selecting", MsgSpec{MAC: macB, Type: 3, Xid: 2, ReqIP: U32IP(base + 5), SrvID: self}),
		}},
		{"D2-rediscover-must-not-shorten", d2, []scriptStep{
			st(time.Second, "discover", MsgSpec{MAC: macB, Type: 1, Xid: 1}),
			st(time.Second, "selecting", MsgSpec{MAC: macB, Type: 3, Xid: 2, ReqIP: U32IP(base + 100), SrvID: self}),
			st(2*time.Second, "discover", MsgSpec{MAC: macB, Type: 1, Xid: 3}),
			st(17*time.Second, "discover-req", MsgSpec{MAC: macE, Type: 1, Xid: 4, ReqIP: U32IP(base + 100)}),
			st(time.Second, "selecting", MsgSpec{MAC: macE, Type: 3, Xid: 5, ReqIP: U32IP(base + 100), SrvID: self}),
			st(time.Second, "renewing", MsgSpec{MAC: macB, Type: 3, Xid: 6, Src: U32IP(base + 100), Dst: self, Ciaddr: U32IP(base + 100)}),
		}},
		{"D3-forged-internal-client-id", mk(), []scriptStep{
			st(time.Second, "forged-cid", MsgSpec{MAC: macC, Type: 1, Xid: 1, Cid: append([]byte{0, 3, 0, 0}, 2, 0, 0, 0, 0, 0xaa)}),
			st(time.Second, "forged-cid", MsgSpec{MAC: macE, Type: 1, Xid: 2, Cid: append([]byte{0, 3, 0, 0}, srvMAC...)}),
			st(time.Second, "discover", MsgSpec{MAC: net.HardwareAddr{2, 0, 0, 0, 0, 0xaa}, Type: 1, Xid: 3}),
		}},
	}
}

func runCorpus(t *testing.T, s *Stream) {
	for _, c := range corpusScripts() {
		c := c
		synctest.Test(t, func(t *testing.T) { runSteps(t, s, c.conf, c.steps, "corpus-"+c.name) })
	}
}
