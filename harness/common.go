// Package hx is the correspondence harness: it drives the real psa-dhcp code (built with the
// verif tag from /repo's working tree), writes one operation per line for the Lean driver
// together with what the implementation was observed to do, and runs the property monitors.
package hx

import (
	"io"
	"bufio"
	"crypto/sha256"
	"encoding/hex"
	"encoding/json"
	"fmt"
	"net"
	"os"
	"path/filepath"
	"sort"
	"strconv"
	"strings"
	"sync"
)

// ---------- PRNG: every random choice derives from VERIF_SEED ----------

type Rng struct{ s uint64 }

func NewRng(seed uint64, stream string) *Rng {
	h := sha256.Sum256([]byte(fmt.Sprintf("%d/%s", seed, stream)))
	var s uint64
	for i := 0; i < 8; i++ {
		s = s<<8 | uint64(h[i])
	}
	return &Rng{s: s}
}

func (r *Rng) U64() uint64 {
	r.s += 0x9e3779b97f4a7c15
	z := r.s
	z = (z ^ (z >> 30)) * 0xbf58476d1ce4e5b9
	z = (z ^ (z >> 27)) * 0x94d049bb133111eb
	return z ^ (z >> 31)
}
func (r *Rng) Intn(n int) int {
	if n <= 0 {
		return 0
	}
	return int(r.U64() % uint64(n))
}
func (r *Rng) Bool() bool        { return r.U64()&1 == 1 }
func (r *Rng) Chance(p int) bool { return r.Intn(100) < p }
func (r *Rng) Bytes(n int) []byte {
	b := make([]byte, n)
	for i := range b {
		b[i] = byte(r.U64())
	}
	return b
}
func Pick[T any](r *Rng, xs ...T) T { return xs[r.Intn(len(xs))] }

// ---------- environment ----------

func Seed() uint64 {
	v, _ := strconv.ParseUint(os.Getenv("VERIF_SEED"), 10, 64)
	return v
}

func EnvInt(name string, def int) int {
	if v, err := strconv.Atoi(os.Getenv(name)); err == nil {
		return v
	}
	return def
}

func Thorough() bool { return os.Getenv("VERIF_TIER") == "thorough" }

// BuildDir is where the check driver put the binaries built from the current tree (real client, rsocks probe).
func BuildDir() string {
	if d := os.Getenv("HX_BUILD"); d != "" {
		return d
	}
	return "/verif/.build"
}

func OutDir() string {
	d := os.Getenv("HX_OUT")
	if d == "" {
		d = "/verif/.build/out/adhoc"
	}
	os.MkdirAll(d, 0o755)
	return d
}

// ---------- stream output ----------

// Stream collects operation lines (for the Lean driver), the implementation's answers, monitor
// findings and distribution counters of one correspondence stream.
type Stream struct {
	name  string
	mu    sync.Mutex
	ops   *bufio.Writer
	impl  *bufio.Writer
	fo    *os.File
	fi    *os.File
	N     int
	Dist  map[string]int
	seen  map[[32]byte]struct{}
	NonTr int
	Finds []Finding
	Samp  []string
	scratch bool
}

// Finding is a monitor verdict: a concrete input/history on which the property fails.
type Finding struct {
	ShrunkFrom int     `json:"shrunk_from,omitempty"` // number of operations of the history before delta debugging
	Property  string   `json:"property"`
	Stream    string   `json:"stream,omitempty"`
	Signature string   `json:"signature"`
	What      string   `json:"what"`
	Ops       []string `json:"ops"`
	Config    string   `json:"config,omitempty"`
	Expected  string   `json:"expected,omitempty"`
	Observed  string   `json:"observed,omitempty"`
}

func NewStream(name string) *Stream {
	name += os.Getenv("HX_SUFFIX") // e.g. "-race": the same stream run a second time by another binary
	d := OutDir()
	fo, err := os.Create(filepath.Join(d, name+".ops"))
	if err != nil {
		panic(err)
	}
	fi, err := os.Create(filepath.Join(d, name+".impl"))
	if err != nil {
		panic(err)
	}
	return &Stream{name: name, fo: fo, fi: fi, ops: bufio.NewWriterSize(fo, 1<<20), impl: bufio.NewWriterSize(fi, 1<<20),
		Dist: map[string]int{}, seen: map[[32]byte]struct{}{}}
}

// NewScratchStream collects findings only (nothing is written): used when a history is re-run for shrinking.
func NewScratchStream(name string) *Stream {
	return &Stream{name: name, scratch: true, ops: bufio.NewWriter(io.Discard), impl: bufio.NewWriter(io.Discard),
		Dist: map[string]int{}, seen: map[[32]byte]struct{}{}}
}

// Op records one operation line and the implementation's canonical answer. nontrivial says
// whether the case hit a non-default branch (counted once per distinct line).
func (s *Stream) Op(op, implAnswer string, nontrivial bool) {
	s.mu.Lock()
	defer s.mu.Unlock()
	s.ops.WriteString(op)
	s.ops.WriteByte('\n')
	s.impl.WriteString(implAnswer)
	s.impl.WriteByte('\n')
	s.N++
	h := sha256.Sum256([]byte(op))
	if _, ok := s.seen[h]; !ok {
		s.seen[h] = struct{}{}
		if nontrivial {
			s.NonTr++
		}
	}
	if len(s.Samp) < 5 || (s.N%997 == 0 && len(s.Samp) < 12) {
		t := op + " => " + implAnswer
		if len(t) > 600 {
			t = t[:600] + "…"
		}
		s.Samp = append(s.Samp, t)
	}
}

// Pending records, on disk, the history that is about to be extended by a step that may crash the
// process (a frame injected into a real daemon): if the stream dies, ./check builds the replay from it.
func (s *Stream) Pending(lines []string) {
	if s.scratch {
		return
	}
	s.mu.Lock()
	defer s.mu.Unlock()
	os.WriteFile(filepath.Join(OutDir(), s.name+".pending"), []byte(strings.Join(lines, "\n")), 0o644)
}

func (s *Stream) Count(key string) {
	s.mu.Lock()
	s.Dist[key]++
	s.mu.Unlock()
}

func (s *Stream) Find(f Finding) {
	s.mu.Lock()
	defer s.mu.Unlock()
	for _, g := range s.Finds {
		if g.Signature == f.Signature && g.Property == f.Property {
			return
		}
	}
	if len(s.Finds) < 200 {
		s.Finds = append(s.Finds, f)
		if !s.scratch {
			s.writeStats() // findings survive a later crash or hang of the stream
		}
	}
}

func (s *Stream) Close() {
	s.mu.Lock()
	defer s.mu.Unlock()
	s.ops.Flush()
	s.impl.Flush()
	s.fo.Close()
	s.fi.Close()
	s.writeStats()
}

// writeStats must be called with s.mu held.
func (s *Stream) writeStats() {
	s.ops.Flush()
	s.impl.Flush()
	st := map[string]interface{}{
		"stream": s.name, "evaluations": s.N, "distinct": len(s.seen), "distinct_nontrivial": s.NonTr,
		"dist": s.Dist, "findings": s.Finds, "samples": s.Samp, "seed": Seed(),
	}
	if s.Finds == nil {
		st["findings"] = []Finding{}
	}
	b, _ := json.MarshalIndent(st, "", " ")
	os.WriteFile(filepath.Join(OutDir(), s.name+".stats.json"), b, 0o644)
}

// ---------- canonical rendering (must agree with lean/Driver/Util.lean) ----------

func Hex(b []byte) string {
	if len(b) == 0 {
		return "-"
	}
	return hex.EncodeToString(b)
}

func IPStr(ip net.IP) string {
	if ip == nil {
		return "-"
	}
	if v4 := ip.To4(); v4 != nil {
		return hex.EncodeToString(v4)
	}
	return "-"
}

func IPsStr(ips []net.IP) string {
	if len(ips) == 0 {
		return "-"
	}
	p := make([]string, len(ips))
	for i, x := range ips {
		p[i] = hex.EncodeToString(x.To4())
	}
	return strings.Join(p, ",")
}

func U32IP(v uint32) net.IP { return net.IPv4(byte(v>>24), byte(v>>16), byte(v>>8), byte(v)) }
func IPU32(ip net.IP) uint32 {
	v := ip.To4()
	return uint32(v[0])<<24 | uint32(v[1])<<16 | uint32(v[2])<<8 | uint32(v[3])
}

func SortedKeys(m map[string]int) []string {
	k := make([]string, 0, len(m))
	for x := range m {
		k = append(k, x)
	}
	sort.Strings(k)
	return k
}

// RejectReason maps an error of the repo's decoders to the model's reject reasons.
func RejectReason(err error) string {
	msg := err.Error()
	for _, p := range []string{"short ipv4", "invalid packet", "truncated packet", "short udp", "truncated udp",
		"short arp", "short dhcpmsg", "truncated options"} {
		if strings.HasPrefix(msg, p) {
			return "reject:" + strings.ReplaceAll(p, " ", "_")
		}
	}
	return "reject:?" + strings.ReplaceAll(msg, " ", "_")
}
