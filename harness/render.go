package hx

import (
	"fmt"
	"strings"
	"time"

	"git.sr.ht/~adrian-blx/psa-dhcp/lib/dhcpmsg"
	"git.sr.ht/~adrian-blx/psa-dhcp/lib/layer"
)

func OptsStr(os []dhcpmsg.DHCPOpt) string {
	if len(os) == 0 {
		return "-"
	}
	p := make([]string, len(os))
	for i, o := range os {
		p[i] = fmt.Sprintf("%d:%s", o.Option, Hex(o.Data))
	}
	return strings.Join(p, ";")
}

func ShowIPv4(p *layer.IPv4) string {
	return fmt.Sprintf("ok ident=%d flags=%d ttl=%d proto=%d csum=%d src=%s dst=%s data=%s", p.Identification, p.Flags, p.TTL,
		p.Protocol, p.Checksum, IPStr(p.Source), IPStr(p.Destination), Hex(p.Data))
}

func ShowUDP(u *layer.UDP) string {
	return fmt.Sprintf("ok sp=%d dp=%d data=%s", u.SrcPort, u.DstPort, Hex(u.Data))
}

func ShowARP(a *layer.ARP) string {
	return fmt.Sprintf("ok op=%d sm=%s sip=%s tm=%s tip=%s", a.Opcode, Hex(a.SenderMAC), IPStr(a.SenderIP), Hex(a.TargetMAC), IPStr(a.TargetIP))
}

func MsgFields(m *dhcpmsg.Message) string {
	return fmt.Sprintf("op=%d htype=%d hops=%d xid=%d secs=%d flags=%d ci=%s yi=%s si=%s gi=%s chaddr=%s sname=%s file=%s cookie=%d opts=%s",
		m.Op, m.Htype, m.Hops, m.Xid, m.Secs, m.Flags, IPStr(m.ClientIP), IPStr(m.YourIP), IPStr(m.NextIP), IPStr(m.RelayIP),
		Hex(m.ClientMAC), Hex(m.ServerHostName[:]), Hex(m.BootFilename[:]), m.Cookie, OptsStr(m.Options))
}

func ShowMsg(m *dhcpmsg.Message) string { return "ok " + MsgFields(m) }

func maskStr(m []byte) string {
	if len(m) != 4 {
		return "-"
	}
	return Hex(m)
}

func DecodedFields(d dhcpmsg.DecodedOptions) string {
	return fmt.Sprintf("mt=%d mms=%d mtu=%d req=%s sid=%s bc=%s mask=%s routers=%s dns=%s lease=%d t1=%d t2=%d domain=%s cid=%s msg=%s prl=%s",
		d.MessageType, d.MaxMessageSize, d.InterfaceMTU, IPStr(d.RequestedIP), IPStr(d.ServerIdentifier), IPStr(d.BroadcastAddress),
		maskStr(d.SubnetMask), IPsStr(d.Routers), IPsStr(d.DNS), int64(d.IPAddressLeaseDuration/time.Second),
		int64(d.RenewalDuration/time.Second), int64(d.RebindDuration/time.Second), Hex([]byte(d.DomainName)), Hex(d.ClientIdentifier),
		Hex([]byte(d.Message)), Hex(d.ParametersList))
}

func ShowDecoded(d dhcpmsg.DecodedOptions) string { return "ok " + DecodedFields(d) }
