package hx

import (
	"fmt"
	"net"
	"strconv"
	"strings"
	"testing"
	"testing/synctest"
	"time"
)

func parseIPField(s string) net.IP {
	b := unhex(s)
	if len(b) != 4 {
		return nil
	}
	return net.IP(b)
}

func parseIPList(s string) []net.IP {
	if s == "-" || s == "" {
		return nil
	}
	var out []net.IP
	for _, t := range strings.Split(s, ",") {
		out = append(out, parseIPField(t))
	}
	return out
}

// ParseCfgLine is the inverse of SrvConf.Line.
func ParseCfgLine(line string) (*SrvConf, int64) {
	_, a := argsOf(line)
	n := func(k string) int64 { v, _ := strconv.ParseInt(a[k], 10, 64); return v }
	c := &SrvConf{Base: uint32(n("base")), Plen: int(n("p")), DynFrom: parseIPField(a["dynfrom"]), DynTo: parseIPField(a["dynto"]),
		StaticOnly: n("staticonly") == 1, Lease: time.Duration(n("lease")), SelfIP: parseIPField(a["selfip"]), SelfMAC: unhex(a["selfmac"]),
		Router: parseIPField(a["router"]), DNS: parseIPList(a["dns"]), NTP: parseIPList(a["ntp"]), Domain: string(unhex(a["domain"]))}
	if a["clients"] != "-" && a["clients"] != "" {
		for _, cs := range strings.Split(a["clients"], ";") {
			f := strings.Split(cs, "/")
			if len(f) != 6 {
				continue
			}
			mac := net.HardwareAddr(unhex(f[0]))
			c.Clients = append(c.Clients, ClientConf{Key: mac.String(), MAC: mac, IP: parseIPField(f[1]), Router: parseIPField(f[2]),
				DNS: parseIPList(f[3]), NTP: parseIPList(f[4]), Hostname: string(unhex(f[5]))})
		}
	}
	return c, n("t")
}

// replaySrvSeq re-executes a recorded server history (cfg line + rx lines) against the real server
// under the virtual clock, with ARP responders reconstructed from the recorded probe outcomes.
func replaySrvSeq(t *testing.T, s *Stream, rp *Replay) {
	cfg := rp.Config
	ops := rp.Ops
	if cfg == "" && len(ops) > 0 && strings.HasPrefix(ops[0], "cfg ") {
		cfg, ops = ops[0], ops[1:]
	}
	c, _ := ParseCfgLine(cfg)
	synctest.Test(t, func(t *testing.T) {
		env, err := StartServer(c)
		t0 := time.Now().UnixNano()
		if err != nil {
			s.Op(c.Line(t0), "err:"+strings.ReplaceAll(err.Error(), " ", "_"), false)
			return
		}
		cfgLine := c.Line(t0)
		s.Op(cfgLine, "ok", false)
		synctest.Wait()
		mon := NewSrvMonitor(c, s, cfgLine)
		mon.respTable = env.Resp
		for _, op := range ops {
			_, a := argsOf(op)
			if a["probes"] != "" && a["probes"] != "-" {
				for _, p := range strings.Split(a["probes"], ",") {
					f := strings.Split(p, ":")
					if len(f) == 4 && f[1] != "-" {
						ts, _ := strconv.ParseInt(f[2], 10, 64)
						te, _ := strconv.ParseInt(f[3], 10, 64)
						d := time.Duration(te-ts) % (200 * time.Millisecond)
						if d <= 0 {
							d = time.Millisecond
						}
						env.Resp[IPU32(parseIPField(f[0]))] = &Responder{MAC: unhex(f[1]), Delay: d}
					}
				}
			}
		}
		df, dt := c.DynRange()
		settle := time.Duration(60+(int64(dt-df)+2)*650) * time.Millisecond
		for _, op := range ops {
			kw, a := argsOf(op)
			if kw == "note" && a["ip"] != "" && a["mac"] != "" { // a responder that appears at this point of the history
				at, _ := strconv.ParseInt(a["t"], 10, 64)
				if d := at - time.Now().UnixNano(); d > 0 {
					time.Sleep(time.Duration(d))
				}
				dl, _ := strconv.ParseInt(a["delay"], 10, 64)
				env.Resp[IPU32(parseIPField(a["ip"]))] = &Responder{MAC: unhex(a["mac"]), Delay: time.Duration(dl)}
				s.Op(op, "ok", false)
				mon.hist = append(mon.hist, op)
				continue
			}
			if kw != "rx" {
				continue
			}
			at, _ := strconv.ParseInt(a["t"], 10, 64)
			if d := at - time.Now().UnixNano(); d > 0 {
				time.Sleep(time.Duration(d))
			}
			frame := unhex(a["b"])
			trx := time.Now().UnixNano()
			env.Take()
			env.Seg.Inject(0x0800, frame)
			time.Sleep(settle)
			synctest.Wait()
			sent, inj := env.Take()
			obs := Observe(trx, sent, inj)
			line := fmt.Sprintf("rx t=%d b=%s d=%d tend=%d probes=%s", trx, Hex(frame), obs.D, obs.Tend, obs.ProbesStr())
			s.Op(line, obs.Answer(), true)
			mon.Step(trx, frame, obs, line)
			t.Logf("t=%.3fs %s -> %s", float64(trx-t0)/1e9, describeReq(frame), describeAns(obs))
		}
		env.Stop()
		synctest.Wait()
	})
}

func describeReq(frame []byte) string {
	q := ParseReq(frame)
	if !q.OK {
		return fmt.Sprintf("junk(%d bytes)", len(frame))
	}
	return fmt.Sprintf("type=%d chaddr=%s id=%s req=%v sid=%v src=%v dst=%v", q.Type, q.Chaddr, q.Identity(), q.ReqIP, q.SrvID, q.Src, q.Dst)
}

func describeAns(o Obs) string {
	if len(o.Tx) == 0 {
		return fmt.Sprintf("silent (probes %s)", o.ProbesStr())
	}
	var p []string
	for _, f := range o.Tx {
		if r := ParseReply(f); r != nil {
			p = append(p, fmt.Sprintf("type=%d yiaddr=%v chaddr=%s lease=%ds l2=%s ipdst=%v", r.Type, r.Yiaddr, r.Chaddr, r.LeaseSec, r.L2, r.IPDst))
		} else {
			p = append(p, "unparsable")
		}
	}
	return strings.Join(p, " | ")
}

func init() {
	scriptReplayers["srvseq"] = replaySrvSeq
}

// shrinkSrvFindings: delta debugging over the recorded history of each server finding — the history is re-run
// (real server, virtual clock, absolute receive times kept) with chunks of messages removed, and a removal is
// kept when the same finding (property, signature) still occurs.  Histories whose outcome depends on rand.Perm may
// not reproduce; then the chunk simply stays.  Bounded: at most `budget` re-runs per finding.
func shrinkSrvFindings(t *testing.T, s *Stream, maxFindings, budget int) {
	s.mu.Lock()
	finds := append([]Finding(nil), s.Finds...)
	s.mu.Unlock()
	done := 0
	for idx, f := range finds {
		if done >= maxFindings || !strings.HasPrefix(f.Stream, "srvseq") || f.Config == "" || len(f.Ops) < 3 || f.ShrunkFrom > 0 {
			continue
		}
		done++
		runs := 0
		reproduces := func(ops []string) bool {
			if runs >= budget {
				return false
			}
			runs++
			sc := NewScratchStream("shrink")
			ok := false
			func() {
				defer func() { recover() }()
				replaySrvSeq(t, sc, &Replay{Config: f.Config, Ops: ops})
			}()
			for _, g := range sc.Finds {
				if g.Property == f.Property && g.Signature == f.Signature {
					ok = true
				}
			}
			return ok
		}
		ops := append([]string(nil), f.Ops...)
		if !reproduces(ops) {
			continue // not deterministic under replay: keep the full history
		}
		for n := 2; len(ops) >= 2 && runs < budget; {
			chunk := (len(ops) + n - 1) / n
			reduced := false
			for start := 0; start < len(ops) && runs < budget; start += chunk {
				end := min(start+chunk, len(ops))
				if end == len(ops) && start == 0 {
					continue
				}
				cand := append(append([]string(nil), ops[:start]...), ops[end:]...)
				if len(cand) > 0 && reproduces(cand) {
					ops = cand
					n = max(n-1, 2)
					reduced = true
					break
				}
			}
			if !reduced {
				if chunk == 1 {
					break
				}
				n = min(n*2, len(ops))
			}
		}
		if len(ops) < len(f.Ops) {
			s.mu.Lock()
			if idx < len(s.Finds) && s.Finds[idx].Signature == f.Signature {
				s.Finds[idx].ShrunkFrom = len(f.Ops)
				s.Finds[idx].Ops = ops
			}
			s.mu.Unlock()
			s.Count("shrunk")
		}
	}
	s.mu.Lock()
	s.writeStats()
	s.mu.Unlock()
}
