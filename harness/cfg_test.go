package hx

import (
	"fmt"
	"net"
	"sort"
	"strings"
	"testing"
	"testing/synctest"
	"time"

	pb "git.sr.ht/~adrian-blx/psa-dhcp/lib/server/proto"
)

func entOf(s string) string {
	if s == "" {
		return "e"
	}
	if ip := net.ParseIP(s); ip != nil && ip.To4() != nil {
		return Hex(ip.To4())
	}
	return "b"
}

func entsOf(l []string) string {
	if len(l) == 0 {
		return "-"
	}
	p := make([]string, len(l))
	for i, s := range l {
		p[i] = entOf(s)
	}
	return strings.Join(p, ",")
}

// RawLine renders the `newcfg` operation: every string field as the standard library parses it.
func RawLine(t int64, pc *pb.ServerConfig, selfIP net.IP, selfMAC net.HardwareAddr) string {
	netS := "bad"
	if _, ipn, err := net.ParseCIDR(pc.GetNetwork()); err == nil && ipn.IP.To4() != nil && len(ipn.Mask) == 4 {
		ones, _ := ipn.Mask.Size()
		netS = fmt.Sprintf("%d/%d", IPU32(ipn.IP), ones)
	}
	lease := "bad"
	if d, err := time.ParseDuration(pc.GetLeaseDuration()); err == nil {
		lease = fmt.Sprint(int64(d))
	}
	dyn := "absent"
	if dr := pc.GetDynamicRange(); dr != "" {
		sr := strings.Split(dr, "-")
		if len(sr) != 2 {
			dyn = "fmt"
		} else if a, b := net.ParseIP(sr[0]), net.ParseIP(sr[1]); a == nil || b == nil || a.To4() == nil || b.To4() == nil {
			dyn = "badip" // (an IPv6 side parses but is rejected by the range check: an error either way)
		} else {
			dyn = Hex(a.To4()) + "-" + Hex(b.To4())
		}
	}
	var cls []string
	for k, v := range pc.GetClient() {
		mac := "bad"
		if hw, err := net.ParseMAC(k); err == nil {
			mac = Hex(hw)
		}
		cls = append(cls, fmt.Sprintf("%s/%s/%s/%s/%s/%s", mac, entOf(v.GetIp()), entOf(v.GetRouter()), entsOf(v.GetDns()), entsOf(v.GetNtp()), Hex([]byte(v.GetHostname()))))
	}
	sort.Strings(cls)
	cs := "-"
	if len(cls) > 0 {
		cs = strings.Join(cls, ";")
	}
	so := 0
	if pc.GetStaticOnly() {
		so = 1
	}
	return fmt.Sprintf("newcfg t=%d selfip=%s selfmac=%s net=%s lease=%s router=%s dns=%s ntp=%s domain=%s dyn=%s staticonly=%d clients=%s",
		t, IPStr(selfIP), Hex(selfMAC), netS, lease, entOf(pc.GetRouter()), entsOf(pc.GetDns()), entsOf(pc.GetNtp()), Hex([]byte(pc.GetDomain())), dyn, so, cs)
}

func manyIPs(n int) []string {
	var o []string
	for i := 0; i < n; i++ {
		o = append(o, fmt.Sprintf("9.9.%d.%d", i/250, i%250+1))
	}
	return o
}

// injectFault mutates the proto configuration in one way that the property says must be rejected.
// It returns the fault's name, or "" if the chosen fault does not apply to this configuration.
func injectFault(r *Rng, c *SrvConf, pc *pb.ServerConfig, selfIP *net.IP) string {
	from, to := c.NetFromTo()
	anyClient := func() (string, *pb.ClientConfig) {
		for k, v := range pc.Client {
			return k, v
		}
		return "", nil
	}
	badIP := func() string {
		return Pick(r, "not-an-ip", "::1", "1.2.3", "1.2.3.4.5", "256.1.1.1", " 1.2.3.4", "fe80::1")
	}
	switch Pick(r, "net", "lease", "lease-short", "router", "dns", "ntp", "dns-many", "ntp-many", "domain-long", "lease-huge", "dyn-fmt", "dyn-ip",
		"dyn-rev", "dyn-out", "self-out", "self-none", "c-mac", "c-ip", "c-router", "c-dns", "c-ntp", "c-dns-many", "c-host-long", "c-ip-out",
		"c-dup-ip", "c-dup-mac", "c-ip-self", "c-ip-netaddr", "dns-empty-in-list") {
	case "net":
		pc.Network = Pick(r, "", "10.0.0.0", "10.0.0.0/33", "banana", "fe80::/64", "::ffff:10.0.0.0/120", "10.0.0.0/31")
		return "net"
	case "lease":
		pc.LeaseDuration = Pick(r, "", "1", "5 minutes", "1d", "abc")
		return "lease"
	case "lease-short":
		pc.LeaseDuration = Pick(r, "59s", "0s", "-5m", "59999ms")
		return "lease-short"
	case "router":
		pc.Router = badIP()
		return "router"
	case "dns":
		pc.Dns = append(pc.Dns, badIP())
		return "dns"
	case "dns-empty-in-list":
		pc.Dns = Pick(r, []string{"8.8.8.8", ""}, []string{"", "8.8.8.8"}, []string{"", ""}, []string{"", "8.8.8.8", "1.1.1.1"})
		if r.Bool() {
			pc.Ntp, pc.Dns = pc.Dns, nil
		}
		return "dns-empty-in-list"
	case "ntp":
		pc.Ntp = append([]string{badIP()}, pc.Ntp...)
		return "ntp"
	case "dns-many":
		pc.Dns = manyIPs(Pick(r, 64, 70, 200))
		return "dns-many"
	case "ntp-many":
		pc.Ntp = manyIPs(Pick(r, 64, 100))
		return "ntp-many"
	case "domain-long":
		// too long in BYTES; the multi-byte variants have at most 255 characters
		pc.Domain = Pick(r, strings.Repeat("a", 256), strings.Repeat("a", 300), strings.Repeat("a", 1000), strings.Repeat("é", 128), strings.Repeat("日", 100), strings.Repeat("a", 254)+"é")
		return "domain-long"
	case "lease-huge":
		pc.LeaseDuration = Pick(r, "1193047h", "1300000h", "2000000h") // > 2^32-1 seconds
		return "lease-huge"
	case "dyn-fmt":
		pc.DynamicRange = Pick(r, "10.0.0.1", "10.0.0.1-10.0.0.2-10.0.0.3", "-")
		if pc.DynamicRange == "-" {
			return "dyn-ip"
		}
		return "dyn-fmt"
	case "dyn-ip":
		pc.DynamicRange = U32IP(from).String() + "-" + badIP()
		return "dyn-ip"
	case "dyn-rev":
		if to == from {
			return ""
		}
		pc.DynamicRange = U32IP(to).String() + "-" + U32IP(from).String()
		return "dyn-rev"
	case "dyn-out":
		pc.DynamicRange = Pick(r, U32IP(from).String()+"-"+U32IP(to+1).String(), U32IP(from-1).String()+"-"+U32IP(to).String(), U32IP(to+5).String()+"-"+U32IP(to+9).String())
		return "dyn-out"
	case "self-out":
		*selfIP = Pick(r, U32IP(to+1), U32IP(from-1), net.IPv4(192, 168, 77, 1))
		return "self-out"
	case "self-none":
		*selfIP = nil
		return "self-none"
	case "c-mac":
		pc.Client[Pick(r, "zz:00:00:00:00:01", "02:00:00:00:00", "0200.0000", "")] = &pb.ClientConfig{}
		return "c-mac"
	case "c-ip":
		pc.Client["02:00:00:00:cc:01"] = &pb.ClientConfig{Ip: badIP()}
		return "c-ip"
	case "c-router":
		pc.Client["02:00:00:00:cc:02"] = &pb.ClientConfig{Router: badIP()}
		return "c-router"
	case "c-dns":
		pc.Client["02:00:00:00:cc:03"] = &pb.ClientConfig{Dns: Pick(r, []string{"8.8.8.8", badIP()}, []string{"", "8.8.8.8"}, []string{"8.8.8.8", ""})}
		return "c-dns"
	case "c-ntp":
		pc.Client["02:00:00:00:cc:04"] = &pb.ClientConfig{Ntp: []string{badIP()}}
		return "c-ntp"
	case "c-dns-many":
		pc.Client["02:00:00:00:cc:05"] = &pb.ClientConfig{Dns: manyIPs(64)}
		return "c-dns-many"
	case "c-host-long":
		pc.Client["02:00:00:00:cc:06"] = &pb.ClientConfig{Hostname: Pick(r, strings.Repeat("h", 256), strings.Repeat("ü", 128), strings.Repeat("h", 254)+"ß")}
		return "c-host-long"
	case "c-ip-out":
		pc.Client["02:00:00:00:cc:07"] = &pb.ClientConfig{Ip: U32IP(to + 2).String()}
		return "c-ip-out"
	case "c-ip-netaddr":
		if c.Plen > 30 {
			return ""
		}
		pc.Client["02:00:00:00:cc:0b"] = &pb.ClientConfig{Ip: Pick(r, U32IP(c.Start()), U32IP(c.Start()+c.Size()-1)).String()}
		return "c-ip-netaddr"
	case "c-dup-ip":
		free := uint32(0)
		for a := from; a <= to; a++ {
			if a != IPU32(c.SelfIP) {
				used := false
				for _, cl := range c.Clients {
					if cl.IP != nil && IPU32(cl.IP) == a {
						used = true
					}
				}
				if !used {
					free = a
					break
				}
			}
		}
		if free == 0 {
			return ""
		}
		pc.Client["02:00:00:00:cc:08"] = &pb.ClientConfig{Ip: U32IP(free).String()}
		pc.Client["02:00:00:00:cc:09"] = &pb.ClientConfig{Ip: U32IP(free).String()}
		return "c-dup-ip"
	case "c-dup-mac":
		k, v := anyClient()
		alt := Pick(r, "02-00-00-00-CC-0A", "0200.0000.cc0a", "02:00:00:00:CC:0A")
		if k != "" && r.Bool() {
			hw, _ := net.ParseMAC(k)
			alt = strings.ToUpper(strings.ReplaceAll(hw.String(), ":", "-"))
			if alt == k {
				return ""
			}
			pc.Client[alt] = &pb.ClientConfig{Hostname: "dup"}
			_ = v
			return "c-dup-mac"
		}
		pc.Client["02:00:00:00:cc:0a"] = &pb.ClientConfig{Hostname: "one"}
		pc.Client[alt] = &pb.ClientConfig{Hostname: "two"}
		return "c-dup-mac"
	case "c-ip-self":
		pc.Client["02:00:00:00:cc:0c"] = &pb.ClientConfig{Ip: c.SelfIP.String()}
		return "c-ip-self"
	}
	return ""
}

// TestCfgNew: C18 (and the configuration side of C07) — server.New on valid and faulty
// configurations; for the valid ones every configured client then DISCOVERs and the OFFER is
// compared with the model and checked by the monitor.
func TestCfgNew(t *testing.T) {
	r := NewRng(Seed(), "cfgnew")
	s := NewStream("cfgnew")
	defer s.Close()
	n := EnvInt("HX_N", 600)
	if Thorough() {
		n = 12000
	}
	for i := 0; i < n; i++ {
		c := GenSrvConf(r)
		if r.Chance(40) { // spell the keys differently
			for k := range c.Clients {
				m := c.Clients[k].MAC
				c.Clients[k].Key = Pick(r, m.String(), strings.ToUpper(m.String()), strings.ReplaceAll(m.String(), ":", "-"),
					fmt.Sprintf("%02x%02x.%02x%02x.%02x%02x", m[0], m[1], m[2], m[3], m[4], m[5]), strings.ToUpper(strings.ReplaceAll(m.String(), ":", "-")))
			}
		}
		if r.Chance(20) { // boundary values that are still valid
			c.DNS = nil
			for _, x := range manyIPs(63) {
				c.DNS = append(c.DNS, net.ParseIP(x))
			}
			c.Domain = strings.Repeat("d", 255)
		}
		pc := c.Proto()
		selfIP := c.SelfIP
		var faults []string
		nf := Pick(r, 0, 0, 1, 1, 1, 2)
		for k := 0; k < nf; k++ {
			if f := injectFault(r, c, pc, &selfIP); f != "" {
				faults = append(faults, f)
			}
		}
		synctest.Test(t, func(t *testing.T) {
			t0 := time.Now().UnixNano()
			line := RawLine(t0, pc, selfIP, c.SelfMAC)
			env, err := StartServerProto(c, pc, selfIP)
			ans := "ok"
			if err != nil {
				ans = "err"
			}
			s.Op(line, ans, len(faults) > 0)
			s.Count(fmt.Sprintf("faults=%d/%s", len(faults), ans))
			for _, f := range faults {
				s.Count("fault/" + f + "/" + ans)
			}
			if (len(faults) > 0) != (err != nil) {
				what := "a valid configuration was refused"
				if err == nil {
					what = "an invalid configuration was accepted: " + strings.Join(faults, "+")
				}
				s.Find(Finding{Property: "C18", Signature: "new:" + strings.Join(faults, "+") + ":" + ans, Stream: "cfgnew", What: what, Ops: []string{line},
					Observed: fmt.Sprintf("%v", err), Config: fmt.Sprintf("%v", pc)})
			}
			if err != nil {
				return
			}
			synctest.Wait()
			// every configured value is in effect: each client (and a stranger) DISCOVERs
			mon := NewSrvMonitor(c, s, line)
			mon.respTable = env.Resp
			macs := []net.HardwareAddr{{2, 0, 0, 0, 0xdd, 1}}
			for _, cl := range c.Clients {
				macs = append(macs, cl.MAC)
			}
			for k, mac := range macs {
				frame := MsgSpec{Type: 1, MAC: mac, Xid: uint32(0x1000 + k)}.Frame()
				trx := time.Now().UnixNano()
				env.Take()
				env.Seg.Inject(0x0800, frame)
				time.Sleep(8 * time.Second)
				synctest.Wait()
				sent, inj := env.Take()
				obs := Observe(trx, sent, inj)
				op := fmt.Sprintf("rx t=%d b=%s d=%d tend=%d probes=%s", trx, Hex(frame), obs.D, obs.Tend, obs.ProbesStr())
				s.Op(op, obs.Answer(), true)
				mon.Step(trx, frame, obs, op)
				// C18: every configured value is in effect, nothing is silently dropped
				st := mon.staticOf(mac)
				var got net.IP
				if len(obs.Tx) > 0 {
					if rp := ParseReply(obs.Tx[0]); rp != nil && rp.Type == 2 {
						got = rp.Yiaddr
					}
				}
				inEffect := func(what, observed string) {
					s.Find(Finding{Property: "C18", Signature: "not-in-effect:" + what, Stream: "cfgnew", What: "a configured value is not in effect: " + what,
						Ops: []string{line, op}, Observed: observed, Config: fmt.Sprintf("%v", pc)})
				}
				if c.StaticOnly && st == nil && got != nil {
					inEffect("static_only", "a client without static entry was offered "+got.String())
				}
				if st != nil && (got == nil || !got.Equal(st)) {
					inEffect("static address", fmt.Sprintf("client %s configured for %s was offered %v", mac, st, got))
				}
				if st == nil && got != nil && c.DynFrom != nil && (IPU32(got) < IPU32(c.DynFrom) || IPU32(got) > IPU32(c.DynTo)) {
					inEffect("dynamic_range", "offered "+got.String()+" outside "+c.DynFrom.String()+"-"+c.DynTo.String())
				}
			}
			// a stranger that "reboots" with an address of the network the configuration does not let it have (outside the dynamic
			// range, or any address under static_only): the request must not be acknowledged
			{
				want := uint32(0)
				lo, hi := IPU32(c.SelfIP)&^uint32(1<<(32-c.Plen)-1)+2, IPU32(c.SelfIP)|uint32(1<<(32-c.Plen)-1)-1
				for a := hi; a >= lo && a != 0; a-- {
					taken := a == IPU32(c.SelfIP) || a&0xff == 0 || a&0xff == 0xff
					for _, cl := range c.Clients {
						taken = taken || (cl.IP != nil && IPU32(cl.IP) == a)
					}
					inDyn := c.DynFrom != nil && a >= IPU32(c.DynFrom) && a <= IPU32(c.DynTo)
					if !taken && (c.StaticOnly || (c.DynFrom != nil && !inDyn)) {
						want = a
						break
					}
				}
				if want != 0 {
					frame := MsgSpec{Type: 3, MAC: net.HardwareAddr{2, 0, 0, 0, 0xdd, 2}, Xid: 0x2000, ReqIP: U32IP(want)}.Frame()
					trx := time.Now().UnixNano()
					env.Take()
					env.Seg.Inject(0x0800, frame)
					time.Sleep(8 * time.Second)
					synctest.Wait()
					sent, inj := env.Take()
					obs := Observe(trx, sent, inj)
					op := fmt.Sprintf("rx t=%d b=%s d=%d tend=%d probes=%s", trx, Hex(frame), obs.D, obs.Tend, obs.ProbesStr())
					s.Op(op, obs.Answer(), true)
					mon.Step(trx, frame, obs, op)
					if len(obs.Tx) > 0 {
						if rp := ParseReply(obs.Tx[0]); rp != nil && rp.Type == 5 {
							s.Find(Finding{Property: "C18", Signature: "not-in-effect:range-on-request", Stream: "cfgnew",
								What:     "a configured value is not in effect: dynamic_range / static_only (a client without reservation was acknowledged an address outside the dynamic range on a REQUEST)",
								Ops:      []string{line, op}, Observed: "ACK " + rp.Yiaddr.String(), Config: fmt.Sprintf("%v", pc)})
						}
					}
				}
			}
			env.Stop()
			synctest.Wait()
		})
	}
}
