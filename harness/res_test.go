package hx

import (
	"context"
	"fmt"
	"io"
	"log"
	"net"
	"runtime"
	"strings"
	"testing"
	"testing/synctest"
	"time"

	"git.sr.ht/~adrian-blx/psa-dhcp/lib/arpping"
	"git.sr.ht/~adrian-blx/psa-dhcp/lib/client/dclient"
	"git.sr.ht/~adrian-blx/psa-dhcp/lib/client/msgtmpl"
	vy "git.sr.ht/~adrian-blx/psa-dhcp/lib/client/verify"
	"git.sr.ht/~adrian-blx/psa-dhcp/lib/dhcpmsg"
	"git.sr.ht/~adrian-blx/psa-dhcp/lib/layer"
	"git.sr.ht/~adrian-blx/psa-dhcp/lib/libif"
	"git.sr.ht/~adrian-blx/psa-dhcp/lib/rsocks"
)

var kindNames = [rsocks.NumKinds]string{"iprecv", "arprecv", "ipsend", "ucastsend", "arpsend"}

func counters(seg *rsocks.Segment) string {
	o, c, live := seg.Counters()
	var p []string
	for k := 0; k < rsocks.NumKinds; k++ {
		p = append(p, fmt.Sprintf("%s=%d/%d", kindNames[k], o[k], c[k]))
	}
	return strings.Join(p, " ") + fmt.Sprintf(" liverecv=%d", live)
}

// resCase is one fault-enumeration case: what runs, which fault, when the context is cancelled.
type resCase struct {
	fn       string // ping | sendmsg | catch | server
	failOpen int
	failWr   int
	failRd   int
	cancelAt time.Duration // <0: never (let it finish)
	answer   string        // ping: none | foreign | noise ; catch: none | pass | junk
}

func (c resCase) String() string {
	return fmt.Sprintf("fn=%s failopen=%d failwrite=%d failread=%d cancel=%d answer=%s", c.fn, c.failOpen, c.failWr, c.failRd, int64(c.cancelAt), c.answer)
}

// TestResFaults: C19 — sockets opened = sockets closed and no helper goroutine left at quiescence,
// for every single fault position and cancellation instant; prompt return on cancel.
func TestResFaults(t *testing.T) {
	r := NewRng(Seed(), "resfaults")
	s := NewStream("resfaults")
	defer s.Close()
	var cases []resCase
	for _, fn := range []string{"ping", "sendmsg", "sendrenew", "catch", "server"} {
		answers := map[string][]string{"ping": {"none", "foreign", "noise"}, "sendmsg": {"none"}, "sendrenew": {"foreign", "none"}, "catch": {"none", "pass", "junk"}, "server": {"none", "foreign"}}[fn]
		for _, a := range answers {
			cases = append(cases, resCase{fn: fn, cancelAt: -1, answer: a})
			for n := 1; n <= 6; n++ {
				cases = append(cases, resCase{fn: fn, failOpen: n, cancelAt: -1, answer: a})
			}
			for n := 1; n <= 3; n++ {
				cases = append(cases, resCase{fn: fn, failWr: n, cancelAt: -1, answer: a}, resCase{fn: fn, failRd: n, cancelAt: -1, answer: a})
			}
			for _, at := range []time.Duration{0, time.Millisecond, 49 * time.Millisecond, 50 * time.Millisecond, 199 * time.Millisecond, 200 * time.Millisecond, 201 * time.Millisecond,
				650 * time.Millisecond, 700 * time.Millisecond, 1500 * time.Millisecond} {
				cases = append(cases, resCase{fn: fn, cancelAt: at, answer: a})
			}
		}
	}
	// the whole client automaton against a scripted server: cancelled while discovering (silent server), while bound,
	// and inside the 30 s back-off that follows an address conflict or a failed interface configuration
	for _, a := range []string{"none", "pass", "foreign", "ifacefail"} {
		for _, at := range []time.Duration{2 * time.Second, 7 * time.Second, 20 * time.Second, 29 * time.Second, 45 * time.Second, 100 * time.Second} {
			cases = append(cases, resCase{fn: "client", cancelAt: at, answer: a})
		}
		for n := 1; n <= 4; n++ {
			cases = append(cases, resCase{fn: "client", failOpen: n, cancelAt: 50 * time.Second, answer: a})
		}
	}
	if Thorough() { // pairs: a fault together with a cancellation instant
		for _, fn := range []string{"ping", "sendmsg", "catch", "server"} {
			for n := 1; n <= 4; n++ {
				for _, at := range []time.Duration{0, 60 * time.Millisecond, 250 * time.Millisecond, 900 * time.Millisecond} {
					cases = append(cases, resCase{fn: fn, failOpen: n, cancelAt: at, answer: "none"}, resCase{fn: fn, failWr: n, cancelAt: at, answer: "none"},
						resCase{fn: fn, failRd: n, cancelAt: at, answer: "foreign"})
				}
			}
		}
		for i := 0; i < 1500; i++ {
			cases = append(cases, resCase{fn: Pick(r, "ping", "sendmsg", "catch", "server"), failOpen: r.Intn(5), failWr: r.Intn(4), failRd: r.Intn(4),
				cancelAt: time.Duration(r.Intn(2000)) * time.Millisecond, answer: Pick(r, "none", "foreign", "pass", "junk")})
		}
	}
	for _, c := range cases {
		c := c
		synctest.Test(t, func(t *testing.T) { runResCase(t, s, c) })
	}
}

func runResCase(t *testing.T, s *Stream, c resCase) {
	iface := &net.Interface{Index: 70, Name: "r70", HardwareAddr: net.HardwareAddr{2, 0, 0, 0, 0, 0x70}, MTU: 1500}
	rsocks.ResetSeg(iface)
	seg := rsocks.Seg(iface)
	seg.FailOpenAt, seg.FailWriteAt, seg.FailReadAt = c.failOpen, c.failWr, c.failRd
	target := net.IPv4(10, 0, 0, 9)
	if c.fn == "client" {
		target = net.IPv4(10, 0, 0, 77)
		if c.answer == "ifacefail" {
			libif.PlanSetIface(iface, fmt.Errorf("injected"))
		} else {
			libif.PlanSetIface(iface)
		}
	}
	seg.OnSend = func(f rsocks.Frame) {
		if c.fn == "client" && f.Proto == 0x0800 && c.answer != "none" { // scripted server: OFFER for DISCOVER, ACK for REQUEST
			if ip, err := layer.DecodeIPv4(f.Payload); err == nil {
				if u, err := layer.DecodeUDP(ip.Data); err == nil && u.DstPort == 67 {
					if m, err := dhcpmsg.Decode(u.Data); err == nil {
						mt := dhcpmsg.DecodeOptions(m.Options).MessageType
						sp := replySpec{proto: 0x11, dport: 68, chaddr: iface.HardwareAddr, xid: m.Xid, mtype: 2, yiaddr: net.IPv4(10, 0, 0, 77), sid: []byte{10, 0, 0, 1}, routers: []byte{10, 0, 0, 1}, lease: []byte{0, 0, 1, 0}, op: 2}
						if mt == 3 {
							sp.mtype = 5
						}
						go func() {
							time.Sleep(10 * time.Millisecond)
							seg.Inject(0x0800, sp.frame())
						}()
					}
				}
			}
			return
		}
		if f.Proto != 0x0806 || c.answer == "none" || (c.fn == "client" && c.answer != "foreign") {
			return
		}
		sip := target
		if c.answer == "noise" || c.answer == "junk" {
			sip = net.IPv4(10, 0, 0, 8)
		}
		reply := layer.ARP{Opcode: 2, SenderMAC: net.HardwareAddr{6, 6, 6, 6, 6, 6}, SenderIP: sip, TargetMAC: f.Payload[8:14], TargetIP: net.IP(f.Payload[14:18])}.Assemble()
		go func() {
			time.Sleep(20 * time.Millisecond)
			seg.Inject(0x0806, reply)
		}()
	}
	synctest.Wait()
	base := runtime.NumGoroutine()
	ctx, cancel := context.WithCancel(context.Background())
	defer cancel()
	done := make(chan string, 1)
	t0 := time.Now()
	var returnedAt time.Duration = -1
	longRunning := false
	switch c.fn {
	case "ping":
		go func() {
			_, err := arpping.Ping(ctx, iface, net.IPv4(10, 0, 0, 1), target)
			returnedAt = time.Since(t0)
			done <- fmt.Sprint(err == nil)
		}()
	case "sendrenew": // the renewing template: an ARP lookup of the server, then a unicast socket (or the broadcast fallback)
		target = net.IPv4(10, 0, 0, 1)
		f, _ := msgtmpl.RequestRenewing(iface, net.IPv4(10, 0, 0, 77), target)
		longRunning = true
		go func() {
			err := dclient.VerifSendMessage(ctx, iface, f)
			returnedAt = time.Since(t0)
			done <- fmt.Sprint(err == nil)
		}()
	case "sendmsg":
		f, _ := msgtmpl.Discover(iface)
		longRunning = true
		go func() {
			err := dclient.VerifSendMessage(ctx, iface, f)
			returnedAt = time.Since(t0)
			done <- fmt.Sprint(err == nil)
		}()
	case "catch":
		longRunning = true
		go func() {
			_, _, err := dclient.VerifCatchReply(ctx, iface, vy.VerifyOffer(7))
			returnedAt = time.Since(t0)
			done <- fmt.Sprint(err == nil)
		}()
		go func() {
			time.Sleep(30 * time.Millisecond)
			sp := replySpec{proto: 0x11, dport: 68, chaddr: iface.HardwareAddr, xid: 7, mtype: 2, yiaddr: net.IPv4(10, 0, 0, 77), sid: []byte{10, 0, 0, 1}, routers: []byte{10, 0, 0, 1}, lease: []byte{0, 0, 1, 0}, op: 2}
			switch c.answer {
			case "pass":
				seg.Inject(0x0800, sp.frame())
			case "junk":
				sp.xid = 8
				seg.Inject(0x0800, sp.frame())
				seg.Inject(0x0800, []byte{1, 2, 3})
			}
		}()
	case "client":
		longRunning = true
		nop := func(context.Context, *libif.Ifconfig) {}
		dx := dclient.New(ctx, iface, log.New(io.Discard, "", 0), nop, nop)
		go func() {
			dx.Run()
			returnedAt = time.Since(t0)
			done <- "true"
		}()
	case "server":
		longRunning = true
		conf := &SrvConf{Base: 10 << 24, Plen: 24, SelfIP: net.IPv4(10, 0, 0, 1), SelfMAC: iface.HardwareAddr, Lease: time.Hour,
			DynFrom: net.IPv4(10, 0, 0, 9), DynTo: net.IPv4(10, 0, 0, 10), Router: net.IPv4(10, 0, 0, 1)}
		sx, err := newServerOn(ctx, iface, conf)
		if err != nil {
			t.Fatal(err)
		}
		go func() {
			err := sx.Run()
			returnedAt = time.Since(t0)
			done <- fmt.Sprint(err == nil)
		}()
		go func() { // one DISCOVER and one REQUEST keep the handlers busy
			time.Sleep(time.Millisecond)
			mac := net.HardwareAddr{2, 0, 0, 0, 0, 0x77}
			seg.Inject(0x0800, MsgSpec{Type: 1, MAC: mac, Xid: 1}.Frame())
			time.Sleep(3 * time.Second) // after the DISCOVER's handler is done: overlapping handlers block on the IPDB mutex, which freezes a synctest bubble
			seg.Inject(0x0800, MsgSpec{Type: 3, MAC: mac, Xid: 2, ReqIP: net.IPv4(10, 0, 0, 9), SrvID: net.IPv4(10, 0, 0, 1)}.Frame())
			seg.Inject(0x0800, MsgSpec{Type: 3, MAC: mac, Xid: 3, ReqIP: net.IPv4(10, 0, 0, 77), SrvID: net.IPv4(10, 0, 0, 1)}.Frame())
		}()
	}
	cancelled := false
	var cancelTime time.Duration
	if c.cancelAt >= 0 {
		time.Sleep(c.cancelAt)
		cancelTime = time.Since(t0)
		cancel()
		cancelled = true
	}
	// let everything that is going to happen, happen
	time.Sleep(5 * time.Second)
	synctest.Wait()
	ret := "running"
	select {
	case v := <-done:
		ret = "returned:" + v
	default:
	}
	op := "resfn " + c.String()
	quiescent := ret != "running"
	if !quiescent && !cancelled && longRunning {
		// a loop that legitimately runs until cancelled: cancel now and require a prompt return
		cancelTime = time.Since(t0)
		cancel()
		cancelled = true
		time.Sleep(5 * time.Second)
		synctest.Wait()
		select {
		case v := <-done:
			ret = "returned:" + v
		default:
		}
	}
	o, cl, live := seg.Counters()
	gor := runtime.NumGoroutine() - base
	fail := func(sig, what string) {
		s.Find(Finding{Property: "C19", Signature: c.fn + ":" + sig, Stream: "resfaults", What: what, Ops: []string{op}, Observed: fmt.Sprintf("%s %s goroutines=+%d", ret, counters(seg), gor)})
	}
	if ret == "running" {
		fail("no-return", "the function did not return after its context was cancelled")
	} else if cancelled && returnedAt > cancelTime+time.Millisecond && returnedAt >= 0 && cancelTime >= 0 && returnedAt-cancelTime > 0 {
		// returned later than the cancellation: must be prompt (the same virtual instant)
		if returnedAt-cancelTime > time.Millisecond {
			fail("slow-shutdown", fmt.Sprintf("returned %v after the context was cancelled", returnedAt-cancelTime))
		}
	}
	leak := false
	for k := 0; k < rsocks.NumKinds; k++ {
		if o[k] != cl[k] {
			leak = true
		}
	}
	if leak || live != 0 {
		fail("socket-leak", "a socket that was opened has not been closed once activity ceased")
	}
	if gor != 0 {
		fail("goroutine-leak", "a helper goroutine remains once activity ceased")
	}
	var tot, totc int
	for k := 0; k < rsocks.NumKinds; k++ {
		tot += o[k]
		totc += cl[k]
	}
	s.Op(op, fmt.Sprintf("balanced=%v goroutines=%d", !leak && live == 0, gor), tot > 0)
	s.Count(fmt.Sprintf("%s/%s/opens=%d", c.fn, strings.SplitN(ret, ":", 2)[0], min(tot, 9)))
	// correspondence with the discipline model, per socket kind that was used exactly once
	if c.fn == "ping" || c.fn == "catch" || c.fn == "sendmsg" {
		type inst struct {
			kind int
			disc string
		}
		var insts []inst
		switch c.fn {
		case "ping":
			insts = []inst{{rsocks.KindARPRecv, "closerOnCancel"}, {rsocks.KindARPSend, "deferClose"}}
		case "catch":
			insts = []inst{{rsocks.KindIPRecv, "closerOnCancel"}}
		case "sendmsg":
			insts = []inst{{rsocks.KindIPSend, "deferClose"}}
		}
		for _, in := range insts {
			if o[in.kind] > 1 {
				continue
			}
			outs := "openFails"
			if o[in.kind] == 1 {
				outs = "ioOk,parentCancelled,ioFails"
			}
			s.Op(fmt.Sprintf("res disc=%s outcomes=%s", in.disc, outs), fmt.Sprintf("opened=%d closed=%d running=0 closer=0", o[in.kind], cl[in.kind]), true)
		}
	}
	cancel()
	time.Sleep(time.Second)
	synctest.Wait()
	_ = dhcpmsg.OpReply
}
