package hx

import (
	"bytes"
	"fmt"
	"net"
	"strings"
	"sync"
	"testing"
	"time"
)

// TestSrvOverlap: C04 under overlapping exchanges of ONE client, in real time (a handler waits ~600 ms in its ARP probe
// without holding the database lock; the virtual clock cannot run a second handler through the lock meanwhile).
// A client holds a pending offer for A that is about to run out and REQUESTs A; while that handler probes, the offer lapses
// and a DISCOVER of the same client for another address B — which the client itself answers ARP for, so the search returns
// at once — leaves it bound to B. Whatever the server then does with the REQUEST, an ACK must carry the address the
// REQUEST designated. 24 servers side by side over a grid of arrival offsets; one batch lasts the 15 s hold plus ~4 s.
func TestSrvOverlap(t *testing.T) {
	r := NewRng(Seed(), "srvoverlap")
	s := NewStream("srvoverlap")
	defer s.Close()
	n := EnvInt("HX_N", 24)
	if Thorough() {
		n = 96
	}
	var wg sync.WaitGroup
	for i := 0; i < n; i++ {
		reqBefore := time.Duration(150+150*(i%4)) * time.Millisecond // the REQUEST arrives this long before the hold runs out
		discAfter := time.Duration(100*((i/4)%3)) * time.Millisecond // the DISCOVER for B this long after the REQUEST
		seed := r.U64()
		wg.Add(1)
		go func(i int) {
			defer wg.Done()
			overlapScenario(s, &Rng{s: seed}, i, reqBefore, discAfter)
		}(i)
		time.Sleep(5 * time.Millisecond)
	}
	wg.Wait()
}

func overlapScenario(s *Stream, r *Rng, idx int, reqBefore, discAfter time.Duration) {
	c := &SrvConf{Base: uint32(10)<<24 | uint32(200+idx%50)<<8, Plen: 24, SelfMAC: srvMAC, Lease: time.Hour}
	c.SelfIP = U32IP(c.Base + 1)
	c.DynFrom, c.DynTo = U32IP(c.Base+100), U32IP(c.Base+107)
	c.Router, c.DNS = U32IP(c.Base+1), []net.IP{net.IPv4(8, 8, 8, 8)}
	envMu.Lock()
	env, err := StartServer(c)
	envMu.Unlock()
	if err != nil {
		return
	}
	defer env.Stop()
	time.Sleep(20 * time.Millisecond)
	mac := net.HardwareAddr{2, 0, byte(idx), 0, 0xd0, 1}
	cid := bytes.Repeat([]byte{byte(0x40 + idx%16)}, 7)
	type reply struct {
		at     time.Time
		typ    uint8
		yiaddr net.IP
		xid    uint32
	}
	var mu sync.Mutex
	var got []reply
	var hist []string
	logf := func(f string, a ...interface{}) {
		mu.Lock()
		hist = append(hist, fmt.Sprintf("%6dms ", time.Now().UnixMilli()%1000000)+fmt.Sprintf(f, a...))
		mu.Unlock()
	}
	stop := make(chan struct{})
	var cwg sync.WaitGroup
	cwg.Add(1)
	go func() {
		defer cwg.Done()
		tick := time.NewTicker(5 * time.Millisecond)
		defer tick.Stop()
		for {
			select {
			case <-stop:
				return
			case <-tick.C:
			}
			sent, _ := env.Take()
			for _, f := range sent {
				if f.Proto != 0x0800 {
					continue
				}
				if rp := ParseReply(f); rp != nil && bytes.Equal(rp.Chaddr, mac) {
					mu.Lock()
					got = append(got, reply{time.Now(), rp.Type, rp.Yiaddr, rp.Xid})
					mu.Unlock()
					logf("reply type=%d yiaddr=%v xid=%d", rp.Type, rp.Yiaddr, rp.Xid)
				}
			}
		}
	}()
	xid := uint32(0x70000000) | uint32(idx)<<8
	send := func(m MsgSpec) uint32 {
		xid++
		m.MAC, m.Cid, m.Xid = mac, cid, xid
		logf("send type=%d req=%v xid=%d", m.Type, m.ReqIP, xid)
		env.Seg.Inject(0x0800, m.Frame())
		return xid
	}
	send(MsgSpec{Type: 1})
	var a net.IP
	var tOffer time.Time
	for k := 0; k < 400 && a == nil; k++ {
		time.Sleep(10 * time.Millisecond)
		mu.Lock()
		for _, g := range got {
			if g.typ == 2 {
				a, tOffer = g.yiaddr, g.at
			}
		}
		mu.Unlock()
	}
	if a == nil {
		close(stop)
		cwg.Wait()
		return
	}
	b := U32IP(IPU32(c.DynFrom) + 5)
	if b.Equal(a) {
		b = U32IP(IPU32(c.DynFrom) + 6)
	}
	env.mu.Lock()
	env.Resp[IPU32(b)] = &Responder{MAC: mac, Delay: 2 * time.Millisecond} // the client itself uses B: the search takes it at once
	env.mu.Unlock()
	time.Sleep(time.Until(tOffer.Add(15*time.Second - reqBefore)))
	reqXid := send(MsgSpec{Type: 3, ReqIP: a, SrvID: c.SelfIP})
	time.Sleep(discAfter)
	send(MsgSpec{Type: 1, ReqIP: b})
	time.Sleep(2500 * time.Millisecond)
	close(stop)
	cwg.Wait()
	mu.Lock()
	defer mu.Unlock()
	op := fmt.Sprintf("note overlap req-before-lapse=%v discover-after=%v A=%v B=%v", reqBefore, discAfter, a, b)
	s.Op(op, "ok", true)
	outcome := "silent"
	for _, g := range got {
		if g.xid != reqXid {
			continue
		}
		switch g.typ {
		case 5:
			outcome = "ack"
			if !g.yiaddr.Equal(a) {
				outcome = "ack-other"
				s.Find(Finding{Property: "C04", Signature: "ack-other-than-designated", Stream: "srvoverlap",
					What:     "a REQUEST was acknowledged with an address other than the one it designates (an overlapping exchange of the same client moved its binding while the handler was probing)",
					Ops:      append([]string{op}, hist...), Config: c.Line(0), Expected: "ACK yiaddr=" + a.String() + " or no ACK", Observed: "ACK yiaddr=" + g.yiaddr.String()})
			}
		case 6:
			outcome = "nak"
		}
	}
	s.Count("request-outcome=" + outcome)
}

func init() {
	// replay: the same arrival offsets against a fresh server (real time, ~19 s); the verdict is printed
	scriptReplayers["srvoverlap"] = func(t *testing.T, s *Stream, rp *Replay) {
		var rb, da time.Duration
		for _, f := range strings.Fields(rp.Ops[0]) {
			if v, ok := strings.CutPrefix(f, "req-before-lapse="); ok {
				rb, _ = time.ParseDuration(v)
			}
			if v, ok := strings.CutPrefix(f, "discover-after="); ok {
				da, _ = time.ParseDuration(v)
			}
		}
		for k := 0; k < 4; k++ { // the server's own random handler delay decides whether the window is hit: a few attempts
			overlapScenario(s, &Rng{s: uint64(1 + k)}, 40+k, rb, da)
		}
		for _, f := range s.Finds {
			t.Logf("finding: %s — %s (%s)", f.Signature, f.What, f.Observed)
		}
		t.Logf("replayed overlap scenario x4 (req-before-lapse=%v discover-after=%v): %d findings", rb, da, len(s.Finds))
	}
}
