package hx

import (
	"bytes"
	"fmt"
	"net"
	"strings"
	"testing"
	"testing/synctest"
	"time"

	"git.sr.ht/~adrian-blx/psa-dhcp/lib/dhcpmsg"
	"git.sr.ht/~adrian-blx/psa-dhcp/lib/server/replies"
)

// runSteps runs an explicit list of messages against a fresh real server (virtual clock),
// emitting `cfg` / `rx` operations and feeding the monitor. Returns the observed answers.
func runSteps(t *testing.T, s *Stream, c *SrvConf, steps []scriptStep, tag string) []Obs {
	return runStepsKeep(t, s, c, steps, tag, nil)
}

// runStepsKeep: like runSteps; `more`, if given, is asked once for follow-up steps after the first batch.
func runStepsKeep(t *testing.T, s *Stream, c *SrvConf, steps []scriptStep, tag string, more func([]Obs) []scriptStep) []Obs {
	env, err := StartServer(c)
	t0 := time.Now().UnixNano()
	cfgLine := c.Line(t0)
	if err != nil {
		s.Op(cfgLine, "err:"+strings.ReplaceAll(err.Error(), " ", "_"), false)
		return nil
	}
	s.Op(cfgLine, "ok", true)
	synctest.Wait()
	mon := NewSrvMonitor(c, s, cfgLine)
	mon.respTable = env.Resp
	df, dt := c.DynRange()
	settle := time.Duration(60+(int64(dt-df)+2)*650) * time.Millisecond
	var out []Obs
	for i := 0; i < len(steps); i++ {
		st := steps[i]
		time.Sleep(st.Gap)
		frame := st.Raw
		if frame == nil {
			frame = st.Msg.Frame()
		}
		trx := time.Now().UnixNano()
		env.Take()
		s.Pending(append(append([]string{cfgLine}, mon.hist...), fmt.Sprintf("rx t=%d b=%s d=0 tend=%d probes=-", trx, Hex(frame), trx)))
		env.Seg.Inject(0x0800, frame)
		time.Sleep(settle)
		synctest.Wait()
		sent, inj := env.Take()
		obs := Observe(trx, sent, inj)
		op := fmt.Sprintf("rx t=%d b=%s d=%d tend=%d probes=%s", trx, Hex(frame), obs.D, obs.Tend, obs.ProbesStr())
		ans := obs.Answer()
		s.Op(op, ans, ans != "silent")
		s.Count(tag + "/" + st.Kind + "/" + strings.SplitN(ans, " ", 2)[0])
		mon.Step(trx, frame, obs, op)
		out = append(out, obs)
		if i == len(steps)-1 && more != nil {
			steps = append(steps, more(out)...)
			more = nil
		}
	}
	env.Stop()
	synctest.Wait()
	return out
}

// TestReqMatrix: C04 — the full matrix of IP destination x server identifier x requested address x
// source address x sender's binding x sender identity, each cell against a fresh real server,
// followed by two probe messages that reveal whether state changed.
// retainedFrames: a reply frame must not change once it is assembled — handlers run concurrently and each holds its
// frame until the socket write; a frame that lives in a recycled buffer is overwritten by the next reply (C06: the reply
// then carries another client's transaction id, hardware address and address).
func retainedFrames(s *Stream) {
	self := net.IPv4(10, 0, 0, 1)
	optsA := []dhcpmsg.DHCPOpt{dhcpmsg.OptionSubnetMask(net.IPv4Mask(255, 255, 255, 0)), dhcpmsg.OptionRouter(self)}
	type asm func(uint32, net.IP, net.HardwareAddr) []byte
	kinds := map[string]asm{
		"offer": func(x uint32, ip net.IP, m net.HardwareAddr) []byte { return replies.AssembleOffer(x, 0, self, ip, m, optsA) },
		"ack":   func(x uint32, ip net.IP, m net.HardwareAddr) []byte { return replies.AssembleACK(x, 0x8000, self, ip, m, optsA) },
		"nak":   func(x uint32, ip net.IP, m net.HardwareAddr) []byte { return replies.AssembleNACK(x, self, m) },
	}
	for _, k1 := range []string{"offer", "ack", "nak"} {
		for _, k2 := range []string{"offer", "ack", "nak"} {
			for round := 0; round < 4; round++ {
				f1 := kinds[k1](0x1111, net.IPv4(10, 0, 0, 50), net.HardwareAddr{2, 0, 0, 0, 0, 0xa1})
				before := append([]byte(nil), f1...)
				_ = kinds[k2](0x2222, net.IPv4(10, 0, 0, 60), net.HardwareAddr{2, 0, 0, 0, 0, 0xb2})
				s.Count("retained-frames")
				if !bytes.Equal(before, f1) {
					for _, pid := range []string{"C06", "C09"} {
						s.Find(Finding{Property: pid, Stream: "reqmatrix", Signature: "retained-frames",
							What: "a reply frame changed after it was assembled when the next reply was assembled (shared buffer between handlers): the reply no longer echoes its own request",
							Ops: []string{"assemble " + k1 + " xid=1111 for 02:00:00:00:00:a1", "assemble " + k2 + " xid=2222 for 02:00:00:00:00:b2"}, Expected: Hex(before), Observed: Hex(f1)})
					}
					return
				}
			}
		}
	}
}

func TestReqMatrix(t *testing.T) {
	s := NewStream("reqmatrix")
	defer s.Close()
	retainedFrames(s)
	base := uint32(10)<<24 | 5<<8
	self := U32IP(base + 1)
	A, B := U32IP(base+100), U32IP(base+101)
	outside := net.IPv4(192, 168, 9, 9)
	other := U32IP(base + 2)
	hMAC := net.HardwareAddr{2, 0, 0, 0, 0xbb, 1}
	gMAC := net.HardwareAddr{2, 0, 0, 0, 0xbb, 2}
	lease := 5 * time.Minute
	cells := 0
	skip := 0
	for _, bind := range []string{"none", "pending", "lease", "static", "expired"} {
		for _, ident := range []string{"hw", "cid", "shortcid", "srvmac"} {
			for di, dst := range []net.IP{net.IPv4bcast, self, other} {
				for si, sid := range [][]byte{nil, self.To4(), other.To4(), {10, 5, 0}} {
					for ri, req := range [][]byte{nil, A.To4(), B.To4(), outside.To4(), self.To4(), {10, 5, 0}} {
						for ci, src := range []net.IP{net.IPv4zero, A, B, outside} {
							cells++
							c := &SrvConf{Base: base, Plen: 24, SelfIP: self, SelfMAC: srvMAC, Lease: lease, DynFrom: A, DynTo: B, Router: self}
							mac := hMAC
							var cid []byte
							switch ident {
							case "cid":
								cid = []byte{7, 7, 7, 7, 1}
							case "shortcid":
								cid = []byte{7, 7}
							case "srvmac":
								mac = srvMAC
							}
							if bind == "static" {
								c.DynFrom, c.DynTo = B, B
								c.Clients = []ClientConf{{Key: hMAC.String(), MAC: hMAC, IP: A}}
							}
							h := MsgSpec{MAC: mac, Cid: cid}
							var steps []scriptStep
							add := func(kind string, gap time.Duration, m MsgSpec) {
								steps = append(steps, scriptStep{Gap: gap, Msg: m, Kind: kind})
							}
							// G holds B throughout (unless B is the only dynamic address needed by H)
							g := MsgSpec{MAC: gMAC, Type: 1, Xid: 900, ReqIP: B}
							add("setup-g-discover", 0, g)
							g.Type, g.Xid, g.SrvID = 3, 901, self
							add("setup-g-request", time.Second, g)
							// H's binding
							if bind == "pending" || bind == "lease" || bind == "expired" {
								m := h
								m.Type, m.Xid, m.ReqIP = 1, 100, A
								add("setup-h-discover", time.Second, m)
							}
							if bind == "lease" || bind == "expired" {
								m := h
								m.Type, m.Xid, m.ReqIP, m.SrvID = 3, 101, A, self
								add("setup-h-request", time.Second, m)
							}
							gap := 2 * time.Second
							if bind == "expired" {
								gap = lease + 30*time.Second
								// keep G alive across the gap
								gr := MsgSpec{MAC: gMAC, Type: 3, Xid: 902, Src: B, Dst: self, Ciaddr: B}
								add("setup-g-renew", lease-20*time.Second, gr)
								gap = 60 * time.Second
							}
							// the cell
							m := h
							m.Type, m.Xid, m.Src, m.Dst, m.Ciaddr = 3, 200, src, dst, src
							if sid != nil {
								m.Extra = append(m.Extra, optRaw(54, sid))
							}
							if req != nil {
								m.Extra = append(m.Extra, optRaw(50, req))
							}
							add(fmt.Sprintf("cell/%s", bind), gap, m)
							// probes: what does H get now, and is G's lease untouched
							p1 := h
							p1.Type, p1.Xid = 1, 300
							add("probe-h-discover", 2*time.Second, p1)
							p2 := MsgSpec{MAC: gMAC, Type: 3, Xid: 903, Src: B, Dst: self, Ciaddr: B}
							add("probe-g-renew", time.Second, p2)
							synctest.Test(t, func(t *testing.T) { runSteps(t, s, c, steps, "matrix") })
							_, _, _, _ = di, si, ri, ci
						}
					}
				}
			}
		}
	}
	s.Dist["matrix_cells_total"] = cells
	s.Dist["matrix_cells_run"] = cells - skip
}

func init() {
	// a retained-frames finding is replayed by running the check again
	prev := scriptReplayers["reqmatrix"]
	scriptReplayers["reqmatrix"] = func(t *testing.T, s *Stream, rp *Replay) {
		if len(rp.Ops) > 0 && strings.HasPrefix(rp.Ops[0], "assemble ") {
			retainedFrames(s)
			t.Logf("retained-frames re-run: %d finding(s)", len(s.Finds))
			return
		}
		if prev != nil {
			prev(t, s, rp)
		}
	}
}
