package hx

import (
	"bytes"
	"fmt"
	"net"
	"sync"
	"testing"
	"time"
)

// TestSrvBurst: C09/C05 — ten to twelve clients DISCOVER within 50 ms of each other on a server whose pool is a whole
// /16, in real time. Their handlers queue behind each other's address search (each holds the database lock for the ~600 ms
// of its ARP probe). With tens of thousands of free addresses two searches practically never pick the same candidate, so
// handled one at a time in ANY order every one of them is offered an address: none may stay unanswered merely because the
// others' packets were in flight, however long it waited for the lock. (One unanswered client per scenario is tolerated:
// the lock is released between a search and the update that follows, so a second search can pick the same candidate with
// probability ~ clients/pool.)
func TestSrvBurst(t *testing.T) {
	r := NewRng(Seed(), "srvburst")
	s := NewStream("srvburst")
	defer s.Close()
	n := EnvInt("HX_N", 6)
	if Thorough() {
		n = 30
	}
	var wg sync.WaitGroup
	for i := 0; i < n; i++ {
		seed := r.U64()
		wg.Add(1)
		go func(i int) {
			defer wg.Done()
			burstScenario(s, &Rng{s: seed}, i)
		}(i)
		time.Sleep(20 * time.Millisecond)
	}
	wg.Wait()
}

func burstScenario(s *Stream, r *Rng, idx int) {
	k := 10 + r.Intn(3)
	c := &SrvConf{Base: uint32(10)<<24 | uint32(100+idx%100)<<16, Plen: 16, SelfMAC: srvMAC, Lease: time.Hour}
	c.SelfIP = U32IP(c.Base + 1)
	c.DynFrom, c.DynTo = U32IP(c.Base+256), U32IP(c.Base+65000)
	c.Router, c.DNS = U32IP(c.Base+1), []net.IP{net.IPv4(8, 8, 8, 8)}
	envMu.Lock()
	env, err := StartServer(c)
	envMu.Unlock()
	if err != nil {
		return
	}
	defer env.Stop()
	time.Sleep(20 * time.Millisecond)
	macs := make([]net.HardwareAddr, k)
	offered := make([]net.IP, k)
	var mu sync.Mutex
	var hist []string
	logf := func(f string, a ...interface{}) {
		mu.Lock()
		hist = append(hist, fmt.Sprintf("%6dms ", time.Now().UnixMilli()%1000000)+fmt.Sprintf(f, a...))
		mu.Unlock()
	}
	stop := make(chan struct{})
	var cwg sync.WaitGroup
	cwg.Add(1)
	go func() {
		defer cwg.Done()
		tick := time.NewTicker(5 * time.Millisecond)
		defer tick.Stop()
		for {
			select {
			case <-stop:
				return
			case <-tick.C:
			}
			sent, _ := env.Take()
			for _, f := range sent {
				if f.Proto != 0x0800 {
					continue
				}
				if rp := ParseReply(f); rp != nil && rp.Type == 2 {
					for i, m := range macs {
						if bytes.Equal(m, rp.Chaddr) {
							mu.Lock()
							offered[i] = rp.Yiaddr
							mu.Unlock()
							logf("OFFER %v to %s", rp.Yiaddr, m)
						}
					}
				}
			}
		}
	}()
	for i := range macs {
		macs[i] = net.HardwareAddr{2, 0, byte(idx), 0, 0xe0, byte(i)}
		logf("DISCOVER from %s", macs[i])
		env.Seg.Inject(0x0800, MsgSpec{Type: 1, MAC: macs[i], Cid: bytes.Repeat([]byte{byte(0x60 + i)}, 7), Xid: uint32(0x50000000 | idx<<8 | i)}.Frame())
		time.Sleep(time.Duration(r.Intn(5)) * time.Millisecond)
	}
	// each search takes ~600 ms under the lock, the handlers sleep up to 650 ms before it: k searches in a row, with margin
	time.Sleep(time.Duration(k)*700*time.Millisecond + 3*time.Second)
	close(stop)
	cwg.Wait()
	mu.Lock()
	defer mu.Unlock()
	op := fmt.Sprintf("note burst clients=%d pool=%d", k, 65000-256)
	s.Op(op, "ok", true)
	un := 0
	for _, o := range offered {
		if o == nil {
			un++
		}
	}
	s.Count(fmt.Sprintf("unanswered=%d", un))
	if un >= 2 {
		for _, p := range []string{"C09", "C05"} {
			s.Find(Finding{Property: p, Signature: "burst-unanswered", Stream: "srvburst",
				What:     "clients stayed without an offer although tens of thousands of addresses were free and nothing but other clients' DISCOVERs was in flight (handled one at a time, in any order, each of them is offered an address)",
				Ops:      append([]string{op}, hist...), Config: c.Line(0), Expected: "at most one unanswered DISCOVER (a lost race for one candidate)", Observed: fmt.Sprintf("%d of %d unanswered", un, k)})
		}
	}
}
