package hx

import (
	"net"
	"time"

	"git.sr.ht/~adrian-blx/psa-dhcp/lib/dhcpmsg"
	"git.sr.ht/~adrian-blx/psa-dhcp/lib/layer"
)

// ---------- structured generators built from the repo's own types ----------

var interestingCodes = []uint8{1, 3, 6, 12, 15, 26, 28, 42, 50, 51, 53, 54, 55, 56, 57, 58, 59, 61, 2, 254, 77}

func GenIP(r *Rng) net.IP {
	switch r.Intn(8) {
	case 0:
		return nil
	case 1:
		return net.IPv4zero
	case 2:
		return net.IPv4bcast
	case 3:
		return net.IPv4(10, 0, 0, byte(r.Intn(256)))
	case 4:
		return net.IP{10, 0, 0, byte(r.Intn(256))} // 4-byte form
	default:
		return net.IPv4(byte(r.U64()), byte(r.U64()), byte(r.U64()), byte(r.U64()))
	}
}

func GenMAC(r *Rng) net.HardwareAddr {
	switch r.Intn(10) {
	case 0:
		return net.HardwareAddr{}
	case 1:
		return net.HardwareAddr(r.Bytes(1 + r.Intn(16)))
	case 2:
		return net.HardwareAddr(r.Bytes(16))
	default:
		return net.HardwareAddr{2, 0, 0, 0, 0, byte(r.Intn(8))}
	}
}

func GenOptData(r *Rng, code uint8) []byte {
	exact := map[uint8]int{1: 4, 26: 2, 28: 4, 50: 4, 51: 4, 53: 1, 54: 4, 57: 2, 58: 4, 59: 4}
	if n, ok := exact[code]; ok && r.Chance(70) {
		return r.Bytes(n)
	}
	if (code == 3 || code == 6 || code == 42) && r.Chance(70) {
		return r.Bytes(4 * (1 + r.Intn(4)))
	}
	switch r.Intn(6) {
	case 0:
		return nil
	case 1:
		return r.Bytes(255)
	case 2:
		return r.Bytes(1 + r.Intn(8))
	default:
		return r.Bytes(r.Intn(20))
	}
}

func GenOpts(r *Rng, min int) []dhcpmsg.DHCPOpt {
	n := min + r.Intn(6)
	var out []dhcpmsg.DHCPOpt
	for i := 0; i < n; i++ {
		var code uint8
		if r.Chance(80) {
			code = interestingCodes[r.Intn(len(interestingCodes))]
		} else {
			code = uint8(1 + r.Intn(254))
		}
		out = append(out, dhcpmsg.DHCPOpt{Option: code, Data: GenOptData(r, code)})
	}
	return out
}

func GenMsg(r *Rng) dhcpmsg.Message {
	m := dhcpmsg.Message{
		Op: Pick(r, uint8(1), 1, 2, 0, 3, byte(r.U64())), Htype: Pick(r, uint8(1), 1, 6, byte(r.U64())), Hops: byte(r.Intn(3)),
		Xid: uint32(r.U64()), Secs: uint16(r.U64()), Flags: Pick(r, uint16(0), 0x8000, 0x0001, uint16(r.U64())),
		ClientIP: GenIP(r), YourIP: GenIP(r), NextIP: GenIP(r), RelayIP: GenIP(r), ClientMAC: GenMAC(r),
		Cookie: Pick(r, uint32(dhcpmsg.DHCPCookie), dhcpmsg.DHCPCookie, uint32(r.U64())), Options: GenOpts(r, 1),
	}
	if r.Chance(30) {
		copy(m.ServerHostName[:], r.Bytes(r.Intn(65)))
	}
	if r.Chance(30) {
		copy(m.BootFilename[:], r.Bytes(r.Intn(129)))
	}
	return m
}

// ValidRequestFrame builds a plausible client->server IPv4 frame with the repo's own encoders.
func ValidRequestFrame(r *Rng) []byte {
	mt := Pick(r, uint8(1), 3, 3, 1, 8, 7)
	opts := []dhcpmsg.DHCPOpt{dhcpmsg.OptionType(mt)}
	mac := net.HardwareAddr{2, 0, 0, 0, 0, byte(1 + r.Intn(6))}
	if r.Bool() {
		opts = append(opts, dhcpmsg.OptionClientIdentifier(mac))
	}
	if r.Bool() {
		opts = append(opts, dhcpmsg.OptionRequestedIP(net.IPv4(10, 0, 0, byte(r.Intn(256)))))
	}
	if r.Chance(30) {
		opts = append(opts, dhcpmsg.OptionServerIdentifier(net.IPv4(10, 0, 0, 1)))
	}
	m := dhcpmsg.Message{Op: 1, Htype: 1, Xid: uint32(r.U64()), ClientMAC: mac, Cookie: dhcpmsg.DHCPCookie, Options: opts,
		Flags: Pick(r, uint16(0), 0x8000)}
	return layer.IPv4{TTL: 64, Protocol: 0x11, Source: net.IPv4zero, Destination: net.IPv4bcast,
		Data: layer.UDP{SrcPort: 68, DstPort: 67, Data: m.Assemble()}.Assemble()}.Assemble()
}

// ValidReplyFrame builds a plausible server->client frame.
func ValidReplyFrame(r *Rng, mac net.HardwareAddr, xid uint32, mt uint8) []byte {
	sip := net.IPv4(10, 0, 0, 1)
	m := dhcpmsg.Message{Op: 2, Htype: 1, Xid: xid, YourIP: net.IPv4(10, 0, 0, 77), ClientMAC: mac, Cookie: dhcpmsg.DHCPCookie,
		Options: []dhcpmsg.DHCPOpt{dhcpmsg.OptionType(mt), dhcpmsg.OptionServerIdentifier(sip),
			dhcpmsg.OptionIPAddressLeaseDuration(2 * time.Minute), dhcpmsg.OptionRouter(sip),
			dhcpmsg.OptionSubnetMask(net.IPv4Mask(255, 255, 255, 0))}}
	return layer.IPv4{TTL: 64, Protocol: 0x11, Source: sip, Destination: net.IPv4bcast,
		Data: layer.UDP{SrcPort: 67, DstPort: 68, Data: m.Assemble()}.Assemble()}.Assemble()
}

func put16(b []byte, off int, v int) {
	if off+1 < len(b) && off >= 0 {
		b[off] = byte(v >> 8)
		b[off+1] = byte(v)
	}
}

// MutateFrame applies structure-aware mutations to an IPv4/UDP/DHCP frame.
func MutateFrame(r *Rng, f []byte) ([]byte, string) {
	b := append([]byte(nil), f...)
	switch r.Intn(14) {
	case 0:
		return b, "valid"
	case 1: // truncate anywhere
		return b[:r.Intn(len(b)+1)], "truncate"
	case 2: // total length +-
		put16(b, 2, len(b)+Pick(r, -1, 1, -8, 8, 300))
		return b, "iplen"
	case 3: // IHL
		b[0] = 0x40 | byte(r.Intn(16))
		return b, "ihl"
	case 4: // version
		b[0] = byte(r.Intn(16))<<4 | 5
		return b, "version"
	case 5: // UDP length
		put16(b, 24, len(b)-20+Pick(r, -1, 1, -8, 100))
		return b, "udplen"
	case 6: // hlen
		if len(b) > 30 {
			b[30] = Pick(r, byte(0), 1, 6, 16, 17, 255, byte(r.U64()))
		}
		return b, "hlen"
	case 7: // op
		if len(b) > 28 {
			b[28] = Pick(r, byte(0), 2, 3, byte(r.U64()))
		}
		return b, "op"
	case 8: // corrupt a byte in the option area
		if len(b) > 268 {
			i := 268 + r.Intn(len(b)-268)
			b[i] = Pick(r, byte(0), 255, 1, 53, byte(len(b)-i), byte(len(b)-i-1), byte(len(b)-i-2), byte(r.U64()))
		}
		return b, "optbyte"
	case 9: // chop so that the option area ends inside an option, fix lengths
		if len(b) > 270 {
			n := 268 + r.Intn(len(b)-268)
			b = b[:n]
			put16(b, 2, n)
			put16(b, 24, n-20)
		}
		return b, "optchop"
	case 10: // append trailing garbage with consistent lengths
		b = append(b, r.Bytes(1+r.Intn(40))...)
		put16(b, 2, len(b))
		put16(b, 24, len(b)-20)
		return b, "trailing"
	case 11: // protocol
		b[9] = Pick(r, byte(6), 1, 0x11, byte(r.U64()))
		return b, "proto"
	case 12: // ports
		put16(b, 20+r.Intn(2)*2, Pick(r, 67, 68, 0, 65535, r.Intn(65536)))
		return b, "port"
	default: // random flips
		for k := 0; k < 1+r.Intn(4); k++ {
			b[r.Intn(len(b))] ^= byte(1 << r.Intn(8))
		}
		return b, "flip"
	}
}
