package hx

import (
	"bytes"
	"fmt"
	"net"
	"testing"

	"git.sr.ht/~adrian-blx/psa-dhcp/lib/dhcpmsg"
	"git.sr.ht/~adrian-blx/psa-dhcp/lib/layer"
)

// safely runs f and converts a panic of the implementation into an answer.
func safely(f func() string) (out string) {
	defer func() {
		if r := recover(); r != nil {
			out = fmt.Sprintf("panic:%v", r)
		}
	}()
	return f()
}

func implDecIP(b []byte) string {
	return safely(func() string {
		p, err := layer.DecodeIPv4(b)
		if err != nil {
			return RejectReason(err)
		}
		return ShowIPv4(p)
	})
}
func implDecUDP(b []byte) string {
	return safely(func() string {
		p, err := layer.DecodeUDP(b)
		if err != nil {
			return RejectReason(err)
		}
		return ShowUDP(p)
	})
}
func implDecARP(b []byte) string {
	return safely(func() string {
		p, err := layer.DecodeARP(b)
		if err != nil {
			return RejectReason(err)
		}
		return ShowARP(p)
	})
}
func implDecDHCP(b []byte) string {
	return safely(func() string {
		p, err := dhcpmsg.Decode(b)
		if err != nil {
			return RejectReason(err)
		}
		return ShowMsg(p)
	})
}

func wireLens(r *Rng) int {
	switch r.Intn(10) {
	case 0:
		return r.Intn(4)
	case 1:
		return Pick(r, 1471, 1472, 1473)
	case 2:
		return Pick(r, 65506, 65507, 65505)
	case 3:
		return Pick(r, 65508, 65515, 65516, 65600) // beyond the datagram maximum (model mirrors the truncation)
	case 4:
		return 236 + r.Intn(120)
	default:
		return r.Intn(65)
	}
}

func wirePayload(r *Rng, n int) []byte {
	b := make([]byte, n)
	switch r.Intn(5) {
	case 0: // zeros
	case 1:
		for i := range b {
			b[i] = 0xff
		}
	case 2:
		for i := range b {
			if i%2 == 0 {
				b[i] = 0xff
			}
		}
	default:
		copy(b, r.Bytes(n))
	}
	return b
}

// panicFind records an implementation panic as a failing input of the bounds-safety properties.
func panicFind(s *Stream, op, ans string, props ...string) {
	if len(ans) >= 6 && ans[:6] == "panic:" {
		for _, p := range props {
			s.Find(Finding{Property: p, Signature: "panic:" + op[:min(len(op), 6)], What: "the implementation panics (out-of-range access) on this input",
				Ops: []string{op}, Observed: ans, Expected: "ok or reject"})
		}
	}
}

// TestWire: C13 — IPv4/UDP/ARP assemble and decode, checksum routines.
func TestWire(t *testing.T) {
	r := NewRng(Seed(), "wire")
	s := NewStream("wire")
	defer s.Close()
	n := EnvInt("HX_N", 4000)
	if Thorough() {
		n = EnvInt("HX_N", 60000)
	}
	one := func(payload []byte, src, dst net.IP, sp, dp, ident, flags int, ttl, proto byte) {
		u := layer.UDP{SrcPort: uint16(sp), DstPort: uint16(dp), Data: payload}
		ub := u.Assemble()
		s.Op(fmt.Sprintf("asmudp sp=%d dp=%d data=%s", sp, dp, Hex(payload)), "ok "+Hex(ub), len(payload) > 0)
		h := layer.IPv4{Identification: uint16(ident), Flags: uint16(flags), TTL: ttl, Protocol: proto, Source: src, Destination: dst, Data: ub}
		pb := h.Assemble()
		s.Op(fmt.Sprintf("asmip ident=%d flags=%d ttl=%d proto=%d src=%s dst=%s data=%s", ident, flags, ttl, proto, IPStr(src), IPStr(dst), Hex(ub)),
			"ok "+Hex(pb), true)
		s.Op("decip b="+Hex(pb), implDecIP(pb), true)
		s.Count(fmt.Sprintf("asm/len%%2=%d/proto17=%v", len(payload)%2, proto == 0x11))
		// ---- monitor (independent): C13 clauses on what the stack assembled ----
		if 20+8+len(payload) <= 65535 {
			fail := func(what string) {
				s.Find(Finding{Property: "C13", Signature: "asm:" + what, What: what,
					Ops:      []string{fmt.Sprintf("asmip ident=%d flags=%d ttl=%d proto=%d src=%s dst=%s udp(sp=%d,dp=%d,len=%d)", ident, flags, ttl, proto, IPStr(src), IPStr(dst), sp, dp, len(payload))},
					Observed: Hex(pb[:min(len(pb), 64)])})
			}
			ip, err := RefParseIPv4(pb)
			if err != nil {
				fail("assembled IPv4 packet has inconsistent version/IHL/total length")
				return
			}
			if !ip.HdrOK {
				fail("IPv4 header checksum does not verify")
			}
			want4 := func(x net.IP) [4]byte {
				var a [4]byte
				if v := x.To4(); v != nil {
					copy(a[:], v)
				}
				return a
			}
			if ip.Src != want4(src) || ip.Dst != want4(dst) || ip.TTL != ttl || ip.Proto != proto || ip.Ident != uint16(ident) || ip.Flags != uint16(flags) {
				fail("IPv4 header fields do not round-trip")
			}
			if proto == 0x11 {
				ud, err := RefParseUDP(ip)
				if err != nil {
					fail("assembled UDP datagram has inconsistent length")
					return
				}
				if !ud.CsumOK {
					fail("UDP checksum neither verifies nor is zero")
				}
				if ud.Sp != sp&0xffff || ud.Dp != dp&0xffff || !bytes.Equal(ud.Payload, payload) {
					fail("UDP ports/payload do not round-trip")
				}
			}
			// decoding by the stack returns the original fields
			if d, err := layer.DecodeIPv4(pb); err != nil {
				fail("DecodeIPv4 rejects an assembled packet")
			} else {
				if d.TTL != ttl || d.Protocol != proto || !d.Source.Equal(net.IP(ip.Src[:])) || !d.Destination.Equal(net.IP(ip.Dst[:])) {
					fail("DecodeIPv4(Assemble) does not return the original header fields")
				}
				if du, err := layer.DecodeUDP(d.Data); err != nil {
					fail("DecodeUDP rejects an assembled datagram")
				} else if int(du.SrcPort) != sp&0xffff || int(du.DstPort) != dp&0xffff || !bytes.Equal(du.Data, payload) {
					fail("DecodeUDP(Assemble) does not return the original ports/payload")
				}
			}
		}
	}
	// boundary lengths first (corpus-like), then random
	for _, l := range []int{0, 1, 2, 3, 1471, 1472, 1473, 65506, 65507} {
		for pat := 0; pat < 3; pat++ {
			p := make([]byte, l)
			for i := range p {
				p[i] = []byte{0, 0xff, byte(i * 7)}[pat]
			}
			one(p, net.IPv4(10, 0, 0, 1), net.IPv4bcast, 67, 68, 0, 0, 64, 0x11)
		}
	}
	for i := 0; i < n; i++ {
		l := wireLens(r)
		if !Thorough() && l > 2000 && i%50 != 0 {
			l = r.Intn(300)
		}
		proto := Pick(r, byte(0x11), 0x11, 0x11, 6, byte(r.U64()))
		one(wirePayload(r, l), GenIP(r), GenIP(r), Pick(r, 67, 68, r.Intn(65536)), Pick(r, 67, 68, r.Intn(65536)),
			r.Intn(65536), Pick(r, 0, 0x4000, r.Intn(65536)), Pick(r, byte(64), byte(r.U64())), proto)
	}
	// decoders on arbitrary / mutated bytes: strictness about length fields
	for i := 0; i < n; i++ {
		f, kind := MutateFrame(r, ValidRequestFrame(r))
		if r.Chance(15) {
			f, kind = r.Bytes(r.Intn(80)), "random"
		}
		if r.Chance(12) { // a header that announces more bytes than the packet has: IHL 6..15 on a 20..59-byte packet
			n := 20 + r.Intn(40)
			f, kind = r.Bytes(n), "short-ihl"
			f[0] = 0x40 | byte(6+r.Intn(10))
			f[2], f[3] = byte(n>>8), byte(n)
		}
		ans := implDecIP(f)
		s.Op("decip b="+Hex(f), ans, ans[:2] == "ok")
		panicFind(s, "decip b="+Hex(f), ans, "C13", "C10")
		s.Count("decip/" + kind + "/" + ans[:2])
		_, refErr := RefParseIPv4(f)
		if (refErr == nil) != (ans[:2] == "ok") {
			s.Find(Finding{Property: "C13", Signature: "decip-strict:" + kind, What: "DecodeIPv4 and the reference parser disagree on whether length fields match the bytes supplied",
				Ops: []string{"decip b=" + Hex(f)}, Observed: ans})
		}
		if len(f) >= 20 {
			u := f[20:]
			ans := implDecUDP(u)
			s.Op("decudp b="+Hex(u), ans, ans[:2] == "ok")
			panicFind(s, "decudp b="+Hex(u), ans, "C13", "C10")
			s.Count("decudp/" + ans[:2])
			ok := len(u) >= 8 && (int(u[4])<<8|int(u[5])) == len(u)
			if ok != (ans[:2] == "ok") {
				s.Find(Finding{Property: "C13", Signature: "decudp-strict", What: "DecodeUDP accepts/rejects against its length field",
					Ops: []string{"decudp b=" + Hex(u)}, Observed: ans})
			}
		}
	}
	// small-scope grid (exhaustive): every buffer length 0..72 x every announced total length 0..74 x IHL {0,4,5,6,7,15} of an
	// otherwise valid header; likewise the UDP length field against the bytes supplied
	decipCase := func(f []byte, kind string) {
		ans := implDecIP(f)
		s.Op("decip b="+Hex(f), ans, ans[:2] == "ok")
		panicFind(s, "decip b="+Hex(f), ans, "C13", "C10")
		s.Count("decip/" + kind + "/" + ans[:2])
		_, refErr := RefParseIPv4(f)
		if (refErr == nil) != (ans[:2] == "ok") {
			s.Find(Finding{Property: "C13", Signature: "decip-strict:" + kind, What: "DecodeIPv4 and the reference parser disagree on whether length fields match the bytes supplied",
				Ops: []string{"decip b=" + Hex(f)}, Observed: ans})
		}
	}
	for bl := 0; bl <= 72; bl++ {
		for tl := 0; tl <= 74; tl++ {
			for _, ihl := range []int{0, 4, 5, 6, 7, 15} {
				f := make([]byte, bl)
				for i := range f {
					f[i] = byte(0xa0 + i)
				}
				if bl > 0 {
					f[0] = 0x40 | byte(ihl)
				}
				if bl > 3 {
					f[2], f[3] = byte(tl>>8), byte(tl)
				}
				if bl > 9 {
					f[9] = 0x11
				}
				decipCase(f, "grid")
			}
		}
	}
	for bl := 0; bl <= 40; bl++ {
		for ul := 0; ul <= 42; ul++ {
			u := make([]byte, bl)
			for i := range u {
				u[i] = byte(0x30 + i)
			}
			if bl > 5 {
				u[4], u[5] = byte(ul>>8), byte(ul)
			}
			ans := implDecUDP(u)
			s.Op("decudp b="+Hex(u), ans, ans[:2] == "ok")
			panicFind(s, "decudp b="+Hex(u), ans, "C13", "C10")
			s.Count("decudp/grid/" + ans[:2])
			ok := len(u) >= 8 && (int(u[4])<<8|int(u[5])) == len(u)
			if ok != (ans[:2] == "ok") {
				s.Find(Finding{Property: "C13", Signature: "decudp-strict", What: "DecodeUDP accepts/rejects against its length field",
					Ops: []string{"decudp b=" + Hex(u)}, Observed: ans})
			}
		}
	}
	// buffers longer than a 16-bit length field can express: the announced length is congruent to, but not equal to, the bytes supplied
	for _, k := range []int{20, 28, 40, 300} {
		f := make([]byte, 65536+k)
		copy(f, ValidRequestFrame(r)[:20])
		f[2], f[3] = byte(k>>8), byte(k)
		copy(f[20:], []byte{0, 68, 0, 67, byte((k - 20) >> 8), byte(k - 20)})
		ans := implDecIP(f)
		s.Op("decip b="+Hex(f), ans, false)
		panicFind(s, "decip b=(65536+"+fmt.Sprint(k)+" bytes)", ans, "C13", "C10")
		if ans[:2] == "ok" {
			s.Find(Finding{Property: "C13", Signature: "decip-strict:64k", What: "DecodeIPv4 accepts a buffer 65536 bytes longer than its total-length field says", Ops: []string{fmt.Sprintf("decip of %d bytes announcing %d", len(f), k)}, Observed: ans[:min(len(ans), 80)]})
		}
		u := f[20:]
		ans = implDecUDP(u)
		s.Op("decudp b="+Hex(u), ans, false)
		if ans[:2] == "ok" {
			s.Find(Finding{Property: "C13", Signature: "decudp-strict:64k", What: "DecodeUDP accepts a buffer 65536 bytes longer than its length field says", Ops: []string{fmt.Sprintf("decudp of %d bytes announcing %d", len(u), k-20)}, Observed: ans[:min(len(ans), 80)]})
		}
	}
	// ARP
	for i := 0; i < n/4+50; i++ {
		a := layer.ARP{Opcode: Pick(r, byte(1), 2, byte(r.U64())), SenderMAC: GenMAC(r), TargetMAC: GenMAC(r), SenderIP: GenIP(r), TargetIP: GenIP(r)}
		if r.Chance(60) {
			a.SenderMAC, a.TargetMAC = net.HardwareAddr(r.Bytes(6)), net.HardwareAddr(r.Bytes(6))
		}
		b := a.Assemble()
		s.Op(fmt.Sprintf("asmarp op=%d sm=%s sip=%s tm=%s tip=%s", a.Opcode, Hex(a.SenderMAC), IPStr(a.SenderIP), Hex(a.TargetMAC), IPStr(a.TargetIP)), "ok "+Hex(b), true)
		ans := implDecARP(b)
		s.Op("decarp b="+Hex(b), ans, true)
		if d, err := layer.DecodeARP(b); err != nil {
			s.Find(Finding{Property: "C13", Signature: "arp-rt-reject", What: "DecodeARP rejects an assembled ARP packet", Ops: []string{"decarp b=" + Hex(b)}})
		} else {
			bad := d.Opcode != a.Opcode
			if v := a.SenderIP.To4(); v != nil && !d.SenderIP.Equal(a.SenderIP) {
				bad = true
			}
			if v := a.TargetIP.To4(); v != nil && !d.TargetIP.Equal(a.TargetIP) {
				bad = true
			}
			if len(a.SenderMAC) == 6 && len(a.TargetMAC) == 6 && (!bytes.Equal(d.SenderMAC, a.SenderMAC) || !bytes.Equal(d.TargetMAC, a.TargetMAC)) {
				bad = true
			}
			if bad {
				s.Find(Finding{Property: "C13", Signature: "arp-rt", What: "ARP opcode/addresses do not round-trip", Ops: []string{"asmarp/decarp " + Hex(b)}})
			}
		}
		x := r.Bytes(Pick(r, 27, 28, 29, r.Intn(40)))
		ax := implDecARP(x)
		s.Op("decarp b="+Hex(x), ax, len(x) == 28)
		panicFind(s, "decarp b="+Hex(x), ax, "C13", "C10")
	}
	if len(s.Finds) > 0 {
		t.Logf("monitor findings: %d", len(s.Finds))
	}
}

// enumerate all strings of length <= maxLen over alphabet, calling f
func enumAreas(alpha []byte, maxLen int, f func([]byte)) {
	var rec func(cur []byte)
	rec = func(cur []byte) {
		f(cur)
		if len(cur) == maxLen {
			return
		}
		for _, a := range alpha {
			rec(append(cur, a))
		}
	}
	rec(nil)
}

// TestDhcp: C12 — DHCP message codec.
func TestDhcp(t *testing.T) {
	r := NewRng(Seed(), "dhcp")
	s := NewStream("dhcp")
	defer s.Close()
	n := EnvInt("HX_N", 5000)
	maxArea := 5
	if Thorough() {
		n = EnvInt("HX_N", 100000)
		maxArea = 7
	}
	hdr := make([]byte, 240)
	copy(hdr, []byte{1, 1, 6, 0, 0xde, 0xad, 0xbe, 0xef})
	copy(hdr[28:], []byte{2, 0, 0, 0, 0, 9})
	copy(hdr[236:], []byte{0x63, 0x82, 0x53, 0x63})
	checkDecode := func(b []byte, kind string) {
		ans := implDecDHCP(b)
		s.Op("decdhcp b="+Hex(b), ans, ans[:2] == "ok")
		panicFind(s, "decdhcp b="+Hex(b), ans, "C12", "C10")
		s.Count("decdhcp/" + kind + "/" + ans[:2])
		// monitor: independent RFC parser
		ref, rerr := RefParseDHCP(b)
		m, err := func() (m *dhcpmsg.Message, err error) {
			defer func() {
				if p := recover(); p != nil {
					err = fmt.Errorf("panic: %v", p)
				}
			}()
			return dhcpmsg.Decode(b)
		}()
		fail := func(what string) {
			s.Find(Finding{Property: "C12", Signature: "dec:" + what, What: what, Ops: []string{"decdhcp b=" + Hex(b)}, Observed: ans})
		}
		if (rerr == nil) != (err == nil) {
			fail("Decode and the RFC 2131 reference parser disagree on acceptance")
			return
		}
		if err != nil {
			return
		}
		if m.Op != ref.Op || m.Htype != ref.Htype || m.Hops != ref.Hops || m.Xid != ref.Xid || m.Secs != ref.Secs || m.Flags != ref.Flags ||
			m.Cookie != ref.Cookie || !m.ClientIP.Equal(net.IP(ref.Ciaddr[:])) || !m.YourIP.Equal(net.IP(ref.Yiaddr[:])) ||
			!m.NextIP.Equal(net.IP(ref.Siaddr[:])) || !m.RelayIP.Equal(net.IP(ref.Giaddr[:])) || m.ServerHostName != ref.Sname || m.BootFilename != ref.File {
			fail("fixed fields differ from the RFC 2131 offsets")
		}
		if int(ref.Hlen) <= 16 && !bytes.Equal(m.ClientMAC, ref.Chaddr[:ref.Hlen]) {
			fail("chaddr differs from the first hlen bytes of the chaddr field")
		}
		if len(m.Options) != len(ref.Opts) {
			fail("option count differs from the reference parser")
		} else {
			for i := range ref.Opts {
				if m.Options[i].Option != ref.Opts[i].Code || !eqBytes(m.Options[i].Data, ref.Opts[i].Data) {
					fail("option differs from the reference parser")
				}
			}
		}
		// typed accessors: exact lengths
		d := dhcpmsg.DecodeOptions(m.Options)
		s.Op("decopts opts="+OptsStr(m.Options), ShowDecoded(d), len(m.Options) > 0)
		last := map[byte][]byte{}
		for _, o := range ref.Opts {
			last[o.Code] = o.Data
		}
		chk := func(code byte, want int, isDefault bool) {
			if data, ok := last[code]; ok && len(data) != want && !isDefault {
				fail(fmt.Sprintf("typed value for option %d produced from a payload of length %d", code, len(data)))
			}
		}
		chk(1, 4, d.SubnetMask == nil)
		chk(28, 4, d.BroadcastAddress == nil)
		chk(50, 4, d.RequestedIP == nil)
		chk(54, 4, d.ServerIdentifier == nil)
		chk(51, 4, d.IPAddressLeaseDuration == 0)
		chk(58, 4, d.RenewalDuration == 0)
		chk(59, 4, d.RebindDuration == 0)
		chk(53, 1, d.MessageType == 0)
		chk(57, 2, d.MaxMessageSize == 0)
		chk(26, 2, d.InterfaceMTU == 0)
		for _, c := range []byte{3, 6} {
			if data, ok := last[c]; ok {
				got := d.Routers
				if c == 6 {
					got = d.DNS
				}
				if (len(data) < 4 || len(data)%4 != 0) && len(got) != 0 {
					fail(fmt.Sprintf("address list for option %d produced from a payload of length %d", c, len(data)))
				}
				if len(data) >= 4 && len(data)%4 == 0 && len(got) != len(data)/4 {
					fail(fmt.Sprintf("address list for option %d has wrong length", c))
				}
			}
		}
	}
	// exhaustive short option areas over a structural alphabet
	nEx := 0
	enumAreas([]byte{0, 1, 2, 3, 53, 254, 255}, maxArea, func(a []byte) {
		checkDecode(append(append([]byte(nil), hdr...), a...), "exh")
		nEx++
	})
	s.Dist["exhaustive_areas"] = nEx
	// round trip of structured messages
	for i := 0; i < n; i++ {
		m := GenMsg(r)
		if i%7 == 0 { // payload lengths at the one-byte length boundary
			m.Options = append(m.Options, dhcpmsg.DHCPOpt{Option: Pick(r, uint8(12), 15, 61, 43), Data: r.Bytes(Pick(r, 253, 254, 255, 128, 127))})
		}
		b, perr := func() (b []byte, perr interface{}) {
			defer func() { perr = recover() }()
			return m.Assemble(), nil
		}()
		if perr != nil {
			s.Find(Finding{Property: "C12", Signature: "asm-panic", Stream: "dhcp", What: "Assemble panics on a representable message (payloads of at most 255 bytes)",
				Ops: []string{"asmdhcp " + MsgFields(&m)}, Observed: fmt.Sprint(perr)})
			s.Op("asmdhcp "+MsgFields(&m), "panic", true)
			continue
		}
		s.Op("asmdhcp "+MsgFields(&m), "ok "+Hex(b), true)
		checkDecode(b, "asm")
		if len(m.ClientMAC) <= 16 {
			ok := true
			for _, o := range m.Options {
				if o.Option == 0 || o.Option == 255 || len(o.Data) > 255 {
					ok = false
				}
			}
			if ok {
				d, err := dhcpmsg.Decode(b)
				bad := err != nil
				if !bad {
					bad = d.Op != m.Op || d.Htype != m.Htype || d.Hops != m.Hops || d.Xid != m.Xid || d.Secs != m.Secs || d.Flags != m.Flags || d.Cookie != m.Cookie ||
						!bytes.Equal(d.ClientMAC, m.ClientMAC) || d.ServerHostName != m.ServerHostName || d.BootFilename != m.BootFilename || len(d.Options) != len(m.Options)
					eqIP := func(a, b net.IP) bool {
						if b.To4() == nil {
							return a.Equal(net.IPv4zero)
						}
						return a.Equal(b)
					}
					bad = bad || !eqIP(d.ClientIP, m.ClientIP) || !eqIP(d.YourIP, m.YourIP) || !eqIP(d.NextIP, m.NextIP) || !eqIP(d.RelayIP, m.RelayIP)
					if !bad {
						for i := range m.Options {
							if d.Options[i].Option != m.Options[i].Option || !eqBytes(d.Options[i].Data, m.Options[i].Data) {
								bad = true
							}
						}
					}
				}
				if bad {
					s.Find(Finding{Property: "C12", Signature: "roundtrip", What: "Decode(Assemble(m)) != m", Ops: []string{"asmdhcp " + MsgFields(&m)}})
				}
			}
		}
		s.Count(fmt.Sprintf("asm/hlen<=16=%v/nopts=%d", len(m.ClientMAC) <= 16, min(len(m.Options), 4)))
	}
	// mutated and random bytes
	for i := 0; i < n; i++ {
		f, kind := MutateFrame(r, ValidRequestFrame(r))
		if len(f) > 28 {
			checkDecode(f[28:], "mut-"+kind)
		}
		if r.Chance(10) {
			checkDecode(r.Bytes(Pick(r, 239, 240, 241, 240+r.Intn(60))), "random")
		}
	}
	// option constructors
	for i := 0; i < 200; i++ {
		hw := GenMAC(r)
		if len(hw) == 0 {
			hw = net.HardwareAddr{1}
		}
		s.Op("cid hw="+Hex(hw), "ok "+Hex(dhcpmsg.OptionClientIdentifier(hw).Data), true)
	}
}
