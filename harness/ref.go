package hx

// Independent reference codecs used by the property monitors. They deliberately do not call
// the repo's decoders or encoders.

import (
	"bytes"
	"fmt"
)

// RefSum16 is the RFC 1071 ones-complement sum (big-endian words, odd byte padded right).
func RefSum16(parts ...[]byte) uint16 {
	var s uint64
	for _, b := range parts {
		if len(b)%2 == 1 && false {
			panic("odd part")
		}
		for i := 0; i+1 < len(b); i += 2 {
			s += uint64(b[i])<<8 | uint64(b[i+1])
		}
		if len(b)%2 == 1 {
			s += uint64(b[len(b)-1]) << 8
		}
	}
	for s>>16 != 0 {
		s = (s & 0xffff) + (s >> 16)
	}
	return uint16(s)
}

type RefIP struct {
	Ver, IHL, TotalLen int
	Ident, Flags       uint16
	TTL, Proto         byte
	Csum               uint16
	Src, Dst           [4]byte
	Payload            []byte
	HdrOK              bool
}

// RefParseIPv4 parses an IPv4 packet the way RFC 791 describes it; error if the length fields do
// not agree with the bytes supplied.
func RefParseIPv4(b []byte) (*RefIP, error) {
	if len(b) < 20 {
		return nil, fmt.Errorf("short")
	}
	p := &RefIP{Ver: int(b[0] >> 4), IHL: int(b[0]&15) * 4, TotalLen: int(b[2])<<8 | int(b[3]),
		Ident: uint16(b[4])<<8 | uint16(b[5]), Flags: uint16(b[6])<<8 | uint16(b[7]), TTL: b[8], Proto: b[9],
		Csum: uint16(b[10])<<8 | uint16(b[11])}
	copy(p.Src[:], b[12:16])
	copy(p.Dst[:], b[16:20])
	if p.Ver != 4 || p.IHL < 20 || p.IHL > len(b) || p.TotalLen != len(b) {
		return nil, fmt.Errorf("inconsistent")
	}
	p.HdrOK = RefSum16(b[:p.IHL]) == 0xffff
	p.Payload = b[p.IHL:]
	return p, nil
}

type RefUDP struct {
	Sp, Dp, Len int
	Csum        uint16
	Payload     []byte
	CsumOK      bool
}

func RefParseUDP(ip *RefIP) (*RefUDP, error) {
	b := ip.Payload
	if len(b) < 8 {
		return nil, fmt.Errorf("short")
	}
	u := &RefUDP{Sp: int(b[0])<<8 | int(b[1]), Dp: int(b[2])<<8 | int(b[3]), Len: int(b[4])<<8 | int(b[5]),
		Csum: uint16(b[6])<<8 | uint16(b[7])}
	if u.Len != len(b) {
		return nil, fmt.Errorf("inconsistent")
	}
	pseudo := []byte{ip.Src[0], ip.Src[1], ip.Src[2], ip.Src[3], ip.Dst[0], ip.Dst[1], ip.Dst[2], ip.Dst[3], 0, ip.Proto, b[4], b[5]}
	u.CsumOK = u.Csum == 0 || RefSum16(pseudo, b) == 0xffff
	u.Payload = b[8:]
	return u, nil
}

type RefOpt struct {
	Code byte
	Data []byte
}

type RefDHCP struct {
	Op, Htype, Hlen, Hops          byte
	Xid                            uint32
	Secs, Flags                    uint16
	Ciaddr, Yiaddr, Siaddr, Giaddr [4]byte
	Chaddr                         [16]byte
	Sname                          [64]byte
	File                           [128]byte
	Cookie                         uint32
	Opts                           []RefOpt
}

// RefParseDHCP is an RFC 2131/2132 parser: fixed fields at their offsets, then an option area of
// pads, code/len/value triples and a mandatory end option on an option boundary.
func RefParseDHCP(b []byte) (*RefDHCP, error) {
	if len(b) < 240 {
		return nil, fmt.Errorf("short")
	}
	m := &RefDHCP{Op: b[0], Htype: b[1], Hlen: b[2], Hops: b[3],
		Xid:  uint32(b[4])<<24 | uint32(b[5])<<16 | uint32(b[6])<<8 | uint32(b[7]),
		Secs: uint16(b[8])<<8 | uint16(b[9]), Flags: uint16(b[10])<<8 | uint16(b[11]),
		Cookie: uint32(b[236])<<24 | uint32(b[237])<<16 | uint32(b[238])<<8 | uint32(b[239])}
	copy(m.Ciaddr[:], b[12:16])
	copy(m.Yiaddr[:], b[16:20])
	copy(m.Siaddr[:], b[20:24])
	copy(m.Giaddr[:], b[24:28])
	copy(m.Chaddr[:], b[28:44])
	copy(m.Sname[:], b[44:108])
	copy(m.File[:], b[108:236])
	area := b[240:]
	for {
		if len(area) == 0 {
			return nil, fmt.Errorf("no end option")
		}
		c := area[0]
		area = area[1:]
		if c == 0 {
			continue
		}
		if c == 255 {
			return m, nil
		}
		if len(area) == 0 {
			return nil, fmt.Errorf("truncated length")
		}
		l := int(area[0])
		area = area[1:]
		if l > len(area) {
			return nil, fmt.Errorf("truncated value")
		}
		m.Opts = append(m.Opts, RefOpt{c, area[:l]})
		area = area[l:]
	}
}

func eqBytes(a, b []byte) bool { return bytes.Equal(a, b) || (len(a) == 0 && len(b) == 0) }
