package hx

import (
	"context"
	"fmt"
	"net"

	"git.sr.ht/~adrian-blx/psa-dhcp/lib/dhcpmsg"
	"testing"
	"testing/synctest"
	"time"
)

// TestCfgOptions: C07 — every subset of {router, dns, ntp, domain} set globally x every subset of
// {router, dns, ntp, hostname} set per client x list lengths, for a client with and without entry;
// OFFER and ACK bytes against the model, options against the monitor's own reading of the config.
func TestCfgOptions(t *testing.T) {
	r := NewRng(Seed(), "cfgopts")
	s := NewStream("cfgopts")
	defer s.Close()
	base := uint32(10)<<24 | 6<<8
	self := U32IP(base + 1)
	ips := func(n int, o byte) []net.IP {
		var l []net.IP
		for i := 0; i < n; i++ {
			l = append(l, net.IPv4(o, o, byte(i/250), byte(1+i%250)))
		}
		return l
	}
	lens := []int{1, 2, 8}
	if Thorough() {
		lens = []int{1, 2, 8, 63}
	}
	leases := []time.Duration{time.Minute, 90*time.Second + 500*time.Millisecond, 49 * 24 * time.Hour}
	n := 0
	for g := 0; g < 16; g++ {
		for cmask := 0; cmask < 16; cmask++ {
			for _, ln := range lens {
				if !Thorough() && ln != 1 && (g*16+cmask)%3 != 0 {
					continue
				}
				c := &SrvConf{Base: base, Plen: Pick(r, 24, 24, 28), SelfIP: self, SelfMAC: srvMAC, Lease: leases[n%len(leases)],
					DynFrom: U32IP(base + 10), DynTo: U32IP(base + 12)}
				if c.Plen == 28 {
					c.DynFrom, c.DynTo = U32IP(base+5), U32IP(base+7)
				}
				n++
				if g&1 != 0 {
					c.Router = U32IP(base + 2)
				}
				if g&2 != 0 {
					c.DNS = ips(ln, 8)
				}
				if g&4 != 0 {
					c.NTP = ips(ln, 9)
				}
				if g&8 != 0 {
					c.Domain = Pick(r, "lan", "example.org", "x")
				}
				cl := ClientConf{MAC: net.HardwareAddr{2, 0, 0, 0, 0xaa, 1}}
				cl.Key = cl.MAC.String()
				if cmask&1 != 0 {
					cl.Router = U32IP(base + 3)
				}
				if cmask&2 != 0 {
					cl.DNS = ips(ln, 1)
				}
				if cmask&4 != 0 {
					cl.NTP = ips(ln, 2)
				}
				if cmask&8 != 0 {
					cl.Hostname = "host-a"
				}
				if r.Chance(30) {
					cl.IP = c.DynTo
				}
				c.Clients = []ClientConf{cl}
				retainedOptions(s, c, cl.MAC, net.HardwareAddr{2, 0, 0, 0, 0xbb, 9})
				var steps []scriptStep
				for k, mac := range []net.HardwareAddr{cl.MAC, {2, 0, 0, 0, 0xbb, 9}} {
					m := MsgSpec{MAC: mac, Type: 1, Xid: uint32(10 + k), Flags: Pick(r, uint16(0), 0x8000)}
					steps = append(steps, scriptStep{Gap: time.Second, Msg: m, Kind: "discover"})
				}
				synctest.Test(t, func(t *testing.T) {
					obs := runSteps(t, s, c, steps, "cfgopts")
					_ = obs
				})
				// second phase in a fresh server: DISCOVER then REQUEST for what was offered (OFFER/ACK agreement)
				synctest.Test(t, func(t *testing.T) {
					mac := cl.MAC
					first := runStepsKeep(t, s, c, []scriptStep{{Gap: time.Second, Msg: MsgSpec{MAC: mac, Type: 1, Xid: 20}, Kind: "discover"}}, "cfgopts", func(o []Obs) []scriptStep {
						if len(o) == 0 || len(o[0].Tx) == 0 {
							return nil
						}
						rp := ParseReply(o[0].Tx[0])
						if rp == nil {
							return nil
						}
						return []scriptStep{{Gap: time.Second, Msg: MsgSpec{MAC: mac, Type: 3, Xid: 21, ReqIP: rp.Yiaddr, SrvID: self}, Kind: "request"}}
					})
					_ = first
				})
			}
		}
	}
}

// retainedOptions: the option list built for one client must not change when the list for another
// client is built afterwards (C09 isolation, C07 exactness): handlers run concurrently and each
// keeps its list until the reply is assembled, so a shared backing store shows as cross-talk.
func retainedOptions(s *Stream, c *SrvConf, a, b net.HardwareAddr) {
	ifaceSeq++
	iface := &net.Interface{Index: ifaceSeq, Name: fmt.Sprintf("v%d", ifaceSeq), HardwareAddr: c.SelfMAC, MTU: 1500}
	ctx, cancel := context.WithCancel(context.Background())
	defer cancel()
	sx, err := newServerOn(ctx, iface, c)
	if err != nil {
		return
	}
	render := func(o []dhcpmsg.DHCPOpt) string {
		t := ""
		for _, x := range o {
			t += fmt.Sprintf("%d:%x|", x.Option, x.Data)
		}
		return t
	}
	for _, pair := range [][2]net.HardwareAddr{{a, b}, {b, a}, {a, a}} {
		first := sx.VerifDhcpOptions(pair[0])
		before := render(first)
		second := sx.VerifDhcpOptions(pair[1])
		_ = second
		s.Count("retained-options")
		if after := render(first); after != before {
			what := "a reply carries parameters that are not the ones configured for its client (the option list built for one client changed when another client's list was built: shared storage between handlers)"
			for _, pid := range []string{"C07", "C09"} {
				s.Find(Finding{Property: pid, Stream: "cfgopts", Signature: "retained-options", What: what, Config: c.Line(0),
					Ops: []string{"dhcpOptions " + pair[0].String(), "dhcpOptions " + pair[1].String()}, Expected: before, Observed: after})
			}
		}
	}
}
