package hx

import (
	"context"
	"fmt"
	"net"
	"strings"
	"testing"
	"testing/synctest"
	"time"

	"git.sr.ht/~adrian-blx/psa-dhcp/lib/server/ipdb"
	"git.sr.ht/~adrian-blx/psa-dhcp/lib/server/ipdb/clients"
	d "git.sr.ht/~adrian-blx/psa-dhcp/lib/server/ipdb/duid"
	"git.sr.ht/~adrian-blx/psa-dhcp/lib/server/ipdb/uip"
)

// ---- Clients API with explicit clocks ----

type clOp struct {
	kind string // lookup inject injectperm setlease expire
	ip   uint32
	duid []byte
	life int64 // lifetime relative to the clock of the op
	dt   int64 // clock step before the op
}

func (o clOp) line(t int64) string {
	switch o.kind {
	case "inject", "setlease":
		return fmt.Sprintf("cl.%s t=%d ip=%d duid=%s exp=%d", o.kind, t, o.ip, Hex(o.duid), t+o.life)
	}
	return fmt.Sprintf("cl.%s t=%d ip=%d duid=%s", o.kind, t, o.ip, Hex(o.duid))
}

func errClass(err error) string {
	if err == nil {
		return "ok"
	}
	switch m := err.Error(); {
	case strings.HasPrefix(m, "entry for ip already exists"):
		return "err:ip-exists"
	case strings.HasPrefix(m, "entry for this hardwareaddr already exists"):
		return "err:duid-exists"
	case strings.HasPrefix(m, "ip does not exist"):
		return "err:no-ip"
	case strings.HasPrefix(m, "duid does not exist"):
		return "err:no-duid"
	case strings.HasPrefix(m, "ip != duid"):
		return "err:mismatch"
	case strings.HasPrefix(m, "not an ipv4"):
		return "err:not-v4"
	case strings.HasPrefix(m, "ip is not in managed range"):
		return "err:not-in-range"
	case strings.HasPrefix(m, "begin in dynamic range"):
		return "err:bad-range"
	case strings.HasPrefix(m, "no such client found"):
		return "err:not-found"
	case strings.HasPrefix(m, "dynamic searches are disabled"):
		return "err:disabled"
	case strings.HasPrefix(m, "no free ip found"):
		return "err:no-free-ip"
	default:
		return "err:?" + strings.ReplaceAll(m, " ", "_")
	}
}

func applyCl(c *clients.Clients, o clOp, t int64) string {
	now := time.Unix(0, t)
	switch o.kind {
	case "lookup":
		a, b := c.Lookup(now, uip.Uip(o.ip), d.Duid(o.duid))
		sa, sb, same := "-", "-", 0
		if a != nil {
			sa = fmt.Sprint(uint32(a.Uip()))
		}
		if b != nil {
			sb = fmt.Sprint(uint32(b.Uip()))
		}
		if a != nil && a == b {
			same = 1
		}
		return fmt.Sprintf("found ip=%s duid=%s same=%d", sa, sb, same)
	case "inject":
		return errClass(c.Inject(now, uip.Uip(o.ip), d.Duid(o.duid), time.Unix(0, t+o.life)))
	case "injectperm":
		return errClass(c.InjectPermanent(now, uip.Uip(o.ip), d.Duid(o.duid)))
	case "setlease":
		return errClass(c.SetLease(now, uip.Uip(o.ip), d.Duid(o.duid), time.Unix(0, t+o.life)))
	case "expire":
		return errClass(c.Expire(now, uip.Uip(o.ip), d.Duid(o.duid)))
	}
	panic("bad op")
}

// refTable is the monitor's own reference table (independent of the Lean model): at most one
// live binding per address and per client.
type refBinding struct {
	ip   uint32
	duid string
	exp  int64
	perm bool
}
type refTable struct{ b []*refBinding }

func (r *refTable) live(x *refBinding, t int64) bool { return x.perm || t <= x.exp }
func (r *refTable) byIP(t int64, ip uint32) *refBinding {
	for _, x := range r.b {
		if x.ip == ip && r.live(x, t) {
			return x
		}
	}
	return nil
}
func (r *refTable) byDuid(t int64, du []byte) *refBinding {
	for _, x := range r.b {
		if x.duid == string(du) && r.live(x, t) {
			return x
		}
	}
	return nil
}
func (r *refTable) gc(t int64) {
	var k []*refBinding
	for _, x := range r.b {
		if r.live(x, t) {
			k = append(k, x)
		}
	}
	r.b = k
}
func (r *refTable) apply(o clOp, t int64) string {
	a, b := r.byIP(t, o.ip), r.byDuid(t, o.duid)
	switch o.kind {
	case "lookup":
		sa, sb, same := "-", "-", 0
		if a != nil {
			sa = fmt.Sprint(a.ip)
		}
		if b != nil {
			sb = fmt.Sprint(b.ip)
		}
		if a != nil && a == b {
			same = 1
		}
		return fmt.Sprintf("found ip=%s duid=%s same=%d", sa, sb, same)
	case "inject", "injectperm":
		if a != nil {
			return "err:ip-exists"
		}
		if b != nil {
			return "err:duid-exists"
		}
		r.gc(t)
		nb := &refBinding{ip: o.ip, duid: string(o.duid), exp: t + o.life, perm: o.kind == "injectperm"}
		if nb.perm {
			nb.exp = 0
		}
		r.b = append(r.b, nb)
		return "ok"
	case "setlease", "expire":
		if a == nil {
			return "err:no-ip"
		}
		if b == nil {
			return "err:no-duid"
		}
		if a != b {
			return "err:mismatch"
		}
		if o.kind == "expire" {
			a.exp = 0
		} else {
			a.exp = t + o.life
		}
		return "ok"
	}
	panic("bad")
}

func clAlphabet(ips []uint32, duids [][]byte, lives []int64, dts []int64) []clOp {
	var out []clOp
	for _, dt := range dts {
		for _, ip := range ips {
			for _, du := range duids {
				out = append(out, clOp{"lookup", ip, du, 0, dt}, clOp{"expire", ip, du, 0, dt}, clOp{"injectperm", ip, du, 0, dt})
				for _, l := range lives {
					out = append(out, clOp{"inject", ip, du, l, dt}, clOp{"setlease", ip, du, l, dt})
				}
			}
		}
	}
	return out
}

// TestClients: C11 — the Clients API with explicit clocks against the Lean model (and the
// monitor's own reference table).
func TestClients(t *testing.T) {
	r := NewRng(Seed(), "clients")
	s := NewStream("clients")
	defer s.Close()
	const T0 = int64(1_000_000)
	runSeq := func(seq []clOp, emitFrom int) {
		c := clients.NewClients()
		ref := &refTable{}
		now := T0
		var hist []string
		for i, o := range seq {
			now += o.dt
			ans := safely(func() string { return applyCl(c, o, now) })
			want := ref.apply(o, now)
			hist = append(hist, o.line(now))
			if i >= emitFrom {
				s.Op(o.line(now), ans, ans != "found ip=- duid=- same=0" && !strings.HasPrefix(ans, "err:no-ip"))
				s.Count(o.kind + "/" + strings.SplitN(ans, " ", 2)[0])
			}
			if ans != want {
				s.Find(Finding{Property: "C11", Signature: "clients:" + o.kind + ":" + want + "!=" + ans, Stream: "clients",
					What: "Clients result differs from a reference table with one live binding per address and per client",
					Ops:  append([]string{"cl.reset"}, hist...), Expected: want, Observed: ans})
				return
			}
		}
	}
	// exhaustive: all sequences up to length L over the small alphabet, as a DFS with push/pop so that
	// the driver shares prefixes (the Go side replays the prefix, which is cheap)
	ips := []uint32{5, 6}
	duids := [][]byte{{1}, {2}}
	alpha := clAlphabet(ips, duids, []int64{-1, 1, 5}, []int64{0, 2})
	L := EnvInt("HX_CL_LEN", 3)
	if Thorough() {
		L = EnvInt("HX_CL_LEN", 4)
		// keep the thorough enumeration tractable: one clock step fewer kinds at depth 4
	}
	nseq := 0
	var dfs func(prefix []clOp)
	dfs = func(prefix []clOp) {
		if len(prefix) > 0 {
			runSeq(prefix, len(prefix)-1)
			nseq++
		}
		if len(prefix) == L {
			return
		}
		al := alpha
		if len(prefix) >= 3 { // depth 4: restrict to clock step 2 and lifetimes {-1,+5} (documented in the evidence rule)
			al = clAlphabet(ips, duids, []int64{-1, 5}, []int64{2})
		}
		for _, o := range al {
			s.Op("cl.push", "ok", false)
			dfs(append(append([]clOp(nil), prefix...), o))
			s.Op("cl.pop", "ok", false)
		}
	}
	s.Op("cl.reset", "ok", false)
	dfs(nil)
	s.Dist["exhaustive_sequences"] = nseq
	s.Dist["exhaustive_len"] = L
	// random: larger domain, long sequences
	n := EnvInt("HX_N", 300)
	if Thorough() {
		n = EnvInt("HX_N", 6000)
	}
	ips3 := []uint32{5, 6, 7}
	long := []byte{0xff, 1, 2, 3, 4, 0, 4, 0xaa, 0xbb, 0xcc, 0xdd, 0xee, 0xff, 0x10, 0x11, 0x12, 0x13, 0x14}
	long2 := append([]byte(nil), long...) // … and a second pair beyond any plausible rendering limit (40 / 64 / 131 / 255 bytes)
	for n2 := Pick(r, 39, 63, 130, 254); len(long2) < n2; {
		long2 = append(long2, byte(0x20+len(long2)))
	}
	duids3 := [][]byte{{1}, {2}, {}, append(append([]byte(nil), long...), 1), append(append([]byte(nil), long...), 2),
		append(append([]byte(nil), long2...), 1), append(append([]byte(nil), long2...), 2)}
	for i := 0; i < n; i++ {
		s.Op("cl.reset", "ok", false)
		var seq []clOp
		for k := 0; k < 1+r.Intn(200); k++ {
			seq = append(seq, clOp{Pick(r, "lookup", "lookup", "inject", "inject", "setlease", "setlease", "expire", "injectperm"),
				Pick(r, ips3...), Pick(r, duids3...), Pick(r, int64(-1), 0, 1, 5), Pick(r, int64(0), 0, 1, 2, 7)})
		}
		runSeq(seq, 0)
	}
}

// ---- public IPDB API under the virtual clock ----

// TestIpdb: C11 (and the database side of C01/C02/C05/C08).
func TestIpdb(t *testing.T) {
	r := NewRng(Seed(), "ipdb")
	s := NewStream("ipdb")
	defer s.Close()
	n := EnvInt("HX_N", 400)
	if Thorough() {
		n = EnvInt("HX_N", 8000)
	}
	for i := 0; i < n; i++ {
		synctest.Test(t, func(t *testing.T) { ipdbScript(t, r, s) })
	}
}

func ipdbScript(t *testing.T, r *Rng, s *Stream) {
	big := r.Chance(12) // a large network: pools beyond 4096 addresses, suggestions near the top and the middle of the range
	plen := Pick(r, 24, 24, 28, 29, 30, 32) // not 31: ipdb.New yields an empty range there and FindIP would call rand.Perm(2^32) (unreachable through server.New, see DESIGN)
	base := uint32(10<<24 | 7<<8 | uint32(r.Intn(4)*64))
	if r.Chance(10) {
		base = uint32(10<<24 | 7<<8 | 250) // range touching .255
	}
	if big {
		plen = Pick(r, 16, 18, 19, 20)
		base = uint32(10<<24 | uint32(r.Intn(4))<<16 | 7)
	}
	db, err := ipdb.New(U32IP(base), net.CIDRMask(plen, 32))
	if err != nil {
		t.Fatal(err)
	}
	s.Op(fmt.Sprintf("db.new base=%d p=%d", base, plen), "ok", false)
	size := uint32(1) << (32 - plen)
	start := base / size * size
	addr := func() net.IP { // addresses around the network
		switch r.Intn(12) {
		case 0:
			return nil
		case 1:
			return U32IP(start) // network address
		case 2:
			return U32IP(start + size - 1) // broadcast
		case 3:
			return U32IP(start + size + uint32(r.Intn(3))) // outside
		case 4:
			return net.ParseIP("fe80::1")
		case 5, 6, 7:
			if big {
				return U32IP(Pick(r, start+size-2-uint32(r.Intn(12)), start+size/2+uint32(r.Intn(12)), start+4090+uint32(r.Intn(8000))%(size-4100), start+1+uint32(r.Intn(12))))
			}
		}
		return U32IP(start + uint32(r.Intn(int(min(size, 12)))))
	}
	longd := []byte{0xff, 1, 2, 3, 4, 0, 4, 0xaa, 0xbb, 0xcc, 0xdd, 0xee, 0xff, 0x10, 0x11, 0x12, 0x13, 0x14}
	for n := Pick(r, 18, 18, 39, 63, 130, 254); len(longd) < n; { // pairs that differ only in their last byte, at every identifier size
		longd = append(longd, byte(0x20+len(longd)))
	}
	duids := [][]byte{{1, 1, 1, 1}, {2, 2, 2, 2}, {3, 3, 3, 3}, {}, {0, 3, 0, 0, 2, 0, 0, 0, 0, 9}, append(append([]byte(nil), longd...), 1), append(append([]byte(nil), longd...), 2)}
	var hist []string
	hist = append(hist, fmt.Sprintf("db.new base=%d p=%d", base, plen))
	now := func() int64 { return time.Now().UnixNano() }
	ref := &refTable{} // monitor's own reference table for update / lookup / addPermanent
	netLo, netHi := uint32(0), uint32(0)
	{
		sz := uint32(1) << (32 - plen)
		st := base / sz * sz
		netLo, netHi = st+1, st+sz-2
		if sz == 1 {
			netLo, netHi = st, st
		}
	}
	inNet := func(ip net.IP) (uint32, string) {
		v4 := ip.To4()
		if v4 == nil {
			return 0, "err:not-v4"
		}
		a := IPU32(ip)
		if a < netLo || a > netHi {
			return 0, "err:not-in-range"
		}
		return a, ""
	}
	refCheck := func(op, got, want string) {
		if got != want && strings.HasPrefix(op, "db.lookup") && strings.HasPrefix(want, "ok") && got == "err:not-found" {
			for _, pid := range []string{"C05", "C01"} { // the binding was dropped before the time it was granted for had elapsed
				s.Find(Finding{Property: pid, Signature: "ipdb:binding-lost-early", Stream: "ipdb",
					What: "a binding disappeared before its granted time had elapsed (the address becomes available to others while the grant is still running)",
					Ops: append(append([]string(nil), hist...), op), Expected: want, Observed: got})
			}
		}
		if got != want {
			s.Find(Finding{Property: "C11", Signature: "ipdb:" + strings.SplitN(op, " ", 2)[0] + ":" + want + "!=" + got, Stream: "ipdb",
				What: "IPDB result differs from a reference table with one live binding per address and per client", Ops: append(append([]string(nil), hist...), op), Expected: want, Observed: got})
		}
	}
	bound := map[uint32]int64{} // monitor's own view: address -> latest expiry it may be bound until (maxInt = permanent)
	dynLo, dynHi := uint32(0), uint32(0)
	{
		sz := uint32(1) << (32 - plen)
		st := base / sz * sz
		dynLo, dynHi = st+1, st+sz-2
		if sz == 1 {
			dynLo, dynHi = st, st
		}
	}
	conflict := map[uint32]bool{}
	for k := 0; k < 8; k++ {
		if r.Chance(25) {
			conflict[start+uint32(r.Intn(int(min(size, 12))))] = true
		}
	}
	steps := 3 + r.Intn(40)
	for k := 0; k < steps; k++ {
		var op, ans string
		switch r.Intn(14) {
		case 0:
			a, b := addr(), addr()
			op = fmt.Sprintf("db.setdyn from=%s to=%s", IPStr(a), IPStr(b))
			ans = errClass(db.SetDynamicRange(a, b))
			if ans == "ok" {
				dynLo, dynHi = IPU32(a), IPU32(b)
			}
		case 1:
			if r.Chance(30) {
				op = "db.disable"
				db.DisableDynamic()
				ans = "ok"
				dynLo, dynHi = 0, 0
			} else {
				a := addr()
				op = "db.inrange ip=" + IPStr(a)
				ans = fmt.Sprint(db.InManagedRange(a))
			}
		case 2, 3:
			du := Pick(r, duids...)
			op = fmt.Sprintf("db.lookup t=%d duid=%s", now(), Hex(du))
			ip, err := db.LookupClientByDuid(du)
			if err != nil {
				ans = errClass(err)
			} else {
				ans = fmt.Sprintf("ok %d", IPU32(ip))
			}
			if b := ref.byDuid(now(), du); b != nil {
				refCheck(op, ans, fmt.Sprintf("ok %d", b.ip))
			} else {
				refCheck(op, ans, "err:not-found")
			}
		case 4:
			a, du := addr(), Pick(r, duids...)
			op = fmt.Sprintf("db.addperm t=%d ip=%s duid=%s", now(), IPStr(a), Hex(du))
			ans = errClass(db.AddPermanentClient(a, du))
			if ans == "ok" {
				bound[IPU32(a)] = 1 << 62
			}
			if n, e := inNet(a); e != "" {
				refCheck(op, ans, e)
			} else {
				refCheck(op, ans, ref.apply(clOp{"injectperm", n, du, 0, 0}, now()))
			}
		case 5, 6, 7, 8:
			a, du := addr(), Pick(r, duids...)
			ttl := Pick(r, int64(15e9), 60e9, 3600e9, -1e9, 0)
			op = fmt.Sprintf("db.update t=%d ip=%s duid=%s ttl=%d", now(), IPStr(a), Hex(du), ttl)
			ans = errClass(db.UpdateClient(a, du, time.Duration(ttl)))
			if ans == "ok" && bound[IPU32(a)] < now()+ttl {
				bound[IPU32(a)] = now() + ttl
			}
			if n, e := inNet(a); e != "" {
				refCheck(op, ans, e)
			} else {
				t := now()
				x, y := ref.byIP(t, n), ref.byDuid(t, du)
				want := ""
				switch {
				case x != nil && x == y: // extends the caller's own binding, never shortening it
					if x.exp < t+ttl {
						x.exp = t + ttl
					}
					want = "ok"
				case x == nil && y == nil: // creates one; the fresh binding must be live
					ref.apply(clOp{"inject", n, du, ttl, 0}, t)
					want = "ok"
					if ttl < 0 {
						want = "err:no-ip"
					}
				case x != nil:
					want = "err:ip-exists"
				default:
					want = "err:duid-exists"
				}
				refCheck(op, ans, want)
			}
		case 9, 10, 11:
			a, du := addr(), Pick(r, duids...)
			t0 := now()
			var probes []string
			ctx, cancel := context.WithCancel(context.Background())
			cancelAfter := -1
			if r.Chance(8) {
				cancelAfter = r.Intn(3)
			}
			isFree := func(_ context.Context, ip net.IP) bool {
				ts := now()
				time.Sleep(Pick(r, time.Duration(0), 600*time.Millisecond, 10*time.Millisecond))
				free := !conflict[IPU32(ip)]
				an := "-"
				if !free {
					an = "00"
				}
				probes = append(probes, fmt.Sprintf("%s:%s:%d:%d", IPStr(ip), an, ts, now()))
				if cancelAfter >= 0 && len(probes) > cancelAfter {
					cancel()
				}
				return free
			}
			ip, err := db.FindIP(ctx, isFree, a, du)
			cancelled := ctx.Err() != nil
			cancel()
			ps := "-"
			if len(probes) > 0 {
				ps = strings.Join(probes, ",")
			}
			if cancelled && err != nil {
				// a cancelled search may stop anywhere: the model is told and skips the exhaustion check
				op = fmt.Sprintf("db.findc t=%d sugg=%s duid=%s probes=%s", t0, IPStr(a), Hex(du), ps)
			} else {
				op = fmt.Sprintf("db.find t=%d sugg=%s duid=%s probes=%s", t0, IPStr(a), Hex(du), ps)
			}
			if err != nil {
				ans = errClass(err)
				// monitor: a search fails only when no eligible address exists (or it is disabled / cancelled)
				if ans == "err:no-free-ip" && !cancelled && dynHi != 0 {
					for x := dynLo; x <= dynHi && x != 0; x++ {
						if x&0xff != 0 && x&0xff != 0xff && !conflict[x] && bound[x] < t0-int64(time.Second) {
							s.Find(Finding{Property: "C11", Signature: "find-fails-with-free-address", Stream: "ipdb", What: "the address search failed although an unbound, conflict-free address of the range exists",
								Ops: append(hist, op), Observed: fmt.Sprintf("free=%s", U32IP(x))})
							break
						}
					}
				}
			} else {
				ans = fmt.Sprintf("ok %d", IPU32(ip))
				// monitor (C02/C08 database side): result must be the caller's binding or an eligible address
				if b := ref.byDuid(t0, du); (b == nil || b.ip != IPU32(ip)) && (IPU32(ip) < dynLo || IPU32(ip) > dynHi) {
					s.Find(Finding{Property: "C02", Signature: "find-outside-dynamic-range", Stream: "ipdb", What: "a non-static address outside the dynamic range was handed out (FindIP returned an address that is neither the caller's binding nor inside the dynamic range)",
						Ops: append(hist, op), Expected: fmt.Sprintf("within %s-%s", U32IP(dynLo), U32IP(dynHi)), Observed: ans})
				}
				if conflict[IPU32(ip)] && len(probes) > 0 {
					s.Find(Finding{Property: "C11", Signature: "find-conflict", Stream: "ipdb", What: "FindIP returned an address whose probe reported a conflict", Ops: append(hist, op), Observed: ans})
				}
			}
			s.Count(fmt.Sprintf("find/probes=%d/%s", min(len(probes), 3), strings.SplitN(ans, " ", 2)[0]))
		default:
			dt := Pick(r, time.Second, 14*time.Second, 16*time.Second, 59*time.Second, 61*time.Second, time.Hour, 2*time.Hour,
				300*time.Millisecond, 700*time.Millisecond, 15*time.Second-250*time.Millisecond, 60*time.Second-400*time.Millisecond, time.Hour-150*time.Millisecond)
			time.Sleep(dt)
			continue
		}
		hist = append(hist, op)
		s.Op(op, ans, !strings.HasPrefix(ans, "err:not-"))
		s.Count(strings.SplitN(op, " ", 2)[0] + "/" + strings.SplitN(ans, " ", 2)[0])
	}
}
