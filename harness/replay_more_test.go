package hx

import (
	"net"
	"strconv"
	"strings"
	"testing"
	"testing/synctest"

	"git.sr.ht/~adrian-blx/psa-dhcp/lib/client/callback"
	"git.sr.ht/~adrian-blx/psa-dhcp/lib/rsocks"
)

// parseWait is the inverse of waitSpec.line.
func parseWait(s string) waitSpec {
	f := strings.Split(s, ":")
	w := waitSpec{kind: f[0]}
	if len(f) == 4 {
		x, _ := strconv.ParseUint(f[1], 10, 32)
		w.xid = uint32(x)
		w.offered, w.chosen = parseIPField(f[2]), parseIPField(f[3])
	}
	return w
}

func init() {
	replayers["catch"] = func(s *Stream, op string, a map[string]string) {
		// needs a bubble and a *testing.T: handled in replayCatch below
	}
	replayers["sanitize"] = func(s *Stream, op string, a map[string]string) {
		e := callback.VerifEnvEntry("X", string(unhex(a["v"])))
		s.Op(op, "ok "+Hex([]byte(strings.TrimPrefix(e, "PSA_DHCPC_X="))), true)
	}
	scriptReplayers["clicatch"] = func(t *testing.T, s *Stream, rp *Replay) {
		for _, op := range rp.Ops {
			_, a := argsOf(op)
			w := parseWait(a["w"])
			mac := net.HardwareAddr(unhex(a["mac"]))
			iface := &net.Interface{Index: 60, Name: "c60", HardwareAddr: mac, MTU: 1500}
			sent := replySpec{proto: 0x11, dport: 68, chaddr: mac, xid: w.xid, mtype: 5, yiaddr: w.offered, sid: []byte{10, 0, 0, 1}, routers: []byte{10, 0, 0, 1}, lease: []byte{0, 0, 1, 0}, op: 2}
			if w.kind == "offer" {
				sent.mtype, sent.yiaddr = 2, net.IPv4(10, 0, 0, 77)
			}
			if w.chosen != nil {
				sent.sid = w.chosen.To4()
			}
			sb := sent.frame()
			sb[36], sb[37] = 0x5e, 0x17
			var ans string
			synctest.Test(t, func(t *testing.T) {
				rsocks.ResetSeg(iface)
				ans = realCatch(iface, w, unhex(a["b"]), sb)
			})
			s.Op(op, ans, true)
			t.Logf("impl: %s => %s", op[:min(len(op), 120)], ans[:min(len(ans), 200)])
		}
	}
}
