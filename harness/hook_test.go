package hx

import (
	"bytes"
	"context"
	"log"
	"net"
	"testing"
	"time"

	"git.sr.ht/~adrian-blx/psa-dhcp/lib/client/callback"
	"git.sr.ht/~adrian-blx/psa-dhcp/lib/libif"
)

// TestHookShutdown: C19 — cancelling the context while a hook script is running ends the hook
// runner promptly, also for a hook that ignores SIGTERM (real processes, real time).
func TestHookShutdown(t *testing.T) {
	s := NewStream("hook")
	defer s.Close()
	iface := &net.Interface{Index: 95, Name: "h95", HardwareAddr: net.HardwareAddr{2, 0, 0, 0, 0, 0x95}}
	c := libif.Ifconfig{IP: net.IPv4(10, 0, 0, 9), Netmask: net.IPv4Mask(255, 255, 255, 0)}
	for _, script := range []string{
		// the hook process itself is the long-running one (a hook that leaves children behind which keep its
		// output pipe open delays CombinedOutput for as long as they live — the user's script, see DESIGN 12.3)
		`/bin/sh -c "exec sleep 30"`,
		`/bin/sh -c "trap '' TERM; exec sleep 30"`,
		`/bin/sh -c "trap '' TERM INT HUP; exec sleep 30"`,
	} {
		var buf bytes.Buffer
		ctx, cancel := context.WithCancel(context.Background())
		done := make(chan struct{})
		go func() {
			callback.Cbhandler(script, iface, log.New(&buf, "", 0))(ctx, &c)
			close(done)
		}()
		time.Sleep(150 * time.Millisecond)
		t0 := time.Now()
		cancel()
		var took time.Duration = -1
		select {
		case <-done:
			took = time.Since(t0)
		case <-time.After(2500 * time.Millisecond):
		}
		op := "note hook script=" + script
		s.Op(op, "ok", true)
		if took < 0 || took > 1500*time.Millisecond {
			s.Find(Finding{Property: "C19", Signature: "hook-not-prompt", Stream: "hook", What: "cancelling the context did not end the hook runner promptly (the hook script keeps it blocked)",
				Ops: []string{op, "cancel 150 ms after start"}, Observed: took.String()})
		}
		if took < 0 {
			<-done // let it finish before the next case (at most the script's own life time)
		}
	}
}
