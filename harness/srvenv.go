package hx

import (
	"bytes"
	"context"
	"fmt"
	"io"
	"log"
	"net"
	"sort"
	"strings"
	"sync"
	"time"

	"git.sr.ht/~adrian-blx/psa-dhcp/lib/dhcpmsg"
	"git.sr.ht/~adrian-blx/psa-dhcp/lib/layer"
	"git.sr.ht/~adrian-blx/psa-dhcp/lib/libif"
	"git.sr.ht/~adrian-blx/psa-dhcp/lib/rsocks"
	"git.sr.ht/~adrian-blx/psa-dhcp/lib/server"
	pb "git.sr.ht/~adrian-blx/psa-dhcp/lib/server/proto"
)

// ---------- configuration ----------

type ClientConf struct {
	Key      string // spelling of the hardware address in the config
	MAC      net.HardwareAddr
	IP       net.IP
	Router   net.IP
	DNS, NTP []net.IP
	Hostname string
}

type SrvConf struct {
	Base       uint32
	Plen       int
	DynFrom    net.IP
	DynTo      net.IP
	StaticOnly bool
	Lease      time.Duration
	SelfIP     net.IP
	SelfMAC    net.HardwareAddr
	Router     net.IP
	DNS, NTP   []net.IP
	Domain     string
	Clients    []ClientConf
}

func (c *SrvConf) Size() uint32  { return uint32(1) << (32 - c.Plen) }
func (c *SrvConf) Start() uint32 { return c.Base / c.Size() * c.Size() }
func (c *SrvConf) NetFromTo() (uint32, uint32) {
	s, e := c.Start(), c.Start()+c.Size()-1
	if s != e {
		return s + 1, e - 1
	}
	return s, e
}
func (c *SrvConf) DynRange() (uint32, uint32) {
	if c.StaticOnly {
		return 0, 0
	}
	if c.DynFrom != nil {
		return IPU32(c.DynFrom), IPU32(c.DynTo)
	}
	return c.NetFromTo()
}

func ipStrs(l []net.IP) []string {
	var o []string
	for _, x := range l {
		o = append(o, x.String())
	}
	return o
}

func (c *SrvConf) Proto() *pb.ServerConfig {
	p := &pb.ServerConfig{Network: fmt.Sprintf("%s/%d", U32IP(c.Base), c.Plen), LeaseDuration: c.Lease.String(), Domain: c.Domain,
		StaticOnly: c.StaticOnly, Dns: ipStrs(c.DNS), Ntp: ipStrs(c.NTP), Client: map[string]*pb.ClientConfig{}}
	if c.Router != nil {
		p.Router = c.Router.String()
	}
	if c.DynFrom != nil {
		p.DynamicRange = c.DynFrom.String() + "-" + c.DynTo.String()
	}
	for _, cl := range c.Clients {
		cc := &pb.ClientConfig{Hostname: cl.Hostname, Dns: ipStrs(cl.DNS), Ntp: ipStrs(cl.NTP)}
		if cl.IP != nil {
			cc.Ip = cl.IP.String()
		}
		if cl.Router != nil {
			cc.Router = cl.Router.String()
		}
		p.Client[cl.Key] = cc
	}
	return p
}

// Line renders the `cfg` operation for the Lean driver.
func (c *SrvConf) Line(t int64) string {
	var cls []string
	for _, cl := range c.Clients {
		cls = append(cls, fmt.Sprintf("%s/%s/%s/%s/%s/%s", Hex(cl.MAC), IPStr(cl.IP), IPStr(cl.Router), IPsStr(cl.DNS), IPsStr(cl.NTP), Hex([]byte(cl.Hostname))))
	}
	sort.Strings(cls)
	cs := "-"
	if len(cls) > 0 {
		cs = strings.Join(cls, ";")
	}
	so := 0
	if c.StaticOnly {
		so = 1
	}
	return fmt.Sprintf("cfg t=%d base=%d p=%d dynfrom=%s dynto=%s staticonly=%d lease=%d selfip=%s selfmac=%s mask=%s router=%s dns=%s ntp=%s domain=%s clients=%s",
		t, c.Base, c.Plen, IPStr(c.DynFrom), IPStr(c.DynTo), so, int64(c.Lease), IPStr(c.SelfIP), Hex(c.SelfMAC), Hex(net.CIDRMask(c.Plen, 32)),
		IPStr(c.Router), IPsStr(c.DNS), IPsStr(c.NTP), Hex([]byte(c.Domain)), cs)
}

// ---------- a running server on a virtual segment ----------

type TapFrame struct {
	At    int64
	Proto uint16
	L2    net.HardwareAddr
	B     []byte
}

type Responder struct {
	MAC      net.HardwareAddr
	Delay    time.Duration
	SenderIP net.IP // nil: the probed address (a correct answer); otherwise a wrong sender address (noise)
	Pad      bool   // the reply arrives padded to the Ethernet minimum (46 bytes), as on a real segment
}

type SrvEnv struct {
	Conf   *SrvConf
	Iface  *net.Interface
	Seg    *rsocks.Segment
	Srv    *server.Server
	cancel context.CancelFunc
	done   chan error

	mu     sync.Mutex
	frames []TapFrame            // everything the server sent since the last Take
	inj    []TapFrame            // ARP frames injected by responders since the last Take
	Resp   map[uint32]*Responder // ARP responders by address
	wg     sync.WaitGroup
}

var ifaceSeq = 100

// StartServer builds the real server from the configuration and starts its Run loop.
func StartServer(c *SrvConf) (*SrvEnv, error) { return StartServerProto(c, c.Proto(), c.SelfIP) }

// StartServerProto: the same from an explicit (possibly faulty) proto configuration.
func StartServerProto(c *SrvConf, pc *pb.ServerConfig, selfIP net.IP) (*SrvEnv, error) {
	ifaceSeq++
	iface := &net.Interface{Index: ifaceSeq, Name: fmt.Sprintf("v%d", ifaceSeq), HardwareAddr: c.SelfMAC, MTU: 1500}
	rsocks.ResetSeg(iface)
	libif.SetFakeAddr(iface, selfIP)
	ctx, cancel := context.WithCancel(context.Background())
	sx, err := server.New(ctx, log.New(io.Discard, "", 0), iface, pc)
	if err != nil {
		cancel()
		return nil, err
	}
	e := &SrvEnv{Conf: c, Iface: iface, Seg: rsocks.Seg(iface), Srv: sx, cancel: cancel, done: make(chan error, 1), Resp: map[uint32]*Responder{}}
	e.Seg.OnSend = e.onSend
	go func() { e.done <- sx.Run() }()
	return e, nil
}

func (e *SrvEnv) onSend(f rsocks.Frame) {
	now := time.Now().UnixNano()
	e.mu.Lock()
	e.frames = append(e.frames, TapFrame{now, f.Proto, f.L2Dst, f.Payload})
	e.mu.Unlock()
	if f.Proto != 0x0806 || len(f.Payload) != 28 || f.Payload[7] != 1 {
		return
	}
	target := uint32(f.Payload[24])<<24 | uint32(f.Payload[25])<<16 | uint32(f.Payload[26])<<8 | uint32(f.Payload[27])
	e.mu.Lock()
	r := e.Resp[target]
	e.mu.Unlock()
	if r == nil {
		return
	}
	sip := U32IP(target)
	if r.SenderIP != nil {
		sip = r.SenderIP
	}
	reply := layer.ARP{Opcode: 2, SenderMAC: r.MAC, SenderIP: sip, TargetMAC: f.Payload[8:14], TargetIP: net.IP(f.Payload[14:18])}.Assemble()
	if r.Pad || target%2 == 1 { // odd addresses: always padded
		reply = append(reply, make([]byte, 18)...)
	}
	e.wg.Add(1)
	go func() {
		defer e.wg.Done()
		time.Sleep(r.Delay) // >= 1ms: the prober's receive socket exists by then
		e.mu.Lock()
		e.inj = append(e.inj, TapFrame{time.Now().UnixNano(), 0x0806, nil, reply})
		e.mu.Unlock()
		e.Seg.Inject(0x0806, reply)
	}()
}

// Take returns and clears what was sent / injected since the last call.
func (e *SrvEnv) Take() (sent, injected []TapFrame) {
	e.mu.Lock()
	defer e.mu.Unlock()
	sent, injected = e.frames, e.inj
	e.frames, e.inj = nil, nil
	return
}

func (e *SrvEnv) Stop() error {
	e.cancel()
	err := <-e.done
	e.wg.Wait()
	rsocks.ResetSeg(e.Iface) // segments are per interface index and otherwise live for the whole process
	return err
}

// ---------- observation of one handled message ----------

type ObsProbe struct {
	IP     uint32
	Ans    net.HardwareAddr // nil: three timeouts
	Ts, Te int64
}

type Obs struct {
	Probes []ObsProbe
	Tx     []TapFrame // DHCP frames sent
	D      int64      // delay before the first activity (0 if none observed)
	Tend   int64
}

const pingNs = int64(200 * time.Millisecond)

// Observe groups the ARP requests the server sent into arpVerify instances (up to three pings
// of 200 ms, ended early by the first ARP frame whose sender address is the probed address).
func Observe(trx int64, sent, injected []TapFrame) Obs {
	var o Obs
	o.Tend = trx
	first := int64(-1)
	var reqs []TapFrame
	for _, f := range sent {
		if first < 0 {
			first = f.At
		}
		if f.Proto == 0x0806 {
			reqs = append(reqs, f)
		} else {
			o.Tx = append(o.Tx, f)
			if f.At > o.Tend {
				o.Tend = f.At
			}
		}
	}
	if first >= 0 {
		o.D = first - trx
	}
	i := 0
	for i < len(reqs) {
		tgt := uint32(reqs[i].B[24])<<24 | uint32(reqs[i].B[25])<<16 | uint32(reqs[i].B[26])<<8 | uint32(reqs[i].B[27])
		p := ObsProbe{IP: tgt, Ts: reqs[i].At}
		n := 0
		for i < len(reqs) && n < 3 {
			r := reqs[i]
			rt := uint32(r.B[24])<<24 | uint32(r.B[25])<<16 | uint32(r.B[26])<<8 | uint32(r.B[27])
			if rt != tgt {
				break
			}
			i++
			n++
			p.Te = r.At + pingNs
			// first injected ARP frame inside this ping's window whose sender address is the target
			answered := false
			for _, a := range injected {
				if a.At >= r.At && a.At < r.At+pingNs && len(a.B) >= 28 && bytes.Equal(a.B[14:18], r.B[24:28]) {
					p.Ans = net.HardwareAddr(a.B[8:14])
					p.Te = a.At
					answered = true
					break
				}
			}
			if answered {
				break
			}
		}
		if p.Te > o.Tend {
			o.Tend = p.Te
		}
		o.Probes = append(o.Probes, p)
	}
	return o
}

func (o Obs) ProbesStr() string {
	if len(o.Probes) == 0 {
		return "-"
	}
	var p []string
	for _, x := range o.Probes {
		a := "-"
		if x.Ans != nil {
			a = Hex(x.Ans)
		}
		p = append(p, fmt.Sprintf("%s:%s:%d:%d", IPStr(U32IP(x.IP)), a, x.Ts, x.Te))
	}
	return strings.Join(p, ",")
}

// Answer renders the implementation's observable answer to one injected frame.
func (o Obs) Answer() string {
	if len(o.Tx) == 0 {
		return "silent"
	}
	var p []string
	for _, f := range o.Tx {
		p = append(p, fmt.Sprintf("tx t=%d l2=%s b=%s", f.At, Hex(f.L2), Hex(f.B)))
	}
	return strings.Join(p, " | ")
}

// ---------- client messages ----------

type MsgSpec struct {
	Type    uint8
	MAC     net.HardwareAddr
	Xid     uint32
	Flags   uint16
	Cid     []byte // nil: no option 61
	ReqIP   net.IP
	SrvID   net.IP
	Src     net.IP
	Dst     net.IP
	Ciaddr  net.IP
	Extra   []dhcpmsg.DHCPOpt
	Pads    int
	Trailer []byte
	Dup     []uint8 // option codes that are sent a second time, identically, at the end of the option list
}

func (m MsgSpec) Frame() []byte {
	opts := []dhcpmsg.DHCPOpt{}
	if m.Type != 0 {
		opts = append(opts, dhcpmsg.OptionType(m.Type))
	}
	if m.Cid != nil {
		opts = append(opts, dhcpmsg.DHCPOpt{Option: dhcpmsg.OptClientIdentifier, Data: m.Cid})
	}
	if m.ReqIP != nil {
		opts = append(opts, dhcpmsg.OptionRequestedIP(m.ReqIP))
	}
	if m.SrvID != nil {
		opts = append(opts, dhcpmsg.OptionServerIdentifier(m.SrvID))
	}
	opts = append(opts, m.Extra...)
	for _, code := range m.Dup {
		for _, o := range opts {
			if o.Option == code {
				opts = append(opts, dhcpmsg.DHCPOpt{Option: o.Option, Data: append([]byte(nil), o.Data...)})
				break
			}
		}
	}
	if len(opts) == 0 {
		opts = append(opts, dhcpmsg.DHCPOpt{Option: 77, Data: []byte{1}})
	}
	body := dhcpmsg.Message{Op: 1, Htype: 1, Xid: m.Xid, Flags: m.Flags, ClientMAC: m.MAC, ClientIP: m.Ciaddr, Cookie: dhcpmsg.DHCPCookie, Options: opts}.Assemble()
	if m.Pads > 0 { // pads between the fixed header and the first option
		body = append(append(append([]byte(nil), body[:240]...), make([]byte, m.Pads)...), body[240:]...)
	}
	body = append(body, m.Trailer...)
	src, dst := m.Src, m.Dst
	if src == nil {
		src = net.IPv4zero
	}
	if dst == nil {
		dst = net.IPv4bcast
	}
	return layer.IPv4{TTL: 64, Protocol: 0x11, Source: src, Destination: dst,
		Data: layer.UDP{SrcPort: 68, DstPort: 67, Data: body}.Assemble()}.Assemble()
}

// newServerOn builds the real server on a given interface and context (no Run loop started).
func newServerOn(ctx context.Context, iface *net.Interface, c *SrvConf) (*server.Server, error) {
	libif.SetFakeAddr(iface, c.SelfIP)
	return server.New(ctx, log.New(io.Discard, "", 0), iface, c.Proto())
}

func optRaw(code uint8, data []byte) dhcpmsg.DHCPOpt {
	return dhcpmsg.DHCPOpt{Option: code, Data: data}
}
