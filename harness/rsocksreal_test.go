package hx

import (
	"fmt"
	"os/exec"
	"strings"
	"testing"
)

// TestRsocksReal: the socket constructors of lib/rsocks as they are in the repository (NOT the virtual network the other
// streams run on), called in a child process built without the verif tag: on the loopback interface (set-up succeeds,
// the caller closes) and on an interface index that does not exist (bind fails after socket(2) succeeded), for the five
// constructors and hardware-address lengths 0..255. The process must hold as many descriptors afterwards as before
// (garbage collection off, so finalizers close nothing).
func TestRsocksReal(t *testing.T) {
	s := NewStream("rsocksreal")
	defer s.Close()
	bin := BuildDir() + "/rsockprobe"
	out, err := exec.Command(bin).CombinedOutput()
	if err != nil {
		t.Fatalf("rsockprobe: %v\n%s", err, out)
	}
	n := 0
	for _, ln := range strings.Split(strings.TrimSpace(string(out)), "\n") {
		f := strings.Fields(ln)
		if len(f) != 4 {
			t.Fatalf("rsockprobe: unexpected line %q", ln)
		}
		if f[3] == "skip" {
			s.Count("skipped:" + f[0])
			continue
		}
		n++
		op := "note rsocks " + f[0]
		s.Op(op, "ok", true)
		s.Count("result:" + f[3])
		if f[3] == "blocked" {
			for _, p := range []string{"C19", "C08"} {
				s.Find(Finding{Property: p, Signature: "rsocks-close-does-not-wake-read", Stream: "rsocksreal",
					What:     "closing a receive socket does not end a Read that is blocked on it (real lib/rsocks): an ARP probe on a quiet segment never times out and the run loops do not return when their context is cancelled",
					Ops:      []string{op, "Read in a goroutine, Close after 150 ms, wait 2 s; run " + bin}, Expected: "the blocked Read returns an error", Observed: "still blocked 2 s after Close"})
			}
			continue
		}
		if f[1] != f[2] || f[3] == "panic" {
			what := "a socket that was opened has not been closed once activity ceased (real lib/rsocks constructor: descriptors held by the process grew)"
			if f[3] == "panic" {
				what = "a real lib/rsocks constructor panicked"
			}
			s.Find(Finding{Property: "C19", Signature: "rsocks-fd-leak:" + strings.SplitN(f[0], "/", 2)[0] + ":" + f[3], Stream: "rsocksreal", What: what,
				Ops:      []string{op, "8 x (constructor; Close if it succeeded), GC off; run " + bin},
				Expected: "descriptors after = before", Observed: fmt.Sprintf("before=%s after=%s outcome=%s", f[1], f[2], f[3])})
		}
	}
	if n == 0 {
		t.Logf("rsockprobe ran no scenario (no loopback interface)")
	}
}
