package hx

import (
	"context"
	"fmt"
	"net"
	"strings"
	"testing"
	"testing/synctest"
	"time"

	"git.sr.ht/~adrian-blx/psa-dhcp/lib/arpping"
	"git.sr.ht/~adrian-blx/psa-dhcp/lib/layer"
	"git.sr.ht/~adrian-blx/psa-dhcp/lib/rsocks"
)

// TestArp: C08 — the real arpping.Ping against injected frames (which frame counts as an answer,
// bounded duration), the real arpVerify over responder behaviours, and server restarts while
// leaseholders keep answering ARP.
func TestArp(t *testing.T) {
	r := NewRng(Seed(), "arp")
	s := NewStream("arp")
	defer s.Close()
	n := EnvInt("HX_N", 400)
	if Thorough() {
		n = 12000
	}
	iface := &net.Interface{Index: 90, Name: "a90", HardwareAddr: net.HardwareAddr{2, 0, 0, 0, 0, 0x90}, MTU: 1500}
	target := net.IPv4(10, 0, 0, 9)
	genFrame := func() []byte {
		a := layer.ARP{Opcode: Pick(r, byte(1), 2, 7), SenderMAC: net.HardwareAddr(r.Bytes(6)), TargetMAC: net.HardwareAddr(r.Bytes(6)),
			SenderIP: Pick(r, target, target, net.IPv4(10, 0, 0, 8), net.IPv4(10, 0, 9, 9)), TargetIP: Pick(r, target, net.IPv4(10, 0, 0, 1))}
		b := a.Assemble()
		switch r.Intn(8) {
		case 0:
			return b[:r.Intn(28)] // short
		case 1:
			return append(b, r.Bytes(18)...) // padded to the Ethernet minimum: read truncates to 28
		case 2:
			return r.Bytes(28)
		}
		return b
	}
	for i := 0; i < n; i++ {
		var frames [][]byte
		for k := 0; k < r.Intn(5); k++ {
			frames = append(frames, genFrame())
		}
		var ans string
		var took time.Duration
		synctest.Test(t, func(t *testing.T) {
			rsocks.ResetSeg(iface)
			seg := rsocks.Seg(iface)
			go func() {
				time.Sleep(10 * time.Millisecond)
				for _, f := range frames {
					seg.Inject(0x0806, f)
					time.Sleep(time.Millisecond)
				}
			}()
			t0 := time.Now()
			mac, err := arpping.Ping(context.Background(), iface, net.IPv4(10, 0, 0, 1), target)
			took = time.Since(t0)
			if err != nil {
				ans = "timeout"
			} else {
				ans = "answer " + Hex(mac)
			}
			time.Sleep(2 * time.Second)
			synctest.Wait()
		})
		var hx []string
		// the prober also reads its own broadcast request first (PACKET_OUTGOING): sender address = the server's
		own := layer.ARP{Opcode: 1, SenderMAC: iface.HardwareAddr, SenderIP: net.IPv4(10, 0, 0, 1), TargetMAC: []byte{255, 255, 255, 255, 255, 255}, TargetIP: target}.Assemble()
		hx = append(hx, Hex(own))
		for _, f := range frames {
			hx = append(hx, Hex(f))
		}
		op := fmt.Sprintf("catcharp target=%s frames=%s", IPStr(target), strings.Join(hx, ";"))
		s.Op(op, ans, ans != "timeout")
		s.Count("ping/" + strings.SplitN(ans, " ", 2)[0])
		if took > 200*time.Millisecond {
			s.Find(Finding{Property: "C08", Signature: "probe-unbounded", Stream: "arp", What: "a probe did not end within its 200 ms bound", Ops: []string{op}, Observed: took.String()})
		}
		// monitor: only frames whose sender address is the probed one count
		want := "timeout"
		for _, f := range frames {
			if len(f) >= 28 && net.IP(f[14:18]).Equal(target) {
				want = "answer " + Hex(f[8:14])
				break
			}
		}
		if want != ans {
			s.Find(Finding{Property: "C08", Signature: "answer-rule", Stream: "arp", What: "the prober's answer is not the sender hardware address of the first ARP packet whose sender address is the probed address", Ops: []string{op}, Expected: want, Observed: ans})
		}
	}
	// server restart: the database is wiped while leaseholders keep answering ARP
	m := EnvInt("HX_M", 40)
	if Thorough() {
		m = 1500
	}
	for i := 0; i < m; i++ {
		synctest.Test(t, func(t *testing.T) {
			base := uint32(10)<<24 | 8<<8
			pool := 2 + r.Intn(3)
			c := &SrvConf{Base: base, Plen: 24, SelfIP: U32IP(base + 1), SelfMAC: srvMAC, Lease: time.Hour, DynFrom: U32IP(base + 10), DynTo: U32IP(base + 10 + uint32(pool) - 1)}
			// first life: hosts obtain leases
			var steps []scriptStep
			nh := 1 + r.Intn(pool)
			for h := 0; h < nh; h++ {
				mac := net.HardwareAddr{2, 0, 0, 0, 0xee, byte(h)}
				steps = append(steps, scriptStep{Gap: time.Second, Msg: MsgSpec{MAC: mac, Type: 1, Xid: uint32(h)}, Kind: "discover"})
			}
			obs := runSteps(t, s, c, steps, "restart-life1")
			holders := map[uint32]net.HardwareAddr{}
			for h, o := range obs {
				if len(o.Tx) > 0 {
					if rp := ParseReply(o.Tx[0]); rp != nil {
						holders[IPU32(rp.Yiaddr)] = net.HardwareAddr{2, 0, 0, 0, 0xee, byte(h)}
					}
				}
			}
			// second life: a fresh server (empty database); the old holders answer ARP for their addresses
			env, err := StartServer(c)
			if err != nil {
				return
			}
			t0 := time.Now().UnixNano()
			cfgLine := c.Line(t0)
			s.Op(cfgLine, "ok", true)
			synctest.Wait()
			for a, mac := range holders {
				env.Resp[a] = &Responder{MAC: mac, Delay: Pick(r, time.Millisecond, 50*time.Millisecond)}
			}
			mon := NewSrvMonitor(c, s, cfgLine)
			mon.respTable = env.Resp
			newcomers := 1 + r.Intn(3)
			for k := 0; k < newcomers; k++ {
				mac := net.HardwareAddr{2, 0, 0, 0, 0xff, byte(k)}
				msg := MsgSpec{MAC: mac, Type: 1, Xid: uint32(100 + k)}
				if r.Bool() {
					for a := range holders {
						msg.ReqIP = U32IP(a) // asks for an address still in use
						break
					}
				}
				frame := msg.Frame()
				time.Sleep(time.Second)
				trx := time.Now().UnixNano()
				env.Take()
				env.Seg.Inject(0x0800, frame)
				time.Sleep(time.Duration(60+(pool+2)*650) * time.Millisecond)
				synctest.Wait()
				sent, inj := env.Take()
				o := Observe(trx, sent, inj)
				op := fmt.Sprintf("rx t=%d b=%s d=%d tend=%d probes=%s", trx, Hex(frame), o.D, o.Tend, o.ProbesStr())
				s.Op(op, o.Answer(), true)
				s.Count("restart/" + strings.SplitN(o.Answer(), " ", 2)[0])
				mon.Step(trx, frame, o, op)
			}
			env.Stop()
			synctest.Wait()
		})
	}
	// crowded pool: most (or all) addresses of a larger pool are in use by foreign hosts that answer slowly, so one
	// address search probes for seconds while it holds the database lock; the answer must still be an unused
	// address or silence, however long the search takes
	k := EnvInt("HX_K", 24)
	if Thorough() {
		k = 600
	}
	for i := 0; i < k; i++ {
		synctest.Test(t, func(t *testing.T) {
			base := uint32(10)<<24 | 9<<8
			pool := 12 + r.Intn(18)
			c := &SrvConf{Base: base, Plen: 24, SelfIP: U32IP(base + 1), SelfMAC: srvMAC, Lease: time.Hour, DynFrom: U32IP(base + 10), DynTo: U32IP(base + 10 + uint32(pool) - 1)}
			env, err := StartServer(c)
			if err != nil {
				return
			}
			t0 := time.Now().UnixNano()
			cfgLine := c.Line(t0)
			s.Op(cfgLine, "ok", true)
			synctest.Wait()
			free := -1
			if r.Chance(60) {
				free = r.Intn(pool)
			}
			delay := Pick(r, 90*time.Millisecond, 120*time.Millisecond, 150*time.Millisecond, 190*time.Millisecond)
			for a := 0; a < pool; a++ {
				if a == free {
					continue
				}
				env.Resp[base+10+uint32(a)] = &Responder{MAC: net.HardwareAddr{6, 6, 7, 0, 0, byte(a)}, Delay: delay}
			}
			mon := NewSrvMonitor(c, s, cfgLine)
			mon.respTable = env.Resp
			for q := 0; q < 2; q++ {
				msg := MsgSpec{MAC: net.HardwareAddr{2, 0, 0, 0, 0xfd, byte(q)}, Type: 1, Xid: uint32(300 + q)}
				frame := msg.Frame()
				time.Sleep(time.Second)
				trx := time.Now().UnixNano()
				env.Take()
				env.Seg.Inject(0x0800, frame)
				time.Sleep(time.Duration(60+(pool+2)*650) * time.Millisecond)
				synctest.Wait()
				sent, inj := env.Take()
				o := Observe(trx, sent, inj)
				op := fmt.Sprintf("rx t=%d b=%s d=%d tend=%d probes=%s", trx, Hex(frame), o.D, o.Tend, o.ProbesStr())
				s.Op(op, o.Answer(), true)
				s.Count("crowded/" + strings.SplitN(o.Answer(), " ", 2)[0])
				mon.Step(trx, frame, o, op)
			}
			env.Stop()
			synctest.Wait()
		})
	}
}
