package hx

import (
	"bytes"
	"fmt"
	"net"
	"sync"
	"testing"

	"git.sr.ht/~adrian-blx/psa-dhcp/lib/dhcpmsg"
	"git.sr.ht/~adrian-blx/psa-dhcp/lib/server/replies"
)

// TestReplyConc: handler goroutines assemble their replies at the same time (the receive loop starts one goroutine per
// packet). Sixteen goroutines each assemble OFFER / ACK / NAK for their own client — own xid, flags, address, hardware
// address, options — a few thousand times in real concurrency; every result must be byte-identical to the reply assembled
// for the same arguments with nothing else running (C06: a reply echoes ITS request's xid, flags and chaddr; C09: what a
// client is sent never depends on another packet in flight).
func TestReplyConc(t *testing.T) {
	r := NewRng(Seed(), "replyconc")
	s := NewStream("replyconc")
	defer s.Close()
	rounds := EnvInt("HX_N", 3000)
	if Thorough() {
		rounds = 60000
	}
	const G = 16
	type job struct {
		kind  int
		xid   uint32
		flags uint16
		src   net.IP
		dst   net.IP
		mac   net.HardwareAddr
		opts  []dhcpmsg.DHCPOpt
		want  []byte
	}
	build := func(j *job) []byte {
		switch j.kind {
		case 0:
			return replies.AssembleOffer(j.xid, j.flags, j.src, j.dst, j.mac, j.opts)
		case 1:
			return replies.AssembleACK(j.xid, j.flags, j.src, j.dst, j.mac, j.opts)
		}
		return replies.AssembleNACK(j.xid, j.src, j.mac)
	}
	jobs := make([]*job, G)
	for g := range jobs {
		j := &job{kind: g % 3, xid: uint32(r.U64()), flags: Pick(r, uint16(0), 0x8000), src: net.IPv4(10, 0, 0, 1), dst: net.IPv4(10, 0, byte(g), byte(1+r.Intn(250))),
			mac: net.HardwareAddr{2, 0, 0, byte(g), byte(r.U64()), byte(r.U64())}}
		j.opts = []dhcpmsg.DHCPOpt{dhcpmsg.OptionSubnetMask(net.IPv4Mask(255, 255, 255, 0)), dhcpmsg.OptionRouter(net.IPv4(10, 0, byte(g), 1)),
			dhcpmsg.OptionHostname(fmt.Sprintf("host-%d-%d", g, r.Intn(1000)))}
		j.want = build(j) // nothing else is running
		jobs[g] = j
		s.Op(fmt.Sprintf("note replyconc kind=%d xid=%d mac=%s", j.kind, j.xid, Hex(j.mac)), "ok", true)
	}
	var mu sync.Mutex
	var bad []string
	var wg sync.WaitGroup
	start := make(chan struct{})
	for g := 0; g < G; g++ {
		wg.Add(1)
		go func(j *job) {
			defer wg.Done()
			<-start
			for k := 0; k < rounds; k++ {
				got := build(j)
				if !bytes.Equal(got, j.want) {
					mu.Lock()
					if len(bad) < 3 {
						bad = append(bad, fmt.Sprintf("kind=%d xid=%08x mac=%s round %d: got %s want %s", j.kind, j.xid, j.mac, k, Hex(got), Hex(j.want)))
					}
					mu.Unlock()
					return
				}
			}
		}(jobs[g])
	}
	close(start)
	wg.Wait()
	s.Count(fmt.Sprintf("goroutines=%d", G))
	s.Dist["assemblies"] = G * rounds
	if len(bad) > 0 {
		for _, p := range []string{"C06", "C09"} {
			s.Find(Finding{Property: p, Signature: "reply-mixed-up-under-concurrency", Stream: "replyconc",
				What:     "a reply assembled while other handlers assemble theirs is not the reply for its own request (it carries fields of another packet in flight): OFFER/ACK does not echo the xid, flags or chaddr of its request",
				Ops:      []string{fmt.Sprintf("%d goroutines x %d x replies.AssembleOffer/ACK/NACK with per-goroutine arguments (VERIF_SEED=%d)", G, rounds, Seed())},
				Expected: "the bytes assembled for the same arguments with nothing else running", Observed: bad[0]})
		}
	}
}
