// factgen reads /repo's current working tree with go/parser and emits
// lean/PsaDhcp/Generated/Facts.lean (+ facts.json): the constants the Lean models import and the
// structural facts that no input/output test can see. Shapes it does not recognise are emitted as
// `unknown` values so that the expectation lemmas in Expect.lean fail.
package main

import (
	"encoding/json"
	"fmt"
	"go/ast"
	"go/parser"
	"go/printer"
	"go/token"
	"hash/fnv"
	"os"
	"path/filepath"
	"sort"
	"strconv"
	"strings"
)

var (
	repo  string
	fset  = token.NewFileSet()
	files = map[string]*ast.File{}
)

func load(rel string) *ast.File {
	if f, ok := files[rel]; ok {
		return f
	}
	f, err := parser.ParseFile(fset, filepath.Join(repo, rel), nil, parser.SkipObjectResolution)
	if err != nil {
		files[rel] = nil
		return nil
	}
	files[rel] = f
	return f
}

func src(n ast.Node) string {
	var sb strings.Builder
	printer.Fprint(&sb, fset, n)
	return sb.String()
}

// ---------- tiny constant evaluator ----------

var durUnits = map[string]int64{"Nanosecond": 1, "Microsecond": 1e3, "Millisecond": 1e6, "Second": 1e9, "Minute": 60e9, "Hour": 3600e9}

func eval(e ast.Expr, env map[string]int64) (int64, bool) {
	switch x := e.(type) {
	case *ast.BasicLit:
		if x.Kind == token.INT {
			v, err := strconv.ParseInt(x.Value, 0, 64)
			return v, err == nil
		}
		if x.Kind == token.CHAR {
			s, err := strconv.Unquote(x.Value)
			if err == nil && len(s) == 1 {
				return int64(s[0]), true
			}
		}
	case *ast.ParenExpr:
		return eval(x.X, env)
	case *ast.Ident:
		if v, ok := env[x.Name]; ok {
			return v, true
		}
		if x.Name == "iota" {
			if v, ok := env["iota"]; ok {
				return v, true
			}
		}
	case *ast.SelectorExpr:
		if id, ok := x.X.(*ast.Ident); ok && id.Name == "time" {
			if v, ok := durUnits[x.Sel.Name]; ok {
				return v, true
			}
		}
		if v, ok := env[x.Sel.Name]; ok { // pkg.Const
			return v, true
		}
	case *ast.CallExpr: // conversions like uint16(1500), time.Duration(x)
		if len(x.Args) == 1 {
			return eval(x.Args[0], env)
		}
	case *ast.BinaryExpr:
		a, ok1 := eval(x.X, env)
		b, ok2 := eval(x.Y, env)
		if ok1 && ok2 {
			switch x.Op {
			case token.ADD:
				return a + b, true
			case token.SUB:
				return a - b, true
			case token.MUL:
				return a * b, true
			case token.SHL:
				return a << uint(b), true
			case token.SHR:
				return a >> uint(b), true
			case token.OR:
				return a | b, true
			case token.AND:
				return a & b, true
			}
		}
	}
	return 0, false
}

// constsOf evaluates all package-level constants of a file (with iota).
func constsOf(rel string, env map[string]int64) {
	f := load(rel)
	if f == nil {
		return
	}
	for _, d := range f.Decls {
		gd, ok := d.(*ast.GenDecl)
		if !ok || gd.Tok != token.CONST {
			continue
		}
		var last []ast.Expr
		for i, s := range gd.Specs {
			vs := s.(*ast.ValueSpec)
			vals := vs.Values
			if len(vals) == 0 {
				vals = last
			} else {
				last = vals
			}
			env["iota"] = int64(i)
			for j, n := range vs.Names {
				if j < len(vals) {
					if v, ok := eval(vals[j], env); ok {
						env[n.Name] = v
					}
				}
			}
		}
	}
	delete(env, "iota")
}

func funcDecl(rel, name string) *ast.FuncDecl {
	f := load(rel)
	if f == nil {
		return nil
	}
	for _, d := range f.Decls {
		if fd, ok := d.(*ast.FuncDecl); ok && fd.Name.Name == name {
			return fd
		}
	}
	return nil
}

func calleeName(c *ast.CallExpr) string {
	switch f := c.Fun.(type) {
	case *ast.Ident:
		return f.Name
	case *ast.SelectorExpr:
		return src(f)
	}
	return ""
}

// callsIn returns all calls inside node whose callee (printed) equals name.
func callsIn(n ast.Node, name string) []*ast.CallExpr {
	var out []*ast.CallExpr
	if n == nil {
		return nil
	}
	ast.Inspect(n, func(x ast.Node) bool {
		if c, ok := x.(*ast.CallExpr); ok && calleeName(c) == name {
			out = append(out, c)
		}
		return true
	})
	return out
}

// ---------- output ----------

type fact struct {
	name string
	lean string // Lean term
	json interface{}
	doc  string
}

var facts []fact

func natFact(name string, v int64, ok bool, doc string) {
	if !ok {
		// an unrecognised shape: a value no expectation accepts
		facts = append(facts, fact{name, "0xDEADFAC7", "unknown", doc + " (UNRECOGNISED SHAPE)"})
		return
	}
	facts = append(facts, fact{name, fmt.Sprintf("%d", v), v, doc})
}
func boolFact(name string, v bool, doc string) {
	facts = append(facts, fact{name, fmt.Sprintf("%v", v), v, doc})
}
func boolsFact(name string, v []bool, ok bool, doc string) {
	if !ok {
		// an unrecognised shape: one step that does not close
		facts = append(facts, fact{name, "[false]", "unknown", doc + " (UNRECOGNISED SHAPE)"})
		return
	}
	parts := make([]string, len(v))
	for i, b := range v {
		parts[i] = fmt.Sprintf("%v", b)
	}
	facts = append(facts, fact{name, "[" + strings.Join(parts, ", ") + "]", v, doc})
}
func strFact(name string, v string, doc string) {
	facts = append(facts, fact{name, strconv.Quote(v), v, doc})
}
func bytesFact(name string, v []int64, ok bool, doc string) {
	if !ok {
		facts = append(facts, fact{name, "[0xDE, 0xAD]", "unknown", doc + " (UNRECOGNISED SHAPE)"})
		return
	}
	p := make([]string, len(v))
	for i, x := range v {
		p[i] = fmt.Sprintf("%d", x)
	}
	facts = append(facts, fact{name, "[" + strings.Join(p, ", ") + "]", v, doc})
}

func hashOf(s string) int64 {
	h := fnv.New64a()
	h.Write([]byte(s))
	return int64(h.Sum64() >> 1)
}

// normalized source of a function body without comments
func bodyText(fd *ast.FuncDecl) string {
	if fd == nil || fd.Body == nil {
		return ""
	}
	return strings.Join(strings.Fields(src(fd.Body)), " ")
}

func main() {
	repo = "/repo"
	out := "/verif/lean/PsaDhcp/Generated/Facts.lean"
	if len(os.Args) > 1 {
		repo = os.Args[1]
	}
	if len(os.Args) > 2 {
		out = os.Args[2]
	}
	env := map[string]int64{}
	constsOf("lib/dhcpmsg/constants.go", env)
	constsOf("lib/dhcpmsg/parse.go", env)
	constsOf("lib/layer/constants.go", env)
	constsOf("lib/layer/ip.go", env)
	constsOf("lib/layer/udp.go", env)
	constsOf("lib/layer/arp.go", env)
	get := func(n string) (int64, bool) { v, ok := env[n]; return v, ok }
	for _, n := range []string{"OpRequest", "OpReply", "HtypeETHER", "FlagBroadcast", "DHCPCookie", "MsgTypeDiscover", "MsgTypeOffer",
		"MsgTypeRequest", "MsgTypeAck", "MsgTypeNack", "OptPadding", "OptSubnetMask", "OptRouter", "OptDNS", "OptHostname", "OptDomainName",
		"OptInterfaceMTU", "OptBroadcastAddress", "OptNTP", "OptRequestedIP", "OptIPAddressLeaseDuration", "OptMessageType",
		"OptServerIdentifier", "OptParametersList", "OptMessage", "OptMaxMessageSize", "OptRenewalDuration", "OptRebindDuration",
		"OptClientIdentifier", "OptEnd", "dhcpMinLen", "ProtoUDP", "ipv4Hlen", "udpHlen", "ARPOpRequest"} {
		v, ok := get(n)
		natFact("c"+strings.ToUpper(n[:1])+n[1:], v, ok, "const "+n)
	}

	// ---- server: offer hold, DISCOVER delay, probe count ----
	{
		fd := funcDecl("lib/server/netio.go", "handleDiscover")
		cs := callsIn(fd, "sx.ipdb.UpdateClient")
		var v int64
		ok := false
		if len(cs) == 1 && len(cs[0].Args) == 3 {
			v, ok = eval(cs[0].Args[2], env)
		}
		natFact("offerHoldNs", v, ok, "third argument of the only UpdateClient call in handleDiscover")
		fr := funcDecl("lib/server/netio.go", "handleRequest")
		cs = callsIn(fr, "sx.ipdb.UpdateClient")
		boolFact("ackUsesLeaseDuration", len(cs) == 1 && len(cs[0].Args) == 3 && src(cs[0].Args[2]) == "sx.lopts.LeaseDuration",
			"handleRequest reserves with sx.lopts.LeaseDuration")
		fo := funcDecl("lib/server/server.go", "dhcpOptions")
		cs = callsIn(fo, "dhcpmsg.OptionIPAddressLeaseDuration")
		boolFact("optionUsesLeaseDuration", len(cs) == 1 && len(cs[0].Args) == 1 && src(cs[0].Args[0]) == "sx.lopts.LeaseDuration",
			"dhcpOptions advertises sx.lopts.LeaseDuration")
	}
	{
		fd := funcDecl("lib/server/utils.go", "arpVerify")
		n, ok := int64(0), false
		if fd != nil {
			ast.Inspect(fd, func(x ast.Node) bool {
				if fs, isFor := x.(*ast.ForStmt); isFor {
					if be, isB := fs.Cond.(*ast.BinaryExpr); isB && be.Op == token.LSS {
						n, ok = eval(be.Y, env)
					}
				}
				return true
			})
		}
		natFact("arpVerifyProbes", n, ok, "loop bound of arpVerify")
		fp := funcDecl("lib/arpping/arpping.go", "Ping")
		cs := callsIn(fp, "context.WithTimeout")
		v, ok2 := int64(0), false
		if len(cs) == 1 && len(cs[0].Args) == 2 {
			v, ok2 = eval(cs[0].Args[1], env)
		}
		natFact("arpProbeTimeoutNs", v, ok2, "timeout of one arpping.Ping")
		// the internal identity prefix: package-level var internalDuidPrefix (or, on older trees, the
		// []byte literal inside duidFromHwAddr); getDuid must test client ids against it.
		var pre []int64
		okp := false
		lit := func(cl *ast.CompositeLit) {
			if src(cl.Type) == "[]byte" && len(cl.Elts) > 0 && !okp {
				okp = true
				for _, e := range cl.Elts {
					v, o := eval(e, env)
					if !o {
						okp = false
					}
					pre = append(pre, v)
				}
			}
		}
		if f := load("lib/server/utils.go"); f != nil {
			for _, d := range f.Decls {
				if gd, ok := d.(*ast.GenDecl); ok && gd.Tok == token.VAR {
					for _, s := range gd.Specs {
						vs := s.(*ast.ValueSpec)
						if len(vs.Names) == 1 && vs.Names[0].Name == "internalDuidPrefix" && len(vs.Values) == 1 {
							if cl, ok := vs.Values[0].(*ast.CompositeLit); ok {
								lit(cl)
							}
						}
					}
				}
			}
		}
		fdu := funcDecl("lib/server/utils.go", "duidFromHwAddr")
		if fdu != nil && !okp {
			ast.Inspect(fdu, func(x ast.Node) bool {
				if cl, isCl := x.(*ast.CompositeLit); isCl {
					lit(cl)
				}
				return true
			})
		}
		fg := funcDecl("lib/server/utils.go", "getDuid")
		tg := bodyText(fg)
		boolFact("getDuidGuardsInternalNamespace", strings.Contains(tg, "bytes.HasPrefix(cid, internalDuidPrefix)") && strings.Contains(bodyText(fdu), "internalDuidPrefix"),
			"getDuid sends client ids in the internal namespace to the hardware identity; duidFromHwAddr uses the same prefix")
		natFact("hashGetDuid", hashOf(tg), fg != nil, "hash of the normalised body of getDuid")
		bytesFact("internalDuidPrefix", pre, okp, "byte prefix of the server's hardware-address identity")
	}
	// ---- replies ----
	{
		fd := funcDecl("lib/server/replies/common.go", "assembleUdp")
		kv := map[string]int64{}
		okAll := fd != nil
		if fd != nil {
			ast.Inspect(fd, func(x ast.Node) bool {
				if k, isKV := x.(*ast.KeyValueExpr); isKV {
					if id, isID := k.Key.(*ast.Ident); isID {
						if v, ok := eval(k.Value, env); ok {
							kv[id.Name] = v
						}
					}
				}
				return true
			})
		}
		for _, n := range []string{"TTL", "Protocol", "SrcPort", "DstPort"} {
			v, ok := kv[n]
			natFact("reply"+n, v, ok && okAll, "assembleUdp field "+n)
		}
	}
	// ---- leaseopts: minimum lease ----
	{
		fd := funcDecl("lib/server/leaseopts/leaseopts.go", "ParseConfig")
		v, ok := int64(0), false
		if fd != nil {
			ast.Inspect(fd, func(x ast.Node) bool {
				if be, isB := x.(*ast.BinaryExpr); isB && be.Op == token.LSS && src(be.X) == "ld" {
					v, ok = eval(be.Y, env)
				}
				return true
			})
		}
		natFact("minLeaseNs", v, ok, "ParseConfig rejects ld < this")
	}
	// ---- ipdb lock discipline ----
	{
		f := load("lib/server/ipdb/ipdb.go")
		locked, unlocked := []string{}, []string{}
		if f != nil {
			for _, d := range f.Decls {
				fd, ok := d.(*ast.FuncDecl)
				if !ok || fd.Recv == nil || !fd.Name.IsExported() || fd.Body == nil {
					continue
				}
				b := fd.Body.List
				isLocked := len(b) >= 2 && strings.Join(strings.Fields(src(b[0])), "") == "ix.Lock()" &&
					strings.Join(strings.Fields(src(b[1])), "") == "deferix.Unlock()"
				if isLocked {
					locked = append(locked, fd.Name.Name)
				} else {
					unlocked = append(unlocked, fd.Name.Name)
				}
			}
		}
		sort.Strings(locked)
		sort.Strings(unlocked)
		strFact("ipdbLockedMethods", strings.Join(locked, ","), "exported *IPDB methods whose body starts with ix.Lock(); defer ix.Unlock()")
		strFact("ipdbUnlockedMethods", strings.Join(unlocked, ","), "exported *IPDB methods without that prologue")
		// the unlocked ones must not touch mutable state: they may only call toUip
		okRO := true
		for _, n := range unlocked {
			fd := funcDecl("lib/server/ipdb/ipdb.go", n)
			t := bodyText(fd)
			if strings.Contains(t, "ix.clients") || strings.Contains(t, "ix.dyn") {
				okRO = false
			}
		}
		boolFact("ipdbUnlockedReadOnly", okRO, "methods without the lock touch neither ix.clients nor ix.dyn*")
		// every clock reading of a locked method happens while the lock is held (after ix.Lock())
		clockOK := true
		for _, n := range locked {
			fd := funcDecl("lib/server/ipdb/ipdb.go", n)
			t := bodyText(fd)
			i := strings.Index(t, "ix.Lock()")
			j := strings.Index(t, "time.Now()")
			if j >= 0 && (i < 0 || j < i) {
				clockOK = false
			}
		}
		for _, n := range unlocked {
			if strings.Contains(bodyText(funcDecl("lib/server/ipdb/ipdb.go", n)), "time.Now()") {
				clockOK = false
			}
		}
		boolFact("ipdbClockReadUnderLock", clockOK && len(locked) > 0, "every time.Now() of the lease database is read while the lock is held")
	}
	// ---- server.Run: hand-off by value, buffer freshness ----
	{
		fd := funcDecl("lib/server/run.go", "Run")
		t := bodyText(fd)
		boolFact("runHandsMessageByValue", strings.Contains(t, "go sx.handleMsg(v4.Source, v4.Destination, *dhcp)"),
			"Run starts one goroutine per packet with a by-value Message")
		// freshness: either the buffer is allocated inside the for loop, or the datagram is copied before decoding
		fresh := false
		if fd != nil {
			ast.Inspect(fd, func(x ast.Node) bool {
				if fs, ok := x.(*ast.ForStmt); ok {
					bt := strings.Join(strings.Fields(src(fs.Body)), " ")
					if strings.Contains(bt, "make([]byte") || strings.Contains(bt, "append([]byte(nil)") || strings.Contains(bt, "bytes.Clone(") || strings.Contains(bt, "copy(") {
						fresh = true
					}
				}
				return true
			})
		}
		boolFact("runBufferFreshPerPacket", fresh, "each handler's option payloads do not alias a buffer the receive loop reuses")
		natFact("hashServerRun", hashOf(t), fd != nil, "hash of the normalised body of server.Run")
	}
	// ---- server.New: error handling of configuration steps ----
	{
		fd := funcDecl("lib/server/server.go", "New")
		t := bodyText(fd)
		boolFact("newChecksOverrideError", strings.Contains(t, "err := lo.SetClientOverrides(&oopts, v); err != nil") ||
			strings.Contains(t, "err = lo.SetClientOverrides(&oopts, v); err != nil"), "server.New checks the error of SetClientOverrides")
		// key used for the duplicate test vs key used for insertion
		dupKey, insKey := "", ""
		if fd != nil {
			ast.Inspect(fd, func(x ast.Node) bool {
				switch s := x.(type) {
				case *ast.AssignStmt:
					if len(s.Lhs) == 1 {
						if ix, ok := s.Lhs[0].(*ast.IndexExpr); ok && src(ix.X) == "overrides" {
							insKey = src(ix.Index)
						}
					}
					if len(s.Lhs) == 2 && len(s.Rhs) == 1 {
						if ix, ok := s.Rhs[0].(*ast.IndexExpr); ok && src(ix.X) == "overrides" {
							dupKey = src(ix.Index)
						}
					}
				}
				return true
			})
		}
		boolFact("newDuplicateKeyConsistent", dupKey != "" && dupKey == insKey, "duplicate-override test uses the key that is inserted")
		natFact("hashServerNew", hashOf(t), fd != nil, "hash of the normalised body of server.New")
	}
	// ---- client constants ----
	{
		durArg := func(rel, fn, callee string, idx int) (int64, bool) {
			fd := funcDecl(rel, fn)
			cs := callsIn(fd, callee)
			if len(cs) >= 1 && len(cs[0].Args) > idx {
				return eval(cs[0].Args[idx], env)
			}
			return 0, false
		}
		v, ok := durArg("lib/client/dclient/dhcpstates.go", "runStateDiscovering", "time.Now().Add", 0)
		natFact("cliDiscoverTimeoutNs", v, ok, "deadline of the DISCOVER exchange")
		v, ok = durArg("lib/client/dclient/dhcpstates.go", "runStateSelecting", "time.Now().Add", 0)
		natFact("cliSelectTimeoutNs", v, ok, "deadline of the selecting exchange")
		v, ok = durArg("lib/client/dclient/sysstates.go", "panicReset", "context.WithTimeout", 1)
		natFact("cliPanicResetNs", v, ok, "panicReset pause")
		v, ok = durArg("lib/client/dclient/dclient.go", "ResumeClient", "time.Now().Add", 0)
		natFact("cliResumeNs", v, ok, "ResumeClient deadlines")
		// sendMessage: barrier and base delay
		fd := funcDecl("lib/client/dclient/netio.go", "sendMessage")
		bar, okb, del, okd := int64(0), false, int64(0), false
		if fd != nil {
			ast.Inspect(fd, func(x ast.Node) bool {
				if as, ok := x.(*ast.AssignStmt); ok && as.Tok == token.DEFINE && len(as.Lhs) == 1 && len(as.Rhs) == 1 {
					switch src(as.Lhs[0]) {
					case "barrier":
						bar, okb = eval(as.Rhs[0], env)
					case "delay":
						del, okd = eval(as.Rhs[0], env)
					}
				}
				return true
			})
		}
		natFact("cliRetransBarrierNs", bar, okb, "sendMessage barrier")
		natFact("cliRetransBaseNs", del, okd, "sendMessage initial delay")
		t := bodyText(fd)
		boolFact("cliRetransGrowsOnly", strings.Contains(t, "delay += time.Duration(rand.Int63() % (1 + delay.Nanoseconds()))") && !strings.Contains(t, "delay -=") && strings.Count(t, "delay =") == 0,
			"the retransmission delay is only ever increased, by a non-negative amount")
		// verify: minimum lease
		fv := funcDecl("lib/client/verify/verifyer.go", "verifyCommon")
		mv, okm := int64(0), false
		if fv != nil {
			ast.Inspect(fv, func(x ast.Node) bool {
				if be, isB := x.(*ast.BinaryExpr); isB && be.Op == token.LSS && src(be.X) == "opt.IPAddressLeaseDuration" {
					mv, okm = eval(be.Y, env)
				}
				return true
			})
		}
		natFact("cliMinLeaseNs", mv, okm, "verifyCommon rejects leases below this")
		// limiter
		fn := funcDecl("lib/client/dclient/dclient.go", "New")
		cs := callsIn(fn, "rate.NewLimiter")
		r, okr, b, okb2 := int64(0), false, int64(0), false
		if len(cs) == 1 && len(cs[0].Args) == 2 {
			r, okr = eval(cs[0].Args[0], env)
			b, okb2 = eval(cs[0].Args[1], env)
		}
		natFact("cliLimiterRate", r, okr, "rate limiter events/s")
		natFact("cliLimiterBurst", b, okb2, "rate limiter burst")
	}
	// ---- sanitising regexes, resolv.conf ----
	{
		reOf := func(rel, name string) (string, bool) {
			f := load(rel)
			if f == nil {
				return "", false
			}
			res, ok := "", false
			ast.Inspect(f, func(x ast.Node) bool {
				if vs, isV := x.(*ast.ValueSpec); isV && len(vs.Names) == 1 && vs.Names[0].Name == name && len(vs.Values) == 1 {
					if c, isC := vs.Values[0].(*ast.CallExpr); isC && calleeName(c) == "regexp.MustCompile" && len(c.Args) == 1 {
						if bl, isB := c.Args[0].(*ast.BasicLit); isB {
							if s, err := strconv.Unquote(bl.Value); err == nil {
								res, ok = s, true
							}
						}
					}
				}
				return true
			})
			return res, ok
		}
		s, ok := reOf("lib/client/callback/callback.go", "reBadChars")
		if !ok {
			s = "UNRECOGNISED"
		}
		strFact("reBadChars", s, "callback.reBadChars")
		s, ok = reOf("lib/resolvconf/resolvconf.go", "reGoodChars")
		if !ok {
			s = "UNRECOGNISED"
		}
		strFact("reGoodChars", s, "resolvconf.reGoodChars")
		s, ok = reOf("lib/resolvconf/resolvconf.go", "reGoodNums")
		if !ok {
			s = "UNRECOGNISED"
		}
		strFact("reGoodNums", s, "resolvconf.reGoodNums")
		fe := funcDecl("lib/client/callback/callback.go", "envEntry")
		boolFact("envEntrySanitizes", strings.Contains(bodyText(fe), `val = reBadChars.ReplaceAllString(val, "_")`) &&
			strings.Contains(bodyText(fe), `fmt.Sprintf("PSA_DHCPC_%s=%s", key, val)`), "envEntry replaces bad characters by '_' before formatting")
		// update(): ordered file-system calls
		fu := funcDecl("lib/resolvconf/resolvconf.go", "update")
		var seq []string
		if fu != nil {
			ast.Inspect(fu, func(x ast.Node) bool {
				if c, isC := x.(*ast.CallExpr); isC {
					switch n := calleeName(c); n {
					case "ioutil.TempFile", "os.CreateTemp", "tmpfh.Write", "tmpfh.Close", "os.Chmod", "os.Rename", "os.Remove", "tmpfh.Sync":
						a := make([]string, len(c.Args))
						for i, e := range c.Args {
							a[i] = src(e)
						}
						seq = append(seq, n+"("+strings.Join(a, ", ")+")")
					}
				}
				return true
			})
		}
		strFact("resolvUpdateCalls", strings.Join(seq, "; "), "file-system calls of resolvconf.update in source order")
		natFact("hashResolvUpdate", hashOf(bodyText(fu)), fu != nil, "hash of the normalised body of resolvconf.update")
	}

	// ---- hand-restated client glue (C15): mclient.Run / monitor / filterNetconfig are re-stated in Code/Bridge8.lean (mrun,
	// filterGen), advanceState and hackAbsoluteSleep are environment operations of the translated automaton whose behaviour
	// Bridge8 fixes by hand. Their normalised source text is pinned: a change there is a change of a modelled, not verified, part.
	for _, g := range [][3]string{{"hashMclientRun", "lib/client/mclient.go", "Run"}, {"hashMclientMonitor", "lib/client/mclient.go", "monitor"},
		{"hashFilterNetconfig", "lib/client/filter.go", "filterNetconfig"}, {"hashAdvanceState", "lib/client/dclient/dclient.go", "advanceState"},
		{"hashHackAbsoluteSleep", "lib/client/dclient/dclient.go", "hackAbsoluteSleep"}} {
		fd := funcDecl(g[1], g[2])
		natFact(g[0], hashOf(bodyText(fd)), fd != nil && fd.Body != nil, "hash of the normalised body of "+g[2]+" ("+g[1]+")")
	}

	// ---- socket disciplines (C19) ----
	{
		disc := func(rel, fn string, openers ...string) string {
			fd := funcDecl(rel, fn)
			if fd == nil || fd.Body == nil {
				return "unknown"
			}
			// the variable that receives the socket
			v := ""
			ast.Inspect(fd, func(x ast.Node) bool {
				if as, ok := x.(*ast.AssignStmt); ok && len(as.Lhs) == 2 && len(as.Rhs) == 1 {
					if c, ok := as.Rhs[0].(*ast.CallExpr); ok {
						for _, o := range openers {
							if calleeName(c) == o && v == "" {
								v = src(as.Lhs[0])
							}
						}
					}
				}
				return true
			})
			if v == "" {
				return "unknown"
			}
			t := bodyText(fd)
			hasDefer := strings.Contains(t, "defer "+v+".Close()")
			hasCloser := strings.Contains(t, "go func() { <-ctx.Done() "+v+".Close() }()") && strings.Contains(t, "ctx, cancel := context.WithCancel(") && strings.Contains(t, "defer cancel()")
			// unconditional Close as a top-level statement after the error check, with no return in between
			closeAfter := false
			seenOpen := false
			for _, st := range fd.Body.List {
				txt := strings.Join(strings.Fields(src(st)), " ")
				if strings.Contains(txt, v+", err :=") {
					seenOpen = true
					continue
				}
				if !seenOpen {
					continue
				}
				if txt == v+".Close()" {
					closeAfter = true
					break
				}
				if strings.HasPrefix(txt, "return") {
					break
				}
			}
			switch {
			case hasCloser && !hasDefer:
				return "closerOnCancel"
			case hasDefer && !hasCloser:
				return "deferClose"
			case closeAfter:
				return "closeAfterUse"
			}
			return "unknown"
		}
		strFact("discCatchARPReply", disc("lib/arpping/arpping.go", "catchARPReply", "rsocks.GetARPRecvSock"), "socket discipline of arpping.catchARPReply")
		strFact("discSendARPPing", disc("lib/arpping/arpping.go", "sendARPPing", "rsocks.GetARPSendSock"), "socket discipline of arpping.sendARPPing")
		strFact("discServerRun", disc("lib/server/run.go", "Run", "rsocks.GetIPRecvSock"), "socket discipline of server.Run")
		strFact("discSendUnicast", disc("lib/server/utils.go", "sendUnicast", "rsocks.GetUnicastSendSock"), "socket discipline of server.sendUnicast")
		strFact("discSendMessage", disc("lib/client/dclient/netio.go", "sendMessage", "sendSocket"), "socket discipline of dclient.sendMessage")
		strFact("discCatchReply", disc("lib/client/dclient/netio.go", "catchReply", "rsocks.GetIPRecvSock"), "socket discipline of dclient.catchReply")
		// the constructors of lib/rsocks themselves: after syscall.Socket succeeded, one entry per `return` that reports an
		// error — does the code close the descriptor (syscall.Close(<fd>) earlier in the same block) before it returns?
		ctor := func(rel, fn string) ([]bool, bool) {
			fd := funcDecl(rel, fn)
			if fd == nil || fd.Body == nil {
				return nil, false
			}
			v, openIdx := "", -1
			for i, st := range fd.Body.List {
				if as, ok := st.(*ast.AssignStmt); ok && len(as.Lhs) == 2 && len(as.Rhs) == 1 {
					if c, ok := as.Rhs[0].(*ast.CallExpr); ok && calleeName(c) == "syscall.Socket" {
						v, openIdx = src(as.Lhs[0]), i
						break
					}
				}
			}
			// the statement after the open must be its own error check
			if v == "" || openIdx+1 >= len(fd.Body.List) {
				return nil, false
			}
			if chk, ok := fd.Body.List[openIdx+1].(*ast.IfStmt); !ok || strings.Join(strings.Fields(src(chk.Cond)), " ") != "err != nil" {
				return nil, false
			}
			var res []bool
			okShape := true
			var scan func(list []ast.Stmt, closedAbove bool)
			scan = func(list []ast.Stmt, closedAbove bool) {
				closed := closedAbove
				for _, st := range list {
					switch x := st.(type) {
					case *ast.ExprStmt:
						if strings.Join(strings.Fields(src(x.X)), "") == "syscall.Close("+v+")" {
							closed = true
						}
					case *ast.DeferStmt:
						okShape = false // a deferred close would also run on success: not a shape we classify
					case *ast.ReturnStmt:
						if len(x.Results) == 2 && src(x.Results[1]) != "nil" {
							res = append(res, closed)
						}
					case *ast.IfStmt:
						scan(x.Body.List, closed)
						if x.Else != nil {
							if b, ok := x.Else.(*ast.BlockStmt); ok {
								scan(b.List, closed)
							} else {
								okShape = false
							}
						}
					case *ast.BlockStmt:
						scan(x.List, closed)
					case *ast.ForStmt, *ast.RangeStmt, *ast.SwitchStmt, *ast.TypeSwitchStmt, *ast.SelectStmt, *ast.GoStmt, *ast.LabeledStmt:
						// a return inside one of these is not classified
						ast.Inspect(st, func(n ast.Node) bool {
							if _, ok := n.(*ast.ReturnStmt); ok {
								okShape = false
							}
							return true
						})
					}
				}
			}
			scan(fd.Body.List[openIdx+2:], false)
			return res, okShape
		}
		cs, ok1 := ctor("lib/rsocks/send.go", "getSendSock")
		boolsFact("ctorSendCloses", cs, ok1, "rsocks.getSendSock: per error return after socket(2) succeeded, whether the descriptor is closed first")
		cr, ok2 := ctor("lib/rsocks/recv.go", "getRecvSock")
		boolsFact("ctorRecvCloses", cr, ok2, "rsocks.getRecvSock: per error return after socket(2) succeeded, whether the descriptor is closed first")
		// the public constructors only delegate
		deleg := true
		for _, d := range [][3]string{{"lib/rsocks/send.go", "GetIPSendSock", "return getSendSock("}, {"lib/rsocks/send.go", "GetUnicastSendSock", "return getSendSock("},
			{"lib/rsocks/send.go", "GetARPSendSock", "return getSendSock("}, {"lib/rsocks/recv.go", "GetIPRecvSock", "return getRecvSock("}, {"lib/rsocks/recv.go", "GetARPRecvSock", "return getRecvSock("}} {
			f := funcDecl(d[0], d[1])
			if f == nil || f.Body == nil || len(f.Body.List) != 1 || !strings.HasPrefix(strings.Join(strings.Fields(src(f.Body.List[0])), " "), d[2]) {
				deleg = false
			}
		}
		boolFact("rsocksCtorsDelegate", deleg, "the five public rsocks constructors consist of one call of getSendSock / getRecvSock")
		// Ping cancels its context on return, which ends sendARPPing; advanceState likewise ends sendMessage
		tp := bodyText(funcDecl("lib/arpping/arpping.go", "Ping"))
		boolFact("pingCancelsOnReturn", strings.Contains(tp, "actx, acancel := context.WithTimeout(ctx,") && strings.Contains(tp, "defer acancel()") && strings.Contains(tp, "go sendARPPing(actx,"),
			"Ping derives a timeout context, defers its cancel and hands it to sendARPPing")
		ta := bodyText(funcDecl("lib/client/dclient/dclient.go", "advanceState"))
		boolFact("advanceStateCancelsOnReturn", strings.Contains(ta, "ctx, cancel := context.WithDeadline(dx.ctx, deadline)") && strings.Contains(ta, "defer cancel()") && strings.Contains(ta, "go sendMessage(ctx,"),
			"advanceState derives a deadline context, defers its cancel and hands it to sendMessage")
	}
	// ---- write ----
	var sb strings.Builder
	sb.WriteString("/- GENERATED by /verif/factgen from the current /repo working tree. Do not edit. -/\nnamespace PsaDhcp.Facts\n\n")
	js := map[string]interface{}{}
	for _, f := range facts {
		ty := "Nat"
		switch f.json.(type) {
		case bool:
			ty = "Bool"
		case string:
			if strings.HasPrefix(f.lean, "\"") {
				ty = "String"
			}
		case []int64:
			ty = "List Nat"
		case []bool:
			ty = "List Bool"
		}
		if f.lean == "[false]" {
			ty = "List Bool"
		}
		if f.lean == "[0xDE, 0xAD]" {
			ty = "List Nat"
		}
		fmt.Fprintf(&sb, "/-- %s -/\ndef %s : %s := %s\n\n", f.doc, f.name, ty, f.lean)
		js[f.name] = f.json
	}
	sb.WriteString("end PsaDhcp.Facts\n")
	old, _ := os.ReadFile(out)
	if string(old) != sb.String() {
		os.MkdirAll(filepath.Dir(out), 0o755)
		if err := os.WriteFile(out, []byte(sb.String()), 0o644); err != nil {
			fmt.Fprintln(os.Stderr, err)
			os.Exit(2)
		}
	}
	jb, _ := json.MarshalIndent(js, "", " ")
	os.WriteFile(strings.TrimSuffix(out, ".lean")+".json", jb, 0o644)
}
