module factgen

go 1.26
