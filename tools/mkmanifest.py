#!/usr/bin/env python3
"""Regenerates /verif/MANIFEST.json from tools/props.py (claimed checks) and properties.jsonl."""
import json, os, subprocess, sys
sys.path.insert(0, os.path.dirname(os.path.abspath(__file__)))
from props import PROPS, NOT_APPLICABLE

props = [json.loads(l) for l in open('/verif/properties.jsonl')]
hooks = subprocess.run(["git", "-C", "/repo", "log", "--format=%H", "--grep=^verif hook"], capture_output=True, text=True).stdout.split()
NOTE = ("Trusted: Lean 4.33 kernel (axioms propext, Classical.choice, Quot.sound only; audited with #print axioms on every run), "
        "factgen + Expect.lean, the correspondence harness and its generators/fakes (vnet sockets, libif, synctest clock), Go toolchain. "
        "The theorems are about the hand-written Lean model; the model is tied to /repo by the differential correspondence and the "
        "regenerated source facts on every check; for the functions listed in DESIGN.md §13-14 a Lean translation of the Go source is regenerated "
        "on every check and proved equal to the model (trusted there: the translator /verif/xlate and lean/PsaDhcp/Go/Prelude.lean). ")
checks = []
for pid in sorted(PROPS):
    c = PROPS[pid]
    if not c.get("claimed", True):
        continue
    checks.append({
        "property_id": pid, "quick_cmd": "./check %s --tier quick" % pid, "thorough_cmd": "./check %s --tier thorough" % pid,
        "evidence_file": "/verif/evidence/%s.json" % pid, "replay_cmd_template": "./check %s --replay {path}" % pid,
        "engine": "lean4-proof+correspondence",
        "level_claimed": {"category": "proof", "text": c["level"], "design_ref": "DESIGN.md §7 " + pid},
        "level_note": NOTE + c.get("partial", ""),
        "technique": c.get("technique", "Lean 4 theorems over a hand-written executable model + differential correspondence against the Go code + regenerated source facts")
                     + (" + Lean translation of the Go source regenerated on every run (xlate) with proofs that it equals the model (modules %s)"
                        % ", ".join(m for m in c["props"] if "Code" in m) if any("Code" in m for m in c["props"]) else ""),
    })
claimed = {c["property_id"] for c in checks}
na = []
for p in props:
    if p["id"] not in claimed:
        na.append({"property_id": p["id"], "reason": NOT_APPLICABLE.get(p["id"], "check not yet registered in this build (model/stream under construction); see DESIGN.md §7")})
m = {"version": 1, "setup_cmd": "./setup.sh",
     "hooks": {"guard": "verif", "enable": "go1.26.8 test -c -tags verif in /verif/harness (module with replace => /repo)",
               "baseline_off_cmd": "cd /repo && go test -vet=off -count=1 ./lib/...", "source_commits": hooks, "add_only": True},
     "engines": [{"name": "lean4-proof+correspondence", "path": "/verif/check", "serves_properties": sorted(claimed),
                  "kind_free_text": "Lean 4 machine-checked proofs over executable models (lean/), Go differential harness (harness/), go/ast fact extractor (factgen/), Go->Lean translator (xlate/)"}],
     "checks": checks, "not_applicable": na,
     "notes": "See DESIGN.md. ./check <id> --tier quick|thorough [--replay f]; VERIF_SEED seeds every random choice; build output under /verif/.build."}
json.dump(m, open('/verif/MANIFEST.json', 'w'), indent=1)
print("claimed:", sorted(claimed))
