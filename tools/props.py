"""Per-property configuration of ./check: Lean modules holding the property theorems, the
correspondence streams (Go test functions of /verif/harness) and their output stream names."""

TRUSTED_COMMON = [
    "Lean 4.33.0 kernel; axioms admitted: propext, Classical.choice, Quot.sound (audited per theorem with #print axioms)",
    "factgen (go/ast extractor, /verif/factgen) and the hand-written expectations in lean/PsaDhcp/Expect.lean",
    "the correspondence harness (/verif/harness): generators bound what is seen, not what is proved; canonical rendering; line diff",
    "Go toolchain go1.26.8, its standard library and runtime",
]

PROPS = {
    "C12": {
        "level": "DHCP codec: decode(assemble m) = m for every representable message, acceptance of arbitrary bytes iff the RFC 2131 layout + RFC 2132 "
                 "option-area grammar, typed accessors exact, no out-of-range access — Lean theorems over all byte strings/messages; tied to the Go "
                 "code by byte-exact differential correspondence (exhaustive short option areas, structured, mutated, random) with an independent RFC "
                 "parser as monitor.",
        "props": ["C12"],
        "streams": [{"test": "TestDhcp", "names": ["dhcp"], "timeout": 300}],
        "rule": "exhaustive option areas (length<=5 quick / <=7 thorough over {0,1,2,3,53,254,255}) appended to a fixed header, random structured "
                "messages through Assemble and Decode, structure-aware mutations of valid frames, random bytes; a case is distinct by its "
                "operation line and non-trivial when it decodes successfully or is an assemble case",
        "trusted": ["Modelled, not verified: Go slices/copy semantics as in Model/Bytes.lean; net.IP as Option Ip4 (nil vs 4-byte)",
                    "hash/crc32 (re-implemented bitwise in the model, compared on every client-identifier case)"],
        "assumptions": ["addresses are 4-byte values in the model; Go's nil address encodes as 0.0.0.0"],
    },
    "C13": {
        "level": "IPv4/UDP/ARP: header and UDP checksums verify for every payload up to the datagram maximum (uint32 accumulator proved not to wrap), "
                 "length fields, decode∘assemble, decoder strictness and absence of out-of-range accesses — Lean theorems; byte-exact correspondence "
                 "with the Go codecs and an independent RFC 1071/768 monitor.",
        "props": ["C13"],
        "streams": [{"test": "TestWire", "names": ["wire"], "timeout": 300}],
        "rule": "UDP-in-IPv4 assembly over payload lengths {0..64, 1471..1473, 65505..65507, beyond the maximum} x byte patterns "
                "(zeros, 0xff, alternating, random) x address forms, decoders on mutated valid frames and random bytes, ARP round trips; "
                "non-trivial = assemble case or accepted decode",
        "trusted": ["Modelled, not verified: Go slices/copy semantics; the uint32 accumulator is explicit (% 2^32) in the model"],
        "assumptions": ["payload + 28 <= 65535 for the checksum/length theorems (beyond that the model mirrors Go's uint16 truncation and is only compared)"],
    },
}

# Properties not claimed, with the reason (kept current; see DESIGN.md §11).
NOT_APPLICABLE = {}
