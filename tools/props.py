"""Per-property configuration of ./check: Lean modules holding the property theorems, the
correspondence streams (Go test functions of /verif/harness) and their output stream names."""

TRUSTED_COMMON = [
    "Lean 4.33.0 kernel; axioms admitted: propext, Classical.choice, Quot.sound (audited per theorem with #print axioms)",
    "factgen (go/ast extractor, /verif/factgen) and the hand-written expectations in lean/PsaDhcp/Expect.lean",
    "the correspondence harness (/verif/harness): generators bound what is seen, not what is proved; canonical rendering; line diff",
    "Go toolchain go1.26.8, its standard library and runtime",
    "for the *Code theorems (PsaDhcp.Gen regenerated from /repo by /verif/xlate on every run): the translator and the reading of Go in "
    "lean/PsaDhcp/Go/Prelude.lean — value semantics for slices (no aliasing), nil = empty slice, unbounded int, array lengths as hypotheses; "
    "Go maps as association lists (iteration order = list order, unspecified), *client as heap index inside package clients and as an "
    "identity+accessor snapshot outside it, time.Time as Int, float64 scaling by the model's exact rounding, errors compared by message, "
    "std parsers (net.ParseIP/ParseCIDR/ParseMAC, time.ParseDuration) uninterpreted, regular expressions as class tables built from the pattern text; "
    "calls that leave a layer are operations of that layer's environment structure (instantiated in the theorems by the model of the layer below and "
    "explicit oracles); lock/unlock, context.With*, defer cancel(), closer goroutines and logging are dropped (they are facts pinned in Expect.lean); "
    "validated by the proofs Gen.f = model f together with the byte-exact correspondence of the same models with the real functions (DESIGN.md §13.3, §14.3)",
]

PROPS = {
    "C01": {
        "level": "For every interleaving of packet arrivals and handler steps (the concurrent system model), every configuration, permutation and probe "
                 "outcome: two grants (OFFER hold, ACK lease) of one address to different holders never overlap in time (no_double_lease), every grant "
                 "is a successful UpdateClient of that handler (grant_is_update), holder identities follow the property's gloss of 'client' "
                 "(holder_identity, holder_distinct), and the concrete store sends exactly the frames of the reference-table system "
                 "(system_refines_table) — Lean theorems by invariant over all event lists; tied to the code by byte- and clock-exact correspondence of "
                 "the real server.New + Run on the virtual segment (sequential scripts under a virtual clock) and by real-time bursts of overlapping "
                 "packets, with an independent grant-overlap monitor on the tapped frames."
                 " The lease database below the handlers is on the regenerated code too: every method of *IPDB (UpdateClient, FindIP, LookupClientByDuid, AddPermanentClient, ...) and every method of the clients table (Lookup, Inject, SetLease, ... with its Go map and record pointers), as translated from the source on every run, equal the model operations the invariants are proved over (C11Code, C11CodeClients)."
                 " The packet handlers (handleMsg, handleDiscover, handleRequest, sendMsg, sendNACK, getDuid) as translated from the source on every run, executed over the model's database steps and handler oracle, end in exactly the database and frame of the model's handle (C04Code)."
                 " Composed: the translated handlers running on top of the translated lease database (their database calls answered by actually running Gen.ipdb.*) still end in the database and frame of the model's handle (C01CodeStack.code_stack_handleMsg, code_stack_sequence for whole sequential histories)."
                 " The three layers composed: with the translated clients.go as the store (genStore: Gen.clients.* on the Go map and record heap), the system model sends from boot, for every interleaving, exactly the replies it sends over the reference table (C01CodeFull.code_system_refines_table), and any sequential history pushed through Gen.server.* over Gen.ipdb.* over Gen.clients.* never panics and sends the frames of the model (code_full_handleMsg, code_full_sequence).",
        "props": ["C01", "C02Code", "C11Code", "C11CodeClients", "C04Code", "C01CodeStack", "C01CodeFull"],
        "streams": [{"test": "TestSrvSeq", "names": ["srvseq"], "timeout": 300}, {"test": "TestSrvConc", "names": ["srvconc"], "timeout": 300},
                    {"test": "TestDbConc", "names": ["dbconc"], "timeout": 300},
                    {"test": "TestIpdb", "names": ["ipdb"], "timeout": 300}],
        "rule": "corpus (D1-D3 histories) first; random configurations (prefix /24../30, pools of 1-8 addresses at start/middle/end, 0-2 static entries, "
                "static_only 10%), 1-8 hosts with none / derived / custom / short / forged client identifiers, 5-45 messages of 19 kinds (DISCOVER, four "
                "REQUEST shapes, wrong server, misaddressed, own MAC, own address, unknown type, forged ids, short hardware addresses, junk frames) "
                "with gaps {0, 1 s, 5 s, hold-2 s, hold+2 s, lease/2, lease-3 s, lease+3 s, 3*lease}, ARP responders on 50% of the pools; "
                "48 (thorough 600) real-time burst scenarios of 2-5 hosts; non-trivial = the server answered",
        "trusted": ["vnet socket fakes, fake libif, testing/synctest virtual clock (sequential scripts only)",
                    "rand.Perm / rand.Int63n: never predicted — the model is driven by the observed probe order and reply instants",
                    "the driver replays observed probe orders (findLoopObs); that an accepted observation is a run of findLoop for some oracle is "
                    "a theorem (Proofs/Observed.lean)"],
        "assumptions": ["clock readings non-decreasing; grant times are the clock of the justifying database call (not before the client sent its message)",
                        "0 <= lease duration (configuration validation enforces >= 1 min)"],
    },
    "C02": {
        "level": "Every address in an OFFER/ACK of every reachable system state lies in the managed range (network and broadcast address excluded by "
                 "fromTo_excludes), is not the server's own, and is in the enabled dynamic range unless it is the static address of that hardware "
                 "address; static_only blocks everything else (handed_out_allowed, static_only_blocks_dynamic, ranges_fixed) — Lean theorems over all "
                 "interleavings; correspondence and yiaddr-vs-configuration monitor as for C01."
                 " fromTo/toUip/InManagedRange and duidFromHwAddr as translated from the source on every run equal the models (C02Code, C11Code)."
                 " The constructor that sets the managed range, the dynamic range and static_only is on the regenerated code too (C18Code).",
        "props": ["C02", "C11Code", "C02Code", "C18Code"],
        "streams": [{"test": "TestSrvSeq", "names": ["srvseq"], "timeout": 300}, {"test": "TestCfgNew", "names": ["cfgnew"], "timeout": 300},
                    {"test": "TestIpdb", "names": ["ipdb"], "timeout": 600}],
        "rule": "as C01 (configurations enumerate range positions, statics inside/outside the range, static_only; suggestions drawn from {in range, "
                "below/above range, network/broadcast address, server address, other network, 0.0.0.0, a static, the host's last offer}) plus the "
                "valid configurations of the C18 stream; non-trivial = the server answered",
        "trusted": ["as C01"],
    },
    "C03": {
        "level": "A statically reserved address is only ever offered/acknowledged to its hardware address, that hardware address never gets another "
                 "address, and every well-formed broadcast DISCOVER from it is answered with an OFFER of exactly that address in every reachable "
                 "state, for every client identifier / requested address / oracle (static_exclusive, static_only_address, static_always_offered, "
                 "sduid_injective) — Lean theorems; correspondence and monitor as for C01 (reserved hosts take part in 70% of the scripts, with "
                 "and without client identifiers, and forged-identifier messages name reserved hosts and the server)."
                 " The packet handlers (handleMsg, handleDiscover, handleRequest, sendMsg, sendNACK, getDuid) as translated from the source on every run, executed over the model's database steps and handler oracle, end in exactly the database and frame of the model's handle (C04Code).",
        "props": ["C03", "C02Code", "C04Code"],
        "streams": [{"test": "TestSrvSeq", "names": ["srvseq"], "timeout": 300}],
        "rule": "as C01; non-trivial = the server answered",
        "trusted": ["as C01"],
        "assumptions": ["'well-formed' DISCOVER: IP destination broadcast, no server identifier, not the server's MAC, not asking for the server's own address"],
    },
    "C04": {
        "level": "REQUEST verdicts as a decision table over the handler's verdict: acknowledged exactly when the classification (RFC 2131 table 4) "
                 "designates an in-network address the sender currently holds, the probe is free and the update succeeds, and then with that address "
                 "(ack_iff); silent and — over the reference table — changing nothing for another server / outside the network / unicast elsewhere / "
                 "own hardware address (silent_and_unchanged); NAK when not bound (nak_when_not_bound); the panic of handleRequest unreachable "
                 "(desired_ne_none) — Lean theorems for every database state and oracle, tied to frames by handle_eq_handleV; exhaustive "
                 "correspondence of the full request matrix (5 760 cells, each against a fresh real server with follow-up probes)."
                 " The packet handlers (handleMsg, handleDiscover, handleRequest, sendMsg, sendNACK, getDuid) as translated from the source on every run, executed over the model's database steps and handler oracle, end in exactly the database and frame of the model's handle (C04Code).",
        "props": ["C04", "C02Code", "C04Code"],
        "streams": [{"test": "TestReqMatrix", "names": ["reqmatrix"], "timeout": 300}, {"test": "TestSrvSeq", "names": ["srvseq"], "timeout": 300},
                    {"test": "TestSrvOverlap", "names": ["srvoverlap"], "timeout": 120}],
        "rule": "EXHAUSTIVE matrix: sender binding {none, pending offer, lease, static, expired} x identity {hw, client id, short id, server MAC} x "
                "IP destination {broadcast, server, other} x server identifier {none, this, other, 3 bytes} x requested address {none, bound, "
                "another host's, outside, server's, 3 bytes} x source {0, bound, another's, outside} = 5 760 cells, each followed by a DISCOVER of the "
                "sender and a renewal of the other host; plus the random scripts of C01; non-trivial = answered",
        "trusted": ["as C01"],
        "assumptions": ["'names a different server' = a four-byte server identifier other than the server's address (a wrong-length option decodes to absent)",
                        "requests for the server's own address are dropped by the own-address guard (a listed mechanism), hence outside the NAK clause",
                        "classify_table assumes the server's address is not 255.255.255.255 (found by the prover: with it a broadcast REQUEST classifies as renewing)"],
    },
    "C05": {
        "level": "In every state reachable by any interleaving: a grant stays in force for its whole advertised time whatever anyone sends "
                 "(lease_not_shortened), a REQUEST for the granted address within that time is acknowledged absent a conflict (offer_then_ack), "
                 "overlapping grants to one holder carry the same address (same_address, discover_while_bound), a specific free pool address is "
                 "honoured (suggestion_honoured) and silence on a DISCOVER means every pool address was examined and found bound, .0/.255 or in "
                 "conflict (silent_only_if_exhausted) — Lean theorems over all event lists; correspondence as C01 with gaps around hold and lease "
                 "times and a monitor that tracks every client's running grants from the tapped frames."
                 " UpdateClient (never-shorten rule included) and FindIP (suggestion only inside the range, permutation, per-candidate probe) as translated from the source on every run equal the model's updateClient/findIP, and the clients table below them equals Model/Clients (C11Code, C11CodeClients)."
                 " The packet handlers (handleMsg, handleDiscover, handleRequest, sendMsg, sendNACK, getDuid) as translated from the source on every run, executed over the model's database steps and handler oracle, end in exactly the database and frame of the model's handle (C04Code)."
                 " Composed: the translated handlers running on top of the translated lease database (their database calls answered by actually running Gen.ipdb.*) still end in the database and frame of the model's handle (C01CodeStack.code_stack_handleMsg).",
        "props": ["C05", "C11Code", "C11CodeClients", "C04Code", "C01CodeStack"],
        "streams": [{"test": "TestSrvSeq", "names": ["srvseq"], "timeout": 300}, {"test": "TestIpdb", "names": ["ipdb"], "timeout": 300}],
        "rule": "as C01 (gaps hold-2 s, hold+2 s, lease/2, lease-3 s, lease+3 s, 3*lease; re-DISCOVERs by bound clients; retransmitted REQUESTs; other "
                "hosts in between; pools down to one address) plus the IPDB stream at database level; non-trivial = the server answered",
        "trusted": ["as C01"],
        "assumptions": ["'within the hold time' = the handler's confirming database call happens within it (the ARP probe of up to 600 ms lies before it)",
                        "silent_only_if_exhausted assumes the dynamic range inside the managed range (guaranteed by server.New; counterexample otherwise)"],
    },
    "C06": {
        "level": "Every OFFER/ACK/NAK frame read back with the stack's decoders is a BOOTREPLY echoing xid, flags and hardware address, server identifier = "
                 "own address, ports 67->68, IP source = own address, destination by the broadcast flag, link-layer destination likewise, checksums "
                 "verifying (lease_reply_wire, nak_reply_wire, composed from the C12/C13 round trips); at most one reply per handler "
                 "(at_most_one_reply, done_is_final) — Lean theorems; byte-exact comparison of every frame in all server streams and an independent "
                 "decoder as monitor."
                 " Reply assembly of lib/server/replies as translated from the source on every run equals assembleLease/assembleNak (C06Code); the codecs below it are C13Code."
                 " The packet handlers (handleMsg, handleDiscover, handleRequest, sendMsg, sendNACK, getDuid) as translated from the source on every run, executed over the model's database steps and handler oracle, end in exactly the database and frame of the model's handle (C04Code).",
        "props": ["C06", "C13Code", "C06Code", "C04Code"],
        "streams": [{"test": "TestSrvSeq", "names": ["srvseq"], "timeout": 300}, {"test": "TestReqMatrix", "names": ["reqmatrix"], "timeout": 300},
                    {"test": "TestReplyConc", "names": ["replyconc"], "timeout": 120}],
        "rule": "16 goroutines assembling OFFER/ACK/NAK for their own arguments 3 000 (thorough 60 000) times each in real concurrency, every result compared with the reply "
                "assembled alone; every reply frame of the C01 scripts and of the request matrix (xid, all 16 flag bits in 5% of the messages, hardware-address lengths "
                "0..16, pads, trailing bytes); non-trivial = answered",
        "trusted": ["as C01"],
        "assumptions": ["wire theorems for hardware addresses of at most 16 bytes and representable configurations (CfgWf)"],
    },
    "C07": {
        "level": "dhcpOptions is exactly lease, netmask, then router/DNS/NTP/domain/hostname with per-client replacement of exactly the settings an entry "
                 "specifies (options_spec), decoding to the configured values (options_decoded), identical in OFFER and ACK (offer_ack_agree), and "
                 "the advertised whole seconds are within one second of what the ACK's update reserves (advertised_is_reserved) — Lean theorems; "
                 "correspondence over every subset of global x per-client settings x list lengths, checked by the monitor's own reading of the config."
                 " server.dhcpOptions and OptionIPAddressLeaseDuration as translated from the source on every run equal SrvCfg.dhcpOptions / optLease, and the override table's keys (Duid.String) are injective (C07Code).",
        "props": ["C07", "C12Code", "C07Code", "C18Code"],
        "streams": [{"test": "TestCfgOptions", "names": ["cfgopts"], "timeout": 300}, {"test": "TestCfgNew", "names": ["cfgnew"], "timeout": 300},
                    {"test": "TestSrvSeq", "names": ["srvseq"], "timeout": 300}, {"test": "TestSrvConc", "names": ["srvconc"], "timeout": 300}],
        "rule": "the server scripts of C01 (advertised lease time = time the address stays reserved: nobody else is given the address, and the holder is not refused, "
                "before the time announced in the latest ACK has run out; OFFER and ACK agree) and its real-time burst scenarios (two hosts with per-client entries "
                "answered concurrently); 16 global subsets x 16 per-client subsets x list lengths {1,2,8} (thorough: also 63) x leases {1 min, 90.5 s, 49 d}, for the client with the "
                "entry and a stranger, DISCOVER and DISCOVER+REQUEST; plus the valid configurations of the C18 stream (MAC spellings, 63 DNS servers, "
                "255-byte domain); non-trivial = distinct configuration / answered",
        "trusted": ["as C01; configuration strings parsed by the standard library"],
    },
    "C08": {
        "level": "arpVerify is free iff all pings timed out or the first answer is the client's own (arpVerify_free_iff); an answer is the sender hardware "
                 "address of the first 28-byte-truncated frame whose SENDER address is the probed one (only_sender_ip_counts, probe_times_out); a "
                 "REQUEST whose probe met a foreign answer is never acknowledged and is NAKed (conflict_never_acked, conflict_naked); an offered "
                 "address was probed free in the very search (offered_was_probed_free) — Lean theorems; the real arpping.Ping against injected frame "
                 "lists, responders on the pools of the server scripts, and restarts with leaseholders still answering."
                 " FindIP as translated from the source on every run (each candidate: context check, clock, Lookup, Valid, probe callback) equals the model's findIP/findLoop (C11Code); arpping.catchARPReply/Ping and server.arpVerify as translated equal the model's catchARPReply (first frame whose first 28 bytes decode with sender address = target) and arpVerify over at most three pings (C08Code)."
                 " The packet handlers (handleMsg, handleDiscover, handleRequest, sendMsg, sendNACK, getDuid) as translated from the source on every run, executed over the model's database steps and handler oracle, end in exactly the database and frame of the model's handle (C04Code).",
        "props": ["C08", "C13Code", "C11Code", "C08Code", "C04Code"],
        "streams": [{"test": "TestArp", "names": ["arp"], "timeout": 300}, {"test": "TestSrvSeq", "names": ["srvseq"], "timeout": 300},
                    {"test": "TestRsocksReal", "names": ["rsocksreal"], "timeout": 120}],
        "rule": "Ping against 0-4 injected frames (valid answers, wrong sender address, requests, short, padded to 46 bytes, random); restart scripts: 1-4 "
                "hosts lease, the server is rebuilt empty, the holders answer ARP, 1-3 newcomers DISCOVER (half of them asking for an address in use); "
                "plus responders (foreign / the client's own MAC / wrong sender address, delays 1-150 ms) on half of the C01 scripts",
        "trusted": ["as C01"],
        "partial": "Timing clause partial: the 3 x 200 ms bound is observed under the virtual clock; answers later than one ping window coincide with a later "
                   "window's deadline and are covered by the model only.",
    },
    "C09": {
        "level": "The concurrent system model (events = packet arrival or one database call of one handler in flight, any interleaving, clocks "
                 "non-decreasing) carries C01/C02/C03/C05 for every schedule; specific to isolation: the database after any interleaving is the sequential "
                 "fold of the recorded calls in lock order (calls_serialize), a handler's step depends only on its own packet/state, the database and its "
                 "own oracle and touches no other handler (step_is_local), a lost race only costs silence, never a wrong reply (race_only_silence), an "
                 "exchange is not derailed by others' packets (not_derailed), and the sequential handler is a run of the system (handle_is_a_run) — Lean "
                 "theorems; the granularity of atomicity and the per-packet copy are facts extracted from the source on every run "
                 "(Expect.c01_c09_c11_ipdb_lock_discipline, c09_handler_isolation); real-time bursts of overlapping packets into the real Run loop and "
                 "concurrent calls on the real IPDB checked against all sequential orders."
                 " The receive loop as translated from the source on every run copies every packet out of the receive buffer before decoding it and hands each handler its own decoded message (C10Code.code_run): what a handler gets is a function of its own frame."
                 " The packet handlers (handleMsg, handleDiscover, handleRequest, sendMsg, sendNACK, getDuid) as translated from the source on every run, executed over the model's database steps and handler oracle, end in exactly the database and frame of the model's handle (C04Code)."
                 " Composed: the translated handlers running on top of the translated lease database (their database calls answered by actually running Gen.ipdb.*) still end in the database and frame of the model's handle (C01CodeStack.code_stack_handleMsg)."
                 " With the translated clients.go underneath as well, the interleaved system model sends the replies of the reference-table system for every schedule (C01CodeFull.code_system_refines_table).",
        "props": ["C09", "C10Code", "C04Code", "C01CodeStack", "C01CodeFull"],
        "streams": [{"test": "TestSrvConc", "names": ["srvconc"], "timeout": 300}, {"test": "TestDbConc", "names": ["dbconc"], "timeout": 300},
                    {"test": "TestReplyConc", "names": ["replyconc"], "timeout": 120},
                    {"test": "TestSrvBurst", "names": ["srvburst"], "timeout": 120},
                    {"test": "TestReplyConc", "names": ["replyconc-race"], "timeout": 300, "race": True, "env": {"HX_N": "300", "HX_SUFFIX": "-race"}, "env_thorough": {"HX_N": "6000"}},
                    {"test": "TestCfgOptions", "names": ["cfgopts"], "timeout": 300},
                    {"test": "TestSrvConc", "names": ["srvconc-race"], "timeout": 300, "race": True, "env": {"HX_N": "16", "HX_SUFFIX": "-race"},
                     "env_thorough": {"HX_N": "600"}},
                    {"test": "TestDbConc", "names": ["dbconc-race"], "timeout": 300, "race": True, "env": {"HX_N": "300", "HX_SUFFIX": "-race"},
                     "env_thorough": {"HX_N": "40000"}}],
        "rule": "48 (thorough 600) real servers side by side, each with 2-5 hosts (distinct client identifiers) sending DISCOVERs 0-400 ms apart (landing "
                "while earlier handlers sleep, probe and hold the lock), retrying lost races, then REQUESTing their offers with other hosts' DISCOVERs in "
                "between; 1 500 (thorough 40 000) groups of 2-6 concurrent update/lookup/find calls on one IPDB whose results must equal those of some "
                "permutation; both repeated under the race detector (16 scenarios / 300 groups quick, full volume thorough)",
        "trusted": ["real-time scheduling only samples interleavings; the Go memory model is not modelled: data-race freedom is derived from the lock and "
                    "buffer-freshness facts, the race detector (thorough tier) is supporting evidence"],
        "partial": "Data-race clause partial (facts + race detector); the burst stream is monitor-only (no model-side interleaving search).",
        "technique": "Lean 4 theorems over a small-step concurrent system model + source facts (lock discipline, per-packet copy) + real-time burst monitors",
    },
    "C10": {
        "level": "The receive chain never indexes out of range for any byte string (rx_never_panics, with the C12/C13 decoder theorems), is total (rx_total), a "
                 "dropped frame leaves the whole system state untouched (junk_is_noop, unhandled_is_noop) and any interleaving of junk equals the run "
                 "without it (junk_interleaving); the client side is C14's catch_never_panics / ignored_have_no_effect — Lean theorems; junk frames "
                 "through the real Run loop inside server scripts, mutated and random bytes through the real decoders and the real catchReply, with "
                 "recover() turning a panic into a reported case."
                 " On the regenerated code: the server's receive loop (*server).Run, translated from the source on every run, never panics for any frame list, "
                 "starts a handler for exactly the frames rxChain accepts (with the decoded addresses and message, each packet copied out of the receive buffer) "
                 "and drops everything else without effect (C10Code); the client's catchReply returns exactly the model's catchReply over any frame list (C14CodeCatch).",
        "props": ["C10", "C14", "C13Code", "C12Code", "C14Code", "C10Code", "C14CodeCatch"],
        "streams": [{"test": "TestSrvSeq", "names": ["srvseq"], "timeout": 300}, {"test": "TestWire", "names": ["wire"], "timeout": 300}, {"test": "TestDhcp", "names": ["dhcp"], "timeout": 300},
                    {"test": "TestCliCatch", "names": ["clicatch"], "timeout": 300}, {"test": "TestCliAuto", "names": ["cliauto"], "timeout": 300}],
        "rule": "structure-aware mutations of valid frames (length fields, IHL incl. short packets with large IHL, truncation anywhere, option bytes, hlen "
                "0/1/6/16/17/255, op, ports, protocol, trailing bytes, bit flips) and random bytes; 8% of the messages of every server script are junk "
                "frames; unknown message types and 0-16-byte hardware addresses as ordinary messages",
        "trusted": ["as C01"],
        "assumptions": ["'parses as' is the decoders' notion: the server looks neither at the IP protocol number nor at the UDP ports (DESIGN 12.3)"],
    },
    "C11": {
        "level": "Refinement: for every sequence of Clients / IPDB operations with non-decreasing clocks the results of the Go data structure "
                 "(map with two keys per record, pointer identity, lazy per-key expiry) equal those of a reference table with at most one live "
                 "binding per address and per client (clients_refine, ipdb_refine, table_exclusive), plus the iff-characterisations of update and "
                 "the FindIP postconditions — Lean theorems for all histories; tied to the code by exhaustive small-scope and random differential "
                 "runs of the real clients/ipdb packages under a virtual clock."
                 " Uip.Valid/ToV4 as translated from the source equal the model's (C11Code)."
                 " The whole lease database is on the regenerated code: the *IPDB methods of ipdb.go over an abstract clients store (C11Code), the clients table of clients.go with its Go map keyed by Uip.String()/Duid.String() and its heap of records (C11CodeClients), and the injectivity/disjointness of those key strings (C07Code) — each translated function proved equal to the model operation that clients_refine/ipdb_refine relate to the reference table."
                 " Vertically composed: the translated clients.go is itself a store (genStore) that simulates Model/Clients.lean operation by operation (C01CodeFull.genStore_sim) and below which the system sends exactly the replies of the reference-table system (code_system_refines_table).",
        "props": ["C11", "C11Code", "C11CodeClients", "C07Code", "C01CodeFull"],
        "streams": [{"test": "TestClients", "names": ["clients"], "timeout": 600}, {"test": "TestIpdb", "names": ["ipdb"], "timeout": 600}],
        "rule": "Clients API: ALL operation sequences up to length 3 (quick; 4 thorough, depth 4 over a reduced alphabet) over 2 addresses x 2 clients x "
                "lifetimes {-1,+1,+5} x clock steps {0,2} (72 symbols), DFS with shared prefixes; random sequences up to length 200 over 3 addresses x "
                "3 clients (one empty id) x lifetimes {-1,0,1,5} x steps {0,1,2,7}. IPDB API under testing/synctest: random scripts of "
                "update/lookup/addPermanent/find/setDynamicRange/disable with clock jumps around 15 s / 60 s / 1 h; FindIP's probe callback records the "
                "candidate order and answers from a conflict table. Non-trivial = the operation hit a bound record or succeeded.",
        "trusted": ["Modelled, not verified: Go maps as total functions Key -> Option index, pointers as indices into an append-only list; time.Time as "
                    "Int nanoseconds; sync.RWMutex (mutual exclusion) — lock discipline pinned by Expect.c01_c09_c11_ipdb_lock_discipline",
                    "rand.Perm returns a permutation (the model is driven by the observed probe order, the theorems quantify over all permutations)"],
        "assumptions": ["clock readings are non-decreasing", "networks given as CIDR prefixes (ParseCIDR); /31 excluded from the IPDB stream "
                        "(empty managed range; FindIP would call rand.Perm(2^32) — unreachable through server.New)"],
    },
    "C14": {
        "level": "The client's acceptance predicate as an iff (verify_passed_iff, accept_iff, nack_iff): a frame is taken as the awaited OFFER/ACK "
                 "exactly when every conjunct of the property holds; every other packet is ignored without effect; the receive path never indexes out "
                 "of range — Lean theorems over all byte strings / decoded messages. Tied to the code by running the real catchReply + verifiers on the "
                 "virtual segment over every combination of violated conjuncts x 4 waiting states, plus mutated frames."
                 " The six predicates of lib/client/verify as translated from the source on every run equal the model's (C14Code)."
                 " catchReply itself (the loop over received frames: IPv4, protocol 17, port 68, hardware address, verifier, NAK) as translated from the source on every run equals the model's catchReply (C14CodeCatch).",
        "props": ["C14", "C14Code", "C14CodeCatch", "C15Code"],
        "streams": [{"test": "TestCliCatch", "names": ["clicatch"], "timeout": 600}],
        "rule": "all 2^11 combinations of violated conjuncts (quick: all singles and pairs + 1/8 of the rest; thorough: all) x {offer, selecting, renewing, "
                "rebinding}, each violation drawn from its variants (absent / zero / broadcast / wrong length / wrong value), lease boundaries 59/60/61 s, "
                "NAKs for this and another host, structure-aware mutations of a valid reply; non-trivial = not ignored",
        "trusted": ["vnet receive socket fake; testing/synctest for goroutine quiescence"],
        "assumptions": ["a NAK aborts in the three ACK-waiting states; while waiting for an OFFER it is 'not the expected type' and ignored (as coded)"],
    },
    "C15": {
        "level": "The client automaton as a transition function over events (accepted reply, NAK, deadline, ARP answer, SetIface result, T1, link-up): the "
                 "interface is configured only in the step that ends a conflict-free ARP probe and only with the filtered configuration built from an "
                 "accepted reply of the history (setIface_step, setIface_only_acknowledged), conflict / SetIface error / NAK / expiry start over, "
                 "T1 <= T2 <= expiry for every lease including the float64 rounding of 0.875*lease (deadlines_ordered), link-up re-validates — Lean "
                 "theorems over all event lists; tied to the code by running the real dclient (with the mclient loop) under a virtual clock against a "
                 "scripted server and comparing the complete effect timeline (callbacks, frames, probes, deadlines, libif operations)."
                 " The whole client automaton of lib/client/dclient (Run, the eight state functions, panicReset, ResumeClient, buildNetconfig) as translated from the source on every run, fed a script of the model's events, logs the effect trace of the model automaton crun (C15Code.code_client_trace: a simulation over all fitting scripts), with the deadlines of runStateBound and ResumeClient and the configuration of buildNetconfig equal to the model's.",
        "props": ["C15", "C15Code", "C08Code"],
        "streams": [{"test": "TestCliAuto", "names": ["cliauto"], "timeout": 300}, {"test": "TestMclient", "names": ["mclient"], "timeout": 300},
                    {"test": "TestCliSan", "names": ["clisan"], "timeout": 300}],
        "rule": "scripts of 6-20 decisions: at each exchange {valid reply, NAK, invalid replies then silence, silence, link-up}, at each ARP probe {no answer, "
                "own MAC, foreign MAC}, SetIface failing 15%, once bound {wait for T1, link-up after 1-20 s}; leases {61 s .. 2^32-1 s}, server T1/T2 "
                "consistent / inconsistent / absent, masks present / absent / non-contiguous; plus buildNetconfig/filterNetconfig on random replies; "
                "non-trivial = more than two events consumed",
        "trusted": ["fake libif and ifmon hooks; in TestCliAuto the mclient.Run / monitor glue is re-implemented (to record callbacks); TestMclient drives the "
                    "real client.New(...).Run with link events through the ifmon hook and compares frames, probes and libif operations",
                    "virtual clock: wall-clock drift and hackAbsoluteSleep's 17 s polling are not exhibited"],
        "partial": "Partial: real netlink behaviour and wall-clock drift are not exhibited. Observation (modelled as coded): a link-up while an exchange is "
                   "already rebinding makes that exchange fail into 'purge', so the client starts over instead of re-entering rebinding.",
    },
    "C16": {
        "level": "Each of the four client message templates read back with the stack's decoders has exactly the source/destination/ciaddr/option "
                 "pattern of its state, ports 68->67, valid checksums, hardware address, derived client identifier (template_wire); retransmission "
                 "spacing >= 700 ms and non-decreasing for every random stream (retransmit_delays) — Lean theorems; byte-exact correspondence with "
                 "msgtmpl and observed schedules of the real sendMessage under a virtual clock."
                 " (*tmpl).request of lib/client/msgtmpl as translated from the source on every run equals clientRequest, the math/rand draw being a parameter (C16Code)."
                 " sendMessage/sendSocket as translated from the source on every run: the waits between transmissions are the model's delay sequence for every random stream, every transmission writes the template's frame, the socket is the unicast one to the server's ARP answer or the broadcast one (C16CodeSend).",
        "props": ["C16", "C13Code", "C16Code", "C16CodeSend"],
        "streams": [{"test": "TestCliTmpl", "names": ["clitmpl"], "timeout": 600}, {"test": "TestCliAuto", "names": ["cliauto"], "timeout": 300}],
        "rule": "random hardware addresses (1..16 bytes), offered/server addresses incl. 0.0.0.0 and broadcast, all four states, two transmissions per "
                "exchange; real sendMessage runs of 10 s .. 45 min virtual time whose inter-frame gaps are checked against the model's admissible "
                "successor (prev <= next <= 2*prev below the barrier); non-trivial = every case",
        "trusted": ["math/rand (observed, never predicted)", "virtual clock of testing/synctest: real timer accuracy is not exhibited"],
        "partial": "Timing clause partial: spacing is shown on the model and observed under a virtual clock; real timer accuracy cannot be exhibited.",
    },
    "C17": {
        "level": "Every PSA_DHCPC_* value consists of [A-Za-z0-9,._-] for all inputs (env_value_safe / env_entries_safe, over Go's rune segmentation of "
                 "arbitrary bytes), the generated resolv.conf obeys the header/search/nameserver grammar for every environment (resolv_grammar), untouched "
                 "iff no valid name server — Lean theorems; correspondence with envEntry/dumpScriptConf, a real child process through Cbhandler and the "
                 "real psa-dhcpc -syshook binary in a chroot."
                 " envEntry/dumpScriptConf (lib/client/callback) and resolvconf.Run as translated from the source on every run — the three regular expressions turned into character-class tables from their pattern text — equal the model's envEntry/dumpScriptConf/resolvRun (C17Code).",
        "props": ["C17", "C17Code"],
        "streams": [{"test": "TestCliSan", "names": ["clisan"], "timeout": 900}],
        "rule": "domain payloads: every byte value at start/middle/end, newline/=/NUL/space/shell metacharacters, invalid and edge-case UTF-8, 255 random "
                "bytes; interface configurations with 0..63 DNS servers, nil router/netmask, extreme MTU/lease; hostile raw environments for the "
                "chroot binary; non-trivial = non-empty value / file written",
        "trusted": ["regexp and unicode/utf8 (re-implemented in the model as character classes + rune segmentation, compared on every case)",
                    "net.IP.String / IPMask.String / Sprintf(%d)", "os/exec (drops duplicate environment keys)", "chroot(2) as root in the sandbox"],
    },
    "C18": {
        "level": "server.New starts exactly on valid configurations (starts_iff_valid: every field parses, lease >= 1 min, options representable, dynamic "
                 "range and statics inside the network, distinct addresses and hardware addresses, own address inside and unreserved), independent of "
                 "map iteration order (order_independent), with every global and per-client value in effect (effective_global, effective_client) and "
                 "identically for the concrete store (start_refines) — Lean theorems over all raw configurations; correspondence: the real server.New on "
                 "valid configurations and on 29 kinds of injected faults (alone and in pairs), the started servers then answering a DISCOVER per client."
                 " server.New and leaseopts.ParseConfig/SetClientOverrides/representable/ipv4 as translated from the source on every run (standard-library parsers uninterpreted) start exactly when the model's newServer does, never panic, and on success have built the model's lease database and a server value carrying the model's handler configuration (C18Code.code_new).",
        "props": ["C18", "C18Code", "C04Code"],
        "streams": [{"test": "TestCfgNew", "names": ["cfgnew"], "timeout": 300}, {"test": "TestCfgOptions", "names": ["cfgopts"], "timeout": 300},
                    {"test": "TestSrvSeq", "names": ["srvseq"], "timeout": 300}],
        "rule": "random valid configurations (prefix, range position, 0-2 client entries, three MAC spellings, 63 DNS servers / 255-byte domain boundary) with "
                "0, 1 or 2 faults from {network, lease, lease<1 min, router, dns, ntp, empty string inside a list, >63 dns/ntp, >255-byte domain, lease > "
                "2^32-1 s, range format / address / reversed / outside, own address outside / absent, per-client MAC / ip / router / dns / ntp / >63 dns / "
                ">255-byte hostname / static outside / network address / duplicate address / duplicate MAC in another spelling / static = own address}; "
                "non-trivial = a fault was injected",
        "trusted": ["net.ParseCIDR / ParseIP / ParseMAC, time.ParseDuration and the text-proto parser: the model receives per field empty / unparsable / "
                    "the parsed value as the harness obtains them with the same functions"],
    },
    "C19": {
        "level": "For each of the three socket disciplines the model executes every schedule of outcomes (creation failing, reads/writes failing or "
                 "succeeding, the body returning, the parent context cancelled at any point): once the function has returned and its closer has run, "
                 "opened = closed and no helper goroutine remains (no_leak, balance_invariant), prompt return after cancel (closer_shutdown_prompt) — "
                 "Lean theorems over the discipline skeletons; which function follows which discipline is extracted from the source on every run "
                 "(Expect.c19_socket_disciplines); the real functions are fault-enumerated on the virtual sockets (n-th create/write/read fails, "
                 "cancel at every listed instant) with open/close counters and goroutine counts. The constructors of lib/rsocks themselves (the files the "
                 "virtual network replaces): which error returns close the descriptor is extracted from the source on every run and the constructor model "
                 "leaks for no failure placement (rsocks_ctors_no_leak, ctor_leak_of_unclosed for the converse); the real constructors are called in a "
                 "child process built without the verif tag, on lo and on a non-existent interface, with exact descriptor accounting."
                 " On the regenerated code (C19Code): the six socket-opening functions themselves — catchARPReply, sendARPPing, server.Run, sendUnicast, sendMessage/sendSocket, "
                 "catchReply — translated from the source on every run with their closes kept (explicit Close, defer Close, and the closer-goroutine idiom bound to a context the "
                 "function cancels on return become the environment operation SockClose after the rest of the body), run in a world that counts constructions and closes and lets "
                 "the outside do anything (constructor fails, any read/write fails, any wait ends either way, any number of rounds): whenever the call returns, opened = closed and "
                 "at most one socket was opened; sendSocket hands out exactly one open socket iff it reports no error.",
        "props": ["C19", "C19Code"],
        "streams": [{"test": "TestResFaults", "names": ["resfaults"], "timeout": 300}, {"test": "TestHookShutdown", "names": ["hook"], "timeout": 120},
                    {"test": "TestRsocksReal", "names": ["rsocksreal"], "timeout": 120}],
        "rule": "functions {arpping.Ping, dclient.sendMessage (broadcast and the unicast renewal path), dclient.catchReply, server.Run+handlers, the hook runner with three real scripts incl. SIGTERM-ignoring ones} x answers x {no fault, n-th socket creation fails "
                "(n=1..6), n-th write fails (1..3), n-th read fails (1..3), cancel at 0/1/49/50/199/200/201/650/700/1500 ms}; thorough adds fault x "
                "cancel pairs and 1500 random triples; non-trivial = at least one socket was opened; real lib/rsocks: 5 constructors x {lo, interface index that does "
                "not exist (bind fails after socket(2))} x hardware-address lengths {0,1,6,7,8,9,16,20,255}, 8 repetitions each, GC off, /proc/self/fd counted",
        "trusted": ["vnet socket fakes count opens/closes per kind; runtime.NumGoroutine inside a synctest bubble",
                    "factgen's discipline classifier (syntactic shape of open / defer Close / closer goroutine per function) and constructor classifier "
                    "(syscall.Close(fd) before each error return after syscall.Socket)",
                    "the kernel's AF_PACKET bind failing with ENODEV for an interface index that does not exist (the only set-up failure the probe can provoke)"],
        "partial": "Partial: the runtime poller, timer leaks (time.After) and goroutine scheduling are not exhibited; in the translation a closer goroutine is "
                   "represented by the close it performs when the function returns (its early close on cancellation of the parent context shows as a failing read), "
                   "and a Go panic skips the close where Go would still run deferred calls (C10: the functions do not panic).",
        "technique": "Lean 4 theorems over the six socket-opening functions as translated from the Go source on every run (C19Code) and over discipline skeletons + source facts regenerated per run + fault enumeration of the real functions",
    },
    "C20": {
        "level": "For any number of writers, any scheduler, a failure at any step and kills anywhere, the target is always the complete previous file or one "
                 "writer's complete buffer with mode 0644 (reader_sees_whole_file); a failing update removes its temp file and leaves the previous file "
                 "(failed_update_*) — Lean theorems over the file-system machine; the call sequence of update() is extracted from the source on every run "
                 "(Expect.c20_update_call_sequence); the real psa-dhcpc -syshook binary is run in a chroot under strace with an error injected at, and "
                 "a SIGKILL delivered on entry to, each file-system call, and as 4-8 concurrent writers (some killed) with a polling reader."
                 " resolvconf.update as translated from the source on every run (named result and deferred clean-up closure inlined at every return), interpreted on the abstract file system, makes exactly the calls of the model writer — order, arguments (0644, /etc/resolv.conf), Remove on every error path after the temp file exists and only then — for every placement of failures and short writes (C20Code).",
        "props": ["C20", "C20Code"],
        "streams": [{"test": "TestFsAtomic", "names": ["fsatomic"], "timeout": 900}],
        "rule": "steps {create, write, close, chmod, rename} x {error injected, SIGKILL on entry} x {previous file present, absent} x name-server lists; "
                "concurrent rounds of 4-8 real writers with 25% killed at a random instant and a reader polling the target; non-trivial = every case",
        "trusted": ["rename(2) atomicity, O_EXCL uniqueness of temp names (kernel)", "strace 6.1 fault injection; chroot(2) as root",
                    "the dry-run trace locates each step's system call (n-th occurrence)"],
        "partial": "Partial: durability across power loss (no fsync is claimed) and other file systems' rename are not exhibited; short writes are not "
                   "injectable with strace (Go retries them) and are covered by the model only.",
        "technique": "Lean 4 theorems over a file-system machine + extracted call sequence + syscall fault/kill enumeration on the real binary",
    },
    "C12": {
        "level": "DHCP codec: decode(assemble m) = m for every representable message, acceptance of arbitrary bytes iff the RFC 2131 layout + RFC 2132 "
                 "option-area grammar, typed accessors exact, no out-of-range access — Lean theorems over all byte strings/messages; tied to the Go "
                 "code by byte-exact differential correspondence (exhaustive short option areas, structured, mutated, random) with an independent RFC "
                 "parser as monitor."
                 " The same for the CODE as translated from lib/dhcpmsg/*.go on every run (C12Code: Gen.Decode/Assemble/DecodeOptions/typed accessors/option constructors = the models; code_decode_iff_grammar, code_decode_never_panics).",
        "props": ["C12", "C12Code"],
        "streams": [{"test": "TestDhcp", "names": ["dhcp"], "timeout": 300}],
        "rule": "exhaustive option areas (length<=5 quick / <=7 thorough over {0,1,2,3,53,254,255}) appended to a fixed header, random structured "
                "messages through Assemble and Decode, structure-aware mutations of valid frames, random bytes; a case is distinct by its "
                "operation line and non-trivial when it decodes successfully or is an assemble case",
        "trusted": ["Modelled, not verified: Go slices/copy semantics as in Model/Bytes.lean; net.IP as Option Ip4 (nil vs 4-byte)",
                    "hash/crc32 (re-implemented bitwise in the model, compared on every client-identifier case)"],
        "assumptions": ["addresses are 4-byte values in the model; Go's nil address encodes as 0.0.0.0"],
    },
    "C13": {
        "level": "IPv4/UDP/ARP: header and UDP checksums verify for every payload up to the datagram maximum (uint32 accumulator proved not to wrap), "
                 "length fields, decode∘assemble, decoder strictness and absence of out-of-range accesses — Lean theorems; byte-exact correspondence "
                 "with the Go codecs and an independent RFC 1071/768 monitor."
                 " The same clauses are proved for the CODE as translated from lib/layer/*.go on every run (C13Code: Gen.f = model f for ipv4csum, setV4Checksum, udp4csum, pseudohdrcsum, the three Assemble and three Decode functions; code_ip_checksum_verifies, code_udp_checksum_verifies, code_decoder_strict_ip/udp, code_decoders_never_panic).",
        "props": ["C13", "C13Code"],
        "streams": [{"test": "TestWire", "names": ["wire"], "timeout": 300}, {"test": "TestCliTmpl", "names": ["clitmpl"], "timeout": 600}],
        "rule": "UDP-in-IPv4 assembly over payload lengths {0..64, 1471..1473, 65505..65507, beyond the maximum} x byte patterns "
                "(zeros, 0xff, alternating, random) x address forms, decoders on mutated valid frames and random bytes, ARP round trips; "
                "non-trivial = assemble case or accepted decode",
        "trusted": ["Modelled, not verified: Go slices/copy semantics; the uint32 accumulator is explicit (% 2^32) in the model"],
        "assumptions": ["payload + 28 <= 65535 for the checksum/length theorems (beyond that the model mirrors Go's uint16 truncation and is only compared)"],
    },
}

# Properties not claimed, with the reason (kept current; see DESIGN.md §11).
NOT_APPLICABLE = {}
