import argparse, fcntl, hashlib, json, os, re, resource, shutil, subprocess, sys, time

V = os.environ.get("VERIF_HOME", "/verif")     # a copy of /verif can be checked in place (long sweeps beside ongoing work)
B = os.path.join(V, ".build")
LEAN = os.path.join(V, "lean")
REPO = os.environ.get("VERIF_REPO", "/repo")   # the registered commands always use /repo itself
GOENV = dict(os.environ, GOFLAGS="-mod=mod", GOPROXY="off", GOSUMDB="off", GOTOOLCHAIN="local",
             CGO_ENABLED="0")
ALLOWED_AXIOMS = {"propext", "Classical.choice", "Quot.sound"}
FORBIDDEN = re.compile(r"sorry|\badmit\b|^axiom |native_decide|bv_decide|implemented_by|unsafe |maxHeartbeats 0", re.M)

from props import PROPS, TRUSTED_COMMON


def _limit():
    # a runaway implementation (e.g. rand.Perm(2^32)) must not take the machine down
    resource.setrlimit(resource.RLIMIT_AS, (24 << 30, 24 << 30))


def sh(cmd, cwd=None, env=None, timeout=None, inp=None, limit=False):
    p = subprocess.run(cmd, cwd=cwd, env=env, timeout=timeout, input=inp, stdout=subprocess.PIPE,
                       stderr=subprocess.STDOUT, text=True, shell=isinstance(cmd, str), preexec_fn=_limit if limit else None)
    return p.returncode, p.stdout


class Lock:
    def __init__(self, name):
        os.makedirs(B, exist_ok=True)
        self.f = open(os.path.join(B, name), "w")

    def __enter__(self):
        fcntl.flock(self.f, fcntl.LOCK_EX)

    def __exit__(self, *a):
        fcntl.flock(self.f, fcntl.LOCK_UN)


# ---------------------------------------------------------------- build steps

def build_factgen_and_run(log):
    rc, out = sh(["go1.26.8", "build", "-o", os.path.join(B, "factgen"), "."], cwd=os.path.join(V, "factgen"), env=GOENV)
    log.append(out)
    if rc != 0:
        return False
    gen = os.path.join(LEAN, "PsaDhcp", "Generated")
    os.makedirs(gen, exist_ok=True)
    rc, out = sh([os.path.join(B, "factgen"), REPO, os.path.join(gen, "Facts.lean")])
    log.append(out)
    if rc != 0:
        return False
    # the translator: Go source of the codec core -> Generated/Code.lean (rewritten only when it changes)
    x = os.path.join(V, "xlate")
    rc, out = sh(["go1.26.8", "build", "-o", os.path.join(B, "xlate"), "."], cwd=x, env=GOENV)
    log.append(out)
    if rc != 0:
        return False
    rc, out = sh([os.path.join(B, "xlate"), REPO, os.path.join(gen, "Code.lean"), os.path.join(x, "hints.json")], env=GOENV, timeout=600)
    log.append(out)
    return rc == 0


_closure_cache = {}


def import_closure(mod):
    """Project-local modules (as PsaDhcp/... .lean paths) that `mod` imports, transitively."""
    if mod in _closure_cache:
        return _closure_cache[mod]
    _closure_cache[mod] = set()
    path = os.path.join(LEAN, mod.replace(".", "/") + ".lean")
    res = {mod.replace(".", "/") + ".lean"}
    if os.path.exists(path):
        for m in re.findall(r"^import (PsaDhcp\.[\w.]+)", open(path).read(), re.M):
            res |= import_closure(m)
    _closure_cache[mod] = res
    return res


def strip_comments(src):
    src = re.sub(r"/-.*?-/", "", src, flags=re.S)
    return re.sub(r"--.*", "", src)


def theorem_spans(path):
    """[(name, first_line, last_line)] of theorems in a Lean file."""
    lines = open(path).read().split("\n")
    starts = [(i + 1, m.group(1)) for i, l in enumerate(lines) for m in [re.match(r"\s*theorem\s+([\w'.]+)", l)] if m]
    spans = []
    for k, (ln, name) in enumerate(starts):
        end = starts[k + 1][0] - 1 if k + 1 < len(starts) else len(lines)
        spans.append((name, ln, end))
    return spans


def lean_obligations(pid, log):
    """Build Expect + the property's Props modules; return (obligations, failed)."""
    cfg = PROPS[pid]
    obligations, failed = [], []
    targets = ["PsaDhcp.Expect"] + ["PsaDhcp.Props." + m for m in cfg["props"]] + ["driver"]
    rc, out = sh(["lake", "build"] + targets, cwd=LEAN, timeout=3000)
    log.append(out)
    errs = re.findall(r"error: (PsaDhcp/[\w/]+\.lean):(\d+):\d+: (.*)", out)
    # expectations attributed to this property
    exp_path = os.path.join(LEAN, "PsaDhcp", "Expect.lean")
    tag = pid.lower()
    for name, a, b in theorem_spans(exp_path):
        if re.search(r"(^|_)" + tag + r"(_|$)", name):
            obligations.append("Expect." + name)
            if any(f.endswith("Expect.lean") and a <= int(l) <= b for f, l, _ in errs):
                failed.append("Expect." + name)
    for m in cfg["props"]:
        path = os.path.join(LEAN, "PsaDhcp", "Props", m + ".lean")
        file_errs = [int(l) for f, l, _ in errs if f.endswith("Props/" + m + ".lean")]
        # errors in imported Proofs/Model files break every theorem of the module
        dep_broken = rc != 0 and not errs   # the build failed in a way that names no project file: nothing is known to hold
        closure = import_closure("PsaDhcp.Props." + m)
        dep_errs = [f for f, _, _ in errs if f in closure and not f.endswith("Props/" + m + ".lean")]
        for name, a, b in theorem_spans(path):
            full = "%s.%s" % (m, name)
            obligations.append(full)
            if any(a <= l <= b for l in file_errs) or dep_errs or dep_broken:
                failed.append(full)
    driver_ok = os.path.exists(os.path.join(LEAN, ".lake/build/bin/driver"))
    # a build failure confined to expectations that belong to OTHER properties is not this property's business
    others_only = rc != 0 and bool(errs) and all(f.endswith("Expect.lean") for f, _, _ in errs) and not failed
    return obligations, failed, rc == 0, driver_ok, others_only


def axiom_audit(pid, log):
    """#print axioms on every property theorem; returns (n_checked, bad list)."""
    cfg = PROPS[pid]
    os.makedirs(os.path.join(B, "audit"), exist_ok=True)
    bad, n = [], 0
    for m in cfg["props"]:
        path = os.path.join(LEAN, "PsaDhcp", "Props", m + ".lean")
        names = [nm for nm, _, _ in theorem_spans(path)]
        af = os.path.join(B, "audit", m + ".lean")
        with open(af, "w") as f:
            f.write("import PsaDhcp.Props.%s\n" % m)
            for nm in names:
                f.write("#print axioms PsaDhcp.Props.%s.%s\n" % (m, nm))
        rc, out = sh(["lake", "env", "lean", af], cwd=LEAN, timeout=1200)
        log.append(out)
        for nm in names:
            mm = re.search(r"'PsaDhcp\.Props\.%s\.%s' (does not depend on any axioms|depends on axioms: \[([^\]]*)\])" % (m, re.escape(nm)), out)
            if not mm:
                bad.append("%s.%s: no audit output" % (m, nm))
                continue
            n += 1
            if mm.group(2):
                ax = {a.strip() for a in mm.group(2).replace("\n", " ").split(",")}
                extra = ax - ALLOWED_AXIOMS
                if extra:
                    bad.append("%s.%s: axioms %s" % (m, nm, sorted(extra)))
    # forbidden tokens anywhere in the Lean sources (comments stripped)
    for root, _, files in os.walk(LEAN):
        if ".lake" in root:
            continue
        for fn in files:
            if fn.endswith(".lean"):
                txt = strip_comments(open(os.path.join(root, fn)).read())
                mm = FORBIDDEN.search(txt)
                if mm:
                    bad.append("%s: forbidden token %r" % (os.path.relpath(os.path.join(root, fn), LEAN), mm.group(0)))
    return n, bad


def build_harness(log, race=False):
    h = os.path.join(V, "harness")
    shutil.copyfile(os.path.join(REPO, "go.sum"), os.path.join(h, "go.sum"))
    if V != "/verif":   # a copy of /verif checking a copy of the repository (sweeps, seeded changes beside ongoing work)
        gm = os.path.join(h, "go.mod")
        txt = re.sub(r"(replace git\.sr\.ht/~adrian-blx/psa-dhcp => )\S+", lambda m: m.group(1) + REPO, open(gm).read())
        open(gm, "w").write(txt)
    outb = os.path.join(B, "hx.race.test" if race else "hx.test")
    cmd = ["go1.26.8", "test", "-c", "-tags", "verif", "-o", outb, "."]
    env = dict(GOENV)
    if race:
        cmd.insert(2, "-race")
        env["CGO_ENABLED"] = "1"
    rc, out = sh(cmd, cwd=h, env=env, timeout=900)
    log.append(out)
    if rc == 0 and not race:
        # the real client binary (static), used inside a chroot by the C17/C20 streams
        rc2, out2 = sh(["go1.26.8", "build", "-o", os.path.join(B, "psa-dhcpc"), "cmd/psa-dhcpc.go"], cwd=REPO, env=GOENV, timeout=900)
        log.append(out2)
        if rc2 != 0:
            return False, out2
        # the real (non-verif) socket constructors of lib/rsocks, probed in a child process by the C19 stream `rsocksreal`
        rc3, out3 = sh(["go1.26.8", "build", "-o", os.path.join(B, "rsockprobe"), "./rsockprobe"], cwd=h, env=GOENV, timeout=900)
        log.append(out3)
        if rc3 != 0:
            return False, out3
    return rc == 0, out


# ---------------------------------------------------------------- running streams

def run_streams(pid, tier, seed, outdir, log, extra_env=None, only=None):
    cfg = PROPS[pid]
    results = []
    for st in cfg["streams"]:
        if only and st["test"] not in only:
            continue
        if st.get("tier") == "thorough" and tier != "thorough":
            continue
        env = dict(os.environ, VERIF_SEED=str(seed), VERIF_TIER=tier, HX_OUT=outdir, HX_PROP=pid, GOMAXPROCS="16", HX_BUILD=B)
        env.update(st.get("env", {}))
        if tier == "thorough":
            env.update(st.get("env_thorough", {}))
        if extra_env:
            env.update(extra_env)
        binary = os.path.join(B, "hx.race.test" if st.get("race") else "hx.test")
        tmo = min(st.get("timeout", 300), 300) * (8 if tier == "thorough" else 1)
        t0 = time.time()
        try:
            rc, out = sh([binary, "-test.run", "^%s$" % st["test"], "-test.timeout", "%ds" % tmo, "-test.v"], cwd=outdir, env=env, timeout=tmo + 60, limit=True)
        except subprocess.TimeoutExpired:
            rc, out = 124, "TIMEOUT"
        log.append(out[-20000:])
        results.append({"test": st["test"], "rc": rc, "wall": time.time() - t0, "names": st["names"], "tail": out[-3000:], "full": out[:200000],
                        "race": bool(st.get("race")), "n": env.get("HX_N")})
    return results


def st_is_race(r):
    return bool(r.get("race"))


def run_driver(outdir, name):
    ops, impl, model = [os.path.join(outdir, name + e) for e in (".ops", ".impl", ".model")]
    if not os.path.exists(ops):
        return None
    with open(ops) as fi, open(model, "w") as fo:
        p = subprocess.run([os.path.join(LEAN, ".lake/build/bin/driver")], stdin=fi, stdout=fo, stderr=subprocess.PIPE, timeout=3000)
    div, n, amb, skipping, skipped = [], 0, 0, False, 0
    with open(ops) as fo, open(impl) as fi, open(model) as fm:
        for lo, li, lm in zip(fo, fi, fm):
            n += 1
            if lo.startswith(("cfg ", "db.new", "cl.reset")):
                skipping = False
            if lm.startswith("AMBIGUOUS"):
                amb += 1      # the model cannot decide (documented boundary cases); counted, never silently dropped
                skipping = True   # the rest of this script is not comparable (model state unknown)
                continue
            if skipping:
                skipped += 1
                continue
            if li != lm and len(div) < 20:
                div.append({"line": n, "op": lo.strip()[:2000], "impl": li.strip()[:2000], "model": lm.strip()[:2000]})
        nops = n + sum(1 for _ in fo)
    nmodel = sum(1 for _ in open(model))
    if nmodel != nops:
        div.append({"line": nmodel + 1, "op": "(driver stopped early: %d of %d answers) %s" % (nmodel, nops, p.stderr.decode()[-300:]), "impl": "", "model": ""})
    return {"stream": name, "ops": nops, "divergences": div, "ambiguous": amb, "skipped_after_ambiguous": skipped}


# ---------------------------------------------------------------- known findings, replays

def load_known():
    p = os.path.join(V, "known_findings.json")
    if not os.path.exists(p):
        return []
    return json.load(open(p)).get("findings", [])


def write_replay(pid, kind, body):
    os.makedirs(os.path.join(V, "replays"), exist_ok=True)
    body = dict(body, property=pid, kind=kind)
    h = hashlib.sha256(json.dumps(body, sort_keys=True).encode()).hexdigest()[:12]
    path = os.path.join(V, "replays", "%s-%s.json" % (pid, h))
    json.dump(body, open(path, "w"), indent=1)
    return path


# ---------------------------------------------------------------- main

def main(argv):
    ap = argparse.ArgumentParser()
    ap.add_argument("pid")
    ap.add_argument("--tier", default=os.environ.get("VERIF_TIER", "quick"))
    ap.add_argument("--replay")
    a = ap.parse_args(argv)
    pid, tier = a.pid, a.tier
    if pid not in PROPS:
        print("unknown property", pid)
        return 2
    seed = int(os.environ.get("VERIF_SEED", "0") or 0)
    t0 = time.time()
    log = []
    cfg = PROPS[pid]
    outdir = os.path.join(B, "out", "%s-%s-%d" % (pid, tier, os.getpid()))
    shutil.rmtree(outdir, ignore_errors=True)
    os.makedirs(outdir)
    os.makedirs(os.path.join(V, "evidence"), exist_ok=True)

    with Lock("build.lock"):
        facts_ok = build_factgen_and_run(log)
        obligations, failed, lean_ok, driver_ok, others_only = lean_obligations(pid, log)
        n_audit, audit_bad = axiom_audit(pid, log) if (lean_ok or others_only) else (0, ["lean build failed; audit skipped"])
        need_race = any(s.get("race") for s in cfg["streams"] if tier == "thorough" or s.get("tier") != "thorough")
        h_ok, h_out = build_harness(log)
        if h_ok and need_race:
            build_harness(log, race=True)
    if tier == "thorough" and lean_ok:
        for m in cfg["props"]:
            rc, out = sh(["lake", "env", "leanchecker", "PsaDhcp.Props." + m], cwd=LEAN, timeout=3000)
            log.append(out)
            if rc != 0:
                audit_bad.append("leanchecker rejected PsaDhcp.Props.%s: %s" % (m, out[-300:]))

    if a.replay:
        return replay(pid, a.replay, outdir, log)

    broken = []          # proof obligations / correspondence that no longer check
    if not facts_ok:
        broken.append("factgen failed on the current tree")
    broken += ["obligation " + f for f in failed]
    if not lean_ok and not failed and not others_only:
        broken.append("lake build failed (see log)")
    broken += ["audit: " + b for b in audit_bad if (lean_ok or others_only)]
    if not h_ok:
        broken.append("harness does not build against the current tree: " + h_out[-400:])

    stream_results, corr, findings, stats_all = [], [], [], []
    if h_ok:
        stream_results = run_streams(pid, tier, seed, outdir, log)
        for r in stream_results:
            if r["rc"] != 0:
                broken.append("stream %s exited %d: %s" % (r["test"], r["rc"], r["tail"][-600:]))
                if st_is_race(r) and "WARNING: DATA RACE" in r["full"] and pid == "C09":
                    blk = r["full"][r["full"].index("WARNING: DATA RACE"):][:3000]
                    findings.append({"property": pid, "signature": "data-race:" + hashlib.sha256("\n".join(l for l in blk.split("\n") if "psa-dhcp/lib" in l)[:400].encode()).hexdigest()[:10],
                                     "stream": r["names"][0], "what": "the race detector reports a data race between handler goroutines / database calls",
                                     "ops": ["go1.26.8 test -race -tags verif -run %s (HX_N=%s, VERIF_SEED=%d)" % (r["test"], r.get("n", "?"), seed)], "observed": blk})
                if pid in ("C09", "C01") and re.search(r"fatal error: concurrent map (writes|read and map write|iteration and map write)", r["full"] + r["tail"]):
                    findings.append({"property": pid, "signature": "concurrent-map-access", "stream": r["names"][0],
                                     "what": "concurrent lease-database calls corrupted the table (the Go runtime aborted the process: concurrent map access)",
                                     "ops": ["go1.26.8 test -tags verif -run %s (VERIF_SEED=%d): concurrent LookupClientByDuid / UpdateClient on expired bindings" % (r["test"], seed)],
                                     "observed": (re.search(r"fatal error: concurrent map[^\n]*", r["full"] + r["tail"]) or [""])[0]})
                # a daemon that panics takes the test process down: the history that was being extended is on disk
                m = re.search(r"^(panic: .*|fatal error: .*)$", r["tail"], re.M)
                for nm in r["names"]:
                    pp = os.path.join(outdir, nm + ".pending")
                    if m and os.path.exists(pp) and "C10" in (pid,):
                        lines = open(pp).read().split("\n")
                        findings.append({"property": pid, "signature": "crash:" + m.group(1)[:60], "stream": nm, "config": lines[0] if lines else "",
                                         "what": "the daemon crashed while handling the last frame of this history: " + m.group(1)[:200],
                                         "ops": lines[1:], "observed": m.group(1)[:300]})
            for nm in r["names"]:
                sp = os.path.join(outdir, nm + ".stats.json")
                if os.path.exists(sp):
                    st = json.load(open(sp))
                    stats_all.append(st)
                    findings += [f for f in (st.get("findings") or []) if f["property"] == pid]
                if driver_ok:
                    c = run_driver(outdir, nm)
                    if c:
                        corr.append(c)
                        for d in c["divergences"]:
                            broken.append("correspondence %s line %d: op=%s impl=%s model=%s" % (nm, d["line"], d["op"][:300], d["impl"][:200], d["model"][:200]))

    # targeted search when something broke but the monitors are silent
    timed_out = any(r["rc"] == 124 for r in stream_results)
    if broken and not findings and h_ok and not timed_out:
        budget = 600 if tier == "thorough" else 60
        ts = time.time()
        k = 1
        while time.time() - ts < budget and not findings:
            sd = os.path.join(outdir, "search%d" % k)
            os.makedirs(sd, exist_ok=True)
            rs = run_streams(pid, tier, seed + 7919 * k, sd, log, extra_env={"HX_SEARCH": "1"})
            for r in rs:
                for nm in r["names"]:
                    sp = os.path.join(sd, nm + ".stats.json")
                    if os.path.exists(sp):
                        findings += [f for f in (json.load(open(sp)).get("findings") or []) if f["property"] == pid]
            k += 1

    known = [k for k in load_known() if k.get("property") == pid and k.get("status") == "known"]
    new_findings = []
    for f in findings:
        if any(k["signature"] == f["signature"] for k in known):
            print("KNOWN-FINDING: property=%s %s" % (pid, f["what"]))
        else:
            new_findings.append(f)

    violations = 0
    lines = []
    for f in new_findings[:5]:
        path = write_replay(pid, "failing-input", {"stream": f.get("stream", ""), "seed": seed, "config": f.get("config", ""), "ops": f["ops"],
                                                   "expected": f.get("expected", ""), "observed": f.get("observed", ""), "note": f["what"],
                                                   "signature": f["signature"], "broken": broken[:10],
                                                   "shrunk_from": f.get("shrunk_from", 0)})
        lines.append("VIOLATION property=%s replay=%s" % (pid, path))
        violations += 1
    if broken and not new_findings:
        path = write_replay(pid, "unchecked-obligation", {"seed": seed, "theorem_or_correspondence": broken[:20], "ops": [],
                                                          "note": "proof obligation / correspondence no longer checks; targeted search found no failing input"})
        lines.append("VIOLATION property=%s replay=%s no-failing-input-found" % (pid, path))
        violations += 1

    # ---- evidence
    evals = sum(s["evaluations"] for s in stats_all)
    dn = sum(s["distinct_nontrivial"] for s in stats_all)
    samples = []
    for s in stats_all:
        samples += (s.get("samples") or [])[:4]
    samples += ["theorem " + o for o in obligations[:6]]
    ev = {
        "property_id": pid, "tier": tier, "seed": seed, "level": "proof",
        "coverage": {
            "obligations": len(obligations), "discharged": len(obligations) - len(failed) if (lean_ok or failed or others_only) else 0,
            "checker_cmd": "cd /verif/lean && lake build PsaDhcp.Expect " + " ".join("PsaDhcp.Props." + m for m in cfg["props"]) +
                           " && lake env lean <generated #print axioms file>" + (" && lake env leanchecker" if tier == "thorough" else ""),
            "trusted_base": TRUSTED_COMMON + cfg.get("trusted", []),
            "theorems": obligations, "failed_obligations": failed, "axiom_audit": {"theorems_audited": n_audit, "problems": audit_bad},
            "evaluations": evals, "distinct_nontrivial": dn,
            "rule": cfg.get("rule", ""),
            "traces_validated_against_impl": sum(c["ops"] for c in corr),
            "correspondence": [{"stream": c["stream"], "ops": c["ops"], "divergences": len(c["divergences"]), "ambiguous": c.get("ambiguous", 0), "skipped_after_ambiguous": c.get("skipped_after_ambiguous", 0)} for c in corr],
            "input_distribution": {s["stream"]: s["dist"] for s in stats_all},
            "samples": samples[:16] or ["(no cases ran)"],
            "monitor_findings": len(findings), "known_findings_matched": len(findings) - len(new_findings),
            "partial": cfg.get("partial", ""),
        },
        "assumptions": cfg.get("assumptions", []),
        "wall_s": round(time.time() - t0, 2), "violations": violations,
    }
    json.dump(ev, open(os.path.join(V, "evidence", pid + ".json"), "w"), indent=1)
    open(os.path.join(B, "last-%s.log" % pid), "w").write("\n".join(log))
    for l in lines:
        print(l)
    print("%s %s: obligations %d/%d, correspondence ops %d, monitor cases %d, %.1fs -> %s" % (
        pid, tier, ev["coverage"]["discharged"], len(obligations), ev["coverage"]["traces_validated_against_impl"], evals,
        time.time() - t0, "VIOLATION" if violations else "ok"))
    if not os.environ.get("VERIF_KEEP"):
        shutil.rmtree(outdir, ignore_errors=True)   # replays are self-contained; scratch output is never needed afterwards
    return 1 if violations else 0


def replay(pid, path, outdir, log):
    rp = json.load(open(path))
    print("replay %s kind=%s note=%s" % (path, rp.get("kind"), rp.get("note", "")))
    if rp.get("kind") != "failing-input":
        for b in rp.get("theorem_or_correspondence", []):
            print("  no longer checks:", b)
        return 0
    env = dict(os.environ, HX_OUT=outdir, HX_REPLAY=os.path.abspath(path), HX_PROP=pid)
    rc, out = sh([os.path.join(B, "hx.test"), "-test.run", "^TestReplay$", "-test.v"], cwd=outdir, env=env, timeout=600)
    print(out[-6000:])
    c = run_driver(outdir, "replay")
    if c:
        print("model vs implementation on the replayed ops: %d ops, %d divergences" % (c["ops"], len(c["divergences"])))
        for d in c["divergences"]:
            print("  line %d: op=%s\n    impl =%s\n    model=%s" % (d["line"], d["op"], d["impl"], d["model"]))
    sp = os.path.join(outdir, "replay.stats.json")
    if os.path.exists(sp):
        fs = [f for f in json.load(open(sp)).get("findings", [])]
        for f in fs:
            print("monitor: property=%s %s" % (f["property"], f["what"]))
        return 1 if fs else 0
    return 0
