#!/usr/bin/env python3
"""stmtcmp.py <statements.lean> <proved.lean>: every theorem statement of the first file (up to its `:=`)
must occur verbatim (whitespace-normalised) in the second."""
import re, sys
def stmts(path):
    src = open(path).read()
    out = {}
    for m in re.finditer(r"^theorem\s+([\w'.]+)(.*?):=", src, re.S | re.M):
        out[m.group(1)] = re.sub(r"\s+", " ", m.group(2)).strip()
    return out
a, b = stmts(sys.argv[1]), stmts(sys.argv[2])
bad = [n for n in a if b.get(n) != a[n]]
print("statements compared:", len(a), "mismatches:", bad)
sys.exit(1 if bad else 0)
