#!/usr/bin/env python3
"""seedeval.py <dir-with-patch.diff> [<seed-id>]
Confirms a seeded change in a scratch worktree (applies, existing suite passes, demonstration fails with it
and passes without it), then applies it to /repo, runs the quick check(s) of the property it targets (and of
any extra property ids given in $EXTRA), undoes it, and stores everything under /verif/seeded/<id>/."""
import json, os, re, shutil, subprocess, sys, glob, time
src = os.path.abspath(sys.argv[1].rstrip("/"))
sid = sys.argv[2] if len(sys.argv) > 2 else os.path.basename(src)
W = "/tmp/mut/wconf"
ENV = dict(os.environ, GOFLAGS="-mod=mod", GOPROXY="off", GOSUMDB="off")
def sh(cmd, cwd=None, timeout=1800):
    p = subprocess.run(cmd, cwd=cwd, shell=True, env=ENV, stdout=subprocess.PIPE, stderr=subprocess.STDOUT, text=True, timeout=timeout)
    return p.returncode, p.stdout
meta = json.load(open(os.path.join(src, "meta.json")))
pid = meta["property"]
patch = os.path.join(src, "patch.diff")
demos = [f for f in os.listdir(src) if f.endswith("_test.go") or f.endswith(".go")]
demo_txt = open(os.path.join(src, "demo.txt")).read() if os.path.exists(os.path.join(src, "demo.txt")) else ""
# where does the demo go? look for a lib/... path in demo.txt or meta
def demo_dir(fn):
    m = re.search(r"(lib/[\w/]+)/" + re.escape(fn), demo_txt)
    if m: return m.group(1)
    m = re.search(r"(lib/[\w/]+)", demo_txt)
    return m.group(1) if m else None
res = {"id": sid, "property": pid, "summary": meta.get("summary"), "needs_to_manifest": meta.get("needs_to_manifest"), "files_changed": meta.get("files_changed")}
sh("git checkout -- . && git clean -fdq", W)
rc, out = sh("git apply --check %s" % patch, W); res["applies"] = rc == 0
placed = []
for d in demos:
    dd = demo_dir(d)
    if dd and os.path.isdir(os.path.join(W, dd)):
        shutil.copy(os.path.join(src, d), os.path.join(W, dd, d)); placed.append((dd, d))
res["demo_placed"] = placed
pk = sorted({"./" + dd for dd, _ in placed})
run = "go test -vet=off -count=1 -run 'Seeded|seeded|Zz|ZZ|Demo' %s" % " ".join(pk) if pk else "true"
# without the change: demo passes
rc, out = sh("go test -vet=off -count=1 %s" % " ".join(pk), W) if pk else (1, "no demo placed")
res["demo_passes_without"] = rc == 0
sh("git apply %s" % patch, W)
rc, out = sh("go test -vet=off -count=1 %s" % " ".join(pk), W) if pk else (0, "")
res["demo_fails_with"] = rc != 0
res["demo_output_with"] = out[-1500:]
# existing suite with the change (demo files removed)
for dd, d in placed: os.remove(os.path.join(W, dd, d))
rc, out = sh("go build ./lib/... && go test -vet=off -count=1 ./lib/...", W); res["existing_suite_passes_with"] = rc == 0
sh("git checkout -- . && git clean -fdq", W)
# run our checks against it
props = [pid] + [p for p in os.environ.get("EXTRA", "").split(",") if p]
res["checks"] = {}
st = subprocess.run("git -C /repo status --short", shell=True, capture_output=True, text=True).stdout.strip()
assert st == "", "repo not clean: " + st
try:
    subprocess.check_call("git -C /repo apply %s" % patch, shell=True)
    for p in props:
        t0 = time.time()
        rc, out = sh("./check %s --tier quick" % p, "/verif", timeout=3600)
        lines = [l for l in out.split("\n") if l.startswith("VIOLATION") or l.startswith("KNOWN") or " quick: " in l]
        res["checks"][p] = {"exit": rc, "lines": lines[:6], "wall_s": round(time.time() - t0, 1)}
        for l in lines:
            m = re.search(r"replay=(\S+)", l)
            if m and os.path.exists(m.group(1)):
                rp = json.load(open(m.group(1)))
                res["checks"][p].setdefault("replays", []).append({"kind": rp.get("kind"), "note": (rp.get("note") or "")[:300],
                    "first_op": ((rp.get("ops") or [""])[-1])[:200], "broken": [b[:200] for b in (rp.get("broken") or rp.get("theorem_or_correspondence") or [])[:4]]})
finally:
    subprocess.call("git -C /repo checkout -- . && git -C /repo clean -fdq lib", shell=True)
    # the evidence files describe the unchanged tree only: a run against a seeded change must not leave its record behind
    subprocess.call("git -C /verif checkout -- evidence", shell=True)
dst = os.path.join("/verif/seeded", sid)
os.makedirs(dst, exist_ok=True)
for f in ([] if os.path.abspath(src) == os.path.abspath(dst) else os.listdir(src)):
    shutil.copy(os.path.join(src, f), os.path.join(dst, f))
meta.update({"confirmed": {k: res[k] for k in ("applies", "demo_passes_without", "demo_fails_with", "existing_suite_passes_with")},
             "what_we_ran": "tools/seedeval.py: scratch worktree confirmation, then git -C /repo apply; ./check <id> --tier quick; git checkout",
             "check_results": res["checks"]})
json.dump(meta, open(os.path.join(dst, "meta.json"), "w"), indent=1)
print(json.dumps(res, indent=1)[:3000])
