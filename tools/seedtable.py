#!/usr/bin/env python3
"""Rewrites the table of seeded changes in DESIGN.md (between the SEEDS markers) from seeded/*/meta.json."""
import json, glob, os, re
rows = []
for f in sorted(glob.glob('/verif/seeded/*/meta.json')):
    m = json.load(open(f)); sid = os.path.basename(os.path.dirname(f))
    c = m.get('confirmed', {})
    conf = all(c.get(k) for k in ('applies', 'demo_passes_without', 'demo_fails_with', 'existing_suite_passes_with'))
    res = []
    for p, r in (m.get('check_results') or {}).items():
        kinds = [x['kind'] for x in r.get('replays', [])]
        if r['exit'] == 0:
            res.append('%s: **missed**' % p)
        elif 'failing-input' in kinds:
            note = next((x['note'] for x in r['replays'] if x['kind'] == 'failing-input'), '')
            res.append('%s: failing input — %s' % (p, note[:90]))
        else:
            br = next((b for x in r['replays'] for b in x.get('broken', [])), '')
            res.append('%s: no-failing-input-found (%s)' % (p, br[:70]))
    rows.append('| %s | %s | %s | %s | %s |' % (sid, m['property'], (m.get('summary') or '').replace('|', '/').replace('\n', ' ')[:150],
                                           'yes' if conf else 'NO', '; '.join(res).replace('|', '/')))
tbl = '| id | property | change | confirmed | ./check --tier quick |\n|---|---|---|---|---|\n' + '\n'.join(rows)
p = '/verif/DESIGN.md'
s = open(p).read()
a, b = '<!-- SEEDS-BEGIN -->', '<!-- SEEDS-END -->'
if a in s:
    s = s[:s.index(a) + len(a)] + '\n' + tbl + '\n' + s[s.index(b):]
    open(p, 'w').write(s)
print(len(rows), 'seeds;', sum('missed' in r for r in rows), 'missed')
